/-
  C17 — insertion-ordered digraph, mirroring the order semantics of
  networkx 3.6.1 `DiGraph` as used by `pharmpy.workflows.workflow`.

  networkx keeps three dicts `_node`, `_succ`, `_pred`; every observable order
  (node iteration, `successors`, `predecessors`, `edges`) is the insertion
  order of one of them.  All three are filled along ONE timeline (an edge
  `(u,v)` enters `_succ[u]` and `_pred[v]` at the same moment, deleting never
  reorders), so one global edge list in insertion order determines them all:

      successors(u)   = [v | (u',v) ∈ edges, u' = u]
      predecessors(v) = [u | (u,v') ∈ edges, v' = v]

  Nodes are natural numbers (the harness numbers the `Task` objects; `Task`
  has identity equality/hash).
-/
namespace Pharmpy.C17

structure DiGraph where
  nodes : List Nat
  edges : List (Nat × Nat)
  deriving Repr, DecidableEq, Inhabited

namespace DiGraph

def empty : DiGraph := ⟨[], []⟩

/-- `list(G.successors(u))` -/
def succOf (g : DiGraph) (u : Nat) : List Nat :=
  (g.edges.filter (fun e => e.1 == u)).map (·.2)

/-- `list(G.predecessors(v))` -/
def predOf (g : DiGraph) (v : Nat) : List Nat :=
  (g.edges.filter (fun e => e.2 == v)).map (·.1)

/-- `G.add_node(n)`: a new node goes to the end; an existing node keeps its place. -/
def addNode (g : DiGraph) (n : Nat) : DiGraph :=
  if n ∈ g.nodes then g else { g with nodes := g.nodes ++ [n] }

/-- `G.add_edge(u, v)`: missing end points are added (u first), an existing
    edge keeps its place in both adjacency dicts. -/
def addEdge (g : DiGraph) (u v : Nat) : DiGraph :=
  let g := (g.addNode u).addNode v
  if (u, v) ∈ g.edges then g else { g with edges := g.edges ++ [(u, v)] }

/-- `G.add_edges_from(es)` -/
def addEdgesFrom (g : DiGraph) (es : List (Nat × Nat)) : DiGraph :=
  es.foldl (fun g e => g.addEdge e.1 e.2) g

/-- `G.add_nodes_from(ns)` -/
def addNodesFrom (g : DiGraph) (ns : List Nat) : DiGraph :=
  ns.foldl addNode g

/-- `G.remove_node(n)`: the node and its incident edges disappear, nothing else moves. -/
def removeNode (g : DiGraph) (n : Nat) : DiGraph :=
  { nodes := g.nodes.filter (fun x => x != n),
    edges := g.edges.filter (fun e => e.1 != n && e.2 != n) }

/-- `list(G.edges)`: for u in node order, for v in successors(u). -/
def edgeList (g : DiGraph) : List (Nat × Nat) :=
  g.nodes.flatMap (fun u => (g.succOf u).map (fun v => (u, v)))

/-- `G.copy()`: `add_nodes_from(G)` then `add_edges_from(G.edges)`.  The copy
    has the same nodes, the same successor orders, but every predecessor list
    is re-created in *node order*. -/
def copy (g : DiGraph) : DiGraph :=
  { nodes := g.nodes, edges := g.edgeList }

/-- The same, literally as networkx does it (equal to `copy` on well-formed graphs;
    the driver reports both). -/
def copyLiteral (g : DiGraph) : DiGraph :=
  (empty.addNodesFrom g.nodes).addEdgesFrom g.edgeList

/-- `nx.compose(G, H)` = `compose_all([G, H])`: nodes of G, edges of G, nodes of H, edges of H. -/
def compose (g h : DiGraph) : DiGraph :=
  (((empty.addNodesFrom g.nodes).addEdgesFrom g.edgeList).addNodesFrom h.nodes).addEdgesFrom h.edgeList

/-- `nx.relabel_nodes(G, {old: new}, copy=False)` for a one-entry mapping.
    * `old` not in G: nothing happens;
    * `new == old`: nothing happens;
    * otherwise `new` is added (at the end if it is new), the out-edges of `old`
      (successor order) then its in-edges (predecessor order) are collected with
      `old` replaced by `new`, `old` is removed, and the collected edges are
      re-added — so they move to the END of the adjacency orders. -/
def relabel1 (g : DiGraph) (old new : Nat) : DiGraph :=
  if old ∉ g.nodes then g
  else if new == old then g
  else
    let g1 := g.addNode new
    let outE := (g1.succOf old).map (fun t => (new, if t == old then new else t))
    let inE := (g1.predOf old).map (fun s => (if s == old then new else s, new))
    (g1.removeNode old).addEdgesFrom (outE ++ inE)

/-- `[n for n in G.nodes if G.in_degree(n) == 0]` -/
def inputNodes (g : DiGraph) : List Nat := g.nodes.filter (fun n => (g.predOf n).isEmpty)
/-- `[n for n in G.nodes if G.out_degree(n) == 0]` -/
def outputNodes (g : DiGraph) : List Nat := g.nodes.filter (fun n => (g.succOf n).isEmpty)

/-- Well-formedness kept by every operation: no repeated node, no repeated
    edge, every edge joins nodes of the graph. -/
structure WF (g : DiGraph) : Prop where
  nodupNodes : g.nodes.Nodup
  nodupEdges : g.edges.Nodup
  closed : ∀ e ∈ g.edges, e.1 ∈ g.nodes ∧ e.2 ∈ g.nodes

instance (g : DiGraph) : Decidable (WF g) :=
  if h1 : g.nodes.Nodup then
    if h2 : g.edges.Nodup then
      if h3 : ∀ e ∈ g.edges, e.1 ∈ g.nodes ∧ e.2 ∈ g.nodes then isTrue ⟨h1, h2, h3⟩
      else isFalse (fun h => h3 h.closed)
    else isFalse (fun h => h2 h.nodupEdges)
  else isFalse (fun h => h1 h.nodupNodes)

end DiGraph
end Pharmpy.C17
