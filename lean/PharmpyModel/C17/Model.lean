import PharmpyModel.C17.Graph
/-
  C17 — executable model of
    pharmpy/workflows/workflow.py : WorkflowBuilder.add_task / replace_task /
        insert_workflow / __add__, Workflow.__init__ (copy), as_dask_dict,
        insert_context
    pharmpy/workflows/execute.py  : execute_workflow's relabel-every-task pass
    pharmpy/workflows/dispatchers/local_dask/{run,call}.py : the dict handed to dask
  Each definition mirrors the Python statement by statement.
-/
namespace Pharmpy.C17
open DiGraph

inductive Err where
  | valueError     -- insert_workflow N:M, as_dask_dict with != 1 output task
  | cycle          -- dask: RuntimeError("Cycle detected ...")
  deriving DecidableEq, Repr

/-! ### WorkflowBuilder -/

/-- `WorkflowBuilder.add_task(task, predecessors)`; a non-list predecessor is `[p]`. -/
def addTask (g : DiGraph) (t : Nat) (preds : Option (List Nat)) : DiGraph :=
  let g := g.addNode t
  match preds with
  | none => g
  | some ps => ps.foldl (fun g p => g.addEdge p t) g

/-- `wb.add_task(task, predecessors=wb.output_tasks)`: join all current output tasks. -/
def addTaskToOutputs (g : DiGraph) (t : Nat) : DiGraph := addTask g t (some g.outputNodes)

/-- `WorkflowBuilder.replace_task(task, new_task)` -/
def replaceTask (g : DiGraph) (old new : Nat) : DiGraph := g.relabel1 old new

/-- The connecting edges `insert_workflow` adds (pairs (from, to)), or refusal. -/
def connectEdges (outs ins : List Nat) : Except Err (List (Nat × Nat)) :=
  if ins.length == outs.length then .ok ((ins.zip outs).map (fun p => (p.2, p.1)))
  else match ins, outs with
    | [i], _ => .ok (outs.map (fun o => (o, i)))
    | _, [o] => .ok (ins.map (fun i => (o, i)))
    | _, _ => .error .valueError

/-- The tasks `insert_workflow` connects from: all output tasks, or the named predecessors. -/
def insertOuts (g : DiGraph) (preds : Option (List Nat)) : List Nat :=
  match preds with
  | none => g.outputNodes
  | some ps => ps

/-- `WorkflowBuilder.insert_workflow(other, predecessors)` (after fix f697869):
    the connecting edges are computed FIRST; on refusal (`ValueError`) the builder
    is untouched, otherwise `self._g = nx.compose(self._g, other._g)` followed by
    `add_edge` for every computed edge.  Returns the builder's graph afterwards. -/
def insertWorkflow (g other : DiGraph) (preds : Option (List Nat)) : DiGraph × Option Err :=
  match connectEdges (insertOuts g preds) other.inputNodes with
  | .ok es => ((g.compose other).addEdgesFrom es, none)
  | .error e => (g, some e)

/-- `WorkflowBuilder.__add__` / `Workflow.__add__` -/
def plus (g h : DiGraph) : DiGraph := g.compose h

/-! ### Tasks -/

/-- Leaves of static task inputs.  `s` is a Python `str`, `ctx` the context object
    `insert_context` prepends, `call g args` the tuple `(g, *args)` with `g` callable. -/
inductive Atom where
  | s (x : String)
  | ctx
  | call (g : Nat) (args : List String)
  deriving DecidableEq, Repr

/-- A static task input: a leaf or a Python list of leaves. -/
inductive SArg where
  | atom (a : Atom)
  | list (xs : List Atom)
  deriving DecidableEq, Repr

structure Task where
  name : Nat            -- the task's `name` (kept by `Task.replace`)
  takesCtx : Bool       -- first parameter of `function` is called `context`
  static : List SArg    -- `task_input`
  deriving DecidableEq, Repr

/-- Task table: node id ↦ task. -/
abbrev Table := List (Nat × Task)

def Table.get (tb : Table) (i : Nat) : Task :=
  match tb.find? (fun p => p.1 == i) with
  | some p => p.2
  | none => ⟨i, false, []⟩

/-! ### as_dask_dict -/

inductive Key where
  | results
  | task (id : Nat)       -- f'{task.name}-{uuid4()}' : unique, never equal to 'results'
  deriving DecidableEq, Repr

structure Entry where
  key : Key
  task : Task             -- (function, *task_input …
  preds : List Key        --   …, *ids of predecessors)
  deriving DecidableEq, Repr

def keyOf (sink t : Nat) : Key := if t == sink then .results else .task t

/-- `Workflow.as_dask_dict`.  `nx.dfs_tree(G)` without a source starts with
    `T.add_nodes_from(G)`, so the iteration order is G's node order. -/
def asDaskDict (tb : Table) (g : DiGraph) : Except Err (List Entry) :=
  match g.outputNodes with
  | [sink] => .ok (g.nodes.map (fun t =>
      { key := keyOf sink t, task := tb.get t, preds := (g.predOf t).map (keyOf sink) }))
  | _ => .error .valueError

/-! ### insert_context and execute_workflow -/

/-- State of a run of the Python code: the task table and the next fresh node id
    (a new `Task` object is a new node). -/
structure St where
  tb : Table
  next : Nat
  deriving Repr

/-- `task.replace(task_input=(context, *task.task_input))` -/
def addCtx (tk : Task) : Task := { tk with static := SArg.atom Atom.ctx :: tk.static }

/-- A sequence of `replace_task` calls. -/
def relabelSeq (g : DiGraph) (pairs : List (Nat × Nat)) : DiGraph :=
  pairs.foldl (fun g p => replaceTask g p.1 p.2) g

/-- `insert_context(wb, context)`:
    `for task in wb.tasks: if first parameter is 'context': replace_task(task, task.replace(task_input=(context, *task_input)))`.
    `wb.tasks` is a snapshot, so the loop replaces, in node order, exactly the
    context-taking tasks of the graph it started with; every `Task.replace`
    makes a new object = a fresh node id. -/
def insertContext (st : St) (g : DiGraph) : St × DiGraph :=
  let olds := g.nodes.filter (fun t => (st.tb.get t).takesCtx)
  let news := List.range' st.next olds.length
  let tks := olds.map (fun t => addCtx (st.tb.get t))
  (⟨news.zip tks ++ st.tb, st.next + olds.length⟩, relabelSeq g (olds.zip news))

/-- The pass of `execute_workflow`:
    `wb = WorkflowBuilder(workflow)` (copy);
    `for task in workflow.tasks: wb.replace_task(task, task.replace(task_input=…same…))` -/
def relabelPass (st : St) (g : DiGraph) : St × DiGraph :=
  let olds := g.nodes
  let news := List.range' st.next olds.length
  let tks := olds.map st.tb.get
  (⟨news.zip tks ++ st.tb, st.next + olds.length⟩, relabelSeq g.copy (olds.zip news))

/-- The workflow `execute_workflow` hands to `dispatcher.run`:
    relabel pass, `insert_context`, `Workflow(wb)` (copy). -/
def executedWorkflow (st : St) (g : DiGraph) : St × DiGraph :=
  let (st1, g1) := relabelPass st g
  let (st2, g2) := insertContext st1 g1
  (st2, g2.copy)

/-- The workflow `call_workflow` submits: `WorkflowBuilder(wf)`, `insert_context`, `Workflow(wb)`. -/
def calledWorkflow (st : St) (g : DiGraph) : St × DiGraph :=
  let (st2, g2) := insertContext st g.copy
  (st2, g2.copy)

/-! ### Several graphs on one scheduler (`run` submits the parent, `call_workflow` children while it is live) -/

/-- A key as ONE dask scheduler sees it. -/
inductive SKey where
  | results                          -- the parent's output task (`run`: `client.get(dsk, 'results')`)
  | named (u : Nat)                  -- `call_workflow`: `dsk[unique_name] = dsk.pop('results')`
  | task (inst : Nat) (id : Nat)     -- f'{task.name}-{uuid4()}': fresh for every (as_dask_dict call, task)
  deriving DecidableEq, Repr

/-- One graph handed to the scheduler.  `inst` numbers the call of `as_dask_dict` that produced it: this is the
    uuid4 FRESHNESS ASSUMPTION — keys are injective in (graph instance, task). -/
structure Submission where
  inst : Nat
  rename : Option Nat                -- `none`: submitted by `run`; `some u`: by `call_workflow(wf, u, ctx)`
  dict : List Entry

def Submission.key (s : Submission) : Key → SKey
  | .results => match s.rename with
    | none => .results
    | some u => .named u
  | .task t => .task s.inst t

def Submission.keys (s : Submission) : List SKey := s.dict.map (fun e => s.key e.key)

/-- All keys the scheduler knows when these graphs are live together. -/
def schedulerKeys (subs : List Submission) : List SKey := subs.flatMap Submission.keys

/-- What the property asks the dispatcher to run: the workflow as it was passed
    in (`Workflow(...)` is a copy), every context-taking task with the context in
    front of its static inputs, nothing re-ordered. -/
def withContext (tb : Table) : Table :=
  tb.map (fun p => (p.1, if p.2.takesCtx then addCtx p.2 else p.2))

def specDict (tb : Table) (g : DiGraph) : Except Err (List Entry) :=
  asDaskDict (withContext tb) g.copy

/-- The stable partition "tasks that do not take the context first". -/
def ctxLast (l : List Task) : List Task :=
  l.filter (fun t => !t.takesCtx) ++ l.filter (fun t => t.takesCtx)

/-- What the dispatcher should see of a task: the context in front of the
    static inputs iff the function takes it. -/
def withCtx (t : Task) : Task := if t.takesCtx then addCtx t else t


end Pharmpy.C17
