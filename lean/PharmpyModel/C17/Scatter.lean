/-
  C17 — executable model of
    pharmpy/workflows/dispatchers/local_dask/optimize.py :
        optimize_task_graph_for_dask_distributed (before dask's `fuse`), _scatter_computation, _scatter_value
  The distributed dispatcher rewrites the dask dict `key ↦ (function, *static inputs, *predecessor keys)`:
  every leaf that is none of dict/int/str/float/bool/range/Future/callable is sent to the cluster with
  `client.scatter` and replaced by the Future that stands for it.  Each definition mirrors the Python.
-/
namespace Pharmpy.C17

/-- A dask computation as `_scatter_computation` sees it. -/
inductive Comp where
  | keep (r : String)          -- dict, int, str (also a key), float, bool, range, callable: returned as is
  | fut (n : Nat)              -- a `Future` (datum number n of the client): returned as is
  | obj (o : String)           -- any other object (identified by its observable rendering): scattered
  | tuple (xs : List Comp)     -- `(head, *args)`, `()` included
  | list (xs : List Comp)
  deriving Repr, Inhabited

/-- The client: the data scattered so far; `client.scatter(value)` appends and returns Future number `length`. -/
abbrev Store := List String

mutual
/-- `_scatter_computation(Future, client, computation)` (with `_scatter_value` for the leaves), threading the client. -/
def scatterComp : Comp → Store → Comp × Store
  | .keep r, st => (.keep r, st)
  | .fut n, st => (.fut n, st)
  | .obj o, st => (.fut st.length, st ++ [o])
  | .tuple [], st => (.tuple [], st)                       -- "Avoid further interpreting empty argument"
  | .tuple (h :: xs), st =>                                  -- (computation[0], *map(scatter, computation[1:]))
    let r := scatterList xs st
    (.tuple (h :: r.1), r.2)
  | .list xs, st =>
    let r := scatterList xs st
    (.list r.1, r.2)
/-- `map(lambda c: _scatter_computation(Future, client, c), …)`, left to right. -/
def scatterList : List Comp → Store → List Comp × Store
  | [], st => ([], st)
  | x :: xs, st =>
    let r := scatterComp x st
    let rs := scatterList xs r.2
    (r.1 :: rs.1, rs.2)
end

/-- `{key: _scatter_computation(Future, client, value) for key, value in graph.items()}` -/
def scatterGraph : List (String × Comp) → Store → List (String × Comp) × Store
  | [], st => ([], st)
  | (k, c) :: rest, st =>
    let r := scatterComp c st
    let rs := scatterGraph rest r.2
    ((k, r.1) :: rs.1, rs.2)

mutual
/-- What the cluster does with a computation when it runs it: a Future stands for the datum it was made from. -/
def resolveComp (st : Store) : Comp → Comp
  | .keep r => .keep r
  | .fut n => match st[n]? with
    | some o => .obj o
    | none => .fut n
  | .obj o => .obj o
  | .tuple xs => .tuple (resolveList st xs)
  | .list xs => .list (resolveList st xs)
def resolveList (st : Store) : List Comp → List Comp
  | [] => []
  | x :: xs => resolveComp st x :: resolveList st xs
end

mutual
/-- the computation mentions no Future (what `as_dask_dict` produces from declared static inputs) -/
def Comp.noFut : Comp → Bool
  | .keep _ => true
  | .fut _ => false
  | .obj _ => true
  | .tuple xs => noFutList xs
  | .list xs => noFutList xs
def noFutList : List Comp → Bool
  | [] => true
  | x :: xs => x.noFut && noFutList xs
end

mutual
/-- the scattered objects of a computation, in scattering order (tuple heads are not scattered) -/
def Comp.objs : Comp → List String
  | .keep _ => []
  | .fut _ => []
  | .obj o => [o]
  | .tuple [] => []
  | .tuple (_ :: xs) => objsList xs
  | .list xs => objsList xs
def objsList : List Comp → List String
  | [] => []
  | x :: xs => x.objs ++ objsList xs
end

/-- the graph's computations mention no Future -/
def graphNoFut : List (String × Comp) → Bool
  | [] => true
  | (_, c) :: rest => c.noFut && graphNoFut rest

/-- A memo keyed by `==`/`hash` of the value (NOT the code; used to show why such a memo is wrong): `eqv o`
    is the equality class of object `o`; a class seen before gets the Future made for its first member. -/
def scatterMemoLeaf (eqv : String → String) (o : String) (st : Store) (memo : List (String × Nat)) :
    Comp × Store × List (String × Nat) :=
  match memo.find? (fun p => p.1 == eqv o) with
  | some p => (.fut p.2, st, memo)
  | none => (.fut st.length, st ++ [o], (eqv o, st.length) :: memo)

end Pharmpy.C17
