import PharmpyModel.C17.Model
/-
  C17 — the abstract scheduler (dask's `get` contract) and the reference
  evaluation, first generically, then instantiated on the dict produced by
  `as_dask_dict` with the term-building task family of the harness.
-/
namespace Pharmpy.C17

/-! ### Generic task graphs -/

/-- A task graph: every key names the keys whose values it consumes (in
    argument order) and a pure function of those values. -/
structure TaskGraph (κ : Type) (V : Type) where
  deps : κ → List κ
  fn : κ → List V → V

abbrev Env (κ V : Type) := κ → Option V

def Env.empty {κ V : Type} : Env κ V := fun _ => none

def Env.set {κ V : Type} [DecidableEq κ] (e : Env κ V) (k : κ) (v : V) : Env κ V :=
  fun x => if x = k then some v else e x

/-- Values of a list of keys, if all are available. -/
def lookupAll {κ V : Type} (e : Env κ V) : List κ → Option (List V)
  | [] => some []
  | k :: ks => match e k, lookupAll e ks with
    | some v, some vs => some (v :: vs)
    | _, _ => none

/-- One firing of the abstract scheduler: `k` may fire iff it has not fired
    yet and every key it mentions has a value.  (`none` = inadmissible.) -/
def fire {κ V : Type} [DecidableEq κ] (tg : TaskGraph κ V) (e : Env κ V) (k : κ) : Option (Env κ V) :=
  match e k with
  | some _ => none
  | none => match lookupAll e (tg.deps k) with
    | some vs => some (e.set k (tg.fn k vs))
    | none => none

/-- A firing sequence, from a given state; `none` if some firing is inadmissible. -/
def runSeq {κ V : Type} [DecidableEq κ] (tg : TaskGraph κ V) : Env κ V → List κ → Option (Env κ V)
  | e, [] => some e
  | e, k :: ks => match fire tg e k with
    | some e' => runSeq tg e' ks
    | none => none

/-- Reference (denotational) value of a key: recursive evaluation with fuel. -/
def den {κ V : Type} (tg : TaskGraph κ V) : Nat → κ → Option V
  | 0, _ => none
  | n + 1, k =>
    match lookupAll (den tg n) (tg.deps k) with
    | some vs => some (tg.fn k vs)
    | none => none

/-- Sequential evaluation along a given order, skipping keys that cannot fire
    yet or have fired (what `topoEval` does with a topological order). -/
def evalAlong {κ V : Type} [DecidableEq κ] (tg : TaskGraph κ V) : Env κ V → List κ → Env κ V
  | e, [] => e
  | e, k :: ks => match fire tg e k with
    | some e' => evalAlong tg e' ks
    | none => evalAlong tg e ks

/-- Kahn-style order: `fuel` sweeps over the keys, each sweep appends the keys
    whose dependencies are all placed already. -/
def sweep {κ : Type} [DecidableEq κ] (deps : κ → List κ) (keys : List κ) (placed : List κ) : List κ :=
  keys.foldl (fun acc k =>
    if k ∈ acc then acc else if (deps k).all (fun d => d ∈ acc) then acc ++ [k] else acc) placed

def topoOrder {κ : Type} [DecidableEq κ] (deps : κ → List κ) (keys : List κ) : Nat → List κ → List κ
  | 0, placed => placed
  | n + 1, placed => topoOrder deps keys n (sweep deps keys placed)

/-! ### The dask graph of a workflow, with the harness' task family

  Task `i` returns the string `t<i>(a1,…,an)`; the spliced callable `g<j>`
  returns `g<j>(a1,…,an)`.  Values are strings, so a result spells out the
  whole evaluation. -/

def joinArgs (xs : List String) : String := ",".intercalate xs

/-- dask's graph-literal rule for a string: a string equal to a key of the
    graph stands for that key's value.  The only nameable key is `'results'`
    (all others end in a fresh uuid4). -/
def strKey (x : String) : Option Key := if x = "results" then some .results else none

/-- Keys mentioned by a static input (dask makes them dependencies). -/
def Atom.keys : Atom → List Key
  | .s x => (strKey x).toList
  | .ctx => []
  | .call _ args => args.flatMap (fun x => (strKey x).toList)

def SArg.keys : SArg → List Key
  | .atom a => a.keys
  | .list xs => xs.flatMap Atom.keys

/-- What the task function receives for a string under dask's rules. -/
def strVal (res : Option String) (x : String) : String :=
  match strKey x, res with
  | some _, some v => v
  | _, _ => x

/-- dask semantics of a leaf: key strings are replaced, `(callable, *args)` is executed. -/
def Atom.dask (res : Option String) : Atom → String
  | .s x => strVal res x
  | .ctx => "ctx"
  | .call g args => "g" ++ toString g ++ "(" ++ joinArgs (args.map (strVal res)) ++ ")"

def SArg.dask (res : Option String) : SArg → String
  | .atom a => a.dask res
  | .list xs => "[" ++ joinArgs (xs.map (Atom.dask res)) ++ "]"

/-- The property's reading: static inputs are passed as declared. -/
def Atom.literal : Atom → String
  | .s x => x
  | .ctx => "ctx"
  | .call g args => "<g" ++ toString g ++ (args.foldl (fun acc a => acc ++ "," ++ a) "") ++ ">"

def SArg.literal : SArg → String
  | .atom a => a.literal
  | .list xs => "[" ++ joinArgs (xs.map Atom.literal) ++ "]"

/-- A static input is hazardous if dask re-interprets it. -/
def Atom.hazard : Atom → Bool
  | .s x => (strKey x).isSome
  | .ctx => false
  | .call _ _ => true

def SArg.hazard : SArg → Bool
  | .atom a => a.hazard
  | .list xs => xs.any Atom.hazard

def Entry.find (d : List Entry) (k : Key) : Option Entry := d.find? (fun e => e.key == k)

/-- `(function, *static, *pred keys)` as dask reads it: dependencies are the keys
    mentioned by static inputs, then the predecessor keys. -/
def Entry.deps (e : Entry) : List Key := e.task.static.flatMap SArg.keys ++ e.preds

def takeLast {α : Type} (n : Nat) (xs : List α) : List α := xs.drop (xs.length - n)

/-- The function dask calls for an entry, on the values of `deps` (same order). -/
def Entry.apply (e : Entry) (vals : List String) : String :=
  let nstat := (e.task.static.flatMap SArg.keys).length
  -- every key a static input can mention is 'results', so any of the first values is its value
  let res := if nstat = 0 then none else vals.head?
  "t" ++ toString e.task.name ++ "(" ++
    joinArgs (e.task.static.map (SArg.dask res) ++ vals.drop nstat) ++ ")"

/-- The property's function for a task: literal static inputs, then predecessor values. -/
def Entry.applySpec (e : Entry) (vals : List String) : String :=
  "t" ++ toString e.task.name ++ "(" ++ joinArgs (e.task.static.map SArg.literal ++ vals) ++ ")"

def daskGraph (d : List Entry) : TaskGraph Key String where
  deps k := match Entry.find d k with | some e => e.deps | none => []
  fn k vals := match Entry.find d k with | some e => e.apply vals | none => ""

def specGraph (d : List Entry) : TaskGraph Key String where
  deps k := match Entry.find d k with | some e => e.preds | none => []
  fn k vals := match Entry.find d k with | some e => e.applySpec vals | none => ""

/-- Model of `dask.get(dsk, 'results')`: fire along a topological order.  dask
    orders the WHOLE dict first (`dask.order.order`), so a cycle anywhere in it —
    some key cannot be placed — is refused (`RuntimeError: Cycle detected`),
    also when `'results'` does not depend on it.  Also returns the firing order used. -/
def daskGet (d : List Entry) : Except Err String × List Key :=
  let tg := daskGraph d
  let keys := d.map (·.key)
  let order := topoOrder tg.deps keys keys.length []
  if order.length != keys.length then (.error .cycle, order) else
  match runSeq tg Env.empty order with
  | some env => match env .results with
    | some v => (.ok v, order)
    | none => (.error .cycle, order)
  | none => (.error .cycle, order)

/-- The reference value the property demands (`topoEval`): literal static
    inputs followed by predecessor values, evaluated in topological order. -/
def topoEval (d : List Entry) : Option String :=
  let tg := specGraph d
  let keys := d.map (·.key)
  let order := topoOrder tg.deps keys keys.length []
  (evalAlong tg Env.empty order) .results

/-- Replay of an observed firing order on the dask graph. -/
def replay (d : List Entry) (order : List Key) : Option String :=
  match runSeq (daskGraph d) Env.empty order with
  | some env => env .results
  | none => none

/-- Replay of an observed firing order given by task NAMES.  Several tasks may
    carry the same name (distinct tasks that are equal by value, sharing one
    function object, so the call log cannot tell them apart): the replay succeeds
    if SOME assignment of the not yet fired tasks of each name makes the whole
    sequence admissible (depth-first search over the candidates). -/
def replayEnv (d : List Entry) : Env Key String → List Nat → Option (Env Key String)
  | env, [] => some env
  | env, n :: ns =>
    (d.filter (fun e => e.task.name == n)).findSome? (fun e =>
      match fire (daskGraph d) env e.key with
      | some env' => replayEnv d env' ns
      | none => none)

def replayNames (d : List Entry) (names : List Nat) : Option String :=
  match replayEnv d Env.empty names with
  | some env => env .results
  | none => none

end Pharmpy.C17
