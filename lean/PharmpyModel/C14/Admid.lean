/-
  C14 — executable model of `get_cmt` and `get_admid` (`add_cmt` / `add_admid` attach the
  same series as a column) of `pharmpy.modeling.data`, and the per-individual walk.

  `get_cmt`   : a per-record map (compartment column, or EVID ↦ dose compartment / 0, or
                admid column ↦ compartment number with observations in the central compartment).
  `get_admid` : `get_cmt(...).replace(remap)` followed by the loop that forward-fills the
                "last used admid" onto the records that are not EVID 1; the loop keeps
                `(current_subject, current_admin)` and re-initialises it when the id changes.
-/
namespace Pharmpy.C14

/-- an event record as `get_cmt` / `get_admid` see it -/
structure ERec where
  id : Int
  evid : Nat      -- `get_evid(model)`
  cmt : Nat       -- column of type `compartment` (0 when absent)
  adm : Nat       -- column of type `admid` (0 when absent)
  deriving DecidableEq, Repr, Inhabited

structure ACfg where
  hasCmt : Bool               -- a column of type `compartment` exists
  hasAdm : Bool               -- a column of type `admid` exists
  doseCmt : Nat               -- number of `dosing_compartments[0]` (1 without compartmental system)
  central : Nat               -- `central_number` (number of the central compartment; 05d598c: always bound)
  centralDosing : Bool        -- the central compartment takes doses (`remap[2] = central_number`)
  other : Option Nat          -- `remap[1]`: number of the last dosing compartment that is not central
  remap : List (Nat × Nat)    -- `get_admid`: number of a dosing compartment ↦ admid of its first dose
  deriving Repr, Inhabited

/-- `Series.replace(dict)`: simultaneous replacement of whole values -/
def replaceVal (tbl : List (Nat × Nat)) (v : Nat) : Nat := (tbl.lookup v).getD v

/-- `cmt.replace({1: dose_cmt, 2: 0, 3: 0, 4: dose_cmt})` -/
def evidCmt (c : ACfg) (evid : Nat) : Nat :=
  replaceVal [(1, c.doseCmt), (2, 0), (3, 0), (4, c.doseCmt)] evid

/-- `admidcols.replace(remap)` of `get_cmt`: admid 2 ↦ central (if it takes doses), admid 1 ↦ the other dosing compartment -/
def admTbl (c : ACfg) : List (Nat × Nat) :=
  (if c.centralDosing then [(2, c.central)] else []) ++ (match c.other with | some o => [(1, o)] | none => [])

/-- `get_cmt` of one record -/
def cmtOf (c : ACfg) (r : ERec) : Nat :=
  if c.hasCmt then r.cmt
  else if !c.hasAdm then evidCmt c r.evid
  else if r.evid == 0 then c.central else replaceVal (admTbl c) r.adm

/-- `get_cmt` (total for every compartmental model since 05d598c) -/
def getCmt (c : ACfg) (ds : List ERec) : List Nat := ds.map (cmtOf c)

/-- what the forward-fill loop of `get_admid` reads of a record -/
structure ARow where
  id : Int
  evid : Nat
  own : Nat       -- `get_cmt(model).replace(remap)` at the record
  deriving DecidableEq, Repr, Inhabited

/-- `event in (1, 4)` (208e5ef) -/
def isDoseEv (evid : Nat) : Bool := evid == 1 || evid == 4

/-- one iteration: state `(current_subject, current_admin)`, output `adm[i]` -/
def admStep (s : Int × Nat) (r : ARow) : (Int × Nat) × Nat :=
  if s.1 == r.id then
    if isDoseEv r.evid then ((s.1, r.own), r.own) else (s, s.2)
  else ((r.id, r.own), r.own)

def admLoop : Int × Nat → List ARow → List Nat
  | _, [] => []
  | s, r :: rs => (admStep s r).2 :: admLoop (admStep s r).1 rs

/-- the loop with its initial state `(dataset[id][0], adm[0])` -/
def admFill (rows : List ARow) : List Nat :=
  match rows with
  | [] => []
  | r0 :: _ => admLoop (r0.id, r0.own) rows

/-- the rows the loop of `get_admid` runs over (no admid column, hence `get_cmt` without it) -/
def admRows (c : ACfg) (ds : List ERec) : List ARow :=
  ds.map (fun r => ⟨r.id, r.evid,
    replaceVal c.remap (if c.hasCmt then r.cmt else evidCmt c r.evid)⟩)

/-- `get_admid` -/
def getAdmid (c : ACfg) (ds : List ERec) : List Nat :=
  if c.hasAdm then ds.map (·.adm) else admFill (admRows c ds)

/-! ## Specification: one individual at a time -/

/-- walk over the records of ONE individual: a dose record (EVID 1 or 4) carries its own route and
    makes it the last used one, every other record carries the last used route (before the first
    dose: the value of the individual's first record) -/
def indWalk (cur : Nat) : List ARow → List Nat
  | [] => []
  | r :: rs => if isDoseEv r.evid then r.own :: indWalk r.own rs else cur :: indWalk cur rs

def indAdmid (b : List ARow) : List Nat :=
  match b with
  | [] => []
  | r0 :: _ => indWalk r0.own b

/-- `b` is a non-empty run of records of one individual -/
def ConstId (b : List ARow) : Prop :=
  match b with
  | [] => False
  | r0 :: rs => ∀ x ∈ rs, x.id = r0.id

/-- a decomposition into runs of one individual each; neighbouring runs belong to different individuals -/
def GoodBlocks : List (List ARow) → Prop
  | [] => True
  | [b] => ConstId b
  | b :: c :: rest =>
    ConstId b ∧ (b.getLast?.map (·.id) ≠ c.head?.map (·.id)) ∧ GoodBlocks (c :: rest)

end Pharmpy.C14
