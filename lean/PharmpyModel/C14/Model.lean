/-
  C14 — executable model of the dataset derivations of
  `pharmpy.modeling.data`:

    get_doseid, add_time_after_dose, expand_additional_doses,
    get_mdv, get_evid, get_observations / get_doses (row selection),
    get_number_of_observations(_per_individual)

  A dataset is a list of event records in row order (row label = position,
  pandas RangeIndex).  Times / amounts are exact rationals.  Which optional
  columns exist is the configuration `Cfg` (DataInfo column types).

  Row-wise derivations are written with `zipMap f`: `f pre r post` is the value
  for record `r` preceded by the records `pre` and followed by `post`.  Each
  pandas mask of the code becomes a `filter` over `pre` / `post`:

    df.groupby(idcol)[c].cumsum()          ↦ sum over (pre ++ [r]).filter sameId
    df[(df[id]==i) & (df[idv]==time)]      ↦ (pre ++ r :: post).filter (sameIT r)
    max(doseind) > index                   ↦ a dose of the group lies in `post`
    df.loc[index,'DOSEID'] <= 1            ↦ the current value of the DOSEID column (repaired code, 183fc9b)

  `Spec` part (bottom): the per-individual chronological walk.
-/
namespace Pharmpy.C14

structure Rec where
  lab : Nat          -- row label in the original dataset (identity of the record)
  id : Int
  time : Rat
  amt : Rat
  evid : Nat
  ss : Nat
  addl : Nat
  ii : Rat
  mdv : Nat
  expanded : Bool    -- `_EXPANDED` / `EXPANDED` (false for every original record)
  deriving DecidableEq, Repr, Inhabited

/-- Which typed columns the DataInfo has (`typeix[...]` non-empty). -/
structure Cfg where
  hasDose : Bool
  hasEvid : Bool
  hasSs : Bool
  hasMdv : Bool
  hasAddl : Bool     -- both `additional` and `ii`
  deriving DecidableEq, Repr, Inhabited

/-! ### row-wise map with context -/

def zipMapAux {α β : Type} (f : List α → α → List α → β) : List α → List α → List β
  | _, [] => []
  | pre, r :: post => f pre r post :: zipMapAux f (pre ++ [r]) post

def zipMap {α β : Type} (f : List α → α → List α → β) (ds : List α) : List β :=
  zipMapAux f [] ds

def intSum (xs : List Int) : Int := xs.foldr (· + ·) 0
def ratSum (xs : List Rat) : Rat := xs.foldr (· + ·) 0

/-- keep the last occurrence of each element -/
def dedup {α : Type} [DecidableEq α] : List α → List α
  | [] => []
  | x :: xs => if x ∈ xs then dedup xs else x :: dedup xs

/-! ### get_doseid -/

def isDose (r : Rec) : Bool := decide (r.amt > 0)
/-- `df.loc[df['DOSEID'] > 0, 'DOSEID'] = 1; astype(int)` (amounts are assumed non-negative). -/
def flag (r : Rec) : Int := if r.amt > 0 then 1 else 0
def sameId (r x : Rec) : Bool := x.id == r.id
/-- `(df[idcol] == i) & (df[idvcol] == time)` -/
def sameIT (r x : Rec) : Bool := x.id == r.id && x.time == r.time
/-- `df[eventcol] >= 3` -/
def resetFlag (cfg : Cfg) (x : Rec) : Bool := cfg.hasEvid && decide (x.evid ≥ 3)
def ssPos (cfg : Cfg) (x : Rec) : Bool := cfg.hasSs && decide (x.ss > 0)

/-- `df.groupby(idcol)['DOSEID'].cumsum()` at record `r`. -/
def cumOf (pre : List Rec) (r : Rec) : Int :=
  intSum ((pre.filter (sameId r)).map flag) + flag r

/-- `_RESETGROUP` of every record, as seen from individual `i`
    (`df.groupby('ID')['_FLAG'].cumsum()`; constant when there is no event column). -/
def withRg (cfg : Cfg) (i : Int) : Nat → List Rec → List (Rec × Nat)
  | _, [] => []
  | g, x :: xs =>
    let g' := if x.id == i && resetFlag cfg x then g + 1 else g
    (x, g') :: withRg cfg i g' xs

/-- reset groups of the records sharing id and time with `r` -/
def groupRgs (cfg : Cfg) (r : Rec) (all : List Rec) : List Nat :=
  ((withRg cfg r.id 0 all).filter (fun p => sameIT r p.1)).map (·.2)

/-- number of entries `(i, time, g)` of `nonunique` (group size > 1) for the id/time of a record,
    given the reset groups `gs` of the records at that id/time -/
def multOf (gs : List Nat) : Nat :=
  ((List.range (gs.foldr max 0 + 1)).filter (fun v => decide (gs.count v > 1))).length

/-- dose records of the id/time group of `r` among `xs` (`set(groupind) - set(obsind)`) -/
def groupDoses (r : Rec) (xs : List Rec) : List Rec :=
  (xs.filter (sameIT r)).filter (fun x => x.amt != 0)

/-- the body of the inner loop reaches the decrement for `index` (once per entry of `nonunique`),
    apart from the test on the current DOSEID value -/
def elig (cfg : Cfg) (pre : List Rec) (r : Rec) (post : List Rec) : Bool :=
  r.amt == 0
  && (groupDoses r post).isEmpty            -- not (maxind > index)
  && (match (groupDoses r pre).getLast? with -- doseind non-empty; SS dose keeps the group
      | none => false
      | some d => !ssPos cfg d)

/-- `m` passes of `if DOSEID <= 1: continue; DOSEID -= 1` over the value `c` -/
def decTo1 (c : Int) (m : Nat) : Int := if c ≤ 1 then c else max (c - (m : Int)) 1

def doseidAt (cfg : Cfg) (pre : List Rec) (r : Rec) (post : List Rec) : Int :=
  if elig cfg pre r post then decTo1 (cumOf pre r) (multOf (groupRgs cfg r (pre ++ r :: post)))
  else cumOf pre r

/-- `get_doseid` -/
def getDoseid (cfg : Cfg) (ds : List Rec) : List Int := zipMap (doseidAt cfg) ds

/-! #### the same function with the adjustment loop written out -/

def rgOf (cfg : Cfg) (pre : List Rec) (r : Rec) : Nat :=
  ((pre ++ [r]).filter (fun x => sameId r x && resetFlag cfg x)).length

/-- entries of `nonunique`: distinct (id, time, reset group) with more than one record -/
def nonunique (cfg : Cfg) (ds : List Rec) : List (Int × Rat × Nat) :=
  let keys := zipMap (fun pre r _ => (r.id, r.time, rgOf cfg pre r)) ds
  (dedup keys).filter (fun k => decide (keys.count k > 1))

/-- one pass of the outer loop for `(i, time, _)` over the current DOSEID column -/
def adjust (cfg : Cfg) (ds : List Rec) (i : Int) (time : Rat) (d : List Int) : List Int :=
  zipMap (fun pre (p : Rec × Int) post =>
      let pre' := pre.map (·.1)
      let post' := post.map (·.1)
      if p.1.id == i && p.1.time == time && elig cfg pre' p.1 post' && decide (p.2 > 1) then p.2 - 1
      else p.2)
    (ds.zip d)

def getDoseidLoop (cfg : Cfg) (ds : List Rec) : List Int :=
  (nonunique cfg ds).foldl (fun d k => adjust cfg ds k.1 k.2.1 d) (zipMap (fun pre r _ => cumOf pre r) ds)

/-! ### expand_additional_doses -/

/-- `fn` + `explode` for one row -/
def explodeRow (r : Rec) : List Rec :=
  if r.addl == 0 then [r]
  else (List.range (r.addl + 1)).map
    (fun (x : Nat) => { r with time := r.ii * (x : Rat) + r.time, expanded := x != 0 })

def keyLe (a b : Int × Nat) : Bool := a.1 < b.1 || (a.1 == b.1 && a.2 ≤ b.2)

/-- exploded rows with their reset group -/
def exploded (cfg : Cfg) (ds : List Rec) : List (Rec × Nat) :=
  (zipMap (fun pre r _ => (r, rgOf cfg pre r)) ds).flatMap
    (fun p => (explodeRow p.1).map (fun x => (x, p.2)))

def timeLe (a b : Rec × Nat) : Bool := decide (a.1.time ≤ b.1.time)

/-- the (id, reset group) groups of the exploded rows, in ascending key order -/
def expandGroups (ex : List (Rec × Nat)) : List (List (Rec × Nat)) :=
  let keys := (dedup (ex.map (fun p => (p.1.id, p.2)))).mergeSort keyLe
  keys.map (fun k => ex.filter (fun p => (p.1.id, p.2) == k))

/-- `groupby([idcol, '_RESETGROUP'], group_keys=False).apply(sort_values(by='_TIMES', kind='stable'))`.
    pandas: if the sort changes the index of no group the result is put back in the original row
    order; otherwise the sorted groups are concatenated in ascending key order. -/
def expandRg (cfg : Cfg) (ds : List Rec) : List (Rec × Nat) :=
  let ex := exploded cfg ds
  let groups := expandGroups ex
  let mutated := groups.any (fun g => (g.mergeSort timeLe).map (·.1.lab) != g.map (·.1.lab))
  if mutated then groups.flatMap (fun g => g.mergeSort timeLe) else ex

def expand (cfg : Cfg) (ds : List Rec) : List Rec :=
  if cfg.hasAddl then (expandRg cfg ds).map (·.1) else ds

/-! ### add_time_after_dose -/

/-- `groupby([id, '_DOSEID'])['_NEWTIME'].diff().fillna(0)` then `.cumsum()`:
    time since the first record of the (id, dose id) group (stable sort keeps their order). -/
def tadAt (pre : List (Rec × Int)) (p : Rec × Int) : Rat :=
  match pre.find? (fun q => q.1.id == p.1.id && q.2 == p.2) with
  | some q => p.1.time - q.1.time
  | none => 0

def tadRows (cfg : Cfg) (ds : List Rec) : List ((Rec × Int) × Rat) :=
  let ex := expand cfg ds
  zipMap (fun pre p _ => (p, tadAt pre p)) (ex.zip (getDoseid cfg ex))

/-- records of the returned dataset (in its order) with their TAD -/
def addTad (cfg : Cfg) (ds : List Rec) : List (Rec × Rat) :=
  let rows := tadRows cfg ds
  let ids := (dedup (rows.map (·.1.1.id))).mergeSort (fun a b => decide (a ≤ b))
  let sorted := ids.flatMap (fun i =>
    (rows.filter (fun q => q.1.1.id == i)).mergeSort (fun a b => decide (a.1.2 ≤ b.1.2)))
  (sorted.filter (fun q => !q.1.1.expanded)).map (fun q => (q.1.1, q.2))

/-! ### get_mdv / get_evid / get_observations / get_doses / counts -/

def nz (n : Nat) : Nat := if n == 0 then 0 else 1

/-- `get_mdv`: first of mdv, event, dose column; non-zero ↦ 1 -/
def mdvOf (cfg : Cfg) (r : Rec) : Nat :=
  if cfg.hasMdv then nz r.mdv
  else if cfg.hasEvid then nz r.evid
  else if cfg.hasDose then (if r.amt == 0 then 0 else 1)
  else 0

def getMdv (cfg : Cfg) (ds : List Rec) : List Nat := ds.map (mdvOf cfg)

/-- `get_evid`: the event column if present, else MDV renamed -/
def getEvid (cfg : Cfg) (ds : List Rec) : List Nat :=
  if cfg.hasEvid then ds.map (·.evid) else getMdv cfg ds

/-- `get_observations`: `query(label == 0)` for the first of mdv, event, dose column -/
def isObs (cfg : Cfg) (r : Rec) : Bool :=
  if cfg.hasMdv then r.mdv == 0
  else if cfg.hasEvid then r.evid == 0
  else if cfg.hasDose then r.amt == 0
  else true

def getObservations (cfg : Cfg) (ds : List Rec) : List Rec := ds.filter (isObs cfg)
/-- `get_doses`: `query(dose != 0)` -/
def getDoses (ds : List Rec) : List Rec := ds.filter (fun r => r.amt != 0)
def nObs (cfg : Cfg) (ds : List Rec) : Nat := (getObservations cfg ds).length
/-- `get_observations(model).groupby(id).count()`: sorted ids that have observations -/
def nObsPerInd (cfg : Cfg) (ds : List Rec) : List (Int × Nat) :=
  let obs := getObservations cfg ds
  let ids := (dedup (obs.map (·.id))).mergeSort (fun a b => decide (a ≤ b))
  ids.map (fun i => (i, (obs.filter (fun r => r.id == i)).length))

/-! ## Specification: the per-individual chronological walk -/

/-- state of one individual: doses seen, reset events seen, last dose (time, SS?, reset group) -/
structure St where
  cur : Int
  rg : Nat
  last : Option (Rat × Bool × Nat)
  deriving DecidableEq, Repr

def St.init : St := ⟨0, 0, none⟩

def rgNext (cfg : Cfg) (s : St) (r : Rec) : Nat := if resetFlag cfg r then s.rg + 1 else s.rg

def stepSt (cfg : Cfg) (s : St) (r : Rec) : St :=
  if r.amt > 0 then ⟨s.cur + 1, rgNext cfg s r, some (r.time, ssPos cfg r, rgNext cfg s r)⟩
  else ⟨s.cur, rgNext cfg s r, s.last⟩

/-- dose period of record `r` for an individual in state `s`: a dose opens a new period; another
    record at the time stamp of the last dose (same reset group, not a steady-state dose) belongs
    to the preceding period, unless that dose is the individual's first one. -/
def outSt (cfg : Cfg) (s : St) (r : Rec) : Int :=
  if r.amt > 0 then s.cur + 1
  else match s.last with
    | some (t, ssd, g) =>
      if t == r.time && g == rgNext cfg s r && !ssd && decide (s.cur > 1) then s.cur - 1 else s.cur
    | none => s.cur

def walkAux (cfg : Cfg) (σ : Int → St) : List Rec → List Int
  | [] => []
  | r :: rest =>
    outSt cfg (σ r.id) r ::
      walkAux cfg (fun i => if i == r.id then stepSt cfg (σ i) r else σ i) rest

/-- the reference: one pass in record order, one state per individual -/
def walkDoseid (cfg : Cfg) (ds : List Rec) : List Int := walkAux cfg (fun _ => St.init) ds

/-! ### the class of datasets on which `get_doseid` is proved to agree with the walk -/

/-- amounts are non-negative and there is no reset event -/
def plain (cfg : Cfg) (ds : List Rec) : Bool :=
  ds.all (fun r => decide (0 ≤ r.amt) && !resetFlag cfg r)

/-- records of one individual are in chronological order -/
def Chrono (ds : List Rec) : Prop :=
  ds.Pairwise (fun x y => y.id = x.id → x.time ≤ y.time)

/-- an individual has at most one dose record per time stamp -/
def DistinctDoseTimes (ds : List Rec) : Prop :=
  ds.Pairwise (fun x y => y.id = x.id → isDose x = true → isDose y = true → x.time ≠ y.time)

instance (ds : List Rec) : Decidable (Chrono ds) := by unfold Chrono; infer_instance
instance (ds : List Rec) : Decidable (DistinctDoseTimes ds) := by unfold DistinctDoseTimes; infer_instance

def Regular (cfg : Cfg) (ds : List Rec) : Prop :=
  plain cfg ds = true ∧ Chrono ds ∧ DistinctDoseTimes ds

instance (cfg : Cfg) (ds : List Rec) : Decidable (Regular cfg ds) := by unfold Regular; infer_instance

/-- no record other than a dose follows a dose record of its individual at the same time stamp -/
def NoTie (ds : List Rec) : Prop :=
  ds.Pairwise (fun x y => y.id = x.id → y.time = x.time → x.amt ≠ 0 → y.amt > 0)

instance (ds : List Rec) : Decidable (NoTie ds) := by unfold NoTie; infer_instance

end Pharmpy.C14
