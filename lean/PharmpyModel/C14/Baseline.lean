/-
  C14 — executable model of the per-individual summaries of `pharmpy.modeling.data`
  on datasets with missing values:

    get_baselines / get_covariate_baselines (`groupby(id).nth(0)`: the FIRST RECORD of every
    individual, whatever is missing in it), get_ids / get_number_of_individuals
    (`unique()`), list_time_varying_covariates (`groupby(id)[cov].nunique().gt(1).any()`,
    `nunique` skips missing values), get_number_of_observations_per_individual
    (`groupby(id).count()`, `count` skips missing values).

  A record is its row label, its id and the cells of the remaining columns
  (`none` = NaN).  An individual is an id value.
-/
namespace Pharmpy.C14

structure CRec where
  lab : Nat
  id : Int
  cells : List (Option Rat)
  deriving DecidableEq, Repr, Inhabited

/-- the elements that are the first with their key, in list order (`seen` = keys already met) -/
def firstsAux {α κ : Type} [BEq κ] (key : α → κ) (seen : List κ) : List α → List α
  | [] => []
  | r :: rs =>
    if seen.contains (key r) then firstsAux key seen rs else r :: firstsAux key (key r :: seen) rs

/-- `groupby(id).nth(0)`: the first record of every id, in record order -/
def baselines (ds : List CRec) : List CRec := firstsAux (·.id) [] ds

/-- `dataset[id].unique()` -/
def getIds (ds : List CRec) : List Int := (baselines ds).map (·.id)
def nIndividuals (ds : List CRec) : Nat := (getIds ds).length

def cell (j : Nat) (r : CRec) : Option Rat := (r.cells[j]?).join

/-- `get_covariate_baselines`: the covariate cells (column positions `cols`) of the first records -/
def covBaselines (cols : List Nat) (ds : List CRec) : List (Int × List (Option Rat)) :=
  (baselines ds).map (fun r => (r.id, cols.map (fun j => cell j r)))

/-- the records of individual `i` -/
def recordsOf (i : Int) (ds : List CRec) : List CRec := ds.filter (fun x => x.id == i)

/-- keep the first occurrence of each value -/
def dedupR (l : List Rat) : List Rat := firstsAux id [] l

/-- `Series.nunique()`: number of distinct non-missing values -/
def nunique (vals : List (Option Rat)) : Nat := (dedupR (vals.filterMap id)).length

/-- column `j` is time varying: some individual has more than one distinct non-missing value -/
def timeVarying (j : Nat) (ds : List CRec) : Bool :=
  (getIds ds).any (fun i => decide (nunique ((recordsOf i ds).map (cell j)) > 1))

/-- `list_time_varying_covariates` -/
def listTimeVarying (cols : List Nat) (ds : List CRec) : List Nat := cols.filter (fun j => timeVarying j ds)

/-- `get_observations(model).groupby(id).size()` (7f08375) on the observation records `(id, DV)`:
    ascending ids of the observation records, number of observation RECORDS each — a missing DV counts -/
def nObsPerCount (obs : List (Int × Option Rat)) : List (Int × Nat) :=
  let ids := ((firstsAux id [] (obs.map (·.1)))).mergeSort (fun a b => decide (a ≤ b))
  ids.map (fun i => (i, (obs.filter (fun p => p.1 == i)).length))

end Pharmpy.C14
