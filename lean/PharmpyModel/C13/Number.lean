import PharmpyModel.C13.Split
/-
  C13 — numbers and data items.

  MODEL: `convert_fortran_number` and `_convert_data_item` of dataset.py.
  Numbers are exact decimals (sign, mantissa, exponent of ten); the harness
  turns the printed decimal into a float with `float()`, which is the same
  correctly rounded conversion `np.float64(str)` performs.

  `pyFloat` is python's `float(str)` on texts over the alphabet the generator
  uses (no `_`, no `n`/`N` — hence no inf/nan spellings —, ASCII only, no
  white space inside an item): optional sign, digits with an optional point
  (at least one digit), optional `e|E` exponent with optional sign and at
  least one digit.

  SPEC: `specNumber`, the documented number forms of docs/NONMEM.rst.
-/
namespace Pharmpy.C13

structure Dec where
  neg : Bool
  mant : Nat
  exp : Int
  deriving DecidableEq, Repr

inductive Cell where
  | num : Dec → Cell      -- a float64 given by its decimal
  | nan : Cell            -- the missing-data token
  | str : Str → Cell      -- an unparsed (dropped / TIME / DATE) item
  | none : Cell           -- pandas' padding of a short row in an unparsed column
  deriving DecidableEq, Repr

def isDig (c : Char) : Bool := '0' ≤ c && c ≤ '9'
def isSign (c : Char) : Bool := c = '+' || c = '-'

def digitsVal (ds : Str) : Nat := ds.foldl (fun a c => 10 * a + (c.toNat - 48)) 0

/-- optional sign -/
def takeSign : Str → Bool × Str
  | c :: r => if c = '-' then (true, r) else if c = '+' then (false, r) else (false, c :: r)
  | [] => (false, [])

/-- digits [. digits] with at least one digit: (integer digits, fraction digits, rest) -/
def scanMant (s : Str) : Option (Str × Str × Str) :=
  let ip := s.takeWhile isDig
  let s2 := s.dropWhile isDig
  let (fp, s3) := match s2 with
    | c :: r => if c = '.' then (r.takeWhile isDig, r.dropWhile isDig) else ([], s2)
    | [] => ([], s2)
  if ip.isEmpty && fp.isEmpty then none else some (ip, fp, s3)

/-- sign? digit+ to the end of the text -/
def scanExp (s : Str) : Option Int :=
  let (neg, r) := takeSign s
  if r.isEmpty || !(r.all isDig) then none
  else some (if neg then - (digitsVal r : Int) else (digitsVal r : Int))

def mkDec (neg : Bool) (ip fp : Str) (e : Int) : Dec :=
  ⟨neg, digitsVal (ip ++ fp), e - (fp.length : Int)⟩

/-- python `float(s)` (see the header for the alphabet assumption) -/
def pyFloat (s : Str) : Option Dec :=
  let (neg, s1) := takeSign s
  match scanMant s1 with
  | none => none
  | some (ip, fp, rest) =>
    match rest with
    | [] => some (mkDec neg ip fp 0)
    | c :: r =>
      if c = 'e' || c = 'E' then
        match scanExp r with
        | some e => some (mkDec neg ip fp e)
        | none => none
      else none

/-- `[^+\-dD]` -/
def notSD (c : Char) : Bool := !(c = '+' || c = '-' || c = 'd' || c = 'D')

/-- One attempt of `re.fullmatch(r'([+\-]?)([^+\-dD]*)([+-])([^+\-dD]*)', s)` with group 1
    fixed: group 2 is the maximal run without sign/D (the next character must be a
    sign), group 4 must be the whole rest.  Returns the text handed to `np.float64`. -/
def shortTry (g1 : Option Char) (rest : Str) : Option Str :=
  let g2 := rest.takeWhile notSD
  match rest.dropWhile notSD with
  | c :: r3 =>
    if isSign c && r3.all notSD then
      some ((if g1 = some '-' then ['-'] else []) ++ g2 ++ ['E', c] ++ r3)
    else none
  | [] => none

/-- `re.fullmatch` of the short-form regex: group 1 first tries the sign, then the
    empty text (backtracking). -/
def shortForm (s : Str) : Option Str :=
  match s with
  | c :: r =>
    if isSign c then
      match shortTry (some c) r with
      | some t => some t
      | none => shortTry none s
    else shortTry none s
  | [] => none

/-- `number_string.replace("D", "e").replace("d", "e")`, character by character -/
def replD : Char → Char := fun c => if c = 'D' || c = 'd' then 'e' else c

inductive NumErr where
  | valueError
  deriving DecidableEq, Repr

/-- `convert_fortran_number`, statement by statement. -/
def convertFortran (s : Str) : Except NumErr Dec :=
  match pyFloat s with
  | some v => .ok v
  | none =>
    if s = ['+'] || s = ['-'] then .ok ⟨false, 0, 0⟩
    else match shortForm s with
      | some t => (match pyFloat t with
        | some v => .ok v
        | none => .error .valueError)      -- np.float64 raises inside the regex branch
      | none =>
        if s.any (fun c => c = 'D' || c = 'd') then
          match pyFloat (s.map replD) with
          | some v => .ok v
          | none => .error .valueError
        else .error .valueError

inductive ItemErr where
  | tooLong      -- DatasetError: item longer than 24 characters
  | notNumber    -- DatasetError: could not convert
  deriving DecidableEq, Repr

def itemLimit : Nat := 24

/-- first step of `_convert_data_item`: None, '.', '' stand for the NULL value -/
def normItem (null : Str) (x : Option Str) : Str :=
  match x with
  | none => null
  | some t => if t = ['.'] || t = [] then null else t

/-- `_convert_data_item(x, null_value, missing_data_token)`; `none` = pandas' padding. -/
def convertItem (null missing : Str) (x : Option Str) : Except ItemErr Cell :=
  let x1 : Str := normItem null x
  if x1.length > itemLimit then .error .tooLong
  else if x1 = missing then .ok .nan
  else match convertFortran x1 with
    | .ok v => .ok (.num v)
    | .error _ => .error .notNumber

/-! ### spec: the documented number forms -/

/-- Documented forms: `[sign] digits[.digits] | [sign] .digits`, optionally
    followed by an exponent `E|e|D|d [sign] digits` or the short form
    `sign digits` ("2-1 means 2e-1"); a lone sign is 0. Nothing else. -/
def specNumber (s : Str) : Option Dec :=
  if s = ['+'] || s = ['-'] then some ⟨false, 0, 0⟩ else
  let (neg, s1) := takeSign s
  match scanMant s1 with
  | none => none
  | some (ip, fp, rest) =>
    match rest with
    | [] => some (mkDec neg ip fp 0)
    | c :: r =>
      if c = 'e' || c = 'E' || c = 'd' || c = 'D' then
        (match scanExp r with
         | some e => some (mkDec neg ip fp e)
         | none => none)
      else if isSign c then
        (if r.isEmpty || !(r.all isDig) then none
         else some (mkDec neg ip fp (if c = '-' then - (digitsVal r : Int) else (digitsVal r : Int))))
      else none

/-- Documented item rule: `.` (or an empty item) is NULL, at most 24 characters. -/
def specItem (null : Str) (x : Str) : Option Dec :=
  let x1 := if x = ['.'] || x = [] then null else x
  if x1.length > 24 then none else specNumber x1

/-! ### exact comparison of decimals -/

/-- `mant * 10^(exp - m)` with sign, for a common lower exponent `m`. -/
def Dec.scaled (d : Dec) (m : Int) : Int :=
  let v : Int := (d.mant : Int) * (10 : Int) ^ (d.exp - m).toNat
  if d.neg then -v else v

def Dec.cmp (a b : Dec) : Ordering :=
  let m := min a.exp b.exp
  compare (a.scaled m) (b.scaled m)

/-! float64 range: a decimal of magnitude ≤ 2^-1075 converts to (±)0, one of magnitude
    ≥ 2^1024 − 2^970 converts to ±inf (round half to even at both boundaries). Inside the
    range the model compares decimals exactly (see the assumption on significant digits). -/

def hugeT : Nat := 2 ^ 1024 - 2 ^ 970

inductive Fl where
  | zero : Fl
  | inf : Bool → Fl
  | fin : Dec → Fl
  deriving DecidableEq, Repr

def Dec.classify (d : Dec) : Fl :=
  if d.mant = 0 then .zero
  else
    let nd := (Nat.toDigits 10 d.mant).length
    if d.exp ≥ 0 then
      if d.exp > 400 then .inf d.neg
      else if d.mant * 10 ^ d.exp.toNat ≥ hugeT then .inf d.neg else .fin d
    else
      let k := (-d.exp).toNat
      if nd + 400 < k then .zero
      else if d.mant * 2 ^ 1075 ≤ 10 ^ k then .zero
      else if k ≤ nd && d.mant ≥ hugeT * 10 ^ k then .inf d.neg
      else .fin d

def Fl.toDec : Fl → Dec
  | .fin d => d
  | _ => ⟨false, 0, 0⟩

/-- comparison of the float64 images (exact inside the range) -/
def Dec.cmpF (a b : Dec) : Ordering :=
  match a.classify, b.classify with
  | .inf na, .inf nb => if na == nb then .eq else if na then .lt else .gt
  | .inf na, _ => if na then .lt else .gt
  | _, .inf nb => if nb then .gt else .lt
  | x, y => Dec.cmp x.toDec y.toDec

def inInt32 (v : Int) : Bool := -2147483648 ≤ v && v ≤ 2147483647

def Dec.isInt32 (d : Dec) : Bool :=
  match d.classify with
  | .zero => true
  | .inf _ => false
  | .fin d =>
    if d.exp ≥ 0 then
      d.exp ≤ 12 && inInt32 (d.scaled 0)
    else
      let p : Nat := 10 ^ (-d.exp).toNat
      let q : Int := ((d.mant / p : Nat) : Int)
      d.mant % p = 0 && inInt32 (if d.neg then -q else q)

end Pharmpy.C13
