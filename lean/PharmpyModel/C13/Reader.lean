import PharmpyModel.C13.Number
/-
  C13 — the reader: `NMTRANDataIO`, the table pandas builds, the column
  padding / stripping of `read_nonmem_dataset`, `_filter_ignore_accept`, the
  item conversion, `_make_ids_unique`, the ID and TIME post-processing
  (raw=False, dtype=None).  Mirrors dataset.py statement by statement; the
  pandas python engine is modelled by `pandasTable` (first non-empty line fixes
  the width, longer rows are cut, shorter rows padded with None).

  SPEC side: `specTable` / `specFilter`, the documented behaviour.
-/
namespace Pharmpy.C13

inductive RErr where
  | spaceTab         -- DatasetError: TAB preceded by a space
  | blankLine        -- DatasetError: blank lines
  | emptyData        -- pandas EmptyDataError: no rows
  | notUnique        -- KeyError: column names are not unique
  | item             -- DatasetError from _convert_data_item
  | idNonFinite      -- IntCastingNaNError: astype('int32') of an ID column holding NaN
  | signedOnEmpty    -- AttributeError from DataFrame.query: signed literal compared with an empty object column
  | bothFilters      -- ValueError: both IGNORE and ACCEPT
  | outside          -- input outside the modelled fragment (never compared)
  deriving DecidableEq, Repr

/-! ### NMTRANDataIO -/

/-- split at '\n': n newlines give n+1 segments; all but the last are
    newline-terminated lines, the last is the unterminated remainder. -/
def splitNl : Str → List Str
  | [] => [[]]
  | c :: r => if c = '\n' then [] :: splitNl r else consHead c (splitNl r)

def isAlpha (c : Char) : Bool := ('a' ≤ c && c ≤ 'z') || ('A' ≤ c && c ≤ 'Z')

def dropBlank : Str → Str
  | [] => []
  | c :: r => if c = ' ' || c = '\t' then dropBlank r else c :: r

/-- Does the comment regexp match this line?
    `@`: `^[ \t]*[A-Za-z#@].*(\n|$)`, otherwise `^[` + re.escape(c) + `].*(\n|$)`
    (any character `c` is a legal class member once escaped). -/
def isComment (ic : Char) (line : Str) : Bool :=
  if ic = '@' then
    match dropBlank line with
    | c :: _ => isAlpha c || c = '#' || c = '@'
    | [] => false
  else
    match line with
    | c :: _ => c = ic
    | [] => false

def isBlankLine (l : Str) : Bool := l.all (fun c => c = ' ' || c = '\t')

/-- `re.search(r'^[ \t]*\n', contents, re.MULTILINE)`: some newline-terminated line
    consists of blanks only. -/
def blankHit (term : List Str) : Bool := term.any isBlankLine

/-- newline-terminated lines left by `re.sub(comment_regexp, '', contents)` -/
def keptTerm (ic : Char) (contents : Str) : List Str :=
  (splitNl contents).dropLast.filter (fun l => !isComment ic l)

/-- the unterminated remainder left by the substitution (empty if it was a comment) -/
def keptLast (ic : Char) (contents : Str) : Str :=
  let last0 := (splitNl contents).getLast?.getD []
  if isComment ic last0 then [] else last0

/-- NMTRANDataIO.__init__: returns the lines pandas will iterate over.
    `(\n|$)`: a comment is removed whether or not a newline ends it, so the
    unterminated remainder of the text is filtered like every other line. -/
def prefilter (ic : Char) (contents : Str) : Except RErr (List Str) :=
  if (keptTerm ic contents).any (fun l => !noSpTab l) || !noSpTab (keptLast ic contents) then .error .spaceTab
  else if blankHit (keptTerm ic contents) then .error .blankLine
  else .ok (keptTerm ic contents ++ (if (keptLast ic contents).isEmpty then [] else [keptLast ic contents]))

/-! ### pandas.read_table, python engine -/

/-- `_remove_empty_lines`: a row that is a single white-space-only field is dropped. -/
def isEmptyRow (r : List Str) : Bool :=
  match r with
  | [f] => f.all isPyWs
  | _ => false

def padTo (w : Nat) (r : List (Option Str)) : List (Option Str) :=
  (r ++ List.replicate (w - r.length) none).take w

/-- rows of the DataFrame pandas returns: width = number of items of the first
    non-empty line; longer rows cut, shorter rows padded with None. -/
def pandasTable (lines : List Str) : Except RErr (Nat × List (List (Option Str))) :=
  let rows := (lines.map lineItems).filter (fun r => !isEmptyRow r)
  match rows with
  | [] => .error .emptyData
  | r0 :: _ =>
    let w := r0.length
    .ok (w, rows.map (fun r => padTo w (r.map some)))

/-- `read_nonmem_dataset`, the column block: with `w` columns in the frame and `n` names,
    w > n: `df.iloc[:, 0:len(colnames)]` keeps the first n columns;
    w < n: `df[f'__{i}]'] = str(null_value)` appends n - w NULL columns; w = n: nothing to do. -/
def shapeRow (n w : Nat) (null : Str) (r : List (Option Str)) : List (Option Str) :=
  (r ++ List.replicate (n - w) (some null)).take n

/-- the frame handed to `_filter_ignore_accept` -/
def buildTable (n : Nat) (null : Str) (lines : List Str) : Except RErr (List (List (Option Str))) :=
  match pandasTable lines with
  | .error e => .error e
  | .ok (w, rows) => .ok (rows.map (shapeRow n w null))

/-! ### IGNORE / ACCEPT -/

inductive Op where
  | seq | sne                       -- .EQ. == =   /  .NE. /=      (string comparison)
  | eq | ne | lt | gt | le | ge     -- .EQN. .NEN. .LT. .GT. .LE. .GE. (numeric)
  deriving DecidableEq, Repr

structure Filt where
  col : Str
  op : Op
  val : Str
  deriving DecidableEq, Repr

def Op.isStr : Op → Bool
  | .seq | .sne => true
  | _ => false

def idxOf (names : List Str) (c : Str) : Option Nat :=
  match names with
  | [] => none
  | n :: r => if n = c then some 0 else (idxOf r c).map (· + 1)

/-- numeric comparison as pandas evaluates it on float64 (NaN: only `!=` holds) -/
def numHolds (op : Op) (c : Cell) (v : Dec) : Bool :=
  match c with
  | .num d =>
    let o := Dec.cmpF d v
    (match op with
     | .eq => o == .eq | .ne => o != .eq | .lt => o == .lt | .gt => o == .gt
     | .le => o != .gt | .ge => o != .lt | _ => false)
  | _ => op == .ne

/-- Does the condition of filter `f` hold for the row?  String operators
    compare the raw item (None never equals a text); numeric operators first
    convert the item with `_convert_data_item` (which may raise). -/
def condHolds (names : List Str) (null missing : Str) (f : Filt) (row : List (Option Str)) :
    Except RErr Bool :=
  match idxOf names f.col with
  | none => .error .outside
  | some i =>
    let x : Option Str := (row[i]?).getD none
    if f.op.isStr then
      .ok (if f.op = .seq then x = some f.val else x ≠ some f.val)
    else
      match pyFloat f.val with
      | none => .error .outside
      | some v =>
        match convertItem null missing x with
        | .error _ => .error .item
        | .ok c => .ok (numHolds f.op c v)

/-- One `df.query(...)`: keep (ACCEPT) or remove (IGNORE) the rows for which
    the condition holds; every remaining row is evaluated, so an illegal item
    in any of them raises. -/
def applyFilter (names : List Str) (null missing : Str) (ignore : Bool) (f : Filt) :
    List (List (Option Str)) → Except RErr (List (List (Option Str)))
  | [] => .ok []
  | r :: rs =>
    match condHolds names null missing f r with
    | .error e => .error e
    | .ok b =>
      match applyFilter names null missing ignore f rs with
      | .error e => .error e
      | .ok rest => .ok (if b != ignore then r :: rest else rest)

def signedVal (f : Filt) : Bool :=
  match f.val with
  | c :: _ => isSign c
  | [] => false

/-- `for s in statements:` — the filters are applied one after the other. -/
def applyFilters (names : List Str) (null missing : Str) (ignore : Bool) :
    List Filt → List (List (Option Str)) → Except RErr (List (List (Option Str)))
  | [], rows => .ok rows
  | f :: fs, rows =>
    -- pandas 3.0.5: `` `a a` >= -3 `` on a frame without rows (the converted column then has dtype object)
    if !f.op.isStr && rows.isEmpty && signedVal f then .error .signedOnEmpty else
    match applyFilter names null missing ignore f rows with
    | .error e => .error e
    | .ok rows' => applyFilters names null missing ignore fs rows'

/-! ### read_nonmem_dataset -/

def rawCell : Option Str → Cell
  | some t => .str t
  | none => .none

def dateNames : List Str := ["DATE".toList, "DAT1".toList, "DAT2".toList, "DAT3".toList]
def timeName : Str := "TIME".toList

/-- Convert column `j` of every row if `parse j`, leave it raw otherwise.
    (pandas converts column by column; every failure is a DatasetError, so the
    order does not change the observable outcome.) -/
def convertRow (null missing : Str) (parse : List Bool) (row : List (Option Str)) :
    Except RErr (List Cell) :=
  match parse, row with
  | p :: ps, x :: xs =>
    let c : Except RErr Cell :=
      if p then (match convertItem null missing x with
                 | .ok c => .ok c
                 | .error _ => .error .item)
      else .ok (rawCell x)
    (match c with
     | .error e => .error e
     | .ok c => match convertRow null missing ps xs with
       | .error e => .error e
       | .ok cs => .ok (c :: cs))
  | _, _ => .ok []

def mapRows {α β : Type} (f : α → Except RErr β) : List α → Except RErr (List β)
  | [] => .ok []
  | a :: r => match f a with
    | .error e => .error e
    | .ok b => match mapRows f r with
      | .error e => .error e
      | .ok bs => .ok (b :: bs)

def cellEqNum (a b : Cell) : Bool :=
  match a, b with
  | .num x, .num y => Dec.cmpF x y == .eq
  | _, _ => false

/-- equality as `Series.unique()` sees it: all NaN are one value -/
def cellSameKey (a b : Cell) : Bool :=
  match a, b with
  | .nan, .nan => true
  | _, _ => cellEqNum a b

/-- `id_change = id_series.diff(1) != 0` (a difference involving NaN is NaN, and NaN != 0) -/
def changeFlags : Option Cell → List Cell → List Bool
  | _, [] => []
  | prev, c :: r =>
    (match prev with
     | none => true
     | some p => !cellEqNum p c) :: changeFlags (some c) r

def countDistinct : List Cell → Nat
  | [] => 0
  | c :: r => (if r.any (cellSameKey c) then 0 else 1) + countDistinct r

def cumsumFlags : Nat → List Bool → List Nat
  | _, [] => []
  | k, b :: r => let k' := if b then k + 1 else k; k' :: cumsumFlags k' r

def setCol (j : Nat) (vals : List Cell) (rows : List (List Cell)) : List (List Cell) :=
  (rows.zip vals).map (fun (r, v) => r.set j v)

def getCol (j : Nat) (rows : List (List Cell)) : List Cell :=
  rows.map (fun r => (r[j]?).getD .none)

structure Result where
  idInt : Bool                -- the ID / L1 column was cast to int32
  rows : List (List Cell)
  deriving DecidableEq, Repr

def hasDup : List Str → Bool
  | [] => false
  | n :: r => r.contains n || hasDup r

/-- `read_nonmem_dataset(io, raw=False, ignore_character=ic, colnames, drop,
    null_value=null, ignore=…/accept=…, dtype=None, missing_data_token=missing)`.
    `mode`: 0 no filter, 1 IGNORE, 2 ACCEPT. -/
def readDataset (contents : Str) (ic : Char) (names : List Str) (drop : List Bool)
    (null missing : Str) (mode : Nat) (filters : List Filt) : Except RErr Result :=
  let nonDropped := (names.zip drop).filterMap (fun (n, d) => if d then none else some n)
  if hasDup nonDropped then .error .notUnique else
  -- duplicates involving dropped names give a frame with repeated labels: not modelled
  if hasDup names || drop.length ≠ names.length then .error .outside else
  match prefilter ic contents with
  | .error e => .error e
  | .ok lines =>
  match buildTable names.length null lines with
  | .error e => .error e
  | .ok rows =>
  let filtered : Except RErr (List (List (Option Str))) :=
    if mode = 0 || filters.isEmpty then .ok rows
    else applyFilters names null missing (mode = 1) filters rows
  match filtered with
  | .error e => .error e
  | .ok rows =>
  let special := timeName :: dateNames
  let parse := (names.zip drop).map (fun (nm, d) => !d && !special.contains nm)
  match mapRows (convertRow null missing parse) rows with
  | .error e => .error e
  | .ok cells =>
  -- _make_ids_unique and the int32 cast
  let idcol : Option Str :=
    if names.contains "ID".toList then some "ID".toList
    else if names.contains "L1".toList then some "L1".toList else none
  let step2 : Except RErr Result :=
    match idcol with
    | none => .ok ⟨false, cells⟩
    | some idn =>
      match idxOf names idn with
      | none => .error .outside
      | some j =>
        if !(parse[j]?).getD false then
          -- a dropped ID column stays text; `astype('int32')` of text is not modelled
          .error .outside
        else
          let ids := getCol j cells
          let flags := changeFlags none ids
          let nchange := (flags.filter id).length
          let cells1 :=
            if nchange ≠ countDistinct ids then
              setCol j ((cumsumFlags 0 flags).map (fun k => Cell.num ⟨false, k, 0⟩)) cells
            else cells
          let ids1 := getCol j cells1
          -- `df[idcol].astype('int32')` raises on NaN (only reached when the ids were not renumbered)
          if ids1.any (fun c => match c with
              | .nan => true
              | .num d => (match d.classify with | .inf _ => true | _ => false)
              | _ => false) then .error .idNonFinite else
          let allInt := ids1.all (fun c => match c with | .num d => d.isInt32 | _ => false)
          -- the int32 image of -0.0 (or of a decimal that underflows to -0.0) is 0
          let cells2 :=
            if allInt then
              setCol j (ids1.map (fun c => match c with
                | .num d => (match d.classify with | .zero => Cell.num ⟨false, 0, 0⟩ | _ => c)
                | _ => c)) cells1
            else cells1
          .ok ⟨allInt, cells2⟩
  match step2 with
  | .error e => .error e
  | .ok res =>
  -- TIME: parsed if there is no DATE-like column and every item converts
  match idxOf names timeName with
  | none => .ok res
  | some jt =>
    if names.any (fun nm => dateNames.contains nm) then .ok res
    else
      let raw := rows.map (fun r => (r[jt]?).getD none)
      match mapRows (fun x => match convertItem null missing x with
                              | .ok c => Except.ok c
                              | .error _ => Except.error RErr.item) raw with
      | .error _ => .ok res
      | .ok tv => .ok ⟨res.idInt, setCol jt tv res.rows⟩

/-! ### spec: documented table building and filtering -/

/-- "If the number of columns in $INPUT is larger than the length of some row,
    NM-TRAN will … pad with NULLs"; "if any line has more columns than $INPUT
    all extra columns are considered to be DROPed": every row independently. -/
def specRow (n : Nat) (items : List Str) : List Str :=
  (items ++ List.replicate (n - items.length) []).take n

def specTable (n : Nat) (lines : List Str) : List (List Str) :=
  lines.map (fun l => specRow n (specItems l))

end Pharmpy.C13
