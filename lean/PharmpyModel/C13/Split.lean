/-
  C13 — splitting a data row into items.

  MODEL side (mirrors /repo/src/pharmpy/model/external/nonmem/dataset.py and the
  python engine of pandas.read_table it calls):

      sep = r' *, *| *[\t] *| +'           (read_nonmem_dataset)
      pat.split(line.strip())              (pandas python_parser._read, regex separator)

  `sepLen` is the length of the leftmost-alternative greedy match of the
  separator regex at the head of the text (0 = no match; the regex cannot match
  the empty string), `reSplit` is `re.split` for that regex: scan left to
  right, at a match emit the field and continue after the match.

  SPEC side: the rules of /repo/docs/NONMEM.rst, "NM-TRAN dataset parsing", as
  a tokenizer state machine `tok` (states lead / item / gap / delim).
-/
namespace Pharmpy.C13

abbrev Str := List Char

/-! ### model: the separator regex and `re.split` -/

/-- Number of leading spaces (the greedy ` *`). -/
def spLen : Str → Nat
  | [] => 0
  | c :: r => if c = ' ' then spLen r + 1 else 0

/-- Text after the leading spaces. -/
def dropSp : Str → Str
  | [] => []
  | c :: r => if c = ' ' then dropSp r else c :: r

def isDelim (c : Char) : Bool := c = ',' || c = '\t'

/-- Length of the match of ` *, *| *[\t] *| +` at the head of `s`; 0 = no match.
    Alternatives 1 and 2: all spaces, the comma / TAB, all following spaces.
    (Greedy ` *` followed by a non-space literal cannot succeed after giving
    spaces back.)  Alternative 3: the maximal run of spaces. -/
def sepLen (s : Str) : Nat :=
  match dropSp s with
  | c :: r => if isDelim c then spLen s + 1 + spLen r else spLen s
  | [] => spLen s

def consHead (c : Char) : List Str → List Str
  | [] => [[c]]
  | f :: fs => (c :: f) :: fs

/-- `re.split(sep, s)`: `splitGo k s` skips `k` characters still belonging to
    the last separator match, then continues. The head of the result is the
    field being read. -/
def splitGo : Nat → Str → List Str
  | _, [] => [[]]
  | k + 1, _ :: cs => splitGo k cs
  | 0, c :: cs =>
    match sepLen (c :: cs) with
    | 0 => consHead c (splitGo 0 cs)
    | n + 1 => [] :: splitGo n cs

def reSplit (s : Str) : List Str := splitGo 0 s

/-- Python `str.isspace` on the ASCII range (what `str.strip()` removes). -/
def isPyWs (c : Char) : Bool :=
  c = ' ' || c = '\t' || c = '\n' || c = '\r' || c = '\x0b' || c = '\x0c' ||
  c = '\x1c' || c = '\x1d' || c = '\x1e' || c = '\x1f'

def dropWs : Str → Str
  | [] => []
  | c :: r => if isPyWs c then dropWs r else c :: r

/-- `line.strip()`. -/
def pyStrip (s : Str) : Str := (dropWs (dropWs s).reverse).reverse

/-- Strip spaces only (what the documented rules say about the row's ends). -/
def spStrip (s : Str) : Str := (dropSp (dropSp s).reverse).reverse

/-- The items pandas sees for one physical line. -/
def lineItems (line : Str) : List Str := reSplit (pyStrip line)

/-! ### spec: the documented tokenizer -/

inductive St where
  | lead    -- at the beginning of the row: spaces are ignored
  | item    -- inside an item
  | gap     -- after an item and one or more spaces: a comma may still follow
  | delim   -- after a comma or TAB (and the spaces after it): an item must follow
  deriving DecidableEq, Repr

/-- Documented rules (docs/NONMEM.rst):
    * delimiter between items is comma, space or TAB;
    * spaces before or after a comma are ignored; spaces after a TAB are ignored;
    * spaces in the beginning or end of a row are ignored;
    * a comma at the beginning or end of a row inserts NULL before / after it;
    * an item surrounded by two commas / TABs is NULL (the empty item).
    In state `item` the head of the result is the rest of the current item; in
    states `gap`, `delim` the result is the list of the items still to come.
    (A space before a TAB is an NM-TRAN error: rows with it are excluded by
    hypothesis; here the TAB then simply acts as the delimiter.) -/
def tok : St → Str → List Str
  | .lead, [] => [[]]
  | .lead, c :: r =>
    if c = ' ' then tok .lead r
    else if isDelim c then [] :: tok .delim r
    else consHead c (tok .item r)
  | .item, [] => [[]]
  | .item, c :: r =>
    if c = ' ' then [] :: tok .gap r
    else if isDelim c then [] :: tok .delim r
    else consHead c (tok .item r)
  | .gap, [] => []
  | .gap, c :: r =>
    if c = ' ' then tok .gap r
    else if isDelim c then tok .delim r
    else consHead c (tok .item r)
  | .delim, [] => [[]]
  | .delim, c :: r =>
    if c = ' ' then tok .delim r
    else if isDelim c then [] :: tok .delim r
    else consHead c (tok .item r)

/-- Items of a row by the documented rules. -/
def specItems (line : Str) : List Str := tok .lead line

/-- "Spaces before a TAB gives ERROR": no space is directly followed by a TAB. -/
def noSpTab : Str → Bool
  | [] => true
  | c :: r => (match r with
      | d :: _ => !(c = ' ' && d = '\t')
      | [] => true) && noSpTab r

/-- The row, after removing the spaces at its ends, neither starts nor ends
    with a TAB or another white-space control character. (The documented rules
    speak about spaces and commas at the ends of a row only; python's
    `strip()` also removes TABs there.) -/
def edgeOk (line : Str) : Bool :=
  let s := spStrip line
  (match s with | c :: _ => !isPyWs c | [] => true) &&
  (match s.reverse with | c :: _ => !isPyWs c | [] => true)

end Pharmpy.C13
