import PharmpyModel.C13.Reader
/-
  C13 — write / read histories.

  The file-system side of `pharmpy.modeling.write_csv` / `write_model`
  (src/pharmpy/modeling/write_csv.py, common.py, external/nonmem/model.py
  `write_files`) as a map path ↦ content.  All paths of a history live in one
  directory and are given by their file names.  A data frame is given by the
  texts `DataFrame.to_csv(na_rep=token, index=False)` renders for its header
  and cells (the float → text step is pandas', not modelled).
-/
namespace Pharmpy.C13

structure Frame where
  cols : List Str
  rows : List (List Str)
  deriving DecidableEq, Repr

def joinWith (sep : Char) : List Str → Str
  | [] => []
  | [x] => x
  | x :: y :: r => x ++ sep :: joinWith sep (y :: r)

/-- `DataFrame.to_csv(index=False)`: header line, one line per row, every line newline-terminated -/
def renderCsv (f : Frame) : Str :=
  (joinWith ',' f.cols ++ ['\n']) ++ (f.rows.map (fun r => joinWith ',' r ++ ['\n'])).flatten

/-- a character that is neither white space nor a comma (what a rendered number consists of) -/
def isPlain (c : Char) : Bool := !(isPyWs c) && !(c = ',')

abbrev FS := List (Str × Str)

def FS.get (fs : FS) (p : Str) : Option Str :=
  match fs with
  | [] => none
  | (q, c) :: r => if q = p then some c else FS.get r p

def FS.set (fs : FS) (p c : Str) : FS :=
  match fs with
  | [] => [(p, c)]
  | (q, d) :: r => if q = p then (p, c) :: r else (q, d) :: FS.set r p c

/-- the part of a model that matters here -/
structure MState where
  dataset : Frame
  path : Option Str      -- datainfo.path
  name : Str             -- model.name
  deriving DecidableEq, Repr

inductive Target where
  | file : Str → Target    -- an explicit file path
  | dir : Target           -- the directory (or no path at all)
  deriving DecidableEq, Repr

/-- text before the last '.' (the whole name if there is none) -/
def stemOf (s : Str) : Str :=
  match s.reverse.dropWhile (fun c => c ≠ '.') with
  | [] => s
  | _ :: r => if r.isEmpty then s else r.reverse

/-- `create_dataset_path`: an explicit file is used as it is; for a directory the file name is
    `datainfo.path.with_suffix('.csv').name`, or `model.name + '.csv'` without a datainfo path -/
def resolve (st : MState) : Target → Str
  | .file p => p
  | .dir =>
    match st.path with
    | some q => stemOf q ++ ".csv".toList
    | none => st.name ++ ".csv".toList

inductive WErr where
  | fileExists
  deriving DecidableEq, Repr

/-- `write_csv(model, path, force)`: refuse an existing target unless forced; otherwise the
    target's content becomes the rendering of the model's dataset — whatever was there before and
    whatever `datainfo.path` says — and `datainfo.path` is the target. -/
def writeCsv (fs : FS) (st : MState) (t : Target) (force : Bool) : Except WErr (FS × MState) :=
  let p := resolve st t
  if !force && (fs.get p).isSome then .error .fileExists
  else .ok (fs.set p (renderCsv st.dataset), { st with path := some p })

/-- `Model.replace(dataset=df)` drops `datainfo.path`; `Model.replace(dataset=df, datainfo=di)`
    keeps the path of `di` -/
def setData (st : MState) (f : Frame) (keepPath : Bool) : MState :=
  { st with dataset := f, path := if keepPath then st.path else none }

/-- `write_model(model, path, force)` as far as the data file goes: the model takes the stem of
    the path as its name; without a datainfo path the dataset is written next to the model file
    (`write_csv(model, path=path.parent, force=force)`); with one, no data file is written. -/
def writeModel (fs : FS) (st : MState) (mpath : Str) (force : Bool) : Except WErr (FS × MState) :=
  match st.path with
  | none => writeCsv fs { st with name := stemOf mpath } .dir force
  | some _ => .ok (fs, { st with name := stemOf mpath })

inductive HOp where
  | write : Target → Bool → HOp
  | setData : Frame → Bool → HOp
  | writeModel : Str → Bool → HOp
  deriving DecidableEq, Repr

/-- one step of a history; an operation that raises leaves everything as it was -/
def hstep (s : FS × MState) : HOp → FS × MState
  | .write t force => match writeCsv s.1 s.2 t force with | .ok s' => s' | .error _ => s
  | .setData f keep => (s.1, setData s.2 f keep)
  | .writeModel p force => match writeModel s.1 s.2 p force with | .ok s' => s' | .error _ => s

def hrun (s : FS × MState) (ops : List HOp) : FS × MState := ops.foldl hstep s

/-- the file `datainfo.path` points at holds the model's dataset -/
def InSync (s : FS × MState) : Prop :=
  ∀ p, s.2.path = some p → s.1.get p = some (renderCsv s.2.dataset)

end Pharmpy.C13
