import PharmpyModel.C13.Reader
/-
  C13 — reading a dataset through a model's $INPUT / $DATA
  (mirror of /repo/src/pharmpy/model/external/nonmem/parsing.py:
   `_synonym`, `parse_column_info`, `replace_synonym_in_filters`, `parse_dataset`).

  `$INPUT` is given as the list of options `key` / `key=value` as
  `OptionRecord.all_options` returns them; the `$DATA` filters as the list
  of (column as written, operator, value) in the order written.
-/
namespace Pharmpy.C13

/-- one `$INPUT` option: `key` or `key=value` -/
structure InOpt where
  key : Str
  value : Option Str
  deriving DecidableEq, Repr

/-- `_reserved_column_names` of `_synonym` -/
def reservedNames : List Str :=
  ["ID", "L1", "L2", "DV", "MDV", "RAW_", "MRG_", "RPT_", "TIME", "DATE", "DAT1", "DAT2", "DAT3",
   "EVID", "AMT", "RATE", "SS", "II", "ADDL", "CMT", "PCMT", "CALL", "CONT"].map String.toList

def isDropWord (s : Str) : Bool := s = "DROP".toList || s = "SKIP".toList

/-- `_synonym(key, value)`: (reserved name, synonym); `none` = DatasetError -/
def synonymOf (key value : Str) : Option (Str × Str) :=
  if reservedNames.contains key then some (key, value)
  else if reservedNames.contains value then some (value, key)
  else none

/-- result of `parse_column_info`: column names, drop flags, and the synonym dictionary
    `reserved name ↦ synonym` as an association list (latest assignment first). -/
structure ColInfo where
  names : List Str
  drop : List Bool
  repl : List (Str × Str)
  deriving DecidableEq, Repr

/-- `'_DROP' + str(n)` -/
def anonName (n : Nat) : Str := "_DROP".toList ++ (toString n).toList

/-- the loop of `parse_column_info` (`anon` = next_anonymous) -/
def parseColumnInfo : List InOpt → Nat → Option ColInfo
  | [], _ => some ⟨[], [], []⟩
  | o :: rest, anon =>
    match o.value with
    | some v =>
      if isDropWord o.key then
        (parseColumnInfo rest anon).map (fun c => ⟨v :: c.names, true :: c.drop, c.repl⟩)
      else if isDropWord v then
        (parseColumnInfo rest anon).map (fun c => ⟨o.key :: c.names, true :: c.drop, c.repl⟩)
      else
        match synonymOf o.key v with
        | none => none
        | some (res, syn) =>
          -- a later assignment to the same reserved name overrides: it is found first
          (parseColumnInfo rest anon).map (fun c => ⟨syn :: c.names, false :: c.drop, c.repl ++ [(res, syn)]⟩)
    | none =>
      if isDropWord o.key then
        (parseColumnInfo rest (anon + 1)).map (fun c => ⟨anonName anon :: c.names, true :: c.drop, c.repl⟩)
      else
        (parseColumnInfo rest anon).map (fun c => ⟨o.key :: c.names, false :: c.drop, c.repl⟩)

/-- dictionary lookup in the association list -/
def lookupSyn (repl : List (Str × Str)) (col : Str) : Option Str :=
  match repl with
  | [] => none
  | (r, s) :: rest => if r = col then some s else lookupSyn rest col

/-- one filter of `replace_synonym_in_filters`: the COLUMN child is replaced by the synonym
    if the column is a key of the dictionary, every other child is kept -/
def renameFilter (repl : List (Str × Str)) (f : Filt) : Filt :=
  match lookupSyn repl f.col with
  | some s => { f with col := s }
  | none => f

/-- `replace_synonym_in_filters(filters, replacements)`:
    `for f in filters: … result.append(s)` — one output per input, in the order given. -/
def replaceSynonyms (repl : List (Str × Str)) : List Filt → List Filt
  | [] => []
  | f :: fs => renameFilter repl f :: replaceSynonyms repl fs

structure MResult where
  names : List Str
  drop : List Bool
  res : Result
  deriving DecidableEq, Repr

/-- `parse_dataset(di, control_stream)` for a `$PRED` model (no `filter_observations`),
    without a `.datainfo` file. The dtype step casts ID / L1 to int32 and leaves float
    columns alone; a non-integral id column (which would be truncated) is not modelled. -/
def readModelDataset (opts : List InOpt) (contents : Str) (ic : Char) (null missing : Str)
    (mode : Nat) (filters : List Filt) : Except RErr MResult :=
  match parseColumnInfo opts 1 with
  | none => .error .item
  | some ci =>
    let fs := replaceSynonyms ci.repl filters
    match readDataset contents ic ci.names ci.drop null missing mode fs with
    | .error e => .error e
    | .ok r =>
      if (ci.names.contains "ID".toList || ci.names.contains "L1".toList) && !r.idInt then .error .outside
      else .ok ⟨ci.names, ci.drop, r⟩

end Pharmpy.C13
