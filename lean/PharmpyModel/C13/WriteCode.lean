import PharmpyModel.C13.History
import PharmpyModel.C13.ModelLevel
/-
  C13 — the `$DATA` record pharmpy generates for a dataset it writes.

  `Model.update_source` (src/pharmpy/model/external/nonmem/model.py), when the dataset / datainfo of a
  model changed:  `label = model.datainfo.names[0]`,
  `data_record.set_ignore_character_from_header(label)` (records/data_record.py) — the generated code says
  `IGNORE=c` with the character chosen from the first column label, because `write_csv` writes the frame
  with a header line (`DataFrame.to_csv(index=False)`, `renderCsv`) that NM-TRAN must skip.

  `str.isalpha()` on the first character is modelled for ASCII labels (`isAlpha` = `[A-Za-z]`);
  non-ASCII column labels are outside.
-/
namespace Pharmpy.C13

/-- `DataRecord.set_ignore_character_from_header(label)` followed by `.ignore_character`:
    `c = label[0]; '@' if c.isalpha() else c`.  `none` = IndexError on the empty label.
    (`set_ignore_character(c)` with a one-character `c` stores the character unquoted.) -/
def ignoreCharFromHeader : Str → Option Char
  | [] => none
  | c :: _ => some (if isAlpha c then '@' else c)

/-- the header line `DataFrame.to_csv(index=False)` writes -/
def headerLine (f : Frame) : Str := joinWith ',' f.cols

/-- the data lines `DataFrame.to_csv(index=False)` writes after the header -/
def dataLines (f : Frame) : Str := (f.rows.map (fun r => joinWith ',' r ++ ['\n'])).flatten

/-- IGNORE character of the `$DATA` record `update_source` generates for a model whose dataset was
    written: chosen from `datainfo.names[0]`, the first column label of the frame -/
def generatedIgnore (f : Frame) : Option Char :=
  match f.cols with
  | [] => none
  | l :: _ => ignoreCharFromHeader l

end Pharmpy.C13
