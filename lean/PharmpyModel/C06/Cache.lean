/-
  C06 — cached hashes (`cache_method`, `frozenmapping._hash`) must not leak into derived objects.

  An object is its content and an optional cached hash.  `hashIt` fills the cache, a derivation
  (`replace`) builds new content.  The derivation either starts from a cache-free object
  (`replaceFresh`: `frozenmapping(new_dict)`, every `create`/constructor path) or from a clone that
  carries the source's cache (`replaceClone`).  Which stores a class performs outside its constructor
  is checked by T3a (`cache_and_stores`): a store into a clone or a copied cache is a refused shape.
-/
namespace Pharmpy.C06.Cache

abbrev Content := List (String × String)

structure Obj where
  content : Content
  cache : Option Nat
  deriving Repr

inductive Op where
  | hashIt
  | replaceFresh (k v : String)
  | replaceClone (k v : String)
  /-- copy constructor of identical content: shares content and cache -/
  | copyCtor
  deriving Repr, DecidableEq

def setKey (c : Content) (k v : String) : Content :=
  if c.any (·.1 == k) then c.map (fun kv => if kv.1 == k then (k, v) else kv) else c ++ [(k, v)]

def step (H : Content → Nat) : Op → Obj → Obj
  | .hashIt, o => { o with cache := some (o.cache.getD (H o.content)) }
  | .replaceFresh k v, o => ⟨setKey o.content k v, none⟩
  | .replaceClone k v, o => ⟨setKey o.content k v, o.cache⟩
  | .copyCtor, o => o

def run (H : Content → Nat) (ops : List Op) (o : Obj) : Obj := ops.foldl (fun o op => step H op o) o

/-- What `hash(o)` returns. -/
def hashOf (H : Content → Nat) (o : Obj) : Nat := o.cache.getD (H o.content)

/-- The invariant: a cached hash is the hash of the content the object has now. -/
def CacheOK (H : Content → Nat) (o : Obj) : Prop := o.cache = none ∨ o.cache = some (H o.content)

def Op.cloneFree : Op → Bool
  | .replaceClone _ _ => false
  | _ => true

end Pharmpy.C06.Cache
