/-
  C06 — well-formedness clause "parameter initial values lie within their bounds" for the parameters that
  `pharmpy.modeling.add_covariate_effect` creates (`covariate_effect.py`: `_choose_bounds`, `_choose_param_inits`;
  `_create_thetas` stores the triple with the NON-validating `Parameter(...)` constructor, so nothing downstream
  re-checks it).

  Numbers: the covariate statistics (median of the per-individual medians, minimum, maximum) are rationals.
  Every bound the code returns is `round(x, 4)` or a constant with at most four decimals, so bounds are integers in
  units of `1e-4` (`lower4`, `upper4`); the initial estimate (`0.001`, `1.01`, `(upper + lower) / 2`, `upper / 5`) is an
  integer in units of `1e-5` (`init10`).  `log(0.01, 10)` / `log(100, 10)` are the exact `-2` / `2`.
-/
namespace Pharmpy.C06.CovInit

inductive Effect where
  | exp | lin | pieceLin | pow | cat | cat2 | other
  deriving DecidableEq, Repr, Inhabited

inductive Err where
  /-- `Exception('Median cannot be same as min or max, cannot use piecewise-linear parameterization.')` -/
  | pieceLinMedianAtExtreme
  deriving DecidableEq, Repr, Inhabited

/-- Python `round(n / d)` (half to even) for `d > 0`. -/
def rnd (n : Int) (d : Nat) : Int :=
  let fl := n / (d : Int)
  let r := n % (d : Int)
  if 2 * r < (d : Int) then fl
  else if (d : Int) < 2 * r then fl + 1
  else if fl % 2 = 0 then fl else fl + 1

/-- `round(q, 4)` in units of `1e-4`. -/
def round4 (q : Rat) : Int := rnd (q.num * 10000) q.den

/-- Python `max(a, b)` / `min(a, b)` -/
def pmax (a b : Rat) : Rat := if a < b then b else a
def pmin (a b : Rat) : Rat := if b < a then b else a

/-- `100000` in units of `1e-4` -/
def big4 : Int := 1000000000

/-- `_choose_bounds(effect, cov_median, cov_min, cov_max, index)`: `(lower, upper)` in units of `1e-4`. -/
def chooseBounds (eff : Effect) (md mn mx : Rat) (index : Option Nat) : Except Err (Int × Int) :=
  match eff with
  | .exp =>
    let minDiff := mn - md
    let maxDiff := mx - md
    if minDiff = 0 ∨ maxDiff = 0 then .ok (100, 1000000)       -- the early return `(0.01, 100)`
    else .ok (round4 (pmax ((-2) / maxDiff) (2 / minDiff)), round4 (pmin ((-2) / minDiff) (2 / maxDiff)))
  | .lin =>
    let upper := if md = mn then big4 else round4 (1 / (md - mn))
    let lower := if md = mx then -big4 else round4 (1 / (md - mx))
    .ok (lower, upper)
  | .pieceLin =>
    if md = mn ∨ md = mx then .error .pieceLinMedianAtExtreme
    else if index = some 0 then .ok (-big4, round4 (1 / (md - mn)))
    else .ok (round4 (1 / (md - mx)), big4)
  | .pow => .ok (-1000000, big4)
  | .cat => .ok (-10000, 50000)
  | .cat2 => .ok (0, 60000)
  | .other => .ok (-big4, big4)

structure Inits where
  /-- initial estimate, units of `1e-5` -/
  init10 : Int
  /-- bounds, units of `1e-4` -/
  lower4 : Int
  upper4 : Int
  deriving DecidableEq, Repr, Inhabited

/-- `init_default = 0.001` in units of `1e-5` -/
def initDefault10 : Int := 100

/-- the `init` chosen by `_choose_param_inits` for given bounds -/
def initFor (eff : Effect) (lower upper : Int) : Int :=
  match eff with
  | .exp =>
    if 10 * lower > initDefault10 ∨ initDefault10 > 10 * upper then
      let mid := 5 * (upper + lower)                      -- `(upper + lower) / 2`
      if mid = 0 then 2 * upper else mid                  -- `upper / 5`
    else initDefault10
  | .cat2 => 101000
  | _ => initDefault10

/-- `_choose_param_inits(effect, model, covariate, index)` as a function of the three statistics it reads. -/
def chooseInits (eff : Effect) (md mn mx : Rat) (index : Option Nat) : Except Err Inits :=
  match chooseBounds eff md mn mx index with
  | .error e => .error e
  | .ok (lower, upper) => .ok ⟨initFor eff lower upper, lower, upper⟩

/-- what `Parameter.create` demands: `lower <= init <= upper` -/
def Inits.wf (r : Inits) : Prop := 10 * r.lower4 ≤ r.init10 ∧ r.init10 ≤ 10 * r.upper4

instance (r : Inits) : Decidable r.wf := by unfold Inits.wf; exact inferInstance

/-- the created parameter is well formed (a refusal creates none) -/
def initOk (eff : Effect) (md mn mx : Rat) (index : Option Nat) : Bool :=
  match chooseInits eff md mn mx index with
  | .ok r => decide r.wf
  | .error _ => true

/-- The decidable side condition under which the *linear* upper bound `round(1 / (median - min), 4)` does not fall
    below the default initial estimate `0.001` (it does for covariates whose median is more than ~1050 above the
    minimum).  Only `lin`, and `piece_lin` with `index = 0`, have such an upper bound. -/
def upperAdmitsDefault (eff : Effect) (md mn : Rat) (index : Option Nat) : Bool :=
  match eff with
  | .lin => decide (md = mn) || decide (10 ≤ round4 (1 / (md - mn)))
  | .pieceLin => !decide (index = some 0) || decide (10 ≤ round4 (1 / (md - mn)))
  | _ => true

end Pharmpy.C06.CovInit
