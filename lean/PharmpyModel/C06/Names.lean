/-
  C06 — name uniqueness in the model's named collections (Parameters, RandomVariables, DataInfo).

  An item carries the names it defines (a parameter or column one, a joint distribution several)
  and a rendering of its other attributes (init/bounds/fix, …).  The collection operations of the
  real classes (`create`, `+`, reflected `+`, `replace`) follow one of the policies below; which
  one is read off the source by `harness/translate/c06_containers.py` into
  `Generated/Containers.lean` on every run.
-/
namespace Pharmpy.C06.Names

structure Item where
  names : List String
  attrs : String
  deriving DecidableEq, Repr, Inhabited

def namesOf (xs : List Item) : List String := xs.flatMap (·.names)

/-- `create`: walk the items, remember the names seen, refuse the first repeated name
    (`Parameters.create`, `RandomVariables.create`). -/
def checkFrom (seen : List String) : List Item → Except String Unit
  | [] => .ok ()
  | x :: xs =>
    match checkNames seen x.names with
    | .error n => .error n
    | .ok seen' => checkFrom seen' xs
where
  checkNames (seen : List String) : List String → Except String (List String)
    | [] => .ok seen
    | n :: ns => if seen.contains n then .error n else checkNames (n :: seen) ns

def createChecked (xs : List Item) : Except String (List Item) :=
  match checkFrom [] xs with
  | .ok () => .ok xs
  | .error n => .error n

inductive Policy where
  /-- the result is passed through the checking `create` -/
  | checked
  /-- the raw constructor is applied to the concatenation (or `create` itself does not check) -/
  | raw
  /-- only the newcomer is tested, by *value* membership (`if item in self`), then the raw constructor -/
  | byValue
  deriving DecidableEq, Repr, Inhabited

/-- `self + other` (or `other + self` when `reflected`) under a policy. -/
def combine (p : Policy) (reflected : Bool) (self other : List Item) : Except String (List Item) :=
  let r := if reflected then other ++ self else self ++ other
  match p with
  | .checked => createChecked r
  | .raw => .ok r
  | .byValue =>
    match other.find? (fun x => self.contains x) with
    | some x => .error (x.names.headD "")
    | none => .ok r

/-- The well-formedness clause: no name is defined twice. -/
def uniqueNames (xs : List Item) : Bool := decide (namesOf xs).Nodup

structure OpSpec where
  cls : String
  method : String
  /-- what the other operand is: `item`, `collection`, `sequence`, or `-` for create/replace -/
  operand : String
  policy : Policy
  deriving DecidableEq, Repr, Inhabited

end Pharmpy.C06.Names
