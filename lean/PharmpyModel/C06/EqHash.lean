/-
  C06 (T3a) — value model of `__eq__` / `__hash__` of pharmpy's value classes.

  A Python object graph is a `Val`.  How `==` and `hash` treat an object is
  decided by its class, looked up in a table of `ClassSpec`s; the table for the
  real code is regenerated on every run by `harness/translate/c06_eqhash.py`
  into `PharmpyModel/Generated/EqHash.lean`.

  `Val` is deliberately first-order (sequences are `nil`/`cons` chains) so that
  every function below is plain structural recursion and theorems are plain
  structural induction.
-/
namespace Pharmpy.C06

/-- How `__eq__` compares a field. `plain`: `self.f == other.f`;
    `content`: by contents of an identity object (`nx.to_dict_of_dicts(g)`, `df.equals`). -/
inductive CmpMode where
  | plain | content
  deriving DecidableEq, Repr, Inhabited

/-- How `__hash__` uses a field. `plain`: `hash(self.f)` inside the hashed tuple;
    `content`: a content digest (`hash_df_runtime(df)`, `ImmutableMatrix(m)`);
    `orderedItems`: `hash(tuple(d.items()))`; `itemSet`: `hash(frozenset(d.items()))`;
    `contentPart`: a digest of a part of the contents (`frozenset(g.nodes)`);
    `orderedContent`: a digest that depends on the insertion order of the contents (`tuple(g.edges.data('rate'))`). -/
inductive HashMode where
  | plain | content | contentPart | orderedContent | orderedItems | itemSet
  deriving DecidableEq, Repr, Inhabited

/-- Python values as far as `==`/`hash` of the value classes can see them. -/
inductive Val where
  /-- str / int / float / bool / None / symengine expression: `==` and `hash` agree (trusted). -/
  | atom (s : String)
  /-- an object with default identity `==`/`hash` (networkx graph, DataFrame); `content` is a canonical rendering of what it holds -/
  | ident (id : Nat) (content : String)   -- `content` = canonical (order-free) rendering, then `#`, then an insertion-order rendering
  /-- a pandas DataFrame: identity object that is *unhashable*; `content` is a digest of values, dtypes, columns, index -/
  | frame (id : Nat) (content : String)
  /-- a `dict` in insertion order (keys distinct), entries rendered canonically -/
  | dict (kvs : List (String × String))
  | nil
  | cons (hd tl : Val)
  /-- a tuple; `items` is a `nil`/`cons` chain -/
  | tup (items : Val)
  /-- an instance of a table class; `vals` is a `nil`/`cons` chain, positional w.r.t. `ClassSpec.fields` -/
  | obj (cls : String) (vals : Val)
  /-- hash key only: the *set* of entries of a mapping (`frozenset(d.items())`), compared up to order by `keyEqv` -/
  | dset (kvs : List (String × String))
  /-- hash key only: hashing raised `TypeError` (unhashable) or the class is not in the table -/
  | err (why : String)
  deriving DecidableEq, Repr, Inhabited

/-- Declared kind of a field (from the `__init__` annotations). -/
inductive Kind where
  | prim | ident | frame | dict | opaque
  | cls (name : String)
  | tupleOf (k : Kind)
  | either (a b : Kind)
  deriving DecidableEq, Repr, Inhabited

structure FieldSpec where
  name : String
  cmp : Option CmpMode
  hash : Option HashMode
  kind : Kind
  deriving DecidableEq, Repr, Inhabited

structure ClassSpec where
  name : String
  /-- `__eq__` starts with `if hash(self) != hash(other): return False` -/
  hashGuard : Bool
  /-- all instance fields in `__init__` order (base class fields last) -/
  fields : List FieldSpec
  deriving DecidableEq, Repr, Inhabited

abbrev Table := List ClassSpec

def Table.find (T : Table) (c : String) : Option ClassSpec :=
  T.find? (fun s => s.name == c)

/-- Python `dict.__eq__` (also equality of the `frozenset`s of the items): same size, every entry of `a`
    is an entry of `b` and conversely.  (For real dicts — distinct keys — one inclusion implies the
    other; stating both keeps the relation symmetric without a side condition.) -/
def dictEq (a b : List (String × String)) : Bool :=
  a.length == b.length && a.all (fun kv => b.contains kv) && b.all (fun kv => a.contains kv)

/-! ### per-field modes (non-recursive helpers; `dflt` is the plain result) -/

/-- The canonical, order-free part of a content rendering: everything before the first `#`.
    (The harness renders a graph as `nodes|edges#edges-in-insertion-order`.) -/
def canonOf (c : String) : String := String.ofList (c.toList.takeWhile (· != '#'))

/-- The first part (before `|`) of the canonical rendering: the nodes of a graph. -/
def partOf (c : String) : String := String.ofList ((canonOf c).toList.takeWhile (· != '|'))

/-- What a content digest of a field sees: the canonical contents of an identity object. -/
def contentKey (dflt : Val) : Val → Val
  | .ident _ c => .atom (canonOf c)
  | .frame _ c => .atom (canonOf c)
  | _ => dflt

/-- What a digest of a part of the contents sees. -/
def contentPartKey (dflt : Val) : Val → Val
  | .ident _ c => .atom (partOf c)
  | .frame _ c => .atom (partOf c)
  | _ => dflt

/-- What a digest of an insertion-ordered iteration over the contents sees: the whole rendering,
    including the order-dependent part. -/
def orderedKey (dflt : Val) : Val → Val
  | .ident _ c => .atom c
  | .frame _ c => .atom c
  | _ => dflt

/-- What `hash(tuple(d.items()))` sees: the entries in insertion order. -/
def itemsKey (dflt : Val) : Val → Val
  | .dict kvs => .dict kvs
  | _ => dflt

/-- What `hash(frozenset(d.items()))` sees: the entries as a set. -/
def itemSetKey (dflt : Val) : Val → Val
  | .dict kvs => .dset kvs
  | _ => dflt

/-- Equality of hash keys: structural, except that entry sets are compared as sets.
    `hash a = hash b` is modelled as `H (hashKey a) = H (hashKey b)` for every `H` that respects `keyEqv`. -/
def keyEqv : Val → Val → Bool
  | .atom s, .atom t => s == t
  | .dict a, .dict b => a == b
  | .dset a, .dset b => dictEq a b
  | .nil, .nil => true
  | .cons h t, .cons h' t' => keyEqv h h' && keyEqv t t'
  | .tup a, .tup b => keyEqv a b
  | .obj c a, .obj c' b => c == c' && keyEqv a b
  | .err v, .err w => v == w
  | _, _ => false

/-- Content comparison of a field (`to_dict_of_dicts(g) == …`, `df.equals(…)`). -/
def eqContent (dflt : Bool) : Val → Val → Bool
  | .ident _ c, .ident _ d => canonOf c == canonOf d
  | .frame _ c, .frame _ d => canonOf c == canonOf d
  | _, _ => dflt

/-- The part of the hash key contributed by a field hashed in mode `m`. -/
def fieldKey (m : HashMode) (plainKey : Val) (h : Val) : Val :=
  match m with
  | .plain => plainKey
  | .content => contentKey plainKey h
  | .contentPart => contentPartKey plainKey h
  | .orderedContent => orderedKey plainKey h
  | .orderedItems => itemsKey plainKey h
  | .itemSet => itemSetKey plainKey h

/-- The comparison of a field compared in mode `m`. -/
def fieldEq (m : CmpMode) (plainEq : Bool) (h h' : Val) : Bool :=
  match m with
  | .plain => plainEq
  | .content => eqContent plainEq h h'

def isIdentLike : Val → Bool
  | .ident _ _ => true
  | .frame _ _ => true
  | _ => false

/-- The per-field law: the way a field is hashed must be determined by what the way it is
    compared can see.  Hashed but not compared, identity hash under a content comparison, and
    an order-dependent hash under an order-free comparison are the three ways to break it.
    `dflt` is the lawfulness of the field value itself. -/
def fieldLawful (f_hash : Option HashMode) (f_cmp : Option CmpMode) (dflt : Bool) (h : Val) : Bool :=
  match f_hash, f_cmp with
  | none, _ => true
  | some _, none => false
  | some .plain, some .plain => dflt
  | some .content, some .content => isIdentLike h || dflt
  | some .contentPart, some .content => isIdentLike h || dflt
  | some .plain, some .content => !isIdentLike h && dflt
  | some .content, some .plain => !isIdentLike h && dflt
  | some .contentPart, some .plain => !isIdentLike h && dflt
  | some .orderedContent, some _ => !isIdentLike h && dflt
  | some .orderedItems, some _ =>
    match h with
    | .dict kvs => decide (kvs.length ≤ 1)
    | _ => !isIdentLike h && dflt
  | some .itemSet, some _ =>
    match h with
    | .dict _ => true
    | _ => !isIdentLike h && dflt

/-! ### `hash` as the key that is hashed -/

mutual
/-- The structure that `hash(v)` is a function of. `hash(a) = hash(b)` is modelled
    as `H (hashKey a) = H (hashKey b)` for an arbitrary `H`. -/
def hashKey (T : Table) : Val → Val
  | .atom s => .atom s
  | .ident i _ => .atom ("id:" ++ toString i)
  | .frame _ _ => .err "unhashable DataFrame"
  | .dict _ => .err "unhashable dict"
  | .nil => .nil
  | .cons h t => .cons (hashKey T h) (hashKey T t)
  | .tup a => .tup (hashKey T a)
  | .obj c vs =>
    match T.find c with
    | none => .err ("unknown class " ++ c)
    | some sp => .obj c (hashFs T sp.fields vs)
  | .dset kvs => .dset kvs
  | .err w => .err w
def hashFs (T : Table) : List FieldSpec → Val → Val
  | f :: fs, .cons h t =>
    match f.hash with
    | none => hashFs T fs t
    | some m => .cons (fieldKey m (hashKey T h) h) (hashFs T fs t)
  | _, _ => .nil
end

/-! ### `==` -/

mutual
def eqV (T : Table) : Val → Val → Bool
  | .atom s, .atom t => s == t
  | .ident i _, .ident j _ => i == j
  | .dict a, .dict b => dictEq a b
  | .nil, .nil => true
  | .cons h t, .cons h' t' => eqV T h h' && eqV T t t'
  | .tup a, .tup b => eqV T a b
  | .obj c vs, .obj c' vs' =>
    c == c' &&
    match T.find c with
    | none => false
    | some sp =>
      (!sp.hashGuard || keyEqv (hashKey T (.obj c vs)) (hashKey T (.obj c' vs'))) && eqFs T sp.fields vs vs'
  | _, _ => false
def eqFs (T : Table) : List FieldSpec → Val → Val → Bool
  | [], .nil, .nil => true
  | f :: fs, .cons h t, .cons h' t' =>
    (match f.cmp with
     | none => true
     | some m => fieldEq m (eqV T h h') h h') && eqFs T fs t t'
  | _, _, _ => false
end

/-! ### the law `a == b → hash a = hash b`, decided on a value -/

mutual
/-- Decidable side-condition under which `eqV a b → hashKey a = hashKey b` is proved. -/
def lawful (T : Table) : Val → Bool
  | .atom _ => true
  | .ident _ _ => true
  | .frame _ _ => true
  | .dict _ => true
  | .nil => true
  | .cons h t => lawful T h && lawful T t
  | .tup a => lawful T a
  | .obj c vs =>
    match T.find c with
    | none => true
    | some sp => sp.hashGuard || lawfulFs T sp.fields vs
  | .dset _ => true
  | .err _ => true
def lawfulFs (T : Table) : List FieldSpec → Val → Bool
  | f :: fs, .cons h t =>
    fieldLawful f.hash f.cmp (lawful T h) h
    && lawfulFs T fs t
  | _, _ => true
end

/-- Hashing does not raise. -/
def hashable : Val → Bool
  | .err _ => false
  | .cons h t => hashable h && hashable t
  | .tup a => hashable a
  | .obj _ vs => hashable vs
  | _ => true

/-! ### the static check on a class table (no values) -/

/-- No value of this kind is an identity object / frame. -/
def Kind.noIdent : Kind → Bool
  | .ident => false
  | .frame => false
  | .either a b => a.noIdent && b.noIdent
  | _ => true

def Kind.noDict : Kind → Bool
  | .dict => false
  | .either a b => a.noDict && b.noDict
  | _ => true

/-- Static form of `fieldLawful`: decided from the modes and the declared kind; `ok` decides
    that every value of a kind is lawful. -/
def fieldCheck (ok : Kind → Bool) (f : FieldSpec) : Bool :=
  match f.hash, f.cmp with
  | none, _ => true
  | some _, none => false
  | some .plain, some .plain => ok f.kind
  | some .content, some .content => ok f.kind
  | some .contentPart, some .content => ok f.kind
  | some .plain, some .content => f.kind.noIdent && ok f.kind
  | some .content, some .plain => f.kind.noIdent && ok f.kind
  | some .contentPart, some .plain => f.kind.noIdent && ok f.kind
  | some .orderedContent, some _ => f.kind.noIdent && ok f.kind
  | some .orderedItems, some _ => f.kind.noIdent && f.kind.noDict && ok f.kind
  | some .itemSet, some _ => f.kind.noIdent && ok f.kind

/-- `kindOK T n k`: every value of kind `k` is `lawful` (fuel `n` bounds the nesting). -/
def kindOK (T : Table) : Nat → Kind → Bool
  | 0, _ => false
  | n + 1, k =>
    match k with
    | .prim => true
    | .ident => true
    | .frame => true
    | .dict => true
    | .opaque => true
    | .tupleOf k' => kindOK T n k'
    | .either a b => kindOK T n a && kindOK T n b
    | .cls c =>
      match T.find c with
      | none => false
      | some sp => sp.hashGuard || sp.fields.all (fieldCheck (kindOK T n))

/-- The fields of class `c` that break the law directly (not through another class). -/
def directBad (sp : ClassSpec) : List String :=
  if sp.hashGuard then [] else
  (sp.fields.filter (fun f =>
    match f.hash, f.cmp with
    | none, _ => false
    | some _, none => true
    | some .plain, some .plain => false
    | some .content, some .content => false
    | some .contentPart, some .content => false
    | some .plain, some .content => !f.kind.noIdent
    | some .content, some .plain => !f.kind.noIdent
    | some .contentPart, some .plain => !f.kind.noIdent
    | some .orderedContent, some _ => !f.kind.noIdent
    | some .orderedItems, some _ => !(f.kind.noIdent && f.kind.noDict)
    | some .itemSet, some _ => !f.kind.noIdent)).map (·.name)

def classOK (T : Table) (c : String) : Bool := kindOK T (4 * T.length + 8) (.cls c)

/-- Names of the classes of the table for which the static check fails. -/
def inconsistentClasses (T : Table) : List String :=
  (T.filter (fun sp => !classOK T sp.name)).map (·.name)

mutual
/-- Typing of values by declared kinds. -/
inductive HasKind (T : Table) : Kind → Val → Prop
  | prim (s : String) : HasKind T .prim (.atom s)
  | opaque (s : String) : HasKind T .opaque (.atom s)
  | ident (i : Nat) (c : String) : HasKind T .ident (.ident i c)
  | frame (i : Nat) (c : String) : HasKind T .frame (.frame i c)
  | dict (kvs : List (String × String)) : HasKind T .dict (.dict kvs)
  | tup (k : Kind) (t : Val) : HasItems T k t → HasKind T (.tupleOf k) (.tup t)
  | left (a b : Kind) (v : Val) : HasKind T a v → HasKind T (.either a b) v
  | right (a b : Kind) (v : Val) : HasKind T b v → HasKind T (.either a b) v
  | obj (c : String) (sp : ClassSpec) (vs : Val) :
      T.find c = some sp → HasFields T sp.fields vs → HasKind T (.cls c) (.obj c vs)
inductive HasItems (T : Table) : Kind → Val → Prop
  | nil (k : Kind) : HasItems T k .nil
  | cons (k : Kind) (h t : Val) : HasKind T k h → HasItems T k t → HasItems T k (.cons h t)
inductive HasFields (T : Table) : List FieldSpec → Val → Prop
  | nil : HasFields T [] .nil
  | cons (f : FieldSpec) (fs : List FieldSpec) (h t : Val) :
      HasKind T f.kind h → HasFields T fs t → HasFields T (f :: fs) (.cons h t)
end

end Pharmpy.C06
