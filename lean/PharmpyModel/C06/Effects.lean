/-
  C06 (T3b) — a small effect language with heap semantics, and the checker that decides
  "no in-place write reaches an object owned by an argument".

  A Python function body is abstracted (by `harness/translate/c06_effects.py`) to the *set* of its
  effect statements; the semantics below executes **any sequence of statements drawn from that set**
  (any order, any repetition, any prefix), which covers branches, loops, early returns and
  exceptions at any point.

  Objects: an abstract object is a reachability region.  Everything reachable from the k-th
  argument on entry (the model, its DataFrame, its dicts) is the one region `k`; regions `< K`
  exist before the call ("argument-owned"), `fresh` allocates new regions `≥ K`.
  pandas is Copy-on-Write: a derived frame (`df[cols]`, `df.loc[...]`, any method result) is a
  fresh region; only a plain name / attribute alias denotes the identical object.
-/
namespace Pharmpy.C06.Eff

abbrev Name := String

inductive Stmt where
  /-- `x = y`, `x = y.attr…`, `for x in y`, `with y as x`: `x` may be bound to (a part of) what `y` is bound to -/
  | alias (x y : Name)
  /-- `x = f(...)`, `x = y.copy()`, `x = y[...]`, literal, comprehension: a new object -/
  | fresh (x : Name)
  /-- in-place mutation of what `x` is bound to: `x[c] = …`, `x.loc[…] = …`, `del x[c]`, `x.attr = …`,
      `x.m(…, inplace=True)`, `x.insert/update/pop/append/…(…)`, or a call of an analysed function that writes
      the parameter `x` is passed for -/
  | write (x : Name)
  deriving DecidableEq, Repr, Inhabited

structure Fn where
  name : String
  params : List Name
  body : List Stmt
  deriving Repr, Inhabited

structure State where
  env : Name → Option Nat
  ver : Nat → Nat
  next : Nat

def step (s : Stmt) (σ : State) : State :=
  match s with
  | .alias x y => { σ with env := fun n => if n = x then σ.env y else σ.env n }
  | .fresh x => { σ with env := fun n => if n = x then some σ.next else σ.env n, next := σ.next + 1 }
  | .write x =>
    match σ.env x with
    | none => σ
    | some o => { σ with ver := fun p => if p = o then σ.ver o + 1 else σ.ver p }

def run (tr : List Stmt) (σ : State) : State := tr.foldl (fun σ s => step s σ) σ

/-- One round of taint propagation through the alias statements. -/
def taintRound (body : List Stmt) (t : List Name) : List Name :=
  body.foldl (fun t s => match s with
    | .alias x y => if t.contains y && !t.contains x then x :: t else t
    | _ => t) t

def taintIter (body : List Stmt) : Nat → List Name → List Name
  | 0, t => t
  | n + 1, t => taintIter body n (taintRound body t)

/-- The names that may be bound to an argument-owned object. -/
def taint (f : Fn) : List Name := taintIter f.body f.body.length f.params

def closed (body : List Stmt) (t : List Name) : Bool :=
  body.all (fun s => match s with
    | .alias x y => !t.contains y || t.contains x
    | _ => true)

def noTaintedWrite (body : List Stmt) (t : List Name) : Bool :=
  body.all (fun s => match s with
    | .write x => !t.contains x
    | _ => true)

/-- The checker.  The taint set is computed by iteration and then *verified* (contains the
    parameters, closed under the alias statements), so soundness does not depend on the iteration
    having reached a fixpoint. -/
def check (f : Fn) : Bool :=
  let t := taint f
  f.params.all t.contains && closed f.body t && noTaintedWrite f.body t

/-- The offending write sites (for reports). -/
def taintedWrites (f : Fn) : List Name :=
  let t := taint f
  (f.body.filterMap (fun s => match s with
    | .write x => if t.contains x then some x else none
    | _ => none)).eraseDups

end Pharmpy.C06.Eff
