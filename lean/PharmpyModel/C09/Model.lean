import PharmpyModel.Core.Stmts
import PharmpyModel.Generated.Templates
/-
  C09 — Model extensions implement documented formulas; neutral at reference.

  * `Funs` / `interp`: the meaning of the named operations over `Rat`.  Arithmetic
    (`add mul div`), comparisons and piecewise selection (`ite`) are interpreted;
    `exp log sqrt sign Abs pow` are *parameters* (`Funs`): theorems quantify over
    all of them and state the laws they need (`exp 0 = 1`, `pow 1 t = 1`, …) as
    hypotheses.
  * `Doc`: the documented formula table (docstrings of add_covariate_effect,
    add_iiv, set_*_error_model, add_allometry, set_transit_compartments) as
    plain functions on `Rat`.
  * the statement-level edits of the setters (mirroring the Python): where the
    template (read from the source by T8, `Generated/Templates.lean`) is
    instantiated and inserted into the statement list.
-/
namespace Pharmpy.C09
open Pharmpy

/-! ## Interpretation -/

structure Funs where
  exp  : Rat → Rat
  log  : Rat → Rat
  sqrt : Rat → Rat
  sign : Rat → Rat
  abs  : Rat → Rat
  pow  : Rat → Rat → Rat
  nan  : Rat

def truth (b : Bool) : Rat := if b then 1 else 0

def interpFn (F : Funs) (f : String) (args : List Rat) : Rat :=
  match f, args with
  | "add", [a, b] => a + b
  | "mul", [a, b] => a * b
  | "div", [a, b] => a / b
  | "pow", [a, b] => F.pow a b
  | "exp", [a] => F.exp a
  | "log", [a] => F.log a
  | "sqrt", [a] => F.sqrt a
  | "sign", [a] => F.sign a
  | "Abs", [a] => F.abs a
  | "eq", [a, b] => truth (a == b)
  | "ne", [a, b] => truth (a != b)
  | "le", [a, b] => truth (decide (a ≤ b))
  | "lt", [a, b] => truth (decide (a < b))
  | "ge", [a, b] => truth (decide (b ≤ a))
  | "gt", [a, b] => truth (decide (b < a))
  | "and", [a, b] => truth (a != 0 && b != 0)
  | "or", [a, b] => truth (a != 0 || b != 0)
  | "not", [a] => truth (a == 0)
  | "true", _ => 1
  | "false", _ => 0
  | "ite", [c, a, b] => if c = 0 then b else a
  | "also", [a, _] => a
  | _, _ => F.nan

def interp (F : Funs) : Interp Rat := { lit := fun n => (n : Rat), fn := interpFn F }

/-- value of a template under `F` in environment `ρ` -/
abbrev ev (F : Funs) (ρ : Env Rat) (e : Expr) : Rat := e.eval (interp F) ρ

/-! ## Expression helpers -/

def eAdd (a b : Expr) : Expr := .f2 "add" a b
def eMul (a b : Expr) : Expr := .f2 "mul" a b
def eEq (a b : Expr) : Expr := .f2 "eq" a b
def eNan : Expr := .f1 "nan" (.lit 0)

/-- `Piecewise((v₁,c₁),…,(vₙ,cₙ))` without a default branch. -/
def piecewise : List (Expr × Expr) → Expr
  | [] => eNan
  | (c, v) :: rest => .f3 "ite" c v (piecewise rest)

/-- instantiate the formal symbols of a template -/
def inst (σ : List (Sym × Expr)) (e : Expr) : Expr := e.subst (fun y => σ.lookup y)

/-- rename symbols (what `Statements.subs({old: new})` does to an assignment's right-hand side) -/
def substStmt (σ : Sym → Option Expr) : Stmt → Stmt
  | .assign x e => .assign x (e.subst σ)
  | s => s

/-- sympy `.args` of an Add/Mul chain (n-ary, flattened); atoms have no args -/
def chain (op : String) : Expr → List Expr
  | .f2 f a b => if f = op then chain op a ++ chain op b else [.f2 f a b]
  | e => [e]

def args : Expr → List Expr
  | .f2 f a b => if f = "add" ∨ f = "mul" then chain f (.f2 f a b) else [a, b]
  | .f1 _ a => [a]
  | .f3 _ a b c => [a, b, c]
  | _ => []

/-- index of the last assignment to `p` (`Statements.find_assignment_index`) -/
def findLastAssign (ss : List Stmt) (p : Sym) : Option Nat :=
  let rec go (ss : List Stmt) (i : Nat) (acc : Option Nat) : Option Nat :=
    match ss with
    | [] => acc
    | .assign x _ :: rest => go rest (i + 1) (if x = p then some i else acc)
    | _ :: rest => go rest (i + 1) acc
  go ss 0 none

/-! ## Documented formulas (the specification) -/

namespace Doc
def lin (θ c m : Rat) : Rat := 1 + θ * (c - m)
def pieceLin (θ₁ θ₂ c m : Rat) : Rat := if c ≤ m then 1 + θ₁ * (c - m) else 1 + θ₂ * (c - m)
def exp (F : Funs) (θ c m : Rat) : Rat := F.exp (θ * (c - m))
def pow (F : Funs) (θ c m : Rat) : Rat := F.pow (c / m) θ
/-- categorical: 1 for the most common category, `1 + θ_k` (cat) / `θ_k` (cat2) for category k -/
def cat (alt : Bool) (θ : Rat) : Rat := if alt then θ else 1 + θ

def iivAdd (Θ η : Rat) : Rat := Θ + η
def iivProp (Θ η : Rat) : Rat := Θ * (1 + η)
def iivExp (F : Funs) (Θ η : Rat) : Rat := Θ * F.exp η
def iivExpAdd (F : Funs) (Θ η : Rat) : Rat := Θ + F.exp η
def iivLogit (F : Funs) (Θ η : Rat) : Rat := Θ * F.exp η / (F.exp η + 1)
def iivReLogit (F : Funs) (Θ η : Rat) : Rat :=
  F.exp (F.log (Θ / (1 - Θ)) * η) / (1 + F.exp (F.log (Θ / (1 - Θ)) * η))

def errAdditive (f ε : Rat) : Rat := f + ε
def errProportional (f ε : Rat) : Rat := f + f * ε
def errCombined (f ε₁ ε₂ : Rat) : Rat := f + f * ε₁ + ε₂
def errAdditiveLog (F : Funs) (f ε : Rat) : Rat := F.log f + ε / f
def errProportionalLog (F : Funs) (f ε : Rat) : Rat := F.log f + ε
def errCombinedLog (F : Funs) (f ε₁ ε₂ : Rat) : Rat := F.log f + ε₁ + ε₂ / f
/-- combined error under the residual-error modifiers: `set_iiv_on_ruv` multiplies *every* epsilon by `exp(eta)`,
    `set_time_varying_error_model` multiplies *every* epsilon by theta before the cutoff; `s` is the product of the
    factors in force: `f + (f·ε₁ + ε₂)·s` -/
def errCombinedScaled (f ε₁ ε₂ s : Rat) : Rat := f + (f * ε₁ + ε₂) * s
def errPower (F : Funs) (f θ ε : Rat) : Rat := f + F.pow f θ * ε

def allometry (F : Funs) (p x z t : Rat) : Rat := p * F.pow (x / z) t
end Doc

/-! ## Covariate effects (`add_covariate_effect`) -/

/-- neutral element of the operation -/
def neutral (op : String) : Rat := if op = "*" then 1 else 0

def applyOp (op : String) (a b : Rat) : Rat := if op = "*" then a * b else a + b

/-- A category of a categorical covariate: its literal, or none for NaN. -/
abbrev Cat := Option Expr

/-- Branch values of the categorical template for the categories other than the most common one.
    `single` = the covariate has exactly two categories (`len(categories) == 2`): one theta named `theta`;
    otherwise the k-th *other non-missing* category gets `theta_k` (names after `_create_thetas` renumbering). -/
def catValue (alt single : Bool) (thetaName : Nat → Sym) (k : Nat) : Expr :=
  if single then
    inst [("theta", .sym (thetaName 0))] (if alt then Gen.cat2Single else Gen.catSingle)
  else
    inst [("theta{i}", .sym (thetaName k))] (if alt then Gen.cat2Multi else Gen.catMulti)

def catBranches (alt single : Bool) (cov : Sym) (thetaName : Nat → Sym) : List Cat → Nat → List (Expr × Expr)
  | [], _ => []
  | none :: rest, k => (eEq (.sym cov) (.sym "NaN"), Gen.catNaN) :: catBranches alt single cov thetaName rest k
  | some c :: rest, k => (eEq (.sym cov) c, catValue alt single thetaName k) :: catBranches alt single cov thetaName rest (k + 1)

def catTemplate (alt : Bool) (cov : Sym) (ref : Expr) (others : List Cat) (thetaName : Nat → Sym) : Expr :=
  piecewise ((eEq (.sym cov) ref, Gen.catRef) :: catBranches alt (others.length = 1) cov thetaName others 1)

structure CovArgs where
  param : Sym
  cov : Sym
  kind : String
  op : String
  median : Expr           -- literal of the centring statistic (computed from the data by the caller)
  ref : Expr              -- most common category (cat / cat2)
  others : List Cat       -- the other categories in index order
  cols : List Sym         -- data column names (grouping heuristic)

def effName (a : CovArgs) : Sym := a.param ++ a.cov
def medianName (a : CovArgs) : Sym := a.cov ++ "_MEDIAN"
def thetaBase (a : CovArgs) : Sym := "POP_" ++ a.param ++ a.cov
def thetaName (a : CovArgs) (k : Nat) : Sym := if k = 0 then thetaBase a else thetaBase a ++ "_" ++ toString k

/-- does the template use the centring statistic? -/
def usesMedian (kind : String) : Bool := kind = "lin" || kind = "piece_lin" || kind = "exp" || kind = "pow"

/-- the instantiated effect expression (`CovariateEffect.apply`) -/
def effectExpr (a : CovArgs) : Option Expr :=
  let σ1 := [("theta", Expr.sym (thetaName a 0)), ("cov", Expr.sym a.cov), ("median", Expr.sym (medianName a))]
  let σ2 := [("theta1", Expr.sym (thetaName a 1)), ("theta2", Expr.sym (thetaName a 2)), ("cov", Expr.sym a.cov),
             ("median", Expr.sym (medianName a))]
  match a.kind with
  | "lin" => some (inst σ1 Gen.effLin)
  | "exp" => some (inst σ1 Gen.effExp)
  | "pow" => some (inst σ1 Gen.effPow)
  | "piece_lin" => some (inst σ2 Gen.effPieceLin)
  | "cat" => some (catTemplate false a.cov a.ref a.others (thetaName a))
  | "cat2" => some (catTemplate true a.cov a.ref a.others (thetaName a))
  | _ => none

def opName (op : String) : Option String := Gen.covOps.lookup op

/-- `add_covariate_effect` on the statement list. -/
def addCovEffect (ss : List Stmt) (a : CovArgs) : Option (List Stmt) := do
  let tmpl ← effectExpr a
  let opf ← opName a.op
  let stat : List Stmt := if usesMedian a.kind then [.assign (medianName a) a.median] else []
  -- hoisted statistic statements, without duplicates
  let ss1 := stat.filter (fun s => !ss.contains s) ++ ss
  let i ← findLastAssign ss1 a.param
  let last ← ss1[i]?
  let lastE ← (match last with | .assign _ e => some e | _ => none)
  let tmplS := Stmt.assign (effName a) tmpl
  let effS := Stmt.assign a.param (.f2 opf (.sym a.param) (.sym (effName a)))
  let possible : List Expr := .sym a.param :: a.cols.map (fun c => .sym (a.param ++ c))
  let as := args lastE
  if !as.isEmpty && as.all (fun x => possible.contains x) then
    -- grouping heuristic: fold the previous effect statement into the new one
    let merged := Stmt.assign a.param (.f2 opf lastE (.sym (effName a)))
    some (ss1.take i ++ [tmplS, merged] ++ ss1.drop (i + 1))
  else
    some (ss1.take (i + 1) ++ [tmplS, effS] ++ ss1.drop (i + 1))

/-! ## IIV (`add_iiv`), IOV (`add_iov`), eta transformations -/

def etaTemplate (form op : String) : Option Expr :=
  match form with
  | "add" => some Gen.etaAdd
  | "prop" => some Gen.etaProp
  | "exp" => (Gen.etaOps.lookup op).map Gen.etaExp
  | "log" => some Gen.etaLogit
  | "re_log" => some Gen.etaReLogit
  | _ => none

/-- `add_iiv` for one parameter; `phi` is the name of the auxiliary symbol of the rescaled logit. -/
def addIiv (ss : List Stmt) (param form op eta phi : Sym) : Option (List Stmt) := do
  let t ← etaTemplate form op
  let i ← findLastAssign ss param
  let st ← ss[i]?
  let e ← (match st with | .assign _ e => some e | _ => none)
  if form = "re_log" then
    let phiS := Stmt.assign phi (.f1 "log" (.f2 "div" e (eAdd (.lit 1) (eMul (.lit (-1)) e))))
    some (ss.take i ++ [phiS, .assign param (inst [("original", .sym phi), ("eta_new", .sym eta)] t)] ++ ss.drop (i + 1))
  else
    some (ss.take i ++ [.assign param (inst [("original", e), ("eta_new", .sym eta)] t)] ++ ss.drop (i + 1))

/-- `_add_iov_declare_etas`: for the i-th eta, `IOV_i = 0; IOV_i = Piecewise((ETA_IOV_i_k, cat_k = OCC) …)`,
    `ETAI_i = eta + IOV_i`, and every use of `eta` replaced by `ETAI_i`. -/
structure IovEta where
  eta : Sym
  iov : Sym
  etai : Sym
  occEtas : List Sym      -- one new eta per occasion category

def iovDecl (occ : Sym) (cats : List Expr) (e : IovEta) : List Stmt :=
  [.assign e.iov (.lit 0),
   .assign e.iov (piecewise ((cats.zip e.occEtas).map (fun (c, n) => (eEq c (.sym occ), .sym n))))]

def etaiDecl (e : IovEta) : Stmt := .assign e.etai (eAdd (.sym e.eta) (.sym e.iov))

/-- `Statements.subs({old: new, …})` for symbol-to-symbol maps -/
def renameOf (m : List (Sym × Sym)) : Sym → Option Expr := fun y => (m.lookup y).map Expr.sym

def iovMap (es : List IovEta) : List (Sym × Sym) := es.map (fun e => (e.eta, e.etai))

def addIov (ss : List Stmt) (occ : Sym) (cats : List Expr) (es : List IovEta) : List Stmt :=
  ((es.map (iovDecl occ cats)).flatten ++ es.map etaiDecl) ++ ss.map (substStmt (renameOf (iovMap es)))

/-- eta transformations: `ETAx_i = T(eta_i, theta_i)` placed first, uses of `eta_i` replaced by `ETAx_i`. -/
structure TransEta where
  eta : Sym
  newEta : Sym
  theta : Sym

def transTemplate (kind : String) : Option Expr :=
  match kind with
  | "boxcox" => some Gen.transBoxcox
  | "tdist" => some Gen.transTdist
  | "johndraper" => some Gen.transJohnDraper
  | _ => none

def transMap (es : List TransEta) : List (Sym × Sym) := es.map (fun e => (e.eta, e.newEta))

def transDecl (t : Expr) (e : TransEta) : Stmt :=
  .assign e.newEta (inst [("eta{i}", .sym e.eta), ("theta{i}", .sym e.theta)] t)

def transformEtas (ss : List Stmt) (kind : String) (es : List TransEta) : Option (List Stmt) := do
  let t ← transTemplate kind
  some (es.map (transDecl t) ++ ss.map (substStmt (renameOf (transMap es))))

/-! ## Error models -/

/-- right-hand side of `Y` for the named error model; `f` is the prediction, `ipred` the zero-protected one. -/
def errorY (kind : String) (f ipred : Expr) (eps1 eps2 : Sym) : Option Expr :=
  match kind with
  | "additive" => some (inst [("f", f), ("ruv", .sym eps1)] Gen.errAdditive)
  | "proportional" => some (inst [("x", f), ("ruv", .sym eps1)] Gen.errProp)
  | "proportional-zp" => some (inst [("x", f), ("ipred", ipred), ("ruv", .sym eps1)] Gen.errPropZP)
  | "proportional-log" => some (inst [("x", f), ("ruv", .sym eps1)] Gen.errPropLog)
  | "proportional-log-zp" => some (inst [("ipred", ipred), ("ruv", .sym eps1)] Gen.errPropLogZP)
  | "combined" => some (inst [("x", f), ("ruv_prop", .sym eps1), ("ruv_add", .sym eps2)] Gen.errComb)
  | "combined-log" => some (inst [("x", f), ("ruv_prop", .sym eps1), ("ruv_add", .sym eps2)] Gen.errCombLog)
  | "combined-iivruv" => some (inst [("x", f), ("ruv_prop", .sym eps1), ("ruv_add", .sym eps2)] Gen.errCombIivRuv)
  | _ => none

def guardExpr (f : Expr) : Expr := inst [("f", f)] Gen.errGuard

/-- `set_power_on_ruv`: what an epsilon (after the factor `ipred` of a proportional term was divided out) is
    replaced by: `ipred**theta * eps` (template read from the source; `adj` = the zero-protected IPREDADJ variant). -/
def powerTerm (adj : Bool) (ipred : Expr) (theta eps : Sym) : Expr :=
  if adj then inst [("ipredadj", ipred), ("theta.name", .sym theta), ("e", .sym eps)] Gen.powerAdj
  else inst [("ipred", ipred), ("theta.name", .sym theta), ("e", .sym eps)] Gen.powerPlain

/-- `set_iiv_on_ruv`: each selected epsilon is replaced by `eps * exp(eta)` (template from the source),
    one `subs` per epsilon in the order of the list. -/
def iivFactor (eps eta : Sym) : Expr :=
  inst [("e.names[0]", .sym eps), ("eta_dict[e].names[0]", .sym eta)] Gen.iivOnRuv

def iivOnRuv (y : Expr) : List (Sym × Sym) → Expr
  | [] => y
  | (e, η) :: ps => iivOnRuv (Expr.subst1 e (iivFactor e η) y) ps

/-- the environment in which every selected epsilon is multiplied by `exp` of its eta -/
def scaleEnv (F : Funs) (ρ : Env Rat) (ps : List (Sym × Sym)) : Env Rat :=
  fun s => match ps.lookup s with
    | some η => ρ s * F.exp (ρ η)
    | none => ρ s

/-- the (epsilon, eta) list is usable: no epsilon twice, no eta that is itself a selected epsilon -/
def PairsOk : List (Sym × Sym) → Prop
  | [] => True
  | (e, η) :: ps => ps.lookup e = none ∧ ps.lookup η = none ∧ PairsOk ps

/-- `set_time_varying_error_model`: `Piecewise((y[eps ↦ eps*theta …], idv < cutoff), (y, True))` -/
def tvFactor (eps theta : Sym) : Expr := inst [("e", .sym eps), ("theta", .sym theta)] Gen.timeVarying

def tvScaled (theta : Sym) (y : Expr) : List Sym → Expr
  | [] => y
  | e :: es => tvScaled theta (Expr.subst1 e (tvFactor e theta) y) es

def timeVarying (y : Expr) (eps : List Sym) (theta : Sym) (cond : Expr) : Expr :=
  .f3 "ite" cond (tvScaled theta y eps) y

/-! `set_combined_error_model` on a model whose `Y` is the two-branch piecewise written by
    `set_time_varying_error_model` (the `expr.is_piecewise()` arm): in both branch values every epsilon of the model
    is replaced by the new proportional epsilon (one `subs` per epsilon, in model order) and the new additive epsilon
    is added with the factors of the modifiers that are present: `theta_time` before the cutoff, `exp(eta_ruv)` when
    the model has IIV on RUV. -/

/-- `for eps in epsilons: expr = expr.subs({eps: ruv_prop})` -/
def substEps (p : Sym) (e : Expr) : List Sym → Expr
  | [] => e
  | x :: xs => substEps p (Expr.subst1 x (.sym p) e) xs

/-- the additive term: `ruv_add * theta_time [* exp(eta_ruv)]` before the cutoff, `ruv_add [* exp(eta_ruv)]` after -/
def combAddTerm (pre hasEta : Bool) (a eta theta : Sym) : Expr :=
  let t := if pre then eMul (.sym a) (.sym theta) else .sym a
  if hasEta then eMul t (.f1 "exp" (.sym eta)) else t

def combinedOnTimeVarying (e0 e1 cond : Expr) (eps : List Sym) (p a : Sym) (hasEta : Bool) (eta theta : Sym) : Expr :=
  .f3 "ite" cond (eAdd (substEps p e0 eps) (combAddTerm true hasEta a eta theta))
                 (eAdd (substEps p e1 eps) (combAddTerm false hasEta a eta theta))

/-- the environment in which every old epsilon has the value of the new proportional epsilon -/
def epsTo (ρ : Env Rat) (es : List Sym) (p : Sym) : Env Rat := fun s => if s ∈ es then ρ p else ρ s

def dtbsIpred (f : Expr) (lam : Sym) : Expr := inst [("f", f), ("lam", .sym lam)] Gen.dtbsIpred
def dtbsW (f : Expr) (zeta : Sym) : Expr := inst [("f", f), ("zeta", .sym zeta)] Gen.dtbsW

/-! ## Allometry -/

def allometryExpr (p : Sym) (var reference : Expr) (theta : Sym) : Expr :=
  inst [("p", .sym p), ("variable", var), ("reference", reference), ("param.symbol", .sym theta)] Gen.allometry

/-- `add_allometry` for one parameter: the new assignment goes right after the last assignment of `p`. -/
def addAllometry (ss : List Stmt) (p : Sym) (var reference : Expr) (theta : Sym) : Option (List Stmt) := do
  let i ← findLastAssign ss p
  some (ss.take (i + 1) ++ [.assign p (allometryExpr p var reference theta)] ++ ss.drop (i + 1))

/-- (counter-model, used only by a witness theorem) the same edit placed after the FIRST assignment of `p` -/
def addAllometryFirst (ss : List Stmt) (p : Sym) (var reference : Expr) (theta : Sym) : Option (List Stmt) := do
  let i ← ss.findIdx? (fun s => match s with | .assign x _ => x == p | _ => false)
  some (ss.take (i + 1) ++ [.assign p (allometryExpr p var reference theta)] ++ ss.drop (i + 1))

/-! ## Transit compartments -/

/-- A rate `numer / denom` of a transit compartment (integer numerator, symbolic mean transit time). -/
structure Rate where
  numer : Int
  denom : Sym
  deriving DecidableEq, Repr

/-- `set_transit_compartments` from no transits: `n` new compartments, every flow `n / MDT`. -/
def newChain (n : Nat) (mdt : Sym) : List Rate := List.replicate n ⟨n, mdt⟩

/-- adding `k` transits to an existing chain: the new flows copy the rate of the last one … -/
def extendChain (rs : List Rate) (k : Nat) : List Rate :=
  match rs.getLast? with
  | some r => rs ++ List.replicate k r
  | none => rs

/-- … removing the last `k` transits … -/
def shrinkChain (rs : List Rate) (k : Nat) : List Rate := rs.take (rs.length - k)

/-- … and `_update_numerators` resets every integer numerator to the number of transits *that
    `find_transit_compartments` detects*.  A single remaining transit in a model without depot is not detected
    (it is indistinguishable from a depot), so then nothing is updated (`detects = false`). -/
def updateNumerators (detects : Bool) (rs : List Rate) : List Rate :=
  if detects then rs.map (fun r => { r with numer := rs.length }) else rs

def setTransits (rs : List Rate) (n : Nat) (mdt : Sym) (depot : Bool) : List Rate :=
  if rs.length = n then rs
  else if rs.length = 0 then newChain n mdt
  else if n < rs.length then
    updateNumerators (depot || n != 1) (shrinkChain rs (rs.length - n))
  else updateNumerators true (extendChain rs (n - rs.length))

def rateValue (ρ : Env Rat) (r : Rate) : Rat := (r.numer : Rat) / ρ r.denom

/-- mean transit time of a chain: the sum of the mean residence times `1/k` of its compartments -/
def meanTransitTime (ρ : Env Rat) (rs : List Rate) : Rat := (rs.map (fun r => 1 / rateValue ρ r)).sum

def rateExpr (r : Rate) : Expr := inst [("n", .lit r.numer), ("mdt_symb", .sym r.denom)] Gen.transitRate

end Pharmpy.C09
