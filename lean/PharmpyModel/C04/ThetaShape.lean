import PharmpyModel.C04.Theta
/-
  C04 — the *decidable side-conditions* of the `$THETA` read-back theorem, executable so that the
  driver can evaluate them on every generated case:

    `Shp` / `Shp.build`   the layouts `[(] F0 [low F1] init [F2 up] F3 [)] tail` of a `theta` subtree
    `toShp?` / `shapeOK`  recogniser computing the decomposition (no FIX inside the parentheses)
    `ParamOK`             parameters NM-TRAN can express
    `noRepeatSplit`       every `(v)xn` item receives n identical parameters, lengths agree
-/
namespace Pharmpy.C04

def optL (o : Option TNode) : List TNode := match o with | some x => [x] | none => []
def lowL (o : Option (TNode × List TNode)) : List TNode := match o with | some (lo, F1) => lo :: F1 | none => []
def upL (o : Option (List TNode × TNode)) : List TNode := match o with | some (F2, u) => F2 ++ [u] | none => []

structure Shp where
  lp : Option TNode
  F0 : List TNode
  low : Option (TNode × List TNode)
  ini : TNode
  up : Option (List TNode × TNode)
  F3 : List TNode
  rp : Option TNode
  tail : List TNode

def Shp.build (s : Shp) : List TNode :=
  optL s.lp ++ (s.F0 ++ (lowL s.low ++ s.ini :: (upL s.up ++ (s.F3 ++ (optL s.rp ++ s.tail)))))

def isFiller (x : TNode) : Bool := x.k == .ws || x.k == .other || x.k == .comma
def isTailNode (x : TNode) : Bool := x.k == .ws || x.k == .other || x.k == .fix || x.k == .rep

/-- the part after the init inside the parentheses: `F2 up F3 )` tail, or `F3 )` tail -/
def afterInit (lp : TNode) (F0 : List TNode) (low : Option (TNode × List TNode)) (i : TNode) (r4 : List TNode) :
    Option Shp :=
  match r4.dropWhile isFiller with
  | [] => none
  | z :: r5 =>
    if z.k = .up then
      match r5.dropWhile isFiller with
      | [] => none
      | rp :: T =>
        if rp.k = .rpar ∧ T.all isTailNode = true then
          some { lp := some lp, F0 := F0, low := low, ini := i, up := some (r4.takeWhile isFiller, z),
                 F3 := r5.takeWhile isFiller, rp := some rp, tail := T }
        else none
    else if z.k = .rpar ∧ r5.all isTailNode = true then
      some { lp := some lp, F0 := F0, low := low, ini := i, up := none, F3 := r4.takeWhile isFiller,
             rp := some z, tail := r5 }
    else none

/-- decidable recogniser of the layouts of `Shp` as they come out of the parser (computes the decomposition) -/
def toShp? : List TNode → Option Shp
  | [] => none
  | x :: rest =>
    if x.k = .init then
      if rest.all isTailNode = true then
        some { lp := none, F0 := [], low := none, ini := x, up := none, F3 := [], rp := none, tail := rest }
      else none
    else if x.k = .lpar then
      match rest.dropWhile isFiller with
      | [] => none
      | y :: r2 =>
        if y.k = .low then
          match r2.dropWhile isFiller with
          | [] => none
          | i :: r4 =>
            if i.k = .init then afterInit x (rest.takeWhile isFiller) (some (y, r2.takeWhile isFiller)) i r4 else none
        else if y.k = .init then afterInit x (rest.takeWhile isFiller) none y r2
        else none
    else none

def shapeOK (cs : List TNode) : Bool := (toShp? cs).isSome


def recShapeOK : List RNode → Bool
  | [] => true
  | .tok _ :: r => recShapeOK r
  | .item cs :: r => shapeOK cs && recShapeOK r

/-- the parameters NM-TRAN can express and pharmpy's reader accepts -/
def ParamOK (p : Param) : Bool :=
  (match p.init with | .fin _ _ => true | _ => false) &&
  (minLower.lt p.lower || p.lower == .ninf) &&
  (p.upper.lt maxUpper || p.upper == .pinf) &&
  !(p.init == maxUpper) && !(p.init == minLower) &&
  !(!p.fix && !needUpper p && p.lower == p.init) &&
  !(!p.fix && p.init == zero) &&
  !(!p.fix && p.lower == p.upper && p.upper == p.init) &&
  !(p.init.lt p.lower) && !(p.upper.lt p.init)

/-- `NoRepeatSplit`: the parameter list has exactly `len(record)` entries and each `(v)xn` item
    receives n identical parameters (decidable). -/
def noRepeatSplit : List RNode → List Param → Bool
  | [], ps => ps.isEmpty
  | .tok _ :: r, ps => noRepeatSplit r ps
  | .item cs :: r, ps =>
    match ps with
    | [] => false
    | p :: _ => (ps.take (multiple cs) == List.replicate (multiple cs) p) && noRepeatSplit r (ps.drop (multiple cs))



/-- what the reader is expected to return for a parameter -/
def Param.toParsed (p : Param) : Parsed := { init := p.init, lower := p.lower, upper := p.upper, fix := p.fix }

def paramsOK (ps : List Param) : Bool := ps.all ParamOK

end Pharmpy.C04
