/-
  C04 — the scale conversions of `$OMEGA`/`$SIGMA BLOCK(n)` records in
  `pharmpy/model/external/nonmem/records/omega_record.py`:

    OmegaRecord.parse   raw inits (as spelled: VARIANCE|SD × COVARIANCE|CORRELATION) → covariance
    OmegaRecord.update  covariance → raw inits to be spelled

  over an arbitrary carrier `F` with multiplication, division and a square
  root (theorems: any field with a square root on the diagonal entries; driver:
  exact rationals; exact square roots of squares, 20-digit approximations otherwise).  The CHOLESKY form
  (`L @ L.T`, `numpy.linalg.cholesky`) is outside this model.

  A matrix is a function `Nat → Nat → F`; `unflat`/`flat` are
  `flattened_to_symmetric` / `A[np.tril_indices_from(A)]`.
-/
namespace Pharmpy.C04

structure Ops (F : Type) where
  mul : F → F → F
  div : F → F → F
  sqrt : F → F

/-- `OmegaRecord.parse`, one entry of the covariance matrix from the raw matrix `A`.
    (Python mutates `A` in place; off-diagonal entries read only diagonal entries, which the
    loop does not touch, and the diagonal is squared afterwards.) -/
def toCovE {F : Type} (o : Ops F) (sd corr : Bool) (A : Nat → Nat → F) (i j : Nat) : F :=
  if i = j then (if sd then o.mul (A i i) (A i i) else A i i)
  else if corr then
    (if sd then o.mul (o.mul (A i i) (A j j)) (A i j)
     else o.mul (o.mul (o.sqrt (A i i)) (o.sqrt (A j j))) (A i j))
  else A i j

/-- `OmegaRecord.update`, one entry of the raw matrix from the covariance matrix `C`. -/
def fromCovE {F : Type} (o : Ops F) (sd corr : Bool) (C : Nat → Nat → F) (i j : Nat) : F :=
  if i = j then (if sd then o.sqrt (C i i) else C i i)
  else if corr then o.div (C i j) (o.mul (o.sqrt (C i i)) (o.sqrt (C j j)))
  else C i j

/-- position of entry (r, c), c ≤ r, in the row-major lower triangle -/
def triIdx (r c : Nat) : Nat := r * (r + 1) / 2 + c

/-- `flattened_to_symmetric` -/
def unflat {F : Type} (dflt : F) (xs : List F) (i j : Nat) : F :=
  if j ≤ i then xs.getD (triIdx i j) dflt else xs.getD (triIdx j i) dflt

/-- `A[np.tril_indices_from(A)]` for an n × n matrix -/
def flat {F : Type} (n : Nat) (M : Nat → Nat → F) : List F :=
  (List.range n).flatMap (fun r => (List.range (r + 1)).map (fun c => M r c))

/-! ### exact rational instance for the driver -/

abbrev Q := Rat

def Q.mk' (n : Int) (d : Nat) : Q := mkRat n d
def Q.n (q : Q) : Int := q.num
def Q.d (q : Q) : Nat := q.den

def natSqrt? (n : Nat) : Option Nat :=
  let s := Nat.sqrt n
  if s * s = n then some s else none

/-- square root of a rational that is a square of a rational -/
def ratSqrt? (q : Rat) : Option Rat :=
  if q.num < 0 then none else
  match natSqrt? q.num.toNat, natSqrt? q.den with
  | some a, some b => some (mkRat a b)
  | _, _ => none

/-- driver only: a rational within 10⁻²⁰ (relative to 1/den) of the square root when it is irrational
    (comparisons with the float results of the real code are made at 12 significant digits) -/
def ratSqrtApprox? (q : Rat) : Option Rat :=
  match ratSqrt? q with
  | some r => some r
  | none =>
    if q.num < 0 then none else
    let k : Nat := 10 ^ 20
    some (mkRat (Nat.sqrt (q.num.toNat * q.den * k * k)) (q.den * k))

def optOps : Ops (Option Rat) where
  mul := fun a b => do some ((← a) * (← b))
  div := fun a b => do
    let y ← b
    if y = 0 then none else some ((← a) / y)
  sqrt := fun a => do ratSqrtApprox? (← a)

def allSome {α : Type} : List (Option α) → Option (List α)
  | [] => some []
  | x :: xs => do some ((← x) :: (← allSome xs))

def blockToCov (sd corr : Bool) (n : Nat) (xs : List Rat) : Option (List Rat) :=
  let A := unflat (F := Option Rat) none (xs.map some)
  allSome (flat n (toCovE optOps sd corr A))

def blockFromCov (sd corr : Bool) (n : Nat) (xs : List Rat) : Option (List Rat) :=
  let C := unflat (F := Option Rat) none (xs.map some)
  allSome (flat n (fromCovE optOps sd corr C))

end Pharmpy.C04
