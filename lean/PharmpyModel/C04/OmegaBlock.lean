import PharmpyModel.C04.OmegaDiag
/-
  C04 — token-level model of a `$OMEGA` / `$SIGMA BLOCK(n)` record (not SAME):
  the root children are tokens (blanks, comments, newlines, the options FIX / SD /
  CORR / … written on the record header), the `block` subtree and the `omega`
  subtrees (`init [opts]`, `(init opts)[xn]`, `(opts init)[xn]`).  Modelled after
  omega_record.py:

    `_block_flags` (the FIX part: header FIX, FIX on an init, "more than once" refusal)
    the BLOCK branch of `OmegaRecord.update`: value replacement per `omega` node, the
      split of `(v)xn`, and the FIX handling (`insert_after(tree, 'block', [WS, FIX])`,
      `remove_token_and_space(tree, 'FIX', recursive=True)`)

  Values arrive already converted to the spelled scale (the conversion itself is
  `Omega.lean`); `DNode.item` is an `omega` subtree, `DNode.tok` any other root child.
-/
namespace Pharmpy.C04

inductive BErr where
  | fixTwice        -- "Cannot specify option FIX more than once"
  deriving DecidableEq, Repr

def isRootFix : DNode → Bool
  | .tok t => t.k == .fix
  | _ => false

/-- `bool(self.root.find('FIX'))` -/
def rootHasFix (r : List DNode) : Bool := r.any isRootFix

/-- the loop of `_block_flags` over the `omega` subtrees, FIX only -/
def blockFixAux : Bool → List DNode → Except BErr Bool
  | fix, [] => .ok fix
  | fix, .item cs :: r =>
    if hasK .fix cs then (if fix then .error .fixTwice else blockFixAux true r) else blockFixAux fix r
  | fix, _ :: r => blockFixAux fix r

def blockFix (r : List DNode) : Except BErr Bool := blockFixAux (rootHasFix r) r

/-- `insert_after(tree, 'block', nodes)` -/
def insertAfterBlock (nodes : List DNode) : List DNode → List DNode
  | [] => []
  | .tok t :: r => if t.k = .block then .tok t :: nodes ++ insertAfterBlock nodes r else .tok t :: insertAfterBlock nodes r
  | x :: r => x :: insertAfterBlock nodes r

def isRootWs : DNode → Bool
  | .tok t => t.k == .ws
  | _ => false

/-- `remove_token_and_space(tree, 'FIX')` on the root children (stack `acc`, most recent first) -/
def rmFixRootAux : List DNode → List DNode → List DNode
  | acc, [] => acc.reverse
  | acc, x :: xs =>
    if isRootFix x then
      match acc with
      | a :: acc' => if isRootWs a then rmFixRootAux acc' xs else rmFixRootAux acc xs
      | [] => rmFixRootAux [] xs
    else rmFixRootAux (x :: acc) xs

/-- … `recursive=True`: then the same inside every remaining subtree -/
def rmFixInside : DNode → DNode
  | .item cs => .item (rmFix cs)
  | x => x

def rmFixRec (r : List DNode) : List DNode := (rmFixRootAux [] r).map rmFixInside

/-- the end of the BLOCK branch: `if new_fix[0] != fix: …` -/
def setBlockFix (fix : Bool) (r : List DNode) (newFix : Bool) : List DNode :=
  if newFix ≠ fix then
    (if newFix then insertAfterBlock [.tok tokWs, .tok tokFix] r else rmFixRec r)
  else r

/-- split of `(v)xn`: `n`, LPAR, RPAR are dropped, the node is carried from copy to copy -/
def splitBlockAux : List TNode → List OParam → List (List TNode)
  | _, [] => []
  | node, v :: vs => let c := setRaw node v; c :: splitBlockAux c vs

/-- one `omega` subtree with the `n` values of `array[i:i+n]` -/
def updOmegaItem (cs : List TNode) (vals : List OParam) : List DNode :=
  match vals with
  | [] => [.item cs]
  | v :: _ =>
    if vals.all (fun q => q.raw == v.raw) then [.item (setRaw cs v)]
    else interleave (splitBlockAux (cs.filter (fun x => !(x.k == .rep || x.k == .lpar || x.k == .rpar))) vals)

def updBlockVals : List DNode → List OParam → List DNode
  | [], _ => []
  | .item cs :: r, vs => updOmegaItem cs (vs.take (multiple cs)) ++ updBlockVals r (vs.drop (multiple cs))
  | x :: r, vs => x :: updBlockVals r vs

def updBlockIndexError : List DNode → List OParam → Bool
  | [], _ => false
  | .item cs :: r, vs => vs.length < multiple cs || vs.isEmpty || updBlockIndexError r (vs.drop (multiple cs))
  | _ :: r, vs => updBlockIndexError r vs

/-- `written`: the token value of every `omega` node, repeated n times for `(v)xn` -/
def writtenVals : List DNode → List Val
  | [] => []
  | .item cs :: r => List.replicate (multiple cs) ((valK .init cs).getD zero) ++ writtenVals r
  | _ :: r => writtenVals r

/-- fix f0abfd5: `array = [cur if new == old else new for cur, new, old in zip(written, array, old_array)]`;
    `writtenS` are Python's spellings of the written values (needed only when a kept value lands on a
    split copy whose carried node holds another number) -/
def mergeKept : List Val → List String → List OParam → List Val → List OParam
  | w :: ws, s :: ss, n :: ns, o :: os =>
    (if n.raw = o then { raw := w, rawS := s, fix := n.fix } else n) :: mergeKept ws ss ns os
  | _, _, _, _ => []

/-- the values handed to the per-node loop: `news` = `to_record_scale(new inits)`,
    `olds` = `to_record_scale(self.parse()[0][1])`; kept values only `if len(old_inits) == len(inits)` -/
def blockArray (r : List DNode) (writtenS : List String) (news : List OParam) (olds : List Val) : List OParam :=
  if olds.length = news.length then mergeKept (writtenVals r) writtenS news olds else news

/-- the BLOCK branch of `OmegaRecord.update` (after the scale conversions); error = `_block_flags` raised -/
def updBlock (r : List DNode) (writtenS : List String) (news : List OParam) (olds : List Val) (newFix : Bool) :
    Except BErr (List DNode) :=
  match blockFix r with
  | .error e => .error e
  | .ok fix => .ok (setBlockFix fix (updBlockVals r (blockArray r writtenS news olds)) newFix)

end Pharmpy.C04
