/-
  C04 — executable token-level model of a NONMEM `$THETA` record and of
  `pharmpy/model/external/nonmem/records/theta_record.py`:

    lower_token / upper_token / inits / fixs / bounds      (parse)
    add_upper_bound, add_lower_bound, remove_upper_bound, remove_lower_bound,
    replace_bound, remove_parentheses, add_parentheses      (helpers)
    ThetaRecord.update, ThetaRecord.remove, ThetaRecord.__len__
    remove_token_and_space (internals/parse/generic.py)
    _fix_thetas_with_same_bounds (parsing.py)

  A record is the list of children of the parse-tree root: `theta` subtrees
  (items) and everything else (WS / COMMENT / NEWLINE tokens, `option`
  subtrees).  An item is the list of children of a `theta` subtree, each child
  flattened to a `TNode`: a token (LPAR, RPAR, COMMA, WS, FIX, COMMENT, …) or a
  one-number subtree (`low`, `init`, `up`) or the repeat subtree `n` (X INT).
  A node carries its *spelling* (`text`) and, for numbers, the value the
  spelling denotes when the record is (re-)read (`val`); the lexer and Python's
  `float()` are outside the model.

  Every definition mirrors the Python line by line — including what the Python
  does wrong (see the witnesses in PharmpyProofs/C04/Properties.lean).
-/
namespace Pharmpy.C04

/-! ### values -/

/-- A float as an exact fraction in lowest terms (`d > 0`), or ±infinity.
    Equality of values is structural equality (the harness always sends
    `fractions.Fraction(float)`, which is normalised; `-0.0` and `0.0` are both `0/1`). -/
inductive Val where
  | ninf
  | fin (n : Int) (d : Nat)
  | pinf
  deriving DecidableEq, Repr, Inhabited

namespace Val
/-- strict order of extended rationals (denominators positive). -/
def lt : Val → Val → Bool
  | ninf, ninf => false
  | ninf, _ => true
  | _, ninf => false
  | pinf, _ => false
  | fin _ _, pinf => true
  | fin a b, fin c d => decide (a * (d : Int) < c * (b : Int))

def ofInt (i : Int) : Val := fin i 1
end Val

/-- `MAX_UPPER_BOUND = 1000000`, `MIN_LOWER_BOUND = -1000000`. -/
def maxUpper : Val := .fin 1000000 1
def minLower : Val := .fin (-1000000) 1
def zero : Val := .fin 0 1

/-! ### tree nodes -/

/-- The `rule` of a child of a `theta` subtree, as far as the code looks at it. -/
inductive K where
  | lpar | rpar | comma | ws | fix | low | init | up | rep
  | sd | var       -- SD / VAR options of a `diag_item` (omega_record.py)
  | block          -- the `block` subtree `BLOCK(n)` among the children of an omega record root
  | other          -- COMMENT, NEWLINE, CONT, …: never inspected by theta_record.py
  deriving DecidableEq, Repr, Inhabited

structure TNode where
  k : K
  /-- token rule (for `low`/`init`/`up` the rule of the single token inside; for `n`: "X INT") -/
  rule : String
  /-- spelling: `str(node)` -/
  text : String
  /-- value of the number inside `low`/`init`/`up` (`eval_token`, with NEG_INF/POS_INF = ∓∞) -/
  val : Val := zero
  /-- repeat count of an `n` subtree -/
  cnt : Nat := 1
  deriving DecidableEq, Repr, Inhabited

def hasK (k : K) (cs : List TNode) : Bool := cs.any (fun x => x.k == k)

/-- `theta.find(rule)`: first child with that rule. -/
def findK (k : K) (cs : List TNode) : Option TNode := cs.find? (fun x => x.k == k)

/-- value of the first child of kind `k` -/
def valK (k : K) (cs : List TNode) : Option Val := (findK k cs).map (·.val)

/-- `ThetaRecord._multiple` -/
def multiple (cs : List TNode) : Nat :=
  match findK .rep cs with
  | some n => n.cnt
  | none => 1

/-! ### the parameter handed to `update` -/

/-- A `pharmpy.model.Parameter` as `update` sees it.  `initS = str(init)`,
    `lowerS = format_number(lower)`, `upperS = format_number(upper)` are computed by Python
    (shortest round-trip `repr` is not modelled; `float(str(x)) == x` is trusted). -/
structure Param where
  init : Val
  initS : String
  lower : Val
  lowerS : String
  upper : Val
  upperS : String
  fix : Bool
  deriving DecidableEq, Repr, Inhabited

/-! ### helpers of theta_record.py -/

def tokComma : TNode := { k := .comma, rule := "COMMA", text := "," }
def tokWs : TNode := { k := .ws, rule := "WS", text := " " }
def tokFix : TNode := { k := .fix, rule := "FIX", text := "FIX" }
def tokLpar : TNode := { k := .lpar, rule := "LPAR", text := "(" }
def tokRpar : TNode := { k := .rpar, rule := "RPAR", text := ")" }
def numNode (k : K) (s : String) (v : Val) : TNode := { k := k, rule := "NUMERIC", text := s, val := v }

/-- `AttrTree.replace_first(child)`: replace the first child with the rule of `new`. -/
def replaceFirst (new : TNode) : List TNode → List TNode
  | [] => []
  | x :: xs => if x.k = new.k then new :: xs else x :: replaceFirst new xs

/-- `add_upper_bound`: `, up` after every `init` child. -/
def addUpper (up : TNode) : List TNode → List TNode
  | [] => []
  | x :: xs => if x.k = .init then x :: tokComma :: up :: addUpper up xs else x :: addUpper up xs

/-- `add_lower_bound`: `low ,` before every `init` child. -/
def addLower (low : TNode) : List TNode → List TNode
  | [] => []
  | x :: xs => if x.k = .init then low :: tokComma :: x :: addLower low xs else x :: addLower low xs

/-- `remove_upper_bound`: keep while not `in_upper`; `init` switches it on (after being
    kept), `up` switches it off (after being dropped). -/
def removeUpperAux : Bool → List TNode → List TNode
  | _, [] => []
  | inUpper, x :: xs =>
    let st := if x.k = .init then true else if x.k = .up then false else inUpper
    if inUpper then removeUpperAux st xs else x :: removeUpperAux st xs

def removeUpper (cs : List TNode) : List TNode := removeUpperAux false cs

/-- `remove_lower_bound`: `low` switches `in_lower` on (before the keep test), `init`
    switches it off (before the keep test). -/
def removeLowerAux : Bool → List TNode → List TNode
  | _, [] => []
  | inLower, x :: xs =>
    let st := if x.k = .low then true else if x.k = .init then false else inLower
    if st then removeLowerAux st xs else x :: removeLowerAux st xs

def removeLower (cs : List TNode) : List TNode := removeLowerAux false cs

/-- `replace_bound(theta, which, bound)`: every child with rule `which` is replaced. -/
def replaceBound (new : TNode) (cs : List TNode) : List TNode :=
  cs.map (fun x => if x.k = new.k then new else x)

/-- `remove_parentheses` -/
def removeParens (cs : List TNode) : List TNode :=
  cs.filter (fun x => !(x.k == .lpar || x.k == .rpar))

/-- The loop of `add_parentheses` when no LPAR is met. -/
def addParensAux (haveUp : Bool) : List TNode → List TNode
  | [] => []
  | x :: xs =>
    if x.k = .low then tokLpar :: x :: addParensAux haveUp xs
    else if (!haveUp && x.k == .init) || (haveUp && x.k == .up) then x :: tokRpar :: addParensAux haveUp xs
    else x :: addParensAux haveUp xs

/-- `add_parentheses`: meeting an LPAR returns the *original* tree. -/
def addParens (cs : List TNode) : List TNode :=
  if hasK .lpar cs then cs else addParensAux (hasK .up cs) cs

/-- `remove_token_and_space(tree, 'FIX')` (non-recursive): drop every FIX token and the WS
    token that is at the top of the output stack when the FIX is met.  `acc` is the output
    stack, most recent first. -/
def rmFixAux : List TNode → List TNode → List TNode
  | acc, [] => acc.reverse
  | acc, x :: xs =>
    if x.k = .fix then
      match acc with
      | a :: acc' => if a.k = .ws then rmFixAux acc' xs else rmFixAux acc xs
      | [] => rmFixAux [] xs
    else rmFixAux (x :: acc) xs

def rmFix (cs : List TNode) : List TNode := rmFixAux [] cs

/-! ### ThetaRecord.update, one `theta` subtree -/

/-- step 1: the init -/
def setInit (cs : List TNode) (p : Param) : List TNode :=
  match findK .init cs with
  | none => cs    -- NoSuchRuleException in Python; excluded by the driver / by `HasInit`
  | some i => if i.val ≠ p.init then replaceFirst (numNode .init p.initS p.init) cs else cs

/-- step 2: FIX -/
def setFix (cs : List TNode) (p : Param) : List TNode :=
  if hasK .fix cs ≠ p.fix then
    if p.fix then cs ++ [tokWs, tokFix] else rmFix cs
  else cs

def needUpper (p : Param) : Bool := p.upper.lt maxUpper
def needLower (p : Param) : Bool := minLower.lt p.lower || needUpper p

/-- `cur_upper`: the upper bound as it is read back from the current tokens
    (`uptok if isinstance(uptok, float) and uptok != MAX_UPPER_BOUND else INF`) -/
def curUpper (uptok : Option Val) : Val :=
  match uptok with
  | none => .pinf
  | some v => if v = maxUpper then .pinf else v

/-- `cur_lower` -/
def curLower (lowtok : Option Val) : Val :=
  match lowtok with
  | none => .ninf
  | some v => if v = minLower then .ninf else v

/-- the body of the upper-bound branch; the flag is `removed_upper_bound` -/
def setUpperDo (cs : List TNode) (p : Param) : List TNode × Bool :=
  let haveU := hasK .up cs
  if !haveU && needUpper p then (addUpper (numNode .up p.upperS p.upper) cs, false)
  else if haveU && !needUpper p then (removeUpper cs, true)
  else (replaceBound (numNode .up p.upperS p.upper) cs, false)

/-- step 3: upper bound, touched only when its value changes (fix c1795fa) -/
def setUpper (cs : List TNode) (p : Param) : List TNode × Bool :=
  if curUpper (valK .up cs) ≠ p.upper then setUpperDo cs p else (cs, false)

/-- the body of the lower-bound branch -/
def setLowerDo (haveL : Bool) (n : Nat) (cs : List TNode) (p : Param) : List TNode :=
  if !haveL && needLower p then addParens (addLower (numNode .low p.lowerS p.lower) cs)
  else if haveL && !needLower p then
    -- fix 6b0a1ad: an upper bound that is still present (it reads INF and was therefore kept) cannot stay
    -- without a lower bound
    let c := if hasK .up cs then removeUpper cs else cs
    (if n = 1 then removeParens (removeLower c) else removeLower c)
  else replaceBound (numNode .low p.lowerS p.lower) cs

/-- step 4: lower bound; `haveL`, `lowtok`, `n` are read before step 3 in Python (step 3 never changes
    them).  Touched when the value changes, when a lower bound must be added because an upper bound is
    needed, or when the upper bound was just removed and the lower bound is no longer needed. -/
def setLower (haveL : Bool) (n : Nat) (lowtok : Option Val) (removedU : Bool) (cs : List TNode) (p : Param) :
    List TNode :=
  if curLower lowtok ≠ p.lower || (!haveL && needLower p) || (removedU && haveL && !needLower p) then
    setLowerDo haveL n cs p
  else cs

/-- `_update_theta` for one `theta` subtree. -/
def updItem (cs : List TNode) (p : Param) : List TNode :=
  let c1 := setInit cs p
  let c2 := setFix c1 p
  let haveL := hasK .low c2
  let lowtok := valK .low c2
  let n := multiple c2
  let c3 := setUpper c2 p
  setLower haveL n lowtok c3.2 c3.1 p

/-! ### the record -/

inductive RNode where
  | item (cs : List TNode)
  | tok (t : TNode)        -- WS / COMMENT / NEWLINE token or an `option` subtree (kind `other`)
  deriving DecidableEq, Repr, Inhabited

/-- `ThetaRecord.__len__` -/
def recLen : List RNode → Nat
  | [] => 0
  | .item cs :: r => multiple cs + recLen r
  | .tok _ :: r => recLen r

/-- number of `theta` subtrees -/
def recItems : List RNode → Nat
  | [] => 0
  | .item _ :: r => 1 + recItems r
  | .tok _ :: r => recItems r

/-- `ThetaRecord.update`: `root.map(_update_theta)` with the running index `i`;
    here `ps` is `parameters[i:]`.  An exhausted list (IndexError in Python) leaves the
    item unchanged; the driver reports it as an error instead. -/
def updRec : List RNode → List Param → List RNode
  | [], _ => []
  | .tok t :: r, ps => .tok t :: updRec r ps
  | .item cs :: r, ps =>
    match ps with
    | [] => .item cs :: updRec r []
    | p :: _ => .item (updItem cs p) :: updRec r (ps.drop (multiple cs))

/-- would Python raise IndexError in `parameters[i]`? -/
def updRecIndexError : List RNode → List Param → Bool
  | [], _ => false
  | .tok _ :: r, ps => updRecIndexError r ps
  | .item cs :: r, ps =>
    match ps with
    | [] => true
    | _ :: _ => updRecIndexError r (ps.drop (multiple cs))

/-- `ThetaRecord.remove(inds)`: `i` counts `theta` subtrees. -/
def removeRecAux (inds : List Nat) : Nat → List RNode → List RNode
  | _, [] => []
  | i, .tok t :: r => .tok t :: removeRecAux inds i r
  | i, .item cs :: r =>
    if inds.contains i then removeRecAux inds (i + 1) r else .item cs :: removeRecAux inds (i + 1) r

def removeRec (r : List RNode) (inds : List Nat) : List RNode :=
  if inds.isEmpty then r else removeRecAux inds 0 r

/-! ### parse: inits / fixs / bounds of one item, then parsing.py -/

inductive PErr where
  | noInit            -- NoSuchRuleException (form 4 `(low,,up)`)
  | initIsBound       -- "Initial estimate of THETA cannot be 1000000 or -1000000"
  | fixInParens       -- "FIX inside parentheses of $THETA requires all bounds to be the same…"
  | lowEqInit         -- "Lower bound cannot be equal to initial estimate of THETA unless FIX"
  | zeroInit          -- "Initial estimate of THETA cannot be 0 unless fixed"
  | tooLow | tooHigh  -- "Too low lower bound" / "Too high upper bound"
  | initOutside       -- Parameter.create: init < lower or init > upper
  deriving DecidableEq, Repr

structure Parsed where
  init : Val
  lower : Val
  upper : Val
  fix : Bool
  deriving DecidableEq, Repr, Inhabited

/-- The scan of `fixs`: is the first FIX token met while `inparens`? `none` = no FIX. -/
def firstFixInParens : Bool → List TNode → Option Bool
  | _, [] => none
  | inp, x :: xs =>
    if x.k = .lpar then firstFixInParens true xs
    else if x.k = .rpar then firstFixInParens false xs
    else if x.k = .fix then some inp
    else firstFixInParens inp xs

/-- `bounds`: the lower bound from `lower_token`. -/
def lowerOf (lowtok : Option Val) : Except PErr Val :=
  match lowtok with
  | none => .ok .ninf
  | some .ninf => .ok .ninf         -- 'neginf'
  | some v => if v = minLower then .ok .ninf else if v.lt minLower then .error .tooLow else .ok v

def upperOf (uptok : Option Val) : Except PErr Val :=
  match uptok with
  | none => .ok .pinf
  | some .pinf => .ok .pinf
  | some v => if v = maxUpper then .ok .pinf else if maxUpper.lt v then .error .tooHigh else .ok v

/-- `inits`, `fixs`, `bounds` of one `theta` subtree followed by
    `_fix_thetas_with_same_bounds` and the checks of `Parameter.create`. -/
def parseItem (cs : List TNode) : Except PErr Parsed :=
  match valK .init cs with
  | none => .error .noInit
  | some init =>
    let lowtok := valK .low cs
    let uptok := valK .up cs
    match lowerOf lowtok with
    | .error e => .error e
    | .ok lower =>
    match upperOf uptok with
    | .error e => .error e
    | .ok upper =>
    if init = maxUpper || init = minLower then .error .initIsBound else
    let ffix := firstFixInParens false cs
    let bad : Bool := match ffix, lowtok, uptok with
      | some true, some l, some u => !(l = u && u = init)
      | some true, some l, none => !(l = init)
      | _, _, _ => false
    if bad then .error .fixInParens else
    let fix := ffix.isSome
    if !fix && uptok.isNone && lowtok = some init then .error .lowEqInit else
    if !fix && init = zero then .error .zeroInit else
    let fix' := if lower = upper && upper = init then true else fix
    if init.lt lower || upper.lt init then .error .initOutside else
    .ok { init := init, lower := lower, upper := upper, fix := fix' }

/-- per-`theta` results, in order -/
def parseItems : List RNode → List (Except PErr Parsed × Nat)
  | [] => []
  | .tok _ :: r => parseItems r
  | .item cs :: r => (parseItem cs, multiple cs) :: parseItems r

/-- all parameters of the record (each item repeated `n` times); the first error wins. -/
def parseRec : List RNode → Except PErr (List Parsed)
  | [] => .ok []
  | .tok _ :: r => parseRec r
  | .item cs :: r =>
    match parseItem cs with
    | .error e => .error e
    | .ok q =>
      match parseRec r with
      | .error e => .error e
      | .ok qs => .ok (List.replicate (multiple cs) q ++ qs)

/-! ### the `theta` rule of theta_record.lark as a recogniser over child kinds -/

/-- kinds the grammar sees (`%ignore WS COMMENT NEWLINE`) -/
def ess (cs : List TNode) : List K := (cs.filter (fun x => !(x.k == .ws || x.k == .other))).map (·.k)

def dropFixes : List K → List K
  | .fix :: r => dropFixes r
  | r => r

/-- `_after?` at the end of the subtree -/
def afterOK : List K → Bool
  | [] => true
  | [.rep] => true
  | [.fix] => true
  | _ => false

/-- after `( fixes? low fixes?`: the `_rest` alternatives with an `init`, then `)` `_after?` -/
def restOK (r : List K) : Bool :=
  let r := match r with
    | .comma :: r' => dropFixes r'
    | r => r
  match r with
  | .init :: r =>
    let r := dropFixes r
    match r with
    | .rpar :: r => afterOK r
    | .comma :: .rpar :: r => afterOK r
    | .up :: r => (match dropFixes r with | .rpar :: r => afterOK r | _ => false)
    | .comma :: r =>
      (match dropFixes r with
       | .up :: r => (match dropFixes r with | .rpar :: r => afterOK r | _ => false)
       | _ => false)
    | _ => false
  | _ => false

/-- Does the kind sequence of the subtree derive from rule `theta` with these very kinds
    (form 4 `(low,,up)` is refused: pharmpy cannot read it)? -/
def grammarOK (cs : List TNode) : Bool :=
  match ess cs with
  | [.init] => true
  | [.init, .fix] => true
  | .lpar :: r =>
    (match dropFixes r with
     | .init :: r => (match dropFixes r with | .rpar :: r => afterOK r | _ => false)
     | .low :: r => restOK (dropFixes r)
     | _ => false)
  | _ => false

def recGrammarOK : List RNode → Bool
  | [] => true
  | .tok _ :: r => recGrammarOK r
  | .item cs :: r => grammarOK cs && recGrammarOK r

end Pharmpy.C04
