import PharmpyModel.C04.Theta
/-
  C04 — token-level model of a *diagonal* `$OMEGA` / `$SIGMA` record
  (`$OMEGA [DIAGONAL(n)] v11 v22 …`, items `init [opts]` or `([opts] init [opts])[xn]`
  with options FIX / SD / VAR) and of the non-BLOCK branches of
  `OmegaRecord.parse`, `OmegaRecord.update`, `OmegaRecord.remove`, `__len__`
  in pharmpy/model/external/nonmem/records/omega_record.py, plus
  `insert_before_or_at_end` of internals/parse/generic.py.

  The children of a `diag_item` subtree are `TNode`s as for `$THETA` (kinds
  `init`, `lpar`, `rpar`, `fix`, `sd`, `var`, `rep`, `ws`, `comma`, `other`).
  Values: the model carries the *raw* spelled value (a standard deviation under
  SD); squaring / `** 0.5` happen in Python and are outside (numerics).
-/
namespace Pharmpy.C04

/-- what `update` reads of one parameter: `raw` is `init` or `init ** 0.5` (SD item),
    `rawS` is `str(int(raw))` for an integral value, `str(raw)` otherwise -/
structure OParam where
  raw : Val
  rawS : String
  fix : Bool
  deriving DecidableEq, Repr, Inhabited

/-- `insert_before_or_at_end(tree, rule, nodes)`: the nodes go before every child with that rule … -/
def insertBefore (k : K) (nodes : List TNode) : List TNode → List TNode
  | [] => []
  | x :: xs => if x.k = k then nodes ++ x :: insertBefore k nodes xs else x :: insertBefore k nodes xs

/-- … or, when there is no such child (`found` stays False), at the end -/
def insertBeforeOrAtEnd (k : K) (nodes : List TNode) (cs : List TNode) : List TNode :=
  if hasK k cs then insertBefore k nodes cs else cs ++ nodes

/-- the init replacement shared by both paths -/
def setRaw (cs : List TNode) (p : OParam) : List TNode :=
  match findK .init cs with
  | none => cs
  | some i => if i.val ≠ p.raw then replaceFirst (numNode .init p.rawS p.raw) cs else cs

/-- the "all equal" path of the diagonal branch of `OmegaRecord.update` -/
def updDiagSame (cs : List TNode) (p : OParam) : List TNode :=
  let fix := hasK .fix cs
  let c1 := setRaw cs p
  if p.fix ≠ fix then
    (if p.fix then insertBeforeOrAtEnd .rpar [tokWs, tokFix] c1 else rmFix c1)
  else c1

/-- the "split xn" path: `node` is carried from one copy to the next; FIX is inserted when the new
    fixedness differs from the *original* one and removed when it agrees (as the code does). -/
def updDiagSplitAux (fix : Bool) : List TNode → List OParam → List (List TNode)
  | _, [] => []
  | node, p :: ps =>
    let c1 := setRaw node p
    let c2 := if p.fix ≠ fix then insertBeforeOrAtEnd .rpar [tokWs, tokFix] c1 else rmFix c1
    c2 :: updDiagSplitAux fix c2 ps

def updDiagSplit (cs : List TNode) (ps : List OParam) : List (List TNode) :=
  updDiagSplitAux (hasK .fix cs) (cs.filter (fun x => !(x.k == .rep))) ps

inductive DNode where
  | item (cs : List TNode)
  | tok (t : TNode)
  | diagonal (t : TNode)     -- the `DIAGONAL(n)` subtree
  deriving DecidableEq, Repr, Inhabited

/-- the `ws` subtree `AttrTree.create('ws', {'WS': ' '})` put between the copies -/
def wsTree : TNode := { k := .other, rule := "ws", text := " " }

def interleave (xs : List (List TNode)) : List DNode :=
  match xs with
  | [] => []
  | [x] => [.item x]
  | x :: rest => .item x :: .tok wsTree :: interleave rest

/-- one `diag_item` with its `n` parameters -/
def updDiagItem (cs : List TNode) (ps : List OParam) : List DNode :=
  match ps with
  | [] => [.item cs]
  | p :: _ =>
    if multiple cs = 1 || ps.all (fun q => q.raw == p.raw && q.fix == p.fix) then [.item (updDiagSame cs p)]
    else interleave (updDiagSplit cs ps)

/-- the diagonal branch of `OmegaRecord.update`; `ps` is `parameters[i:]` -/
def updDiag : List DNode → List OParam → List DNode
  | [], _ => []
  | .item cs :: r, ps => updDiagItem cs (ps.take (multiple cs)) ++ updDiag r (ps.drop (multiple cs))
  | x :: r, ps => x :: updDiag r ps

def updDiagIndexError : List DNode → List OParam → Bool
  | [], _ => false
  | .item cs :: r, ps => ps.length < multiple cs || updDiagIndexError r (ps.drop (multiple cs))
  | _ :: r, ps => updDiagIndexError r ps

/-- the diagonal branch of `OmegaRecord.remove`: `inds` are the first components of the tuples -/
def removeDiagAux (inds : List Nat) : Nat → Bool → List DNode → List DNode
  | _, _, [] => []
  | i, _, .diagonal _ :: r => removeDiagAux inds i false r
  | i, _, .item cs :: r =>
    if inds.contains i then removeDiagAux inds (i + 1) false r else .item cs :: removeDiagAux inds (i + 1) true r
  | i, keep, .tok t :: r => if keep then .tok t :: removeDiagAux inds i keep r else removeDiagAux inds i keep r

def removeDiag (r : List DNode) (inds : List Nat) : List DNode :=
  if inds.isEmpty then r else removeDiagAux inds 0 true r

structure DParsed where
  raw : Val
  sd : Bool
  fix : Bool
  deriving DecidableEq, Repr, Inhabited

inductive DErr where
  | noInit | sdAndVar | zeroNotFix
  deriving DecidableEq, Repr

/-- the diagonal branch of `OmegaRecord.parse` for one item (before squaring an SD value) -/
def parseDiagItem (cs : List TNode) : Except DErr DParsed :=
  match valK .init cs with
  | none => .error .noInit
  | some v =>
    let fixed := hasK .fix cs
    let sd := hasK .sd cs
    if sd && hasK .var cs then .error .sdAndVar
    else if v = zero && !fixed then .error .zeroNotFix
    else .ok { raw := v, sd := sd, fix := fixed }

def parseDiagItems : List DNode → List (Except DErr DParsed × Nat)
  | [] => []
  | .item cs :: r => (parseDiagItem cs, multiple cs) :: parseDiagItems r
  | _ :: r => parseDiagItems r

def parseDiag : List DNode → Except DErr (List DParsed)
  | [] => .ok []
  | .item cs :: r =>
    match parseDiagItem cs with
    | .error e => .error e
    | .ok q =>
      match parseDiag r with
      | .error e => .error e
      | .ok qs => .ok (List.replicate (multiple cs) q ++ qs)
  | _ :: r => parseDiag r

def diagLen : List DNode → Nat
  | [] => 0
  | .item cs :: r => multiple cs + diagLen r
  | _ :: r => diagLen r

/-! ### names: `OmegaRecord._get_name` for diagonal records

  The name of an item is the identifier of the first `; identifier` comment found among the NEWLINE / COMMENT
  tokens that follow the item in parse order (its own children first) before the next `diag_item`:
  `re.search(r';\s*([a-zA-Z_]\w*)', str(token))`.  ASCII classes of `\s` and `\w`. -/

def isSpaceC (c : Char) : Bool :=
  c == ' ' || c == '\t' || c == '\n' || c == '\r' || c == '\x0b' || c == '\x0c'
def isIdentStartC (c : Char) : Bool := c.isAlpha || c == '_'
def isWordC (c : Char) : Bool := c.isAlphanum || c == '_'

/-- leftmost match of `;\s*([a-zA-Z_]\w*)`: at each `;` skip blanks; an identifier start decides, otherwise
    go on with the next `;` (giving back blanks cannot produce an identifier start) -/
def commentNameAux : List Char → Option String
  | [] => none
  | c :: r =>
    if c == ';' then
      match r.dropWhile isSpaceC with
      | [] => commentNameAux r
      | d :: r' => if isIdentStartC d then some (String.ofList (d :: r'.takeWhile isWordC)) else commentNameAux r
    else commentNameAux r

def commentName (s : String) : Option String := commentNameAux s.toList

/-- only NEWLINE and COMMENT tokens are looked at -/
def tokName (t : TNode) : Option String :=
  if t.rule = "NEWLINE" || t.rule = "COMMENT" then commentName t.text else none

def firstName : List TNode → Option String
  | [] => none
  | t :: r => match tokName t with
    | some n => some n
    | none => firstName r

/-- the nodes that follow an item up to the next item -/
def trailing : List DNode → List TNode
  | [] => []
  | .item _ :: _ => []
  | .tok t :: r => t :: trailing r
  | .diagonal t :: r => t :: trailing r

/-- the name of every `diag_item` of the record, in order -/
def diagNames : List DNode → List (Option String)
  | [] => []
  | .item cs :: r => firstName (cs ++ trailing r) :: diagNames r
  | _ :: r => diagNames r

def noDiagonal : List DNode → Bool
  | [] => true
  | .diagonal _ :: _ => false
  | _ :: r => noDiagonal r

/-- what the grammar guarantees: `DIAGONAL(n)` can only stand in front of the first item -/
def diagonalInFront : List DNode → Bool
  | [] => true
  | .item _ :: r => noDiagonal r
  | _ :: r => diagonalInFront r

end Pharmpy.C04
