import PharmpyModel.C08.Graph
/-
  C08 — the feature-level abstract machine.

  `FV` is the feature vector of a structural PK model; `canon fv` is the canonical
  compartment graph with `fv.transits` transit compartments and `fv.periph`
  peripheral compartments (for every n, k); `detect` assembles the detectors of
  `Graph.lean` into a feature vector.

  `setFV r s` mirrors what the setters of `pharmpy.modeling.odes` do to the
  feature vector *as the code is* (including the places where the code drops a
  feature, does nothing, raises an internal error or leaves the canonical
  family); `Allowed r s o` is what the property statement permits.  The
  correspondence harness compares `setFV`/`canon` with the real setters and the
  real graph after every call of a generated history.
-/
namespace Pharmpy.C08

inductive Elim where
  | fo | zo | mm | mix
  deriving DecidableEq, Repr, Inhabited

inductive Abs where
  | inst | fo | zo | seq
  deriving DecidableEq, Repr, Inhabited

/-- Feature vector.  `zo` = the (first) dose is a zero-order infusion; the absorption
    category is derived (`FV.abs`). -/
structure FV where
  zo : Bool
  transits : Nat
  depot : Bool
  periph : Nat
  elim : Elim
  lag : Bool
  bio : Bool
  deriving DecidableEq, Repr, Inhabited

namespace FV

/-- A single transit compartment directly into central *is* a depot ("Because one single transit
    compartment cannot be distinguished from one depot compartment …"). -/
def WF (s : FV) : Prop := ¬ (s.transits = 1 ∧ s.depot = false)

instance (s : FV) : Decidable s.WF := by unfold WF; exact inferInstance

/-- There is an absorption chain in front of central. -/
def chain (s : FV) : Bool := s.transits ≠ 0 || s.depot

def abs (s : FV) : Abs :=
  match s.chain, s.zo with
  | false, false => .inst
  | false, true => .zo
  | true, false => .fo
  | true, true => .seq

/-- Normal form of "n transits, depot kept?": one transit without depot is a depot. -/
def normChain (n : Nat) (depot : Bool) : Nat × Bool :=
  if n = 1 ∧ depot = false then (0, true) else (n, depot)

end FV

/-! ### canonical graph -/

def rElim : Elim → Rate
  | .fo => ⟨0, false, true⟩
  | .zo => ⟨1, true, false⟩
  | .mm => ⟨1, true, false⟩
  | .mix => ⟨2, true, true⟩
def rKa : Rate := ⟨3, false, false⟩
def rKtr : Rate := ⟨4, false, false⟩
def rQcp (i : Nat) : Rate := ⟨5 + 2 * i, false, false⟩
def rQpc (i : Nat) : Rate := ⟨6 + 2 * i, false, false⟩

/-- Edges `TRANSIT1 → … → TRANSITn → dest`, all with the transit rate. -/
def transitEdges : Nat → Name → List Edge
  | 0, _ => []
  | n + 1, dest => transitEdges n (.transit (n + 1)) ++ [⟨.transit (n + 1), dest, rKtr⟩]

/-- Edges `CENTRAL ⇄ PERIPHERALi` for i = 1..k. -/
def periphEdges : Nat → List Edge
  | 0 => []
  | k + 1 => periphEdges k ++ [⟨.central, .periph (k + 1), rQcp (k + 1)⟩, ⟨.periph (k + 1), .central, rQpc (k + 1)⟩]

def plainNode (n : Name) : Node := ⟨n, [], false, false⟩

def transitNodes : Nat → List Node
  | 0 => []
  | n + 1 => transitNodes n ++ [plainNode (.transit (n + 1))]

def periphNodes : Nat → List Node
  | 0 => []
  | k + 1 => periphNodes k ++ [plainNode (.periph (k + 1))]

/-- Name of the compartment that receives the dose. -/
def headName (s : FV) : Name :=
  if s.transits ≠ 0 then .transit 1 else if s.depot then .depot else .central

def doseOf (s : FV) : DoseKind := if s.zo then .infusion else .bolus

/-- Give the dose, lag time and bioavailability to the head compartment. -/
def dress (s : FV) (n : Node) : Node :=
  if n.name = headName s then ⟨n.name, [doseOf s], s.lag, s.bio⟩ else n

def canonGraph (s : FV) : Graph :=
  let dest : Name := if s.depot then .depot else .central
  { nodes := ([plainNode .out, plainNode .central] ++ (if s.depot then [plainNode .depot] else [])
              ++ transitNodes s.transits ++ periphNodes s.periph).map (dress s)
    edges := [⟨.central, .out, rElim s.elim⟩] ++ (if s.depot then [⟨.depot, .central, rKa⟩] else [])
              ++ transitEdges s.transits dest ++ periphEdges s.periph }

def canon (s : FV) : State := ⟨canonGraph s, s.elim = .zo⟩

/-! ### detection -/

def detectElim (s : State) : Option Elim :=
  match s.hasFOElim, s.hasZOElim, s.hasMMElim, s.hasMixElim with
  | true, false, false, false => some .fo
  | false, true, false, false => some .zo
  | false, false, true, false => some .mm
  | false, false, false, true => some .mix
  | _, _, _, _ => none

/-- All detectors assembled into a feature vector. -/
def detect (s : State) : Option FV :=
  match s.g.transits, s.g.peripherals, detectElim s with
  | some ts, some ps, some e =>
    some { zo := s.g.hasZeroOrderAbs, transits := ts.length, depot := s.g.depot.isSome,
           periph := ps.length, elim := e, lag := s.g.hasLagTime, bio := s.g.hasBio }
  | _, _, _ => none

/-- The absorption category as the four `has_*_absorption` detectors report it
    (`none` when they are not mutually consistent). -/
def detectAbs (g : Graph) : Option Abs :=
  match g.hasInstantaneousAbs, g.hasFirstOrderAbs, g.hasZeroOrderAbs with
  | true, false, false => some .inst
  | false, true, false => some .fo
  | false, false, true => some .zo
  | false, true, true => some .seq
  | _, _, _ => none

/-! ### requests -/

inductive Req where
  | abs (a : Abs)                       -- set_{instantaneous,first_order,zero_order,seq_zo_fo}_absorption
  | elim (e : Elim)                     -- set_*_elimination
  | periph (k : Nat)                    -- set_peripheral_compartments(n=k)
  | periphAdd | periphRemove            -- add_/remove_peripheral_compartment
  | transits (n : Nat) (keepDepot : Bool)  -- set_transit_compartments(n, keep_depot)
  | lag (on : Bool)                     -- add_lag_time / remove_lag_time
  | bio (on : Bool)                     -- add_bioavailability / remove_bioavailability
  deriving DecidableEq, Repr, Inhabited

inductive Outcome where
  | ok (s : FV)
  | refuse                 -- documented ValueError raised by the setter itself
  | internal               -- the code fails with an error that is not a documented refusal
  | off                    -- the code returns a graph outside the canonical family
  | internalOrOk (s : FV)  -- inside a defect class: fails or returns this state, depending on statement-level
                           -- details (which symbols a removed definition used) the feature vector abstracts from
  | internalOrOff
  deriving DecidableEq, Repr, Inhabited

/-- What `set_transit_compartments(…, keep_depot=False)` reads of the model besides its feature vector
    (two observable facts about parameters and statements). -/
structure Ctx where
  /-- the statements define `MAT` (the depot rate is `1/MAT`) **and** a parameter `POP_MDT` is still there once the
      lag time is removed (transit compartments, SEQ-ZO-FO created from first-order/instantaneous absorption, the
      leftover of an earlier `keep_depot=False`): renaming MAT to MDT clashes -/
  renameClash : Bool
  /-- the statements do **not** define `MAT` (the model brings its own `KA`) and `remove_lag_time` removes a parameter
      (the lag-time parameter is not shared with a zero-order duration): the stale statements used afterwards still
      define the lag-time symbol whose parameter is gone -/
  staleLagParam : Bool
  deriving DecidableEq, Repr, Inhabited

/-- The part of `set_transit_compartments` after the `keep_depot` handling. `hadLag`: a lag time was
    removed and the stale ODE system still carries it. -/
def transitsTail (s : FV) (n : Nat) (hadLag : Bool) : Outcome :=
  if s.transits = n then .ok s
  else if n = 1 ∧ s.abs = .inst then .refuse
  else if hadLag ∧ n ≠ 0 then
    -- the new graph is built from the ODE system fetched *before* remove_lag_time: the lag time
    -- stays behind on the old dosing compartment
    if s.transits = 0 then .off                         -- … which is no longer the dosing compartment
    else if n = 1 ∧ s.depot = false then .internalOrOff
    else .internalOrOk { s with transits := n, lag := true }   -- … TRANSIT1 keeps a lag time whose definition is gone
  else if n = 1 ∧ s.depot = false then
    -- one transit straight into central: the detectors call it a depot, but it is named TRANSIT1 and
    -- later transit requests collide with it
    .off
  else if n = 0 then
    -- all transits removed: the dose moves on, its bioavailability does not
    .ok { s with transits := 0, bio := false }
  else .ok { s with transits := n }

/-- `set_transit_compartments(n, keep_depot)` on the feature vector, as the code behaves. -/
def setTransits (c : Ctx) (s : FV) (n : Nat) (keep : Bool) : Outcome :=
  -- `model = remove_lag_time(model)` comes first, unconditionally
  let hadLag := s.lag
  let s := { s with lag := false }
  if !keep && s.depot then
    -- MAT is renamed to MDT: fails when POP_MDT is already there
    if c.renameClash then .internal
    -- without MAT nothing is renamed, and the stale statements still define the lag-time MDT whose parameter is gone
    else if hadLag ∧ c.staleLagParam then .internal
    else
      -- the depot is removed; the ODE system is re-read
      if s.transits = 1 ∧ n = 1 then .off      -- TRANSIT1 -> CENTRAL is left: a depot by another name
      else if s.transits = 0 then
        -- the depot was the dosing compartment: its lag time goes with it, its bioavailability is not transferred
        transitsTail { s with depot := false, bio := false } n false
      else
        -- dose, bioavailability (and the stale lag time) sit on TRANSIT1
        transitsTail { s with depot := false } n hadLag
  else transitsTail s n hadLag

def setAbs (s : FV) (a : Abs) : Outcome :=
  match a with
  | .fo =>
    match s.abs with
    | .fo => .ok s
    | .inst | .zo => .ok { s with zo := false, depot := true }
    | .seq =>
      if s.transits = 0 then .ok { s with zo := false, lag := false }     -- depot is the dosing compartment
      else if s.depot then .ok s                                          -- nothing happens to the graph
      else .off                                                          -- a DEPOT is put in front of TRANSIT1
  | .zo =>
    match s.abs with
    | .zo => .ok s
    | .inst => .ok { s with zo := true }
    | .fo | .seq =>
      if s.transits = 0 then .ok { s with zo := true, depot := false }
      else if s.depot then .off                                           -- transits left dangling
      else .ok { s with zo := true }                                      -- infusion into TRANSIT1
  | .seq =>
    match s.abs with
    | .seq => .ok s
    | .inst => .ok { s with zo := true, depot := true }
    | .zo => .ok { s with depot := true, lag := false, bio := false }
    | .fo => if s.transits = 0 then .ok { s with zo := true } else .internal
  | .inst =>
    match s.abs with
    | .inst => .ok s
    | .zo => .ok { s with zo := false }
    | .fo =>
      if s.transits = 0 then .ok { s with depot := false, lag := false, bio := false }
      else if s.depot then .internal
      else .ok s                                                          -- nothing happens
    | .seq =>
      if s.depot then
        -- the second half works on the stale ODE system: the depot comes back with a bolus dose, or the
        -- statements still mention the random effect of the removed MAT
        if s.transits = 0 then .internalOrOk { s with zo := false } else .internal
      else .ok { s with zo := false }                                     -- only the infusion becomes a bolus

/-- The setters on the feature vector, as the code behaves. -/
def setFV (c : Ctx) (r : Req) (s : FV) : Outcome :=
  match r with
  | .abs a => setAbs s a
  | .elim e => .ok { s with elim := e }
  | .periph k => .ok { s with periph := k }
  | .periphAdd => .ok { s with periph := s.periph + 1 }
  | .periphRemove => .ok { s with periph := s.periph - 1 }
  | .transits n keep => setTransits c s n keep
  | .lag on => .ok { s with lag := on }
  | .bio on => .ok { s with bio := on }

/-! ### what the property statement permits -/

/-- The requested feature, as a predicate on the resulting feature vector (`s` = before). -/
def achieves (r : Req) (s s' : FV) : Bool :=
  match r with
  | .abs a => s'.abs = a
  | .elim e => s'.elim = e
  | .periph k => s'.periph = k
  | .periphAdd => s'.periph = s.periph + 1
  | .periphRemove => s'.periph = s.periph - 1
  | .transits n keep => s'.transits = n && s'.depot = (keep && s.depot)
  | .lag on => s'.lag = on
  | .bio on => s'.bio = on

/-- The other categories are unchanged.  Couplings that are inherent or documented:
    * the absorption category is a function of (dose kind, chain): a transit request on a model
      without chain creates one, INST/ZO remove the chain, FO/SEQ create a depot when there is none;
    * lag time may be dropped by a transit request and by INST / SEQ-ZO-FO
      (docstrings: "lagtime together with … is not supported"; `not_supported_combo` of modelsearch). -/
def frame (r : Req) (s s' : FV) : Bool :=
  match r with
  | .abs a =>
    s'.elim = s.elim && s'.periph = s.periph && s'.bio = s.bio
    && (s'.lag = s.lag || ((a = .inst || a = .seq) && s'.lag = false))
    && (match a with
        | .inst | .zo => s'.transits = 0 && s'.depot = false
        | .fo | .seq => if s.chain then s'.transits = s.transits && s'.depot = s.depot
                        else s'.transits = 0 && s'.depot = true)
  | .elim _ => s'.zo = s.zo && s'.transits = s.transits && s'.depot = s.depot && s'.periph = s.periph
               && s'.lag = s.lag && s'.bio = s.bio
  | .periph _ | .periphAdd | .periphRemove =>
    s'.zo = s.zo && s'.transits = s.transits && s'.depot = s.depot && s'.elim = s.elim
    && s'.lag = s.lag && s'.bio = s.bio
  | .transits _ _ =>
    s'.zo = s.zo && s'.elim = s.elim && s'.periph = s.periph && s'.bio = s.bio
    && (s'.lag = s.lag || s'.lag = false)
  | .lag _ =>
    s'.zo = s.zo && s'.transits = s.transits && s'.depot = s.depot && s'.elim = s.elim
    && s'.periph = s.periph && s'.bio = s.bio
  | .bio _ =>
    s'.zo = s.zo && s'.transits = s.transits && s'.depot = s.depot && s'.elim = s.elim
    && s'.periph = s.periph && s'.lag = s.lag

/-- The only documented refusal of these setters on a structural PK model: one transit compartment
    without a depot behind it ("cannot be distinguished from first order absorption"). -/
def mayRefuse (r : Req) (s : FV) : Bool :=
  match r with
  | .transits n keep => n = 1 && !(keep && s.depot)
  | _ => false

def Allowed (r : Req) (s : FV) : Outcome → Bool
  | .ok s' => achieves r s s' && frame r s s'
  | .refuse => mayRefuse r s
  | .internal => false
  | .off => false
  | .internalOrOk _ => false
  | .internalOrOff => false

/-- Witness classes of the defects of the code (the negation is the side-condition of the
    `_partial` theorems).  Each is a decidable description of (request, state before). -/
inductive DefectClass where
  | transitsStaleLag       -- set_transit_compartments on a model with lag time rebuilds from the stale ODE system
  | transitsDropBio        -- set_transit_compartments(0) / keep_depot=False loses the bioavailability
  | nodepotRenameClash     -- keep_depot=False with depot while MDT exists: "Parameter names must be unique"
  | singleTransitNoDepot   -- n=1 without depot on a non-instantaneous model: not refused; TRANSIT1 acts as depot
  | foOnSeqTransits        -- set_first_order_absorption on seq + transits: nothing / DEPOT in front
  | foOnSeqDropsLag        -- set_first_order_absorption on seq (depot doses) sets the lag time to 0
  | zoOnTransits           -- set_zero_order_absorption with transits: dangling chain / stays sequential
  | seqOnTransits          -- set_seq_zo_fo_absorption on first-order + transits: internal error
  | seqOnZoDropsBio        -- set_seq_zo_fo_absorption on zero-order loses bioavailability
  | instOnTransits         -- set_instantaneous_absorption with transits: internal error or nothing
  | instOnSeqDepot         -- set_instantaneous_absorption on seq with depot: internal error
  | instDropsBio           -- set_instantaneous_absorption on a depot with bioavailability loses it
  deriving DecidableEq, Repr

def defectTransitsTail (s : FV) (n : Nat) (hadLag : Bool) : Option DefectClass :=
  if s.transits = n then none
  else if n = 1 ∧ s.abs = .inst then none
  else if hadLag ∧ n ≠ 0 then some .transitsStaleLag
  else if n = 1 ∧ s.depot = false then some .singleTransitNoDepot
  else if n = 0 ∧ s.bio then some .transitsDropBio
  else none

def defectOf (c : Ctx) (r : Req) (s : FV) : Option DefectClass :=
  match r with
  | .transits n keep =>
    if !keep && s.depot then
      if c.renameClash then some .nodepotRenameClash
      else if s.lag ∧ c.staleLagParam then some .transitsStaleLag
      else if s.transits = 1 ∧ n = 1 then some .singleTransitNoDepot
      else if s.transits = 0 then
        if s.bio ∧ ¬ (n = 1 ∧ s.zo = false) then some .transitsDropBio
        else defectTransitsTail { s with depot := false, bio := false, lag := false } n false
      else defectTransitsTail { s with depot := false, lag := false } n s.lag
    else defectTransitsTail s n s.lag
  | .abs .fo =>
    if s.abs = .seq then
      if s.transits ≠ 0 then some .foOnSeqTransits
      else if s.lag then some .foOnSeqDropsLag else none
    else none
  | .abs .zo =>
    if s.transits ≠ 0 then some .zoOnTransits else none
  | .abs .seq =>
    if s.abs = .fo ∧ s.transits ≠ 0 then some .seqOnTransits
    else if s.abs = .zo ∧ s.bio then some .seqOnZoDropsBio
    else none
  | .abs .inst =>
    if s.transits ≠ 0 then some .instOnTransits
    else if s.abs = .seq then some .instOnSeqDepot
    else if s.abs = .fo ∧ s.bio then some .instDropsBio
    else none
  | _ => none

/-- The request adds structure that the state before does not have (so that undoing it is meaningful:
    "undoing a feature restores a model equivalent to the one before it was added"). -/
def additive (r : Req) (s : FV) : Bool :=
  match r with
  | .abs a =>
    (s.abs = .inst && a ≠ .inst) || (s.abs = .zo && a = .seq) || (s.abs = .fo && a = .seq)
  | .elim e => (s.elim = .fo && e ≠ .fo) || ((s.elim = .mm || s.elim = .zo) && e = .mix)
  | .periph k => s.periph < k
  | .periphAdd => true
  | .periphRemove => false
  | .transits n keep => s.transits < n && (keep || !s.depot)
  | .lag on => on && !s.lag
  | .bio on => on && !s.bio

/-- Undo request of a request, given the state before. -/
def undo (r : Req) (s : FV) : Req :=
  match r with
  | .abs _ => .abs s.abs
  | .elim _ => .elim s.elim
  | .periph _ => .periph s.periph
  | .periphAdd => .periphRemove
  | .periphRemove => .periphAdd
  | .transits _ _ => .transits s.transits true
  | .lag _ => .lag s.lag
  | .bio _ => .bio s.bio

end Pharmpy.C08
