import PharmpyModel.C08.FV
import PharmpyModel.Generated.MflFeatures
/-
  C08 — tie of the MFL feature table (regenerated from the source by translator T4)
  to the requests of the abstract machine.
-/
namespace Pharmpy.C08

/-- Setter name of a request (the public function of `pharmpy.modeling`). -/
def Req.setter : Req → String
  | .abs .inst => "set_instantaneous_absorption"
  | .abs .fo => "set_first_order_absorption"
  | .abs .zo => "set_zero_order_absorption"
  | .abs .seq => "set_seq_zo_fo_absorption"
  | .elim .fo => "set_first_order_elimination"
  | .elim .zo => "set_zero_order_elimination"
  | .elim .mm => "set_michaelis_menten_elimination"
  | .elim .mix => "set_mixed_mm_fo_elimination"
  | .periph _ => "set_peripheral_compartments"
  | .periphAdd => "add_peripheral_compartment"
  | .periphRemove => "remove_peripheral_compartment"
  | .transits _ _ => "set_transit_compartments"
  | .lag true => "add_lag_time"
  | .lag false => "remove_lag_time"
  | .bio true => "add_bioavailability"
  | .bio false => "remove_bioavailability"

/-- The request an MFL feature key `(category, mode, count)` stands for. -/
def reqOfKey (category mode : String) (count : Nat) : Option Req :=
  if category = "ABSORPTION" then
    if mode = "FO" then some (.abs .fo) else if mode = "ZO" then some (.abs .zo)
    else if mode = "SEQ-ZO-FO" then some (.abs .seq) else if mode = "INST" then some (.abs .inst) else none
  else if category = "ELIMINATION" then
    if mode = "FO" then some (.elim .fo) else if mode = "ZO" then some (.elim .zo)
    else if mode = "MM" then some (.elim .mm) else if mode = "MIX-FO-MM" then some (.elim .mix) else none
  else if category = "TRANSITS" then
    if mode = "DEPOT" then some (.transits count true)
    else if mode = "NODEPOT" then some (.transits (count + 1) false) else none
  else if category = "PERIPHERALS" then
    if mode = "DRUG" then some (.periph count) else none
  else if category = "LAGTIME" then
    if mode = "ON" then some (.lag true) else if mode = "OFF" then some (.lag false) else none
  else none

/-- The keyword arguments the table must pass for a request (as source text over `count`). -/
def Req.kwargs : Req → Bool → List (String × String)
  | .periph _, _ => [("n", "count")]
  | .transits _ true, _ => [("n", "count")]
  | .transits _ false, _ => [("n", "count + 1"), ("keep_depot", "False")]
  | _, _ => []

def structuralCategories : List String := ["ABSORPTION", "ELIMINATION", "TRANSITS", "PERIPHERALS", "LAGTIME"]

/-- One table row is faithful: it denotes a request whose setter and keyword arguments are the row's. -/
def rowOk (e : MflEntry) : Bool :=
  if e.category ∈ structuralCategories ∧ ¬ (e.category = "PERIPHERALS" ∧ e.mode = "MET") then
    match reqOfKey e.category e.mode 7 with
    | some r => r.setter = e.setter && r.kwargs true = e.kwargs
    | none => false
  else true

/-- The (category, mode) pairs the MFL grammar can produce for the structural categories. -/
def structuralKeys : List (String × String) :=
  [("ABSORPTION", "FO"), ("ABSORPTION", "ZO"), ("ABSORPTION", "SEQ-ZO-FO"), ("ABSORPTION", "INST"),
   ("ELIMINATION", "FO"), ("ELIMINATION", "ZO"), ("ELIMINATION", "MM"), ("ELIMINATION", "MIX-FO-MM"),
   ("TRANSITS", "DEPOT"), ("TRANSITS", "NODEPOT"), ("PERIPHERALS", "DRUG"),
   ("LAGTIME", "ON"), ("LAGTIME", "OFF")]

def keyCovered (k : String × String) : Bool :=
  mflTable.any (fun e => e.category = k.1 ∧ e.mode = k.2)


/-! ### how the feature table of a multi-valued statement is built

`helpers.funcs` consumes the whole generator (`dict(features)`) before any function is called.  A generator that
yields `partial(setter, n=count, …)` freezes the arguments per entry (`frozenTable`); one that yields a closure over
the loop variables has every entry use the values of the *last* iteration (`lateTable`). -/

/-- Keys of `TRANSITS(counts, depots)`: the product, in generator order (`true` = DEPOT). -/
def transitKeys (counts : List Nat) (depots : List Bool) : List (Nat × Bool) :=
  counts.flatMap (fun c => depots.map (fun d => (c, d)))

def reqOfTransitKey (k : Nat × Bool) : Req :=
  if k.2 then .transits k.1 true else .transits (k.1 + 1) false

/-- Arguments frozen per entry (what `functools.partial` does). -/
def frozenTable {κ : Type} (keys : List κ) (f : κ → Req) : List (κ × Req) :=
  keys.map (fun k => (k, f k))

/-- Arguments read when the function is called, after the generator is exhausted (late binding). -/
def lateTable {κ : Type} (keys : List κ) (f : κ → Req) : List (κ × Req) :=
  match keys.getLast? with
  | none => []
  | some l => keys.map (fun k => (k, f l))

end Pharmpy.C08
