/-
  C08 — insertion-ordered compartment graph and the graph classifiers of
  `pharmpy.model.statements.CompartmentalSystem` and `pharmpy.modeling.odes`:

    central_compartment, dosing_compartments, find_peripheral_compartments,
    find_transit_compartments, find_depot/_find_depot,
    has_{instantaneous,first_order,zero_order,seq_zo_fo}_absorption,
    has_{first_order,zero_order,michaelis_menten,mixed_mm_fo}_elimination,
    has_lag_time, bioavailability of the first dosing compartment.

  The graph is what networkx stores: the node list in insertion order and one
  global edge list in insertion order (`_succ[u]` / `_pred[v]` are its
  sub-sequences with source `u` / target `v`).  A rate is an opaque tag standing
  for the *full expression* of the rate (`before_odes.full_expression(rate)`,
  which is what `find_transit_compartments` compares) together with the two
  syntactic facts the elimination detectors read off it.
-/
namespace Pharmpy.C08

/-- Compartment names of the structural PK family (`other` for anything else). -/
inductive Name where
  | out                      -- the `Output()` singleton
  | central
  | depot
  | transit (i : Nat)        -- TRANSIT{i}
  | periph (i : Nat)         -- PERIPHERAL{i}
  | other (s : String)
  deriving DecidableEq, Repr, Inhabited

def Name.str : Name → String
  | .out => "OUT"
  | .central => "CENTRAL"
  | .depot => "DEPOT"
  | .transit i => "TRANSIT" ++ toString i
  | .periph i => "PERIPHERAL" ++ toString i
  | .other s => s

/-- `Bolus` or an `Infusion` whose rate/duration is a model parameter (not a data column). -/
inductive DoseKind where
  | bolus
  | infusion
  | dataInfusion             -- Infusion given in the dataset (RATE/DUR column): not zero-order absorption
  deriving DecidableEq, Repr, Inhabited

/-- Opaque rate: `id` identifies the full expression; `nonlinear` = the integration variable `t`
    occurs in it; `hasCL` = the symbol `CL` occurs in it. -/
structure Rate where
  id : Nat
  nonlinear : Bool
  hasCL : Bool
  deriving DecidableEq, Repr, Inhabited

structure Node where
  name : Name
  doses : List DoseKind       -- `Compartment.doses`
  lag : Bool                  -- `lag_time != 0`
  bio : Bool                  -- `bioavailability != 1`
  deriving DecidableEq, Repr, Inhabited

structure Edge where
  src : Name
  dst : Name
  rate : Rate
  deriving DecidableEq, Repr, Inhabited

structure Graph where
  nodes : List Node
  edges : List Edge
  deriving DecidableEq, Repr, Inhabited

/-- Graph plus the one parameter attribute the detectors read: `POP_KM` present and fixed. -/
structure State where
  g : Graph
  kmFixed : Bool
  deriving DecidableEq, Repr, Inhabited

namespace Graph

/-- `get_compartment_outflows`: successors with rates, in `_succ` order. -/
def succs (g : Graph) (u : Name) : List (Name × Rate) :=
  (g.edges.filter (fun e => e.src = u)).map (fun e => (e.dst, e.rate))

/-- `get_compartment_inflows`: predecessors with rates, in `_pred` order. -/
def preds (g : Graph) (v : Name) : List (Name × Rate) :=
  (g.edges.filter (fun e => e.dst = v)).map (fun e => (e.src, e.rate))

/-- `get_flow(u, v) != 0`. -/
def hasFlow (g : Graph) (u v : Name) : Bool :=
  g.edges.any (fun e => e.src = u ∧ e.dst = v)

def flow (g : Graph) (u v : Name) : Option Rate :=
  (g.edges.find? (fun e => e.src = u ∧ e.dst = v)).map (·.rate)

def node? (g : Graph) (n : Name) : Option Node :=
  g.nodes.find? (fun x => x.name = n)

/-- `central_compartment`: the last predecessor of the output.  (The re-routing to the compartment
    named CENTRAL when that predecessor is called METABOLITE/EFFECT/COMPLEX/RESPONSE concerns
    names outside this family; such names are `other` and handled the same way.) -/
def central (g : Graph) : Option Name :=
  match (g.preds .out).getLast? with
  | none => none
  | some (c, _) =>
    if c = .other "METABOLITE" ∨ c = .other "EFFECT" ∨ c = .other "COMPLEX" ∨ c = .other "RESPONSE" then
      (g.node? .central).map (·.name)
    else some c

/-- Insertion into a list sorted by compartment name (Python `sorted(key=name)`). -/
def insertByName (x : Node) : List Node → List Node
  | [] => [x]
  | y :: ys => if x.name.str < y.name.str then x :: y :: ys else y :: insertByName x ys

def sortByName : List Node → List Node
  | [] => []
  | x :: xs => insertByName x (sortByName xs)

/-- The loop of `dosing_compartments` over the name-sorted compartments that have doses. -/
def dosingLoop (c : Name) : List Node → List Node → List Node
  | [], acc => acc
  | n :: rest, acc =>
    if n.name ≠ c then
      if acc.length ≥ 2 then dosingLoop c rest (acc.dropLast ++ [n] ++ (acc.getLast?.toList))
      else dosingLoop c rest (n :: acc)
    else dosingLoop c rest (acc ++ [n])

/-- `dosing_compartments` (`none` = "No dosing compartment exists" / no central compartment). -/
def dosing (g : Graph) : Option (List Node) :=
  match g.central with
  | none => none
  | some c =>
    let ds := dosingLoop c (sortByName (g.nodes.filter (fun n => n.name ≠ .out ∧ n.doses ≠ []))) []
    if ds = [] then none else some ds

def dosing0 (g : Graph) : Option Node :=
  match g.dosing with
  | some (d :: _) => some d
  | _ => none

/-- `find_peripheral_compartments()`: out-degree 1, in-degree 1, flows to and from central. -/
def peripherals (g : Graph) : Option (List Name) :=
  match g.central with
  | none => none
  | some c =>
    some ((g.nodes.map (·.name)).filter (fun n =>
      (g.succs n).length = 1 ∧ (g.preds n).length = 1 ∧ g.hasFlow n c ∧ g.hasFlow c n))

/-- The `while True` loop of `find_transit_compartments` (fuel = number of nodes; the loop cannot
    revisit a node because every visited node has in-degree 1 and the start has in-degree 0). -/
def transitWalk (g : Graph) : Nat → Name → Rate → List Name → List Name
  | 0, _, _, acc => acc
  | fuel + 1, comp, rate, acc =>
    if (g.preds comp).length ≠ 1 then acc
    else match g.succs comp with
      | [(next, nextRate)] =>
        if rate ≠ nextRate then acc else transitWalk g fuel next rate (acc ++ [comp])
      | _ => acc

/-- `find_transit_compartments`. -/
def transits (g : Graph) : Option (List Name) :=
  match g.dosing0, g.central with
  | some d, some c =>
    if (g.preds d.name).length ≠ 0 then some []
    else match g.succs d.name with
      | [(next, rate)] =>
        let ts := transitWalk g g.nodes.length next rate [d.name]
        if ts.length = 1 ∧ (g.hasFlow d.name c ∨ d.name = c) then some [] else some ts
      | _ => some []
  | _, _ => none

/-- The loop of `_find_depot` over the inflows of central (no METABOLITE compartment in this
    family, so a candidate with two outflows ends the search). -/
def depotLoop (g : Graph) (c : Name) : List Name → Option Name
  | [] => none
  | u :: rest =>
    if (g.succs u).length = 2 then none
    else if (g.preds u).any (fun p => p.1 = c) then depotLoop g c rest
    else some u

def depotRaw (g : Graph) : Option Name :=
  match g.central with
  | none => none
  | some c => depotLoop g c ((g.preds c).map (·.1))

/-- `find_depot`: `_find_depot()` unless it is one of the transit compartments. -/
def depot (g : Graph) : Option Name :=
  match g.depotRaw, g.transits with
  | some d, some ts => if d ∈ ts then none else some d
  | _, _ => none

/-! ### absorption detectors -/

def hasZeroOrderAbs (g : Graph) : Bool :=
  match g.dosing0 with
  | some d => d.doses.head? = some .infusion
  | none => false

def hasInstantaneousAbs (g : Graph) : Bool :=
  match g.dosing0, g.central with
  | some d, some c => d.name = c ∧ d.doses.head? = some .bolus
  | _, _ => false

def hasFirstOrderAbs (g : Graph) : Bool :=
  match g.dosing0, g.central with
  | some d, some c =>
    if d.name = c then false
    else
      let inF := ((g.preds c).map (·.1)).filter (· ≠ .out)
      let outF := ((g.succs c).map (·.1)).filter (· ≠ .out)
      (inF.filter (fun u => u ∉ outF)).length = 1
  | _, _ => false

def hasSeqAbs (g : Graph) : Bool := g.hasZeroOrderAbs && g.hasFirstOrderAbs

def hasLagTime (g : Graph) : Bool :=
  match g.dosing0 with
  | some d => d.lag
  | none => false

def hasBio (g : Graph) : Bool :=
  match g.dosing0 with
  | some d => d.bio
  | none => false

end Graph

/-! ### elimination detectors (they also read whether POP_KM is fixed) -/

namespace State

def elimRate (s : State) : Option Rate :=
  match s.g.central with
  | some c => s.g.flow c .out
  | none => none

def hasFOElim (s : State) : Bool :=
  match s.elimRate with | some r => !r.nonlinear | none => false
def hasMMElim (s : State) : Bool :=
  match s.elimRate with | some r => r.nonlinear && !s.kmFixed && !r.hasCL | none => false
def hasZOElim (s : State) : Bool :=
  match s.elimRate with | some r => r.nonlinear && s.kmFixed && !r.hasCL | none => false
def hasMixElim (s : State) : Bool :=
  match s.elimRate with | some r => r.nonlinear && !s.kmFixed && r.hasCL | none => false

end State

end Pharmpy.C08
