import PharmpyModel.C16.Ctx
import PharmpyModel.C16.ResultLog
/-
  C16 — workloads: sequences of API calls, their flattened operation trace,
  and crash states of a workload.
-/
namespace Pharmpy.C16

inductive Call where
  | init
  | dbStoreEntry (m : MDesc)
  | dbStoreModel (m : MDesc)
  | dbStoreMetadata (k md : String)
  | dbRetrieve (k : String)
  | ctxStore (name descr : String) (m : MDesc)
  | ctxRetrieve (name : String)
  | storeKey (name key : String)
  | retrieveKey (name : String)
  | storeAnnotation (name ann : String)
  | retrieveAnnotation (name : String)
  | storeMessage (ctxpath date severity message : String)
  | retrieveLog
  deriving DecidableEq, Repr, Inhabited

inductive Out where
  | unit
  | entry (e : Entry)
  | entryAnn (e : Entry) (a : List Char)
  | str (s : String)
  | text (s : List Char)
  | log (ms : List (Option (List Char)))
  | err (e : Err)
  deriving DecidableEq, Repr, Inhabited

def outOf {α : Type} (f : α → Out) (r : List Op × Except Err α) : List Op × Out :=
  match r with
  | (o, .ok x) => (o, f x)
  | (o, .error e) => (o, .err e)

def Call.run (c : Call) (fs : FS) : List Op × Out :=
  match c with
  | .init => outOf (fun _ => .unit) (C16.ctxInit fs)
  | .dbStoreEntry m => outOf (fun _ => .unit) (C16.dbStoreEntry m fs)
  | .dbStoreModel m => outOf (fun _ => .unit) (C16.dbStoreModel m fs)
  | .dbStoreMetadata k md => outOf (fun _ => .unit) (C16.dbStoreMetadata k md fs)
  | .dbRetrieve k => outOf .entry (C16.dbRetrieve k fs)
  | .ctxStore n d m => outOf (fun _ => .unit) (C16.ctxStore n d m fs)
  | .ctxRetrieve n => outOf (fun p => .entryAnn p.1 p.2) (C16.ctxRetrieve n fs)
  | .storeKey n k => outOf (fun _ => .unit) (C16.storeKey n k fs)
  | .retrieveKey n => outOf .str (C16.retrieveKey n fs)
  | .storeAnnotation n a => outOf (fun _ => .unit) (C16.storeAnnotation n a fs)
  | .retrieveAnnotation n => outOf .text (C16.retrieveAnnotation n fs)
  | .storeMessage p d s m => outOf (fun _ => .unit) (C16.storeMessage p d s m fs)
  | .retrieveLog => outOf .log (C16.retrieveLog fs)

def Call.ops (c : Call) (fs : FS) : List Op := (c.run fs).1

/-- File system after the calls of `w`, none of them interrupted. -/
def runW (fs : FS) : List Call → FS
  | [] => fs
  | c :: w => runW (applyAll fs (c.ops fs)) w

/-- All operations issued by `w`, in order. -/
def traceW (fs : FS) : List Call → List Op
  | [] => []
  | c :: w => c.ops fs ++ traceW (applyAll fs (c.ops fs)) w

/-- The state a restarted process finds when `w` was interrupted at operation
    `k` of its trace (torn parameter `n`). -/
def crashW (fs : FS) (w : List Call) (k : Nat) (n : Option Nat) : FS :=
  crash fs (traceW fs w) k n

/-! ### Exception faults

  The second way a store is interrupted: operation `j` of a call raises an
  ordinary exception (ENOSPC, I/O error), possibly after a torn partial write.
  The process lives on: the exception propagates through the code's own
  `finally` / `__exit__` blocks, whose file-system operations DO happen, and
  the call ends there.  What those blocks do is part of the model:

  * `path_lock.__exit__` (database lock, annotation/log locks): no
    file-system operation;
  * `LocalModelDirectoryDatabase.transaction`: `path.unlink()` comes after
    the `yield`, NOT inside a `finally` — it is skipped when the body raises,
    so PENDING stays (`unlinkInFinally = false`).  The variant with a
    `try/finally` around the `yield` is `txnCleanup true`. -/

/-- Cleanup operations of `transaction(k)` when operation `j` of the call
    raises: with a `finally` around the `yield` (`fin`), and only when the
    exception is raised inside the `with` body (the marker was created, the
    final unlink not yet reached), the marker is removed. -/
def txnCleanup (fin : Bool) (k : String) (fs : FS) (nops j : Nat) : List Op :=
  if fin && decide ((openKey k fs).length < j) && decide (j + 1 < nops)
      && !pexists (applyAll fs (openKey k fs)) (pendingPath k)
  then [.unlink (pendingPath k)] else []

/-- The code as it is. -/
def unlinkInFinally : Bool := false

/-- Cleanup operations run after operation `j` of the call raised. -/
def Call.cleanupWith (fin : Bool) (c : Call) (fs : FS) (j : Nat) : List Op :=
  match c with
  | .dbStoreEntry m => txnCleanup fin m.key fs (C16.dbStoreEntry m fs).1.length j
  | .dbStoreModel m => txnCleanup fin m.key fs (C16.dbStoreModel m fs).1.length j
  | .dbStoreMetadata k md => txnCleanup fin k fs (C16.dbStoreMetadata k md fs).1.length j
  | .ctxStore _ _ m =>
    -- only the transaction part of Context._store_model has a cleanup
    if j < (C16.dbStoreEntry m fs).1.length then txnCleanup fin m.key fs (C16.dbStoreEntry m fs).1.length j else []
  | _ => []

def Call.cleanup (c : Call) (fs : FS) (j : Nat) : List Op := c.cleanupWith unlinkInFinally fs j

/-- The state after operation `j` of call `c` raised an exception (torn
    parameter `n`) and the exception left the call. -/
def excFaultWith (fin : Bool) (fs : FS) (c : Call) (j : Nat) (n : Option Nat) : FS :=
  applyAll (crash fs (c.ops fs) j n) (c.cleanupWith fin fs j)

def excFault (fs : FS) (c : Call) (j : Nat) (n : Option Nat) : FS := excFaultWith unlinkInFinally fs c j n

end Pharmpy.C16
