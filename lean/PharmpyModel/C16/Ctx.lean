import PharmpyModel.C16.DB
import PharmpyModel.C16.Text
/-
  C16 — the file-system programs of `contexts/local_directory.py` and of
  `Context._store_model/_retrieve_me` (`contexts/baseclass.py`) for a top-level
  context `ctx`.
-/
namespace Pharmpy.C16

def ctxRoot : Path := [.s "ctx"]
def modelsDir : Path := ctxRoot ++ [.s "models"]
def annotationsPath : Path := ctxRoot ++ [.s "annotations"]
def annotationsLock : Path := ctxRoot ++ [.s "annotations.lock"]
def logPath : Path := ctxRoot ++ [.s "log.csv"]
def logLock : Path := ctxRoot ++ [.s "log.lock"]
def commonOptionsPath : Path := ctxRoot ++ [.s "common_options"]
def namePath (name : String) : Path := modelsDir ++ [.s name]

/-- `LocalDirectoryContext.__init__` on the (existing) reference directory. -/
def ctxInit : Prog Unit := fun fs =>
  let o1 := mkdirP fs [] [.s "ctx"]
  let fs1 := applyAll fs o1
  let o2 := if isDir fs1 (ctxRoot ++ [.s "subcontexts"]) then [] else [Op.mkdir (ctxRoot ++ [.s "subcontexts"])]
  let o3 := mkdirP fs1 ctxRoot [.s ".modeldb"]
  let o4 := if isFile fs1 annotationsPath then [] else touch fs1 annotationsPath
  let o5 := if pexists fs1 modelsDir then [] else [Op.mkdir modelsDir]
  let o6 := if isFile fs1 logPath then [] else [Op.create logPath, Op.write logPath (.text logHeader)]
  let o7 := if isFile fs1 commonOptionsPath then []
            else [Op.create commonOptionsPath, Op.write commonOptionsPath (.text "{}".toList)]
  (o1 ++ o2 ++ o3 ++ o4 ++ o5 ++ o6 ++ o7, .ok ())

/-- Where a name resolves to: the last component of the link's target
    (`symlink_path.resolve().name`; the target need not exist). -/
def resolveName (fs : FS) (name : String) : Option String :=
  match get fs (namePath name) with
  | some (.link t) => match t.getLast? with
    | some (.s k) => some k
    | _ => none
  | _ => none

/-- `store_key`: only if nothing (that exists) is at `models/<name>` yet. -/
def storeKey (name key : String) : Prog Unit := fun fs =>
  let linkExists : Bool := match get fs (namePath name) with
    | some (.link t) => pexists fs t      -- Path.exists() follows the link
    | some _ => true
    | none => false
  if linkExists then ([], .ok ())
  else if pexists fs (keyDir key) then
    match get fs (namePath name) with
    | some _ => ([], .error .fileExists)    -- dangling link in the way
    | none => ([.symlink (namePath name) (keyDir key)], .ok ())
  else ([], .ok ())

/-- `retrieve_key`: resolve the link, then open (and leave) a snapshot. -/
def retrieveKey (name : String) : Prog String := fun fs =>
  match resolveName fs name with
  | none => ([], .error .notFound)
  | some k => snapshot k (fun _ => .ok k) fs

/-- `store_annotation` -/
def storeAnnotation (name ann : String) : Prog Unit := fun fs =>
  let o1 := touch fs annotationsLock
  match get fs annotationsPath with
  | some (.file (.text t)) =>
    (o1 ++ [.create annotationsPath,
            .write annotationsPath (.text (storeAnnotationText name.toList ann.toList t))], .ok ())
  | _ => (o1, .error .fileNotFound)

def retrieveAnnotation (name : String) : Prog (List Char) := fun fs =>
  let o1 := touch fs annotationsLock
  match get fs annotationsPath with
  | some (.file (.text t)) =>
    match retrieveAnnotationText name.toList t with
    | .ok a => (o1, .ok a)
    | .error .keyError => (o1, .error .notFound)
    | .error .indexError => (o1, .error .indexError)
  | _ => (o1, .error .fileNotFound)

/-- `store_message` (the date is chosen by the caller). -/
def storeMessage (ctxpath date severity message : String) : Prog Unit := fun fs =>
  let o1 := touch fs logLock
  let line := logLine ctxpath.toList date.toList severity.toList message.toList
  if pexists fs logPath then (o1 ++ [.append logPath line], .ok ())
  else (o1 ++ [.create logPath, .append logPath line], .ok ())

def retrieveLog : Prog (List (Option (List Char))) := fun fs =>
  let o1 := touch fs logLock
  match get fs logPath with
  | some (.file (.text t)) =>
    match readLog t with
    | .ok ms => (o1, .ok ms)
    | .error _ => (o1, .error .parserError)
  | _ => (o1, .error .fileNotFound)

/-- `Context._store_model(name, me)`: transaction, then the name link, then
    the annotation. -/
def ctxStore (name descr : String) (m : MDesc) : Prog Unit :=
  (dbStoreEntry m).andThen fun _ =>
  (storeKey name m.key).andThen fun _ =>
  storeAnnotation name descr

/-- NOT the code: the variant of `_store_model` that calls `store_key` inside
    the `with db.transaction(model)` block, i.e. links the name before PENDING
    is removed.  Kept to show what `linked_name_committed` excludes. -/
def ctxStoreEarlyLink (name descr : String) (m : MDesc) : Prog Unit :=
  (txn m.key ((storeEntryBody m).andThen fun _ => storeKey name m.key)).andThen fun _ =>
  storeAnnotation name descr

/-- `Context._retrieve_me(name)`: key, entry, annotation. -/
def ctxRetrieve (name : String) : Prog (Entry × List Char) :=
  (retrieveKey name).andThen fun k =>
  (dbRetrieve k).andThen fun e =>
  (retrieveAnnotation name).andThen fun a =>
  fun _ => ([], .ok (e, a))

end Pharmpy.C16
