import PharmpyModel.C16.FS
import PharmpyModel.Core.Expr
/-
  C16 — the file-system programs of
  `pharmpy/workflows/model_database/local_directory.py`
  (`LocalModelDirectoryDatabase.transaction/snapshot`,
   `LocalModelDirectoryDatabaseTransaction.store_model/store_metadata/
    store_modelfit_results/store_model_entry`,
   `LocalModelDirectoryDatabaseSnapshot.retrieve_model_entry`).

  A program is a function `FS → List Op × Except Err α`: the mutating
  operations it issues on that file system, and its outcome (an exception of
  the Python code is an `Err`; the operations issued before it stay issued).
-/
namespace Pharmpy.C16

inductive Err where
  | pending          -- PendingTransactionError
  | notFound         -- KeyError (no model file / no such name / no annotation)
  | stopIteration    -- next(h_dir.iterdir()) on an empty index directory
  | fileNotFound     -- FileNotFoundError (datainfo / dataset / annotations file missing)
  | jsonDecode       -- JSONDecodeError (torn datainfo / results)
  | parse            -- a torn model file / dataset handed to a parser
  | fileExists       -- FileExistsError (symlink over an existing dangling link)
  | indexError       -- IndexError (annotation line without a blank)
  | valueError       -- ValueError (invalid digest)
  | parserError      -- pandas ParserError (EOF inside a quoted field)
  deriving DecidableEq, Repr, Inhabited

abbrev Prog (α : Type) := FS → List Op × Except Err α

/-- Sequential composition: the second program sees the file system left by the
    first; an exception of the first ends the call. -/
def Prog.andThen {α β : Type} (a : Prog α) (b : α → Prog β) : Prog β := fun fs =>
  match a fs with
  | (o1, .error e) => (o1, .error e)
  | (o1, .ok x) =>
    match b x (applyAll fs o1) with
    | (o2, r) => (o1 ++ o2, r)

/-- What the harness tells the model about one pharmpy model object. -/
structure MDesc where
  key : String            -- ModelHash, abstracted to K1, K2, …
  dh : String             -- dataset hash, abstracted to H1, H2, …
  di : String             -- identity of model.datainfo (paths ignored)
  code : String           -- identity of the written model text apart from $DATA
  ext : String := "ctl"   -- "model" ++ filename_extension
  res : Option String := none   -- identity of the modelfit results, if any
  deriving DecidableEq, Repr, Inhabited

/-- Root of the model database inside the tree. -/
def dbRoot : Path := [.s "ctx", .s ".modeldb"]

def keyDir (k : String) : Path := dbRoot ++ [.s k]
def metaDir (k : String) : Path := keyDir k ++ [.s ".pharmpy"]
def pendingPath (k : String) : Path := metaDir k ++ [.s "PENDING"]
def lockPath : Path := dbRoot ++ [.s ".lock"]
def datasetsDir : Path := dbRoot ++ [.s ".datasets"]
def hashDir (h : String) : Path := datasetsDir ++ [.s ".hash", .s h]
def modelPath (k ext : String) : Path := keyDir k ++ [.model ext]
def resultsPath (k : String) : Path := metaDir k ++ [.s "results.json"]
def metadataPath (k : String) : Path := metaDir k ++ [.s "metadata.json"]

/-- `destination.mkdir(parents=True, exist_ok=True)` followed by
    `_read_lock()/_write_lock()`'s `path.touch(exist_ok=True)`. -/
def openKey (k : String) (fs : FS) : List Op :=
  mkdirP fs dbRoot [.s k, .s ".pharmpy"] ++ touch fs lockPath

/-- `LocalModelDirectoryDatabase.transaction`: mark PENDING first, run the body,
    remove PENDING last — and only if the body raised nothing. -/
def txn (k : String) (body : Prog Unit) : Prog Unit := fun fs =>
  let pre := openKey k fs
  let fs1 := applyAll fs pre
  if pexists fs1 (pendingPath k) then (pre, .error .pending)
  else
    match body (apply fs1 (.create (pendingPath k))) with
    | (b, .ok _) => (pre ++ .create (pendingPath k) :: b ++ [.unlink (pendingPath k)], .ok ())
    | (b, .error e) => (pre ++ .create (pendingPath k) :: b, .error e)

/-- `LocalModelDirectoryDatabase.snapshot`: refuses while PENDING is there. -/
def snapshot {α : Type} (k : String) (body : FS → Except Err α) : Prog α := fun fs =>
  let pre := openKey k fs
  let fs1 := applyAll fs pre
  if pexists fs1 (pendingPath k) then (pre, .error .pending)
  else (pre, body fs1)

/-- Highest `N` among `data<N>.csv` directly under `.datasets`. -/
def highest (fs : FS) : Nat :=
  (children fs datasetsDir).foldl (fun acc x => match x with
    | .csv n => max acc n
    | _ => acc) 0

def parseDinfo : Content → Option (String × Nat)
  | .full (.dinfo d n) => some (d, n)
  | _ => none

/-- Writing the model file: `model_path.mkdir(exist_ok=True)` (exists: the
    transaction created it) and `write_model(..., force=True)`. -/
def writeModel (m : MDesc) (ref : Option Nat) : List Op :=
  [.create (modelPath m.key m.ext), .write (modelPath m.key m.ext) (.full (.model m.code ref))]

/-- `data_path.with_suffix('.datainfo')` for an index entry `data<N>.csv`. -/
def dinfoOf : Seg → Seg
  | .csv n => .dinfo n
  | y => y

/-- `store_model`, branch `h_dir.is_dir()`: the dataset is (believed to be) in
    the database already; bind the model to the file the index names. -/
def storeShared (m : MDesc) (fs : FS) : List Op × Except Err Unit :=
  match children fs (hashDir m.dh) with
  | [] => ([], .error .stopIteration)                    -- next(h_dir.iterdir())
  | x :: _ =>
    match get fs (datasetsDir ++ [dinfoOf x]) with
    | some (.file c) =>
      match parseDinfo c with                            -- DataInfo.read_json(dipath)
      | none => ([], .error .jsonDecode)
      | some (d, n) => (writeModel m (if d = m.di then some n else none), .ok ())
    | _ => ([], .error .fileNotFound)

/-- `store_model`, branch `else`: new index directory, index entry, dataset,
    datainfo (last), then the model file. -/
def storeFresh (m : MDesc) (fs : FS) : List Op × Except Err Unit :=
  let n := highest fs + 1
  (mkdirP fs dbRoot [.s ".datasets", .s ".hash", .s m.dh]
    ++ [.create (hashDir m.dh ++ [.csv n]),
        .create (datasetsDir ++ [.csv n]), .write (datasetsDir ++ [.csv n]) (.full (.csv m.dh)),
        .create (datasetsDir ++ [.dinfo n]), .write (datasetsDir ++ [.dinfo n]) (.full (.dinfo m.di n))]
    ++ writeModel m (some n), .ok ())

/-- `LocalModelDirectoryDatabaseTransaction.store_model`. -/
def storeModel (m : MDesc) : Prog Unit := fun fs =>
  if isFile fs (modelPath m.key m.ext) then ([], .ok ())
  else if isDir fs (hashDir m.dh) then storeShared m fs
  else storeFresh m fs

/-- `store_modelfit_results` (`destination.mkdir` finds the directory). -/
def storeResults (m : MDesc) : Prog Unit := fun _ =>
  match m.res with
  | none => ([], .ok ())
  | some r => ([.create (resultsPath m.key), .write (resultsPath m.key) (.full (.results r))], .ok ())

def storeMetadata (k : String) (md : String) : Prog Unit := fun _ =>
  ([.create (metadataPath k), .write (metadataPath k) (.full (.mdata md))], .ok ())

/-- `store_model_entry` = `store_model(); store_modelfit_results()`. -/
def storeEntryBody (m : MDesc) : Prog Unit :=
  (storeModel m).andThen (fun _ => storeResults m)

/-- `db.store_model_entry(me)` / `db.store_model(m)` / `db.store_metadata(m, md)`. -/
def dbStoreEntry (m : MDesc) : Prog Unit := txn m.key (storeEntryBody m)
def dbStoreModel (m : MDesc) : Prog Unit := txn m.key (storeModel m)
def dbStoreMetadata (k : String) (md : String) : Prog Unit := txn k (storeMetadata k md)

/-- What a reader obtains: the model text's identity, the dataset it is bound
    to, its datainfo, its results. -/
structure Entry where
  code : String
  dataset : Option String      -- none: the model file points outside the database
  di : Option String
  res : Option String
  deriving DecidableEq, Repr, Inhabited

/-- `_find_full_model_path`: `.mod` first, then `.ctl`. -/
def findModel (k : String) (fs : FS) : Option Path :=
  if isFile fs (modelPath k "mod") then some (modelPath k "mod")
  else if isFile fs (modelPath k "ctl") then some (modelPath k "ctl")
  else none

/-- `retrieve_model_entry` inside a snapshot: parse the model file, read the
    dataset and the datainfo it refers to, read results.json if present. -/
def readEntry (k : String) (fs : FS) : Except Err Entry :=
  match findModel k fs with
  | none => .error .notFound
  | some p =>
    match read fs p with
    | some (.full (.model code ref)) =>
      let res : Except Err (Option String) :=
        match get fs (resultsPath k) with
        | some (.file (.full (.results r))) => .ok (some r)
        | some (.file _) => .error .jsonDecode
        | _ => .ok none
      match ref with
      | none => res.map (fun r => { code := code, dataset := none, di := none, res := r })
      | some n =>
        match read fs (datasetsDir ++ [.csv n]) with
        | some (.full (.csv d)) =>
          let di : Option String := match read fs (datasetsDir ++ [.dinfo n]) with
            | some c => (parseDinfo c).map (·.1)
            | none => none
          res.map (fun r => { code := code, dataset := some d, di := di, res := r })
        | some _ => .error .parse
        | none => .error .fileNotFound
    | _ => .error .parse

def dbRetrieve (k : String) : Prog Entry := snapshot k (readEntry k)

/-! ### The intended repair of `store_model` (NOT the code as it is)

  An index entry is used only if the datainfo it names can be read (a stale
  entry left by a crash is ignored, whatever the directory iteration order),
  and a new dataset gets a number above every number in use anywhere below
  `.datasets` — data files, datainfo files *and index entries* — so that a
  stale index entry can never come to name another dataset's file. -/

def highestR (fs : FS) : Nat :=
  fs.foldl (fun acc pn =>
    if datasetsDir.isPrefixOf pn.1 then
      match pn.1.getLast? with
      | some (.csv n) => max acc n
      | some (.dinfo n) => max acc n
      | _ => acc
    else acc) 0

def usableIndex (m : MDesc) (fs : FS) : Option (String × Nat) :=
  (children fs (hashDir m.dh)).findSome? fun x =>
    match get fs (datasetsDir ++ [dinfoOf x]) with
    | some (.file c) => parseDinfo c
    | _ => none

def storeFreshR (m : MDesc) (fs : FS) : List Op × Except Err Unit :=
  let n := highestR fs + 1
  (mkdirP fs dbRoot [.s ".datasets", .s ".hash", .s m.dh]
    ++ [.create (hashDir m.dh ++ [.csv n]),
        .create (datasetsDir ++ [.csv n]), .write (datasetsDir ++ [.csv n]) (.full (.csv m.dh)),
        .create (datasetsDir ++ [.dinfo n]), .write (datasetsDir ++ [.dinfo n]) (.full (.dinfo m.di n))]
    ++ writeModel m (some n), .ok ())

def storeModelR (m : MDesc) : Prog Unit := fun fs =>
  if isFile fs (modelPath m.key m.ext) then ([], .ok ())
  else match usableIndex m fs with
    | some (d, n) => (writeModel m (if d = m.di then some n else none), .ok ())
    | none => storeFreshR m fs

def storeEntryBodyR (m : MDesc) : Prog Unit :=
  (storeModelR m).andThen (fun _ => storeResults m)

def dbStoreEntryR (m : MDesc) : Prog Unit := txn m.key (storeEntryBodyR m)

/-- What a completed `store_model_entry` of `m` is meant to make retrievable. -/
def MDesc.entry (m : MDesc) : Entry :=
  { code := m.code, dataset := some m.dh, di := some m.di, res := m.res }

end Pharmpy.C16
