/-
  C16 — abstract file system, operations, crash semantics.

  A file system is a finite map `Path ⇀ Dir | File content | Symlink target`,
  kept as an association list (newest binding first; `unlink` removes every
  binding).  A Python API call is modelled as a function from the current file
  system to the list of *mutating* operations it issues (its reads are
  evaluated inside that function).  A crash is process death: the first `k`
  operations of the issued sequence have happened, and — if operation `k` is a
  content write — an arbitrary prefix (`take n`) of its content may have
  reached the file (`crash`).
-/
namespace Pharmpy.C16

/-- Path component.  `data<N>.csv` / `data<N>.datainfo` are kept structured so
    that the "highest number" scan of `store_model` needs no string parsing. -/
inductive Seg where
  | s (name : String)
  | csv (n : Nat)
  | dinfo (n : Nat)
  | model (ext : String)      -- "model" ++ filename_extension, e.g. model.ctl
  deriving DecidableEq, Repr, Inhabited

abbrev Path := List Seg

/-- What a database file holds, abstractly.  The text of a model file, a
    dataset, a datainfo or a results file is identified by a token; only the
    facts the database code itself looks at are kept (the datainfo's identity
    and the data file it names, the data file a model file refers to). -/
inductive Tok where
  | csv (dataset : String)
  | dinfo (di : String) (file : Nat)            -- datainfo `di`, "path": "data<file>.csv"
  | model (code : String) (ref : Option Nat)    -- model text; `$DATA ../.datasets/data<ref>.csv` or its own path
  | results (r : String)
  | mdata (m : String)
  deriving DecidableEq, Repr, Inhabited

/-- File content: literal text (context files), a complete token, or a strict
    prefix of `n` characters of a token's text (a torn write). -/
inductive Content where
  | text (cs : List Char)
  | full (t : Tok)
  | part (t : Tok) (n : Nat)
  deriving DecidableEq, Repr, Inhabited

/-- The first `n` characters (for a token: `n` is below the length of its text;
    the harness never asks for more, a longer prefix being the completed write). -/
def Content.take : Content → Nat → Content
  | .text cs, n => .text (cs.take n)
  | .full _, 0 => .text []
  | .full t, n => .part t n
  | .part _ _, 0 => .text []
  | .part t m, n => .part t (min m n)

/-- Appending to a file (only text files are ever appended to). -/
def Content.append : Content → List Char → Content
  | .text cs, d => .text (cs ++ d)
  | c, [] => c
  | _, d => .text d

inductive Node where
  | dir
  | file (c : Content)
  | link (target : Path)
  deriving DecidableEq, Repr, Inhabited

abbrev FS := List (Path × Node)

def get (fs : FS) (p : Path) : Option Node := fs.lookup p

def pexists (fs : FS) (p : Path) : Bool := (get fs p).isSome

def isDir (fs : FS) (p : Path) : Bool :=
  match get fs p with
  | some .dir => true
  | _ => false

def isFile (fs : FS) (p : Path) : Bool :=
  match get fs p with
  | some (.file _) => true
  | _ => false

def read (fs : FS) (p : Path) : Option Content :=
  match get fs p with
  | some (.file c) => some c
  | _ => none

/-- Names bound directly under directory `d` (a name bound several times in
    the association list is listed several times; users take the first name,
    test emptiness or fold a maximum). -/
def children (fs : FS) (d : Path) : List Seg :=
  fs.filterMap fun (pn : Path × Node) =>
    match pn.1.getLast? with
    | some x => if pn.1.dropLast = d then some x else none
    | none => none

inductive Op where
  | mkdir (p : Path)
  | create (p : Path)                 -- create empty / truncate (open 'w', touch on a missing file)
  | write (p : Path) (c : Content)    -- the content written between open('w') and close
  | append (p : Path) (c : List Char) -- the text written between open('a') and close
  | unlink (p : Path)
  | symlink (p : Path) (target : Path)
  deriving DecidableEq, Repr, Inhabited

def Op.path : Op → Path
  | .mkdir p => p
  | .create p => p
  | .write p _ => p
  | .append p _ => p
  | .unlink p => p
  | .symlink p _ => p

def apply (fs : FS) : Op → FS
  | .mkdir p => (p, .dir) :: fs
  | .create p => (p, .file (.text [])) :: fs
  | .write p c => (p, .file c) :: fs
  | .append p c => (p, .file (((read fs p).getD (.text [])).append c)) :: fs
  | .unlink p => fs.filter (fun pn => pn.1 ≠ p)
  | .symlink p t => (p, .link t) :: fs

def applyAll (fs : FS) (ops : List Op) : FS := ops.foldl apply fs

/-- The torn version of an operation: only the first `n` characters of the
    content reached the file.  Non-content operations are atomic. -/
def Op.tear : Op → Nat → Option Op
  | .write p c, n => some (.write p (c.take n))
  | .append p c, n => some (.append p (c.take n))
  | _, _ => none

/-- State after a crash at operation `k` of `ops` with torn parameter `n`
    (`none`: operation `k` did not start). -/
def crash (fs : FS) (ops : List Op) (k : Nat) (n : Option Nat) : FS :=
  let fs' := applyAll fs (ops.take k)
  match ops[k]?, n with
  | some o, some n =>
    match o.tear n with
    | some o' => apply fs' o'
    | none => fs'
  | _, _ => fs'

/-- `p` lies strictly below directory `d`. -/
def under (d p : Path) : Bool := d.isPrefixOf p && decide (d.length < p.length)

/-- All proper ancestors-or-self of `p` below (and excluding) `base`, top-down. -/
def ancestors (base : Path) : List Seg → List Path
  | [] => []
  | x :: xs => (base ++ [x]) :: ancestors (base ++ [x]) xs

/-- `Path.mkdir(parents=True, exist_ok=True)` for `base ++ rel`, `base` existing:
    one successful `os.mkdir` per missing directory, top-down. -/
def mkdirP (fs : FS) (base : Path) (rel : List Seg) : List Op :=
  ((ancestors base rel).filter (fun p => !pexists fs p)).map Op.mkdir

/-- `path.touch(exist_ok=True)`: creates the file when it is missing. -/
def touch (fs : FS) (p : Path) : List Op := if pexists fs p then [] else [.create p]

end Pharmpy.C16
