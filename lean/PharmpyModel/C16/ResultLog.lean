/-
  C16 — the log of a stored model entry on its way through `results.json`.

  `ModelfitResults.to_json` encodes `results.log` with `Log.to_dict`
  (`{i: entry.to_dict()}` keyed by the integer position, plus
  `'__class__': 'Log'`); `json.dumps` turns the integer keys into their decimal
  strings; `read_results` (`json.load`) rebuilds a Python dict from the pairs
  in file order (a repeated key overwrites the value at its first position),
  the object hook deletes `'__class__'` and calls `Log.from_dict`, which takes
  `d.values()` — the insertion order of the dict.  `retrieve_model_entry`
  returns that log as `modelfit_results.log` and as `ModelEntry.log`.
-/
namespace Pharmpy.C16

structure LogEntry where
  category : String
  message : String
  time : String          -- `time.isoformat()`, read back by `datetime.fromisoformat`
  deriving DecidableEq, Repr, Inhabited

/-- A JSON value as far as a log object has them. -/
inductive JVal where
  | entry (e : LogEntry)     -- `{"category": …, "message": …, "time": …}`
  | str (s : String)
  deriving DecidableEq, Repr, Inhabited

/-- `Log.to_dict`: `{i: entry.to_dict() for i, entry in enumerate(entries)}`. -/
def logToDict : Nat → List LogEntry → List (Nat × LogEntry)
  | _, [] => []
  | i, e :: es => (i, e) :: logToDict (i + 1) es

/-- The pairs of the JSON object written for a log: integer keys become
    decimal strings (`json.dumps`), `'__class__'` comes last. -/
def encodeLog (l : List LogEntry) : List (String × JVal) :=
  (logToDict 0 l).map (fun p => (toString p.1, JVal.entry p.2)) ++ [("__class__", JVal.str "Log")]

/-- Python `d[k] = v` on an insertion-ordered dict. -/
def dictSet (d : List (String × JVal)) (k : String) (v : JVal) : List (String × JVal) :=
  match d with
  | [] => [(k, v)]
  | (k', v') :: r => if k' = k then (k', v) :: r else (k', v') :: dictSet r k v

/-- `json.loads` of an object: the dict built from the pairs in file order. -/
def dictOfPairs (ps : List (String × JVal)) : List (String × JVal) :=
  ps.foldl (fun d p => dictSet d p.1 p.2) []

/-- `del obj['__class__']` -/
def dictDel (d : List (String × JVal)) (k : String) : List (String × JVal) := d.filter (fun p => p.1 ≠ k)

/-- `Log.from_dict(d)`: `for entry in d.values(): LogEntry.from_dict(entry)`;
    a value that is not an entry object makes `LogEntry.from_dict` raise. -/
def logFromDict (d : List (String × JVal)) : Option (List LogEntry) :=
  d.mapM (fun p => match p.2 with
    | .entry e => some e
    | .str _ => none)

/-- What `read_results` makes of the pairs of a log object. -/
def decodeLog (ps : List (String × JVal)) : Option (List LogEntry) :=
  let d := dictOfPairs ps
  if d.any (fun p => p.1 = "__class__" ∧ p.2 = JVal.str "Log") then logFromDict (dictDel d "__class__")
  else none   -- not a Log object: left a plain dict

/-- Variant that orders the entries by `sorted(d)` (string keys!) instead of by
    insertion — NOT the code; kept to show what the theorem excludes. -/
def insertSorted (p : String × JVal) : List (String × JVal) → List (String × JVal)
  | [] => [p]
  | q :: r => if p.1 < q.1 then p :: q :: r else q :: insertSorted p r

def logFromDictSorted (d : List (String × JVal)) : Option (List LogEntry) :=
  logFromDict (d.foldr insertSorted [])

end Pharmpy.C16
