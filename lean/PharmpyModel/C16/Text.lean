/-
  C16 — the two text formats of `contexts/local_directory.py`.

  * `log.csv`: `store_message` appends `ctxpath,date,severity,"mangled"\n`;
    `retrieve_log` reads the file with `pandas.read_csv` (C tokenizer,
    default dialect: `,` separator, `"` quote, doubled quotes, `\r`, `\n`,
    `\r\n` line ends, blank lines skipped) and pandas' default NA strings.
    `csvStep`/`csvFinish` mirror the tokenizer's state machine.
  * `annotations`: one line `name annotation\n` per name; text mode
    (universal newlines on reading).
-/
namespace Pharmpy.C16

/-! ### log.csv -/

/-- `mangle_message`: `'"' + message.replace('"', '""') + '"'`. -/
def escapeQuotes : List Char → List Char
  | [] => []
  | c :: cs => if c = '"' then '"' :: '"' :: escapeQuotes cs else c :: escapeQuotes cs

def mangle (m : List Char) : List Char := '"' :: (escapeQuotes m ++ ['"'])

/-- One appended log line. -/
def logLine (ctxpath date severity message : List Char) : List Char :=
  ctxpath ++ ',' :: (date ++ ',' :: (severity ++ ',' :: (mangle message ++ ['\n'])))

def logHeader : List Char := "path,time,severity,message\n".toList

inductive CsvMode where
  | startRecord | startField | inField | inQuoted | quoteInQuoted | eatCrnl
  deriving DecidableEq, Repr, Inhabited

structure CsvSt where
  rows : List (List (List Char)) := []   -- completed records
  cur : List (List Char) := []           -- completed fields of the current record
  fld : List Char := []                  -- characters of the current field
  mode : CsvMode := .startRecord
  deriving DecidableEq, Repr, Inhabited

def CsvSt.endField (s : CsvSt) (m : CsvMode) : CsvSt :=
  { s with cur := s.cur ++ [s.fld], fld := [], mode := m }

def CsvSt.endLine (s : CsvSt) : CsvSt :=
  { s with rows := s.rows ++ [s.cur], cur := [], fld := [], mode := .startRecord }

def CsvSt.push (s : CsvSt) (c : Char) (m : CsvMode) : CsvSt :=
  { s with fld := s.fld ++ [c], mode := m }

/-- Transition at the start of a field (also taken, by fall-through, at the
    start of a record for a character that is not a line end). -/
def csvStartField (s : CsvSt) (c : Char) : CsvSt :=
  if c = '\n' then (s.endField .startRecord).endLine
  else if c = '\r' then s.endField .eatCrnl
  else if c = '"' then { s with mode := .inQuoted }
  else if c = ',' then s.endField .startField
  else s.push c .inField

def csvStartRecord (s : CsvSt) (c : Char) : CsvSt :=
  if c = '\n' then s                       -- blank line: skipped
  else if c = '\r' then s                  -- (EAT_CRNL_NOP)
  else csvStartField s c

def csvStep (s : CsvSt) (c : Char) : CsvSt :=
  match s.mode with
  | .startRecord => csvStartRecord s c
  | .startField => csvStartField s c
  | .inField =>
    if c = '\n' then (s.endField .startRecord).endLine
    else if c = '\r' then s.endField .eatCrnl
    else if c = ',' then s.endField .startField
    else s.push c .inField
  | .inQuoted =>
    if c = '"' then { s with mode := .quoteInQuoted } else s.push c .inQuoted
  | .quoteInQuoted =>
    if c = '"' then s.push '"' .inQuoted
    else if c = ',' then s.endField .startField
    else if c = '\n' then (s.endField .startRecord).endLine
    else if c = '\r' then s.endField .eatCrnl
    else s.push c .inField
  | .eatCrnl =>
    if c = '\n' then s.endLine
    else csvStartRecord s.endLine c

/-- End of input: `none` is pandas' `ParserError: EOF inside string`. -/
def csvFinish (s : CsvSt) : Option (List (List (List Char))) :=
  match s.mode with
  | .startRecord => some s.rows
  | .inQuoted => none
  | .eatCrnl => some s.endLine.rows
  | _ => some (s.endField .startRecord).endLine.rows

def csvParse (text : List Char) : Option (List (List (List Char))) :=
  csvFinish (text.foldl csvStep {})

/-- pandas' default `na_values` (`pandas._libs.parsers.STR_NA_VALUES`). -/
def naStrings : List (List Char) :=
  ["", "#N/A", "#N/A N/A", "#NA", "-1.#IND", "-1.#QNAN", "-NaN", "-nan", "1.#IND", "1.#QNAN",
   "<NA>", "N/A", "NA", "NULL", "NaN", "None", "n/a", "nan", "null"].map String.toList

def isNA (m : List Char) : Bool := naStrings.contains m

inductive LogErr where
  | parserError      -- EOF inside a quoted field, or a record with too many fields
  | emptyData        -- no header
  | badHeader        -- the header is not the one `_init_log` writes (KeyError 'path' later)
  deriving DecidableEq, Repr, Inhabited

/-- The `message` column of `retrieve_log()`: `none` is NaN.
    `naFilter = true` is `pd.read_csv(log_path)` with pandas' defaults (the
    code before fix 68c0db2): NA strings become NaN and records shorter than
    the header are padded with NaN.  `naFilter = false` is
    `pd.read_csv(log_path, dtype=str, keep_default_na=False)`: every field is
    the string that stands in the file, missing trailing fields are `''`. -/
def readLogWith (naFilter : Bool) (text : List Char) : Except LogErr (List (Option (List Char))) :=
  match csvParse text with
  | none => .error .parserError
  | some [] => .error .emptyData
  | some (h :: rows) =>
    if h ≠ ["path".toList, "time".toList, "severity".toList, "message".toList] then .error .badHeader
    else if rows.any (fun r => decide (4 < r.length)) then .error .parserError
    else .ok (rows.map fun r =>
      match r[3]? with
      | some m => if naFilter && isNA m then none else some m
      | none => if naFilter then none else some [])

/-- The code as it is (since 68c0db2). -/
def readLog (text : List Char) : Except LogErr (List (Option (List Char))) := readLogWith false text

/-! ### annotations -/

/-- Text-mode reading: `\r\n` and `\r` become `\n`. -/
def universalNewlines : List Char → List Char
  | [] => []
  | '\r' :: '\n' :: cs => '\n' :: universalNewlines cs
  | '\r' :: cs => '\n' :: universalNewlines cs
  | c :: cs => c :: universalNewlines cs

/-- `fh.readlines()` on already translated text: lines keep their `\n`. -/
def splitLinesAux : List Char → List Char → List (List Char)
  | acc, [] => if acc.isEmpty then [] else [acc]
  | acc, c :: cs => if c = '\n' then (acc ++ ['\n']) :: splitLinesAux [] cs else splitLinesAux (acc ++ [c]) cs

def readlines (text : List Char) : List (List Char) := splitLinesAux [] (universalNewlines text)

/-- `line.split(" ", 1)[0]` -/
def lineKey (l : List Char) : List Char := l.takeWhile (· ≠ ' ')

def annLine (name ann : List Char) : List Char := name ++ ' ' :: (ann ++ ['\n'])

/-- The new content `store_annotation(name, annotation)` writes, given the
    text it read. -/
def storeAnnotationText (name ann : List Char) (text : List Char) : List Char :=
  let ls := readlines text
  let ls' := ls.map (fun l => if lineKey l = name then annLine name ann else l)
  (if ls.any (fun l => lineKey l = name) then ls' else ls' ++ [annLine name ann]).flatten

inductive AnnErr where
  | keyError | indexError
  deriving DecidableEq, Repr, Inhabited

/-- `retrieve_annotation(name)`: first line whose key is `name`; `a[1][:-1]`. -/
def retrieveAnnotationText (name : List Char) (text : List Char) : Except AnnErr (List Char) :=
  match (readlines text).find? (fun l => lineKey l = name) with
  | none => .error .keyError
  | some l =>
    if l.contains ' ' then .ok ((l.dropWhile (· ≠ ' ')).drop 1).dropLast
    else .error .indexError

end Pharmpy.C16
