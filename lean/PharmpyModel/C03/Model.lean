/-
  C03 — executable model of the lossless concrete-syntax machinery of pharmpy's
  NONMEM control-stream reader.  Strings are `List Char` (code points; the same
  indexing as Python `str`).

  Mirrors, line by line:

    nmtran_parser.py   NMTranParser.parse            -> splitRecords
                       NMTranControlStream.insert_record / remove_records /
                       replace_records / replace_all -> insertRecord / removeRecords /
                                                        replaceRecords / replaceAll
    records/factory.py split_raw_record_name         -> rawNameSplit
                       get_canonical_record_name     -> canonicalName
                       create_record                 -> createRecord
    internals/parse/ignored.py
                       _tokenize_ignored_characters  -> tokenizeIgnored
                       _item_range                   -> Node.range
                       _interleave_ignored /
                       interleave_ignored            -> interleaveGo / interleave
                       InterleaveIgnored.transform   -> interleaveTree
                       with_ignored_tokens           -> withIgnored
    internals/parse/generic.py
                       AttrTree.__str__              -> Node.str
-/
namespace Pharmpy.C03

abbrev Str := List Char

/-- `s[i:j]` for `0 ≤ i`, `0 ≤ j` (Python slice semantics on code points). -/
def slice (s : Str) (i j : Nat) : Str := (s.drop i).take (j - i)

/-! ## NMTranParser.parse: `re.split(r'^([ \t]*\$)', text, flags=re.MULTILINE)` -/

def isBlank (c : Char) : Bool := c == ' ' || c == '\t'

/-- Scanner for the split.  `pend = some b`: we are at a line start (`^`) and
    have read only the blanks/tabs `b` since; `none`: inside a line.
    Returns (rest of the current piece, following pieces `sep, chunk, sep, chunk, …`). -/
def splitGo : Option Str → Str → Str × List Str
  | pend, [] => (pend.getD [], [])
  | some b, c :: cs =>
    if c == '$' then
      let r := splitGo none cs
      ([], (b ++ ['$']) :: r.1 :: r.2)
    else if isBlank c then splitGo (some (b ++ [c])) cs
    else if c == '\n' then
      let r := splitGo (some []) cs
      (b ++ c :: r.1, r.2)
    else
      let r := splitGo none cs
      (b ++ c :: r.1, r.2)
  | none, c :: cs =>
    if c == '\n' then
      let r := splitGo (some []) cs
      (c :: r.1, r.2)
    else
      let r := splitGo none cs
      (c :: r.1, r.2)

/-- The list `re.split` returns: `[first, sep₁, chunk₁, sep₂, chunk₂, …]`. -/
def splitRecords (t : Str) : List Str :=
  let r := splitGo (some []) t
  r.1 :: r.2

/-- `zip(record_strings[0::2], record_strings[1::2])` after popping `first`,
    each pair joined as `separator + s`. -/
def pairUp : List Str → List Str
  | sep :: chunk :: rest => (sep ++ chunk) :: pairUp rest
  | _ => []

/-- A separator: blanks/tabs followed by `$`. -/
def isSep : Str → Bool
  | [] => false
  | [c] => c == '$'
  | c :: cs => isBlank c && isSep cs

/-! ## split_raw_record_name: `re.match(r'(\s*\$[A-za-z]+)(.*)', line, MULTILINE|DOTALL)` -/

/-- Python `\s` for `str` patterns (= `str.isspace`). -/
def isPySpace (c : Char) : Bool :=
  let n := c.toNat
  (9 ≤ n && n ≤ 13) || (28 ≤ n && n ≤ 32) || n == 0x85 || n == 0xa0 || n == 0x1680 ||
  (0x2000 ≤ n && n ≤ 0x200a) || n == 0x2028 || n == 0x2029 || n == 0x202f || n == 0x205f || n == 0x3000

/-- The character class `[A-za-z]` as written in the source (the range `A-z`
    also contains `[ \ ] ^ _` and the back-tick). -/
def isAz (c : Char) : Bool := 65 ≤ c.toNat && c.toNat ≤ 122

def rawNameSplit (chunk : Str) : Option (Str × Str) :=
  match chunk.dropWhile isPySpace with
  | '$' :: r =>
    if (r.takeWhile isAz).isEmpty then none
    else some (chunk.takeWhile isPySpace ++ '$' :: r.takeWhile isAz, r.dropWhile isAz)
  | _ => none

/-! ## get_canonical_record_name -/

/-- Keys of `known_records`, in dictionary order. -/
def knownRecords : List String :=
  ["ABBREVIATED", "COVARIANCE", "DATA", "DES", "ERROR", "ESTIMATION", "ETAS", "INPUT", "MODEL",
   "OMEGA", "PK", "PRED", "PROBLEM", "SIGMA", "SIMULATION", "SIZES", "SUBROUTINES", "TABLE", "THETA"]

def upperAscii (c : Char) : Char :=
  if 97 ≤ c.toNat && c.toNat ≤ 122 then Char.ofNat (c.toNat - 32) else c

def startsWith (name : Str) (pre : Str) : Bool := pre.isPrefixOf name

def firstKnown (bare : Str) : List String → Option String
  | [] => none
  | n :: ns => if startsWith n.toList bare then some n else firstKnown bare ns

def canonicalName (rawName : Str) : Option String :=
  let bare := ((rawName.dropWhile isPySpace).drop 1).map upperAscii
  if bare.length ≥ 3 then
    match firstKnown bare knownRecords with
    | some n => some n
    | none =>
      if startsWith "INFILE".toList bare then some "DATA"
      else if startsWith "SUBS".toList bare then some "SUBROUTINES"
      else if bare == "SIML".toList || bare == "SIMULATE".toList then some "SIMULATION"
      else if bare == "COVR".toList then some "COVARIANCE"
      else if bare == "ESTM".toList then some "ESTIMATION"
      else none
  else if bare == "PK".toList then some "PK"
  else none

/-- What `create_record` keeps of a chunk before parsing the content:
    (raw_name, canonical name or none, content). `none` = ModelSyntaxError. -/
def createRecord (chunk : Str) : Option (Str × Option String × Str) :=
  match rawNameSplit chunk with
  | none => none
  | some (raw, content) => some (raw, canonicalName raw, content)

/-- The whole front end of `NMTranParser.parse`: text before the first record
    (kept as a RawRecord when non-empty) and the records. -/
def parseFront (t : Str) : Option (Str × List (Str × Option String × Str)) :=
  match splitRecords t with
  | [] => none
  | first :: rest => (pairUp rest).mapM createRecord |>.map (fun rs => (first, rs))

/-! ## _tokenize_ignored_characters -/

inductive IgnKind where
  | ws | comment | newline | cont
  deriving DecidableEq, Repr

def IgnKind.name : IgnKind → String
  | .ws => "WS" | .comment => "COMMENT" | .newline => "NEWLINE" | .cont => "CONT"

structure IgnTok where
  kind : IgnKind
  text : Str
  deriving DecidableEq, Repr

inductive Err where
  | assertion     -- AssertionError (a `\r` not followed by `\n`, a character that is not ignorable, a token without position)
  | attribute     -- AttributeError (`meta.start_pos` of a tree without tokens)
  | index         -- IndexError (range beyond the end of the source)
  deriving DecidableEq, Repr

def isWS (c : Char) : Bool := c == ' ' || c == '\x00' || c == '\t'
def isLF (c : Char) : Bool := c == '\r' || c == '\n'
def notLF (c : Char) : Bool := !isLF c

theorem length_dropWhile_lt (p : Char → Bool) (c : Char) (cs : Str) :
    (cs.dropWhile p).length < (c :: cs).length := by
  have : (cs.dropWhile p).length ≤ cs.length := (List.dropWhile_sublist p).length_le
  simp only [List.length_cons]; omega

/-- The generator loop on the slice `s[i:j]`. -/
def tokenizeIgnored : Str → Except Err (List IgnTok)
  | [] => .ok []
  | c :: cs =>
    if isWS c then
      (tokenizeIgnored (cs.dropWhile isWS)).map (⟨.ws, c :: cs.takeWhile isWS⟩ :: ·)
    else if c == ';' then
      (tokenizeIgnored (cs.dropWhile notLF)).map (⟨.comment, c :: cs.takeWhile notLF⟩ :: ·)
    else if c == '\r' then
      match cs with
      | '\n' :: r => (tokenizeIgnored r).map (⟨.newline, ['\r', '\n']⟩ :: ·)
      | _ => .error .assertion
    else if c == '\n' then
      (tokenizeIgnored cs).map (⟨.newline, ['\n']⟩ :: ·)
    else if c == '&' then
      (tokenizeIgnored (cs.dropWhile notLF)).map (⟨.cont, c :: cs.takeWhile notLF⟩ :: ·)
    else .error .assertion
termination_by l => l.length
decreasing_by
  all_goals first
    | exact length_dropWhile_lt _ _ _
    | (simp only [List.length_cons]; omega)

/-! ## The (lark) tree and AttrTree.__str__ -/

/-- A lark `Token` (type, value, start_pos/end_pos or none) or `Tree`
    (data, children, meta range or none when `meta.empty`). -/
inductive Node where
  | tok (kind : String) (text : Str) (pos : Option (Nat × Nat))
  | tree (rule : String) (children : List Node) (pos : Option (Nat × Nat))
  deriving Repr

/-- `_item_range` (none = the lookup raises). -/
def Node.range : Node → Option (Nat × Nat)
  | .tok _ _ p => p
  | .tree _ _ p => p

def Node.rangeErr : Node → Err
  | .tok .. => .assertion
  | .tree .. => .attribute

mutual
/-- `AttrTree.__str__` / `AttrToken.__str__`: concatenation of the leaves. -/
def Node.str : Node → Str
  | .tok _ t _ => t
  | .tree _ cs _ => strList cs
def strList : List Node → Str
  | [] => []
  | c :: cs => c.str ++ strList cs
end

mutual
/-- Leaves in depth-first order, as (type, value). -/
def Node.leaves : Node → List (String × Str)
  | .tok k t _ => [(k, t)]
  | .tree _ cs _ => leavesList cs
def leavesList : List Node → List (String × Str)
  | [] => []
  | c :: cs => c.leaves ++ leavesList cs
end

def IgnTok.toNode (i : Nat) (t : IgnTok) : Node := .tok t.kind.name t.text (some (i, i + t.text.length))

/-- Tokens for consecutive texts starting at offset `i`. -/
def toNodes : Nat → List IgnTok → List Node
  | _, [] => []
  | i, t :: ts => t.toNode i :: toNodes (i + t.text.length) ts

/-- `list(_tokenize_ignored_characters(source, i, j))`. -/
def gapToks (s : Str) (i j : Nat) : Except Err (List Node) :=
  if j ≤ i then .ok []
  else if s.length < j then .error .index
  else (tokenizeIgnored (slice s i j)).map (toNodes i)

/-- The `while True` loop of `_interleave_ignored` from the second item on;
    `i` is the end of the previous item. -/
def interleaveGo (s : Str) : Nat → List Node → Except Err (List Node)
  | _, [] => .ok []
  | i, x :: rest =>
    match x.range with
    | none => .error x.rangeErr
    | some (j, k) =>
      match gapToks s i j with
      | .error e => .error e
      | .ok g =>
        match interleaveGo s k rest with
        | .error e => .error e
        | .ok r => .ok (g ++ x :: r)

/-- `interleave_ignored(source, children)`. -/
def interleave (s : Str) : List Node → Except Err (List Node)
  | [] => .ok []
  | [x] => .ok [x]
  | x :: y :: rest =>
    match x.range with
    | none => .error x.rangeErr
    | some (_, k) =>
      match interleaveGo s k (y :: rest) with
      | .error e => .error e
      | .ok r => .ok (x :: r)

mutual
/-- `InterleaveIgnored(source).transform(tree)` (bottom-up). -/
def interleaveTree (s : Str) : Node → Except Err Node
  | .tok k t p => .ok (.tok k t p)
  | .tree r cs p =>
    match interleaveChildren s cs with
    | .error e => .error e
    | .ok cs' =>
      match interleave s cs' with
      | .error e => .error e
      | .ok cs'' => .ok (.tree r cs'' p)
def interleaveChildren (s : Str) : List Node → Except Err (List Node)
  | [] => .ok []
  | c :: cs =>
    match interleaveTree s c with
    | .error e => .error e
    | .ok c' =>
      match interleaveChildren s cs with
      | .error e => .error e
      | .ok cs' => .ok (c' :: cs')
end

/-- `with_ignored_tokens(source, tree)` for a root *tree* (lark ≠ 1.1.6). -/
def withIgnored (s : Str) (root : Node) : Except Err Node :=
  match interleaveTree s root with
  | .error e => .error e
  | .ok (.tok k t p) => .ok (.tok k t p)      -- not reachable: the root is a Tree
  | .ok (.tree r cs p) =>
    match cs with
    | [] =>
      match gapToks s 0 s.length with
      | .error e => .error e
      | .ok g => .ok (.tree r g (some (0, s.length)))
    | _ :: _ =>
      match p with
      | none => .error .attribute
      | some (a, b) =>
        match gapToks s 0 a, gapToks s b s.length with
        | .ok h, .ok t => .ok (.tree r (h ++ cs ++ t) (some (0, s.length)))
        | .error e, _ => .error e
        | _, .error e => .error e

/-! ### Covering: what a `propagate_positions` lark parse with `%ignore` is trusted to deliver -/

def rangeOk (s : Str) (t : Str) : Option (Nat × Nat) → Bool
  | some (i, j) => i ≤ j && j ≤ s.length && t == slice s i j
  | none => false

/-- Children are ordered and the tree's range is (start of first, end of last). -/
def spanOk : List Node → Option (Nat × Nat)
  | [] => none
  | [x] => x.range
  | x :: y :: rest =>
    match x.range, spanOk (y :: rest) with
    | some (a, b), some (c, d) => if b ≤ c then some (a, d) else none
    | _, _ => none

mutual
def covering (s : Str) : Node → Bool
  | .tok _ t p => rangeOk s t p
  | .tree _ cs p => !cs.isEmpty && coveringList s cs && (p.isSome && spanOk cs == p)
def coveringList (s : Str) : List Node → Bool
  | [] => true
  | c :: cs => covering s c && coveringList s cs
end

/-- For the root: an empty root (no children) is allowed. -/
def coveringRoot (s : Str) : Node → Bool
  | .tree _ [] _ => true
  | n => covering s n

/-! ## NMTranControlStream record operations -/

/-- A record as the operations see it: its `name` and its identity (Python
    compares records by identity). -/
structure Rec where
  name : String
  uid : Nat
  deriving DecidableEq, Repr

def defaultRecordOrder : List String :=
  ["SIZES", "INPUT", "DATA", "SUBROUTINES", "MODEL", "ABBREVIATED", "PK", "PRED", "DES", "ERROR",
   "THETA", "OMEGA", "SIGMA", "MSFI", "ESTIMATION", "DESIGN", "COVARIANCE", "ETAS", "TABLE"]

/-- `for i, currec in enumerate(records): … if current_problem == active and pred(currec): index = i`. -/
def scanLast (active : Int) (pred : Rec → Bool) : List Rec → Nat → Int → Option Nat → Option Nat
  | [], _, _, acc => acc
  | r :: rs, i, cur, acc =>
    let cur' := if r.name == "PROBLEM" then cur + 1 else cur
    scanLast active pred rs (i + 1) cur' (if cur' == active && pred r then some i else acc)

/-- `get_records(name, problem_no)`: `current_problem` starts at −1 and is incremented *at* each
    `$PROBLEM` record, so records before the first `$PROBLEM` (e.g. `$SIZES`) belong to problem −1
    and are never returned for `problem_no ≥ 0`. -/
def getRecordsGo (name : String) (problemNo : Int) : List Rec → Int → List Rec
  | [], _ => []
  | r :: rs, cur =>
    let cur' := if r.name == "PROBLEM" then cur + 1 else cur
    if cur' == problemNo && r.name == name then r :: getRecordsGo name problemNo rs cur'
    else getRecordsGo name problemNo rs cur'

def getRecords (recs : List Rec) (name : String) (problemNo : Int := 0) : List Rec :=
  getRecordsGo name problemNo recs (-1)

def insertAt (recs : List Rec) (k : Nat) (r : Rec) : List Rec := recs.take k ++ r :: recs.drop k

def insertRecord (recs : List Rec) (r : Rec) (atIndex : Option Nat) (active : Int := 0) : List Rec :=
  match atIndex with
  | some (k + 1) => insertAt recs (k + 1) r          -- `if at_index:` (0 is falsy)
  | _ =>
    let index :=
      match scanLast active (fun c => c.name == r.name) recs 0 (-1) none with
      | some i => some i
      | none =>
        let before := match defaultRecordOrder.idxOf? r.name with
          | some d => defaultRecordOrder.take d
          | none => []
        scanLast active (fun c => before.contains c.name) recs 0 (-1) none
    let index := index.getD recs.length
    insertAt recs (index + 1) r

def removeRecords (recs : List Rec) (rm : List Rec) : List Rec :=
  recs.filter (fun r => !rm.contains r)

def replaceRecordsGo (old new : List Rec) : List Rec → Bool → List Rec
  | [], _ => []
  | r :: rs, first =>
    if !old.contains r then r :: replaceRecordsGo old new rs first
    else if first then new ++ replaceRecordsGo old new rs false
    else replaceRecordsGo old new rs false

def replaceRecords (recs old new : List Rec) : List Rec := replaceRecordsGo old new recs true

/-- The first loop of `replace_all`; returns (keep, first). -/
def replaceAllGo (name : String) (new : List Rec) : List Rec → Bool → List Rec × Bool
  | [], first => ([], first)
  | r :: rs, first =>
    if r.name == name then
      if first then
        let q := replaceAllGo name new rs false
        (new ++ q.1, q.2)
      else replaceAllGo name new rs false
    else
      let q := replaceAllGo name new rs first
      (r :: q.1, q.2)

/-- `after_index` loop of `replace_all`. -/
def afterIndex (index : Nat) : List Rec → Nat → Int → Int
  | [], _, acc => acc
  | r :: rs, i, acc =>
    let cur := (defaultRecordOrder.idxOf? r.name).getD 0
    afterIndex index rs (i + 1) (if cur < index then (i : Int) else acc)

/-- `replace_all(name, new)`; `none` = ValueError (`name` not in default_record_order). -/
def replaceAll (recs : List Rec) (name : String) (new : List Rec) : Option (List Rec) :=
  let q := replaceAllGo name new recs true
  if q.2 then
    match defaultRecordOrder.idxOf? name with
    | none => none
    | some index =>
      let ai := afterIndex index q.1 0 ((q.1.length : Int) - 1)
      let k := (ai + 1).toNat
      some (q.1.take k ++ new ++ q.1.drop k)
  else some q.1

end Pharmpy.C03
