import PharmpyModel.C02.Record
/-
  C03 — the frame clause of `CodeRecord.update_statements` over edit chains, stated on
  top of the record model of C02 (`PharmpyModel/C02/Record.lean`: `indexDiff`,
  `updateStatements`; nothing of it is duplicated here).

  A code record is `children` (AST nodes) + `index` (entries `(ni, nj, si, sj)`).
  The *non-statement nodes* of the record — standalone comment lines, verbatim `"` lines,
  blank lines: everything the index does not cover — are `nonStmtNodes`.
-/
namespace Pharmpy.C03
open Pharmpy.C02

section
variable {σ ν : Type}

/-- The nodes outside the index spans, in order, from node offset `off`. -/
def gapsFrom (ch : List ν) : Nat → List Idx → List ν
  | off, [] => ch.drop off
  | off, (ni, nj, _, _) :: es => slice ch off ni ++ gapsFrom ch nj es

/-- Non-statement nodes of a record. -/
def nonStmtNodes (ch : List ν) (index : List Idx) : List ν := gapsFrom ch 0 index

/-- Number of non-insert ops `_index_statements_diff` consumes for an index
    (an entry with `sj - si ≤ 1` consumes one). -/
def need : List Idx → Nat
  | [] => 0
  | (_, _, si, sj) :: es => max 1 (sj - si) + need es

/-- Representation invariant of a record with `nS` statements: the index is a partition
    (C02 `IndexWF`) and it accounts for exactly the `nS` statements. -/
def RecInv (ch : List ν) (index : List Idx) (nS : Nat) : Prop :=
  IndexWF 0 0 ch.length nS index ∧ need index = nS

/-- Decidable version used by the driver on every observed record. -/
def indexOrdered : Nat → Nat → List Idx → Bool
  | _, _, [] => true
  | off, si, (ni, nj, s0, s1) :: es => off ≤ ni && ni ≤ nj && s0 == si && si ≤ s1 && indexOrdered nj s1 es

def lastOf : Nat → Nat → List Idx → Nat × Nat
  | off, si, [] => (off, si)
  | _, _, (_, nj, _, s1) :: es => lastOf nj s1 es

def recInvB (ch : List ν) (index : List Idx) (nS : Nat) : Bool :=
  indexOrdered 0 0 index && (lastOf 0 0 index).1 ≤ ch.length && (lastOf 0 0 index).2 == nS && need index == nS

/-- An edit chain: each step gives the `fallback` position (first verbatim node / end)
    and the new statement list; `update_statements` runs with the LCS diff. -/
def runChain [DecidableEq σ] (gen : σ → List ν) :
    List ν → List Idx → List σ → List (Nat × List σ) → Option (List ν × List Idx × List σ)
  | ch, ix, ss, [] => some (ch, ix, ss)
  | ch, ix, ss, (fb, newS) :: rest =>
    match updateStatements gen ch ix fb (diff ss newS) with
    | none => none
    | some (ch', ix') => runChain gen ch' ix' newS rest

end
end Pharmpy.C03
