import PharmpyModel.Core.Sexp
import PharmpyModel.C03.Model
/-
  Wire encoding for C03 (driver plumbing only; nothing here is the subject of a
  theorem).  Texts contain NUL, CR, quotes … so they travel as atoms
  `~` ++ (safe ASCII characters verbatim | `%<hex code point>;`).
  `harness/corr/c03_util.py` is the Python side.
-/
namespace Pharmpy.C03
open Pharmpy

def safeChar (c : Char) : Bool :=
  c.isAlphanum || "_.,:=+*/<>-$;&@#!?[]{}|^'".toList.contains c

def hexDigit (n : Nat) : Char :=
  if n < 10 then Char.ofNat (48 + n) else Char.ofNat (87 + n)

partial def toHex (n : Nat) : List Char :=
  if n < 16 then [hexDigit n] else toHex (n / 16) ++ [hexDigit (n % 16)]

def encStr (s : Str) : String :=
  String.ofList ('~' :: s.flatMap (fun c => if safeChar c then [c] else '%' :: toHex c.toNat ++ [';']))

def hexVal (c : Char) : Option Nat :=
  if '0' ≤ c && c ≤ '9' then some (c.toNat - 48)
  else if 'a' ≤ c && c ≤ 'f' then some (c.toNat - 87)
  else none

partial def decGo : List Char → List Char → Option (List Char)
  | [], acc => some acc.reverse
  | '%' :: cs, acc =>
    let rec hex : List Char → Nat → Option (Nat × List Char)
      | ';' :: r, n => some (n, r)
      | c :: r, n => match hexVal c with
        | some d => hex r (n * 16 + d)
        | none => none
      | [], _ => none
    match hex cs 0 with
    | some (n, r) => decGo r (Char.ofNat n :: acc)
    | none => none
  | c :: cs, acc => decGo cs (c :: acc)

def decStr? : Sexp → Option Str
  | .atom a => match a.toList with
    | '~' :: cs => decGo cs []
    | _ => none
  | _ => none

def sStr (s : Str) : Sexp := .atom (encStr s)

def pos? : Sexp → Option (Option (Nat × Nat))
  | .atom "none" => some none
  | .list [a, b] => match a.asNat?, b.asNat? with
    | some i, some j => some (some (i, j))
    | _, _ => none
  | _ => none

/-- `(t KIND value pos)` | `(n RULE (children…) pos)` with pos = `none` | `(i j)`. -/
partial def node? : Sexp → Option Node
  | .list [.atom "t", .atom k, v, p] => do
    let v ← decStr? v
    let p ← pos? p
    some (.tok k v p)
  | .list [.atom "n", .atom r, .list cs, p] => do
    let cs ← cs.mapM node?
    let p ← pos? p
    some (.tree r cs p)
  | _ => none

def errS : Err → Sexp
  | .assertion => .list [.atom "err", .atom "AssertionError"]
  | .attribute => .list [.atom "err", .atom "AttributeError"]
  | .index => .list [.atom "err", .atom "IndexError"]

def rec? : Sexp → Option Rec
  | .list [n, u] => do some ⟨String.ofList (← decStr? n), ← u.asNat?⟩
  | _ => none

def recs? (x : Sexp) : Option (List Rec) := do (← x.asList?).mapM rec?

def recsS (rs : List Rec) : Sexp := .list (rs.map (fun r => Sexp.ofNat r.uid))

end Pharmpy.C03
