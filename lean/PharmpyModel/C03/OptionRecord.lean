/-
  C03 — `OptionRecord._append_option_args` / `append_option_node`
  (src/pharmpy/model/external/nonmem/records/option_record.py).

  A record root is a flat list of children; only the `rule` of a child matters to the
  method ('option' trees, 'WS' / 'NEWLINE' / 'COMMENT' / 'CONT' tokens, 'filename' …);
  `uid` stands for the identity of the Python object.
-/
namespace Pharmpy.C03

structure Child where
  rule : String
  uid : Nat
deriving DecidableEq, Repr

/-- `rule in ('WS', 'NEWLINE')` -/
def Child.isBlank (c : Child) : Bool := c.rule == "WS" || c.rule == "NEWLINE"

/-- `AttrToken('WS', ' ')` -/
def sepWS : Child := ⟨"WS", 1000001⟩
/-- `AttrToken('NEWLINE', '\n')` -/
def sepNL : Child := ⟨"NEWLINE", 1000002⟩

/-- The loop `for i, child in zip(reversed(range(n)), reversed(children))` on the reversed
    children: returns `(i + 1, separator)`; `(0, WS)` when the loop falls through. -/
def scanRev : List Child → Nat × Child
  | [] => (0, sepWS)
  | c :: rest =>
    if c.rule == "option" then (rest.length + 1, sepWS)
    else if !c.isBlank then (rest.length + 1, sepNL)
    else scanRev rest

/-- `_append_option_args`: `none` = the `IndexError` of `children[-1]` on an empty root. -/
def appendOptionArgs (cs : List Child) : Option (Nat × Nat × Child) :=
  match cs.getLast? with
  | none => none
  | some l =>
    let j := if l.rule == "WS" then cs.length - 1 else cs.length
    let r := scanRev cs.reverse
    some (r.1, j, r.2)

/-- `append_option_node`: `children[:i] + (sep, node) + children[i:j]`. -/
def appendOptionNode (cs : List Child) (node : Child) : Option (List Child) :=
  (appendOptionArgs cs).map fun (i, j, sep) => cs.take i ++ [sep, node] ++ (cs.drop i).take (j - i)

/-- Every `COMMENT` token is the last child or is directly followed by a `NEWLINE` token:
    a comment runs to the end of its line, so this is exactly when re-reading the printed
    record yields the same comment tokens. -/
def commentsOk : List Child → Bool
  | c :: d :: rest => (c.rule != "COMMENT" || d.rule == "NEWLINE") && commentsOk (d :: rest)
  | _ => true

end Pharmpy.C03
