import PharmpyModel.C20.Model
import PharmpyModel.Generated.ExtCodes
/-
  C20 — ExtTable properties (driven by the generated table of special ITERATION codes),
  CovTable, PhiTable, flattened_to_symmetric, and the file level of NONMEMTableFile.
-/
namespace Pharmpy.C20
open Generated

/-! ### ExtTable properties, interpreted from the generated table -/

/-- What a row-selecting property returns before post-processing: column labels and the selected
    rows (`_get_parameters`), or the OBJ cells of the selected rows (`_get_ofv`). -/
inductive ExtValue where
  | params (labels : List Str) (rows : List (List (Option Str)))
  | ofv (cells : List (Option Str))
  deriving DecidableEq, Repr

def extGet (raw : Frame) (p : ExtProp) (code : Int) : Except Err ExtValue :=
  if p.getter == "_get_parameters" then
    match getParameters raw code p.includeThetas with
    | .ok (l, r) => .ok (.params l r)
    | .error e => .error e
  else if p.getter == "_get_ofv" then
    match getOfv raw code with
    | .ok c => .ok (.ofv c)
    | .error e => .error e
  else .error .unmodelled

/-- Evaluate one ExtTable property as table.py defines it (code, fallback). -/
def extProperty (raw : Frame) (p : ExtProp) : Except Err ExtValue :=
  if p.fallback == "none" then extGet raw p p.code
  else if p.fallback == "max-iteration" then withFallback raw p.code (extGet raw p)
  else if p.fallback == "code:-1000000000" then
    match extGet raw p p.code with
    | .error .keyError => extGet raw p (-1000000000)
    | r => r
  else .error .unmodelled

def findProp (name : String) : Option ExtProp := extProps.find? (·.name == name)

def extPropertyByName (raw : Frame) (name : String) : Except Err ExtValue :=
  match findProp name with
  | some p => extProperty raw p
  | none => .error .unmodelled

/-- `fix.apply(bool)` on one cell: non-zero (and NaN) is True. -/
def cellBool : Option Str → Except Err Bool
  | none => .ok true
  | some t => match parseNum t with
    | some d => .ok (!d.isZero)
    | none => .error .unmodelled

/-! ### CovTable -/

structure Matrix where
  index : List Str
  cols : List Str
  rows : List (List (Option Str))
  deriving DecidableEq, Repr

/-- `df != 0` on one cell (NaN != 0 is True). -/
def cellNonzero : Option Str → Bool
  | none => true
  | some t => match parseNum t with
    | some d => !d.isZero
    | none => true

/-- Indices kept by `(df != 0).any(axis=1)`. -/
def keptRows (rows : List (List (Option Str))) : List Bool := rows.map (·.any cellNonzero)

/-- Indices kept by `(df != 0).any(axis=0)` for `n` columns. -/
def keptCols (n : Nat) (rows : List (List (Option Str))) : List Bool :=
  (List.range n).map (fun j => rows.any (fun r => cellNonzero ((r[j]?).join)))

def selectMask {α : Type} (xs : List α) (mask : List Bool) : List α :=
  (xs.zip mask).filter (·.2) |>.map (·.1)

/-- `df.loc[(df != 0).any(axis=1), (df != 0).any(axis=0)]`. -/
def dropZero (m : Matrix) : Matrix :=
  let kr := keptRows m.rows
  let kc := keptCols m.cols.length m.rows
  ⟨selectMask m.index kr, selectMask m.cols kc, (selectMask m.rows kr).map (fun r => selectMask r kc)⟩

/-- `CovTable.data_frame`: index by NAME, order THETA/OMEGA/SIGMA on both axes, rename thetas,
    remove all-zero rows and columns. -/
def covDataFrame (raw : Frame) : Except Err Matrix :=
  match raw.cols.idxOf? "NAME".toList with
  | none => .error .keyError
  | some ni =>
    let names : List (Option Str) := raw.rows.map (fun r => (r[ni]?).join)
    let dataCols := raw.cols.eraseIdx ni
    let labels := orderedLabels dataCols
    -- reindex on an axis with duplicate labels raises
    if hasDup (names.filterMap id) then .error .unmodelled
    else
      let rowOf (l : Str) : List (Option Str) :=
        match (raw.rows.zip names).find? (fun p => p.2 == some l) with
        | some p => labels.map (lookupCol raw.cols p.1)
        | none => labels.map (fun _ => none)
      let m : Matrix := ⟨labels.map renameTheta, labels.map renameTheta, labels.map rowOf⟩
      .ok (dropZero m)

/-! ### PhiTable -/

/-- truthiness used by `df.iloc[:, 2:].any(axis=1)` (NaN is skipped). -/
def cellTruthy : Option Str → Bool
  | none => false
  | some t => match parseNum t with
    | some d => !d.isZero
    | none => true

/-- `df.loc[df.iloc[:, 2:].any(axis=1)]`. -/
def phiKeep (raw : Frame) : List (List (Option Str)) :=
  raw.rows.filter (fun r => (r.drop 2).any cellTruthy)

def etaP : Str := "ETA".toList
def phiP : Str := "PHI".toList
def etcP : Str := "ETC".toList
def phcP : Str := "PHC".toList

/-- `PhiTable.iofv`: (ID, OBJ) of the kept rows. -/
def phiIofv (raw : Frame) : Except Err (List (Option Str × Option Str)) :=
  if raw.cols.contains "ID".toList && raw.cols.contains "OBJ".toList then
    .ok ((phiKeep raw).map (fun r => (lookupCol raw.cols r "ID".toList, lookupCol raw.cols r "OBJ".toList)))
  else .error .keyError

/-- `PhiTable.etas`: column names, and per kept row the ID and the ETA/PHI cells. -/
def phiEtas (raw : Frame) : Except Err (List Str × List (Option Str × List (Option Str))) :=
  let names := raw.cols.filter (fun c => startsWith etaP c || startsWith phiP c)
  if raw.cols.contains "ID".toList then
    .ok (names, (phiKeep raw).map (fun r => (lookupCol raw.cols r "ID".toList, names.map (lookupCol raw.cols r))))
  else .error .keyError

/-! ### flattened_to_symmetric -/

/-- largest `n ≤ k` with `n*n ≤ m`. -/
def isqrtUpTo : Nat → Nat → Nat
  | 0, _ => 0
  | k + 1, m => if (k + 1) * (k + 1) ≤ m then k + 1 else isqrtUpTo k m

/-- `math.floor(math.sqrt(2 * x))`. -/
def triangularRoot (x : Nat) : Nat := isqrtUpTo (2 * x) (2 * x)

/-- `new[np.tril_indices(n)] = x`: row `k+i` of the lower triangle takes the next `k+i+1` values. -/
def lowerRows {α : Type} : Nat → Nat → List α → List (List α)
  | _, 0, _ => []
  | k, n + 1, x => x.take (k + 1) :: lowerRows (k + 1) n (x.drop (k + 1))

def tri : Nat → Nat
  | 0 => 0
  | n + 1 => tri n + (n + 1)

/-- `flattened_to_symmetric(x)`: the lower triangle filled row by row, mirrored. -/
def flattenedToSymmetric {α : Type} (zero : α) (x : List α) : Except Err (List (List α)) :=
  let n := triangularRoot x.length
  if tri n != x.length then .error .shapeError
  else
    let lower := lowerRows 0 n x
    let entry (i j : Nat) : α := ((lower[i]?).bind (·[j]?)).getD zero
    .ok ((List.range n).map (fun i => (List.range n).map (fun j => if j ≤ i then entry i j else entry j i)))

/-- `PhiTable.etc_data`: ids, `'ETA' + name[3:]` for the ETA/PHI columns, one matrix per kept row. -/
def phiEtcData (raw : Frame) :
    Except Err (List (Option Str) × List Str × List (List (List (Option Str)))) :=
  let etaNames := raw.cols.filter (fun c => startsWith etaP c || startsWith phiP c)
  let etcNames := raw.cols.filter (fun c => startsWith etcP c || startsWith phcP c)
  if raw.cols.contains "ID".toList then do
    let rows := phiKeep raw
    let mats ← rows.mapM (fun r => flattenedToSymmetric (some ['0']) (etcNames.map (lookupCol raw.cols r)))
    pure (rows.map (fun r => lookupCol raw.cols r "ID".toList), etaNames.map (fun c => etaP ++ c.drop 3), mats)
  else .error .keyError

/-! ### NONMEMTableFile -/

inductive Kind where
  | ext | phi | cov | generic
  deriving DecidableEq, Repr

structure Table where
  info : Option Meta
  kind : Kind
  raw : Frame
  deriving DecidableEq, Repr

/-- `_parse_table(content, suffix, nolabel=nolabel)`: `nolabel` matters for the generic table type
    only (`header=None if nolabel else 'infer'`); ext/phi/cov tables always have a header line. -/
def parseChunk (kind : Kind) (nolabel : Bool) (chunk : List Str) : Except Err Table :=
  match chunk with
  | [] => .error .illegalFile
  | tl :: content =>
    let frame := match kind with
      | .generic =>
        if nolabel then readFrameNoHeader (dropRepeatedHeaders content)
        else readFrame (dropRepeatedHeaders content)
      | _ => readFrame (content.map subOBJ)
    match frame with
    | .error e => .error e
    | .ok raw =>
      match parseTitleLine tl with
      | .error e => .error e
      | .ok m => .ok ⟨some m, kind, raw⟩

/-- `NONMEMTableFile(path, notitle=…, nolabel=…)` on the lines of the file; `nolabel` is passed to
    `_parse_table` on both paths (f017b8d). -/
def parseFile (kind : Kind) (notitle nolabel : Bool) (lines : List Str) : Except Err (List Table) :=
  if notitle then
    let content := dropRepeatedHeaders lines
    match (if nolabel then readFrameNoHeader content else readFrame content) with
    | .error e => .error e
    | .ok raw => .ok [⟨none, .generic, raw⟩]
  else (splitTables lines).mapM (parseChunk kind nolabel)

/-- `NONMEMTableFile.table_no(n)`. -/
def tableNo (ts : List Table) (n : Nat) : Option Table :=
  ts.find? (fun t => match t.info with | some m => m.number == n | none => false)

end Pharmpy.C20
