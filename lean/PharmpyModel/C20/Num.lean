/-
  C20 — decimal numbers as they appear in NONMEM table files.

  No floats: a number is `Dec m e` = m × 10^e (exact).  `parseNum` is the model
  of the decimal grammar pandas' tokenizer accepts for the cells our reference
  writer produces (sign, digits, optional fraction, optional E-exponent);
  `padDigits`/`natDigits` are the digit renderers used by the reference writer.
-/
namespace Pharmpy.C20

abbrev Str := List Char

/-! ### digits -/

def isDig (c : Char) : Bool := decide ('0' ≤ c) && decide (c ≤ '9')

def digitVal (c : Char) : Nat := c.toNat - 48

def digitChar : Nat → Char
  | 0 => '0' | 1 => '1' | 2 => '2' | 3 => '3' | 4 => '4'
  | 5 => '5' | 6 => '6' | 7 => '7' | 8 => '8' | _ => '9'

/-- `k` decimal digits of `n`, most significant first (i.e. `n mod 10^k`, zero padded). -/
def padDigits : Nat → Nat → Str
  | 0, _ => []
  | k + 1, n => padDigits k (n / 10) ++ [digitChar (n % 10)]

/-- Value of a digit string (Horner, as `int()` does). -/
def valDigits (cs : Str) : Nat := cs.foldl (fun a c => 10 * a + digitVal c) 0

/-- Decimal rendering of a natural number without leading zeros. -/
def natDigits (n : Nat) : Str :=
  if n = 0 then ['0'] else (padDigits (n.log2 + 1) n).dropWhile (· == '0')

/-- Longest prefix of digits, and the rest. -/
def takeDigits : Str → Str × Str
  | [] => ([], [])
  | c :: cs =>
    if isDig c then ((c :: (takeDigits cs).1), (takeDigits cs).2) else ([], c :: cs)

/-! ### exact decimals -/

structure Dec where
  m : Int
  e : Int
  deriving DecidableEq, Repr

namespace Dec
def ofInt (i : Int) : Dec := ⟨i, 0⟩
/-- mantissa rescaled to exponent `e0 ≤ e`. -/
def scaled (a : Dec) (e0 : Int) : Int := a.m * (10 : Int) ^ (a.e - e0).toNat
def le (a b : Dec) : Bool := let e0 := min a.e b.e; decide (a.scaled e0 ≤ b.scaled e0)
def eqv (a b : Dec) : Bool := let e0 := min a.e b.e; a.scaled e0 == b.scaled e0
def isZero (a : Dec) : Bool := a.m == 0
def nonneg (a : Dec) : Bool := decide (0 ≤ a.m)
end Dec

/-! ### parsing -/

def parseSign : Str → Bool × Str
  | '-' :: cs => (true, cs)
  | '+' :: cs => (false, cs)
  | cs => (false, cs)

/-- What follows the mantissa: nothing, or `E`/`e`, optional sign, at least one digit, end. -/
def parseExp : Str → Option Int
  | [] => some 0
  | c :: cs =>
    if c == 'E' || c == 'e' then
      let s := parseSign cs
      let d := takeDigits s.2
      if d.1.isEmpty || !d.2.isEmpty then none
      else some (if s.1 then -(valDigits d.1 : Int) else (valDigits d.1 : Int))
    else none

/-- Fraction part: `.` followed by digits (possibly none), or nothing. -/
def parseFrac : Str → Str × Str
  | '.' :: r => takeDigits r
  | r => ([], r)

def parseNum (cs : Str) : Option Dec :=
  let s := parseSign cs
  let ip := takeDigits s.2
  let fp := parseFrac ip.2
  if ip.1.isEmpty && fp.1.isEmpty then none
  else match parseExp fp.2 with
    | none => none
    | some ex =>
      let m : Int := (valDigits (ip.1 ++ fp.1) : Int)
      some ⟨if s.1 then -m else m, ex - (fp.1.length : Int)⟩

/-! ### cells of the reference writer -/

/-- A table cell as the reference writer receives it. -/
inductive Cell where
  /-- integer column (ITERATION, SUBJECT_NO, ID): Fortran `I13`. -/
  | int (i : Int)
  /-- `1PEw.d` (d = 5 in ext/phi/cov files, 4 in default $TABLE output): ±m.ddd…dE±xx with `d`
      decimals, value = ±mant × 10^(exp-d), `mant < 10^(d+1)`. -/
  | sci (neg : Bool) (d : Nat) (mant : Nat) (exp : Int)
  /-- plain decimal (OBJ column): ±ip.fp with exactly `k` fraction digits. -/
  | fix (neg : Bool) (ip : Nat) (k : Nat) (fp : Nat)
  /-- text (NAME column of cov/cor/coi). -/
  | label (s : Str)
  deriving DecidableEq, Repr

def signStr (neg : Bool) : Str := if neg then ['-'] else []

/-- Exponent digits: two digits as documented; a three-digit exponent is printed C-style
    (`E-100`), as pharmpy's own writer `'%13.5E'` does. -/
def expDigits (a : Nat) : Str := if a < 100 then padDigits 2 a else natDigits a

def renderCell : Cell → Str
  | .int i => if i < 0 then '-' :: natDigits (-i).toNat else natDigits i.toNat
  | .sci neg d mant exp =>
    signStr neg ++ padDigits 1 (mant / 10 ^ d) ++ '.' :: padDigits d mant
      ++ 'E' :: (if exp < 0 then '-' else '+') :: expDigits exp.natAbs
  | .fix neg ip k fp => signStr neg ++ natDigits ip ++ '.' :: padDigits k fp
  | .label s => s

/-- The exact value a numeric cell denotes. -/
def cellDec : Cell → Option Dec
  | .int i => some ⟨i, 0⟩
  | .sci neg d mant exp => some ⟨if neg then -(mant : Int) else mant, exp - (d : Int)⟩
  | .fix neg ip k fp =>
    let m : Int := ((ip * 10 ^ k + fp % 10 ^ k : Nat) : Int)
    some ⟨if neg then -m else m, -(k : Int)⟩
  | .label _ => none

end Pharmpy.C20
