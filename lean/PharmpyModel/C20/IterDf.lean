/-
  C20 — `pharmpy.tools.external.nonmem.results._get_iter_df` and the choice of the reported final
  objective value in `_parse_ofv` (the same frame decides the final estimates in
  `_parse_parameter_estimates`).

  A frame is the list of its rows in file order; a row is `(ITERATION, OBJ)` with `OBJ = none` for
  NaN (the other columns travel with the row, they are represented by the row's position `src`).
  Index labels are the positions 0, 1, … (the frame comes straight from the reader).
-/
namespace Pharmpy.C20.IterDf

def FINAL : Int := -1000000000

abbrev Obj := Option Int                     -- none = NaN; the integer stands for the printed decimal
structure InRow where
  iter : Int
  obj : Obj
  deriving DecidableEq, Repr

/-- A row of the result: its ITERATION value and where its other cells come from
    (`some k` = row `k` of the input, `none` = a row of NaNs). -/
structure OutRow where
  iter : Int
  src : Option Nat
  deriving DecidableEq, Repr

/-- Python `a != b` on floats: NaN differs from everything. -/
def objNe : Obj → Obj → Bool
  | some a, some b => a != b
  | _, _ => true

def indexed (rows : List InRow) : List (Nat × InRow) := rows.zipIdx.map (fun p => (p.2, p.1))

def lastWhere (p : InRow → Bool) (rows : List InRow) : Option (Nat × InRow) :=
  ((indexed rows).filter (fun q => p q.2)).getLast?

def firstWhere (p : InRow → Bool) (rows : List InRow) : Option (Nat × InRow) :=
  (indexed rows).find? (fun q => p q.2)

inductive Out where
  | ok (rows : List OutRow)
  | indexError                       -- `df[iters >= 0].iloc[-1]` on an empty selection
  deriving DecidableEq, Repr

/-- OBJ of the last row -1000000000 (`df[iters == final_iter].iloc[-1]`), NaN when there is none. -/
def finalObjOf (rows : List InRow) : Obj :=
  match lastWhere (fun r => r.iter == FINAL) rows with
  | some q => q.2.obj
  | none => none

/-- `_get_iter_df`. -/
def getIterDf (rows : List InRow) : Out :=
  let hasZero := rows.any (fun r => r.iter == 0)
  let hasFinal := rows.any (fun r => r.iter == FINAL)
  if !hasZero && hasFinal then
    -- df = df[iters == FINAL].copy(); df.iloc[0, ITERATION] = 0  (since /repo fix: the first kept row, by position)
    let kept := (indexed rows).filter (fun q => q.2.iter == FINAL)
    match kept with
    | (k, _) :: rest => .ok (⟨0, some k⟩ :: rest.map (fun q => ⟨q.2.iter, some q.1⟩))
    | [] => .ok []
  else
    let finalObj : Obj := finalObjOf rows
    match lastWhere (fun r => r.iter ≥ 0) rows with
    | none => .indexError
    | some lastq =>
      let base : List OutRow := (indexed rows).map (fun q => ⟨q.2.iter, some q.1⟩)
      let all : List OutRow :=
        if objNe finalObj lastq.2.obj then
          let n := lastq.2.iter + 1
          match firstWhere (fun r => r.iter == FINAL) rows with
          | some fq =>
            (base.map (fun o => if o.src == some fq.1 then { o with iter := n } else o)) ++ [⟨n + 1, none⟩]
          | none => base ++ [⟨n, none⟩]
        else base
      .ok (all.filter (fun o => o.iter ≥ 0))

/-- The first branch as it was before the repair: `df.at[0, 'ITERATION'] = 0` addresses the *label* 0 — the first
    row of the file if it was kept, otherwise pandas appends a new row labelled 0 whose other cells are NaN. -/
def firstBranchOld (rows : List InRow) : List OutRow :=
  let kept := (indexed rows).filter (fun q => q.2.iter == FINAL)
  match kept with
  | (0, _) :: rest => ⟨0, some 0⟩ :: rest.map (fun q => ⟨q.2.iter, some q.1⟩)
  | _ => kept.map (fun q => ⟨q.2.iter, some q.1⟩) ++ [⟨0, none⟩]

/-- `ExtTable.final_ofv`: OBJ of the (first) row -1000000000, else of the row of the largest
    iteration number. `none` = NaN or no row at all. -/
def tableFinalOfv (rows : List InRow) : Obj :=
  match firstWhere (fun r => r.iter == FINAL) rows with
  | some q => q.2.obj
  | none =>
    match rows.map (·.iter) |>.max? with
    | none => none
    | some m => match firstWhere (fun r => r.iter == m) rows with
      | some q => q.2.obj
      | none => none

/-- OBJ cell of a result row. -/
def outObj (rows : List InRow) (o : OutRow) : Obj :=
  match o.src with
  | some k => (rows[k]?).bind (·.obj)
  | none => none

/-- `_parse_ofv` for a run whose last estimation step has the frame `rows`: the reported final
    objective value (`none` = NaN). -/
def reportedFinalOfv (rows : List InRow) : Option Obj :=
  match getIterDf rows with
  | .indexError => none
  | .ok out =>
    match out.getLast? with
    | none => none                              -- `ofv[-1]` on an empty list (IndexError)
    | some l => if (outObj rows l).isNone then some none else some (tableFinalOfv rows)

end Pharmpy.C20.IterDf
