import PharmpyModel.C20.Tables
/-
  C20 — `pharmpy.tools.external.nonmem.results`: how the rows of the final .ext table become
  `parameter_estimates`, `parameter_estimates_sdcorr`, `standard_errors`,
  `standard_errors_sdcorr` (`_get_fixed_parameters`, `_parse_parameter_estimates`,
  `_parse_standard_errors`).  A row is a label → cell map in file order; labels are the ext labels
  after `rename_index` (`THETA(1)`, `OMEGA(2,1)`, …); the final renaming to model parameter names
  is an injective relabelling done by the harness.
-/
namespace Pharmpy.C20

abbrev Row := List (Str × Option Str)
abbrev FixMap := List (Str × Bool)

def lookupFix (fix : FixMap) (l : Str) : Option Bool := (fix.find? (fun p => p.1 == l)).map (·.2)
def lookupRow (r : Row) (l : Str) : Option (Option Str) := (r.find? (fun p => p.1 == l)).map (·.2)

/-- `ser[~fix]` with a boolean Series `fix`: pandas aligns the mask to `ser` — every label of `ser`
    must occur in `fix` (else IndexingError), labels of `fix` that `ser` does not have (the THETAs
    for the sd/corr rows) are irrelevant; the entries whose flag is False are kept, in order. -/
def maskNotFixed (ser : Row) (fix : FixMap) : Except Err Row :=
  if ser.all (fun p => (lookupFix fix p.1).isSome) then
    .ok (ser.filter (fun p => lookupFix fix p.1 == some false))
  else .error .unmodelled

/-- `base.update(other)`: entries of `base` whose label has a non-missing value in `other` take it. -/
def updateRow (base other : Row) : Row :=
  base.map (fun p => match lookupRow other p.1 with
    | some (some v) => (p.1, some v)
    | _ => p)

/-- Result of `_parse_standard_errors`. -/
inductive SEOut where
  | noSE                              -- row -1000000001 absent: NaN, cov_abort = False
  | aborted                           -- row -1000000005 absent: NaN, cov_abort = True
  | ok (ses sdcorrSes : Row)
  deriving DecidableEq, Repr

/-- `_parse_standard_errors`: `se`/`sdse` = rows -1000000001 / -1000000005 (`none` = KeyError). -/
def parseStandardErrors (se sdse : Option Row) (fix : FixMap) : Except Err SEOut :=
  match se with
  | none => .ok .noSE
  | some se =>
    match maskNotFixed se fix with
    | .error e => .error e
    | .ok ses =>
      match sdse with
      | none => .ok .aborted
      | some sd =>
        match maskNotFixed sd fix with
        | .error e => .error e
        | .ok sd' => .ok (.ok ses (updateRow ses sd'))

/-- The end of `_parse_parameter_estimates`: `final` = `final_parameter_estimates`, `sdcorr` = row
    -1000000004 (`none` = KeyError), `cols` = parameter columns of the table.  Returns
    `parameter_estimates` and `parameter_estimates_sdcorr` (row absent: NaN for the same
    parameters, `pd.Series(np.nan, index=final_pe.index)`, df197aa). -/
def parseEstimates (final : Row) (sdcorr : Option Row) (fix : FixMap) (cols : List Str) :
    Except Err (Row × Row) :=
  if cols.all (fun c => (lookupFix fix c).isSome) then
    let fixedNames := cols.filter (fun c => lookupFix fix c == some true)
    -- Series.drop raises KeyError for a label that is not there
    if fixedNames.all (fun c => (lookupRow final c).isSome) then
      let pe := final.filter (fun p => !fixedNames.contains p.1)
      match sdcorr with
      | none => .ok (pe, pe.map (fun p => (p.1, none)))
      | some s =>
        match maskNotFixed s fix with
        | .error e => .error e
        | .ok s' => .ok (pe, updateRow pe s')
    else .error .keyError
  else .error .keyError

/-- `_get_fixed_parameters`: row -1000000006 through `bool`, or (NM 7.2, row absent) the model's
    FIX flags in ext labels followed by True for every other label of the final estimates. -/
def getFixed (fixedRow : Option Row) (modelFix : FixMap) (final : Row) : Except Err FixMap :=
  match fixedRow with
  | some r => r.mapM (fun p => match cellBool p.2 with
      | .ok b => .ok (p.1, b)
      | .error e => .error e)
  | none => .ok (modelFix ++ (final.filter (fun p => (lookupFix modelFix p.1).isNone)).map (fun p => (p.1, true)))

/-- A single selected row of an ExtTable property as a label → cell map. -/
def rowOf : Except Err ExtValue → Except Err (Option Row)
  | .ok (.params labels [r]) => .ok (some (labels.zip r))
  | .ok _ => .error .unmodelled
  | .error .keyError => .ok none
  | .error e => .error e

structure RunResult where
  estimates : Row
  sdcorr : Row
  se : SEOut
  deriving DecidableEq, Repr

/-- Everything `parse_modelfit_results` takes from the (single, final) .ext table. -/
def parseRun (raw : Frame) (modelFix : FixMap) : Except Err RunResult := do
  let f ← extDataFrame raw
  let cols := (f.cols.drop 1).dropLast
  let final ← rowOf (extPropertyByName raw "final_parameter_estimates")
  match final with
  | none => .error .keyError
  | some final =>
    let fixedRow ← rowOf (extPropertyByName raw "fixed")
    let fix ← getFixed fixedRow modelFix final
    let sd ← rowOf (extPropertyByName raw "omega_sigma_stdcorr")
    let (pe, sdc) ← parseEstimates final sd fix cols
    let se ← rowOf (extPropertyByName raw "standard_errors")
    let sdse ← rowOf (extPropertyByName raw "omega_sigma_se_stdcorr")
    let seo ← parseStandardErrors se sdse fix
    pure ⟨pe, sdc, seo⟩

end Pharmpy.C20
