import PharmpyModel.C20.Num
/-
  C20 — executable model of `pharmpy.model.external.nonmem.table`
  (`NONMEMTableFile`, `NONMEMTable`, `ExtTable`, `CovTable`, `PhiTable`) and of
  `pharmpy.internals.math.flattened_to_symmetric`.

  A file is a list of lines (without the line terminator); a line is a list of
  characters.  `pd.read_table(sep=r'\s+')` is modelled by `readFrame`: cells stay
  *tokens* (character strings, `none` = missing/NaN) and are interpreted as exact
  decimals by `parseNum` where the Python code compares them numerically.
  Every definition mirrors the Python statement named in its comment.
-/
namespace Pharmpy.C20

inductive Err where
  | illegalFile     -- ValueError "Illegal …-file: missing TABLE NO."
  | emptyData       -- pandas EmptyDataError (no header line)
  | parserError     -- pandas ParserError (a later row has more fields than expected)
  | brokenExt       -- ValueError "Broken table in ext-file"
  | keyError        -- KeyError (row / column not available)
  | noIterations    -- ValueError: max() of an empty list
  | shapeError      -- ValueError from numpy (flattened_to_symmetric on a non-triangular length)
  | unmodelled      -- input outside the modelled fragment (implicit index column, duplicate
                    -- column names, non-numeric cell where a number is needed)
  deriving DecidableEq, Repr

/-! ### pd.read_table(sep='\s+') -/

/-- Field separators of pandas' C tokenizer with `delim_whitespace`. -/
def isWs (c : Char) : Bool := c == ' ' || c == '\t'

/-- Split a line into its whitespace separated tokens. -/
def splitWs : Str → List Str
  | [] => []
  | c :: cs =>
    if isWs c then splitWs cs
    else match cs with
      | [] => [[c]]
      | d :: _ =>
        if isWs d then [c] :: splitWs cs
        else match splitWs cs with
          | t :: ts => (c :: t) :: ts
          | [] => [[c]]

structure Frame where
  cols : List Str
  rows : List (List (Option Str))
  deriving DecidableEq, Repr

def hasDup : List Str → Bool
  | [] => false
  | x :: xs => xs.contains x || hasDup xs

def padRow (n : Nat) (r : List Str) : List (Option Str) :=
  r.map some ++ List.replicate (n - r.length) none

/-- `pd.read_table(StringIO(content), sep=r'\s+')`: blank lines are skipped, the first line is
    the header, short rows are padded with NaN, a long row is an error (a long *first* row
    would become an implicit index: outside the model). -/
def readFrame (lines : List Str) : Except Err Frame :=
  match (lines.map splitWs).filter (fun t => !t.isEmpty) with
  | [] => .error .emptyData
  | h :: rows =>
    if hasDup h then .error .unmodelled
    else match rows with
      | [] => .ok ⟨h, []⟩
      | r0 :: _ =>
        if r0.length > h.length then .error .unmodelled
        else if rows.any (fun r => decide (r.length > h.length)) then .error .parserError
        else .ok ⟨h, rows.map (padRow h.length)⟩

/-- Column labels of a header-less table: the positions 0, 1, …, n-1. -/
def positions (n : Nat) : List Str := (List.range n).map natDigits

/-- `pd.read_table(StringIO(content), sep=r'\s+', header=None)` (NOLABEL/NOHEADER tables): there is
    no header line, every non-blank line is a record, the first record fixes the number of
    columns, the columns are labelled by position; short rows are padded with NaN, a longer later
    row is an error. -/
def readFrameNoHeader (lines : List Str) : Except Err Frame :=
  match (lines.map splitWs).filter (fun t => !t.isEmpty) with
  | [] => .error .emptyData
  | r0 :: rest =>
    if rest.any (fun r => decide (r.length > r0.length)) then .error .parserError
    else .ok ⟨positions r0.length, (r0 :: rest).map (padRow r0.length)⟩

/-- pandas types a column as numeric only if every present cell is a number.  A column holding
    both numbers and other tokens becomes a column of *strings* (then `"0.00000E+00" != 0`): the
    cell-wise numeric reading of the table views below is claimed only for frames without such
    mixed columns.  (Frames read from files that fit their format have none.) -/
def Frame.mixed (f : Frame) : Bool :=
  (List.range f.cols.length).any (fun j =>
    let cells := f.rows.filterMap (fun r => (r[j]?).join)
    cells.any (fun t => (parseNum t).isSome) && cells.any (fun t => (parseNum t).isNone))

/-! ### NONMEMTableFile.__init__ : splitting on `TABLE NO.` lines -/

def startsWith (p s : Str) : Bool := p.isPrefixOf s

def tableNoPrefix : Str := "TABLE NO.".toList

/-- One iteration of `for line in tablefile:`; state = (finished chunks, `current`). -/
def splitStep (st : List (List Str) × List Str) (line : Str) : List (List Str) × List Str :=
  if startsWith tableNoPrefix line then
    (if st.2.isEmpty then st.1 else st.1 ++ [st.2], [line])
  else (st.1, st.2 ++ [line])

/-- The chunks handed to `_parse_table` (the last one after the loop). -/
def splitTables (lines : List Str) : List (List Str) :=
  let st := lines.foldl splitStep ([], [])
  st.1 ++ [st.2]

/-! ### the title line -/

/-- `\s` of Python's `re` (ASCII part). -/
def isReWs (c : Char) : Bool :=
  c == ' ' || c == '\t' || c == '\n' || c == '\r' || c == '\x0b' || c == '\x0c'

def isUpper (c : Char) : Bool := decide ('A' ≤ c) && decide (c ≤ 'Z')
def isLower (c : Char) : Bool := decide ('a' ≤ c) && decide (c ≤ 'z')
def isAlpha (c : Char) : Bool := isUpper c || isLower c
/-- `[\w-]` (ASCII part). -/
def isWordDash (c : Char) : Bool := isAlpha c || isDig c || c == '_' || c == '-'

/-- `re.match(r'TABLE NO.\s+(\d+)', line)`: the number and the text after it.
    (The `.` of the pattern matches any character.) -/
def matchTableNo (line : Str) : Option (Nat × Str) :=
  if startsWith "TABLE NO".toList line then
    match line.drop 8 with
    | [] => none
    | c :: r =>
      if c == '\n' then none
      else
        let ws := r.takeWhile isReWs
        let d := takeDigits (r.dropWhile isReWs)
        if ws.isEmpty || d.1.isEmpty then none else some (valDigits d.1, d.2)
  else none

/-- `lit` then `\d+`: value and rest. -/
def litNat (lit : String) (s : Str) : Option (Nat × Str) :=
  if startsWith lit.toList s then
    let d := takeDigits (s.drop lit.length)
    if d.1.isEmpty then none else some (valDigits d.1, d.2)
  else none

/-- `Problem=(\d+) Subproblem=(\d+) Superproblem1=(\d+) Iteration1=(\d+) Superproblem2=(\d+) Iteration2=(\d+)` -/
def matchTail (s : Str) : Option (List Nat) := do
  let (a, s) ← litNat "Problem=" s
  let (b, s) ← litNat " Subproblem=" s
  let (c, s) ← litNat " Superproblem1=" s
  let (d, s) ← litNat " Iteration1=" s
  let (e, s) ← litNat " Superproblem2=" s
  let (f, _) ← litNat " Iteration2=" s
  pure [a, b, c, d, e, f]

/-- `(?:Goal Function=(.*): )?` then the tail, at the start of `s`.  The optional group is tried
    first; `.*` is greedy, so the longest goal text that lets the tail match wins. -/
def matchGoalTail (s : Str) : Option (Option Str × List Nat) :=
  let withGoal : Option (Option Str × List Nat) :=
    if startsWith "Goal Function=".toList s then
      let g := s.drop 14
      ((List.range (g.length + 1)).reverse.findSome? fun e =>
        let r := g.drop e
        if startsWith ": ".toList r then
          match matchTail (r.drop 2) with
          | some t => some (some (g.take e), t)
          | none => none
        else none)
    else none
  match withGoal with
  | some r => some r
  | none => match matchTail s with
    | some t => some (none, t)
    | none => none

structure Title where
  method : Str
  design : Option Str
  goal : Option Str
  nums : List Nat          -- problem, subproblem, superproblem1, iteration1, superproblem2, iteration2
  deriving DecidableEq, Repr

/-- The second regular expression of `_parse_table`, applied to the text after
    `TABLE NO.\s+\d+`: `: (.*?)(?:: ([\w-]+))?: (?:Goal Function=(.*): )?Problem=…`.
    `(.*?)` is lazy: the shortest method text wins; at each length the optional
    design-optimality group is tried first. -/
def matchTitleRest (s0 : Str) : Option Title :=
  if startsWith ": ".toList s0 then
    let s := s0.drop 2
    (List.range (s.length + 1)).findSome? fun p =>
      let r := s.drop p
      if startsWith ": ".toList r then
        let r1 := r.drop 2
        let w := r1.takeWhile isWordDash
        let r2 := r1.dropWhile isWordDash
        let withDesign : Option Title :=
          if !w.isEmpty && startsWith ": ".toList r2 then
            match matchGoalTail (r2.drop 2) with
            | some (g, t) => some ⟨s.take p, some w, g, t⟩
            | none => none
          else none
        match withDesign with
        | some t => some t
        | none => match matchGoalTail r1 with
          | some (g, t) => some ⟨s.take p, none, g, t⟩
          | none => none
      else none
  else none

def containsSub (p : Str) : Str → Bool
  | [] => p.isEmpty
  | c :: cs => startsWith p (c :: cs) || containsSub p cs

structure Meta where
  number : Nat
  isEvaluation : Bool
  title : Option Title
  deriving DecidableEq, Repr

def parseTitleLine (line : Str) : Except Err Meta :=
  match matchTableNo line with
  | none => .error .illegalFile
  | some (n, rest) => .ok ⟨n, containsSub "Evaluation".toList line, matchTitleRest rest⟩

/-! ### content preprocessing -/

/-- For an upper-case run: the text after its last `OBJ`, if there is one. -/
def afterLastOBJ : Str → Option Str
  | [] => none
  | c :: cs =>
    match afterLastOBJ cs with
    | some r => some r
    | none => if startsWith "OBJ".toList (c :: cs) then some (cs.drop 2) else none

def flushRun (run : Str) : Str :=
  match afterLastOBJ run with
  | some r => "OBJ".toList ++ r
  | none => run

/-- `re.sub(r"[A-Z]*OBJ", "OBJ", line)`. -/
def subOBJ (cs : Str) : Str :=
  let st := cs.foldl (fun (st : Str × Str) c =>
    if isUpper c then (st.1, st.2 ++ [c]) else (st.1 ++ flushRun st.2 ++ [c], [])) ([], [])
  st.1 ++ flushRun st.2

/-- `re.match(r'\s[A-Za-z_]', line)`. -/
def looksLikeHeader : Str → Bool
  | c :: d :: _ => isReWs c && (isAlpha d || d == '_')
  | _ => false

/-- `content[1:] = [line for line in content[1:] if not re.match(r'\s[A-Za-z_]', line)]`. -/
def dropRepeatedHeaders : List Str → List Str
  | [] => []
  | h :: rest => h :: rest.filter (fun l => !looksLikeHeader l)

/-! ### frames: column selection, renaming -/

def lookupCol (cols : List Str) (row : List (Option Str)) (l : Str) : Option Str :=
  match cols.idxOf? l with
  | some i => (row[i]?).join
  | none => none

/-- `df.reindex(labels, axis=1)`: the named columns in the given order, NaN where absent. -/
def selectCols (labels : List Str) (f : Frame) : Frame :=
  ⟨labels, f.rows.map (fun r => labels.map (lookupCol f.cols r))⟩

/-- `str.replace(r'THETA(\d+)', r'THETA(\1)', regex=True)`; `fuel` ≥ length. -/
def renameThetaAux : Nat → Str → Str
  | 0, cs => cs
  | fuel + 1, cs =>
    match cs with
    | [] => []
    | c :: rest =>
      if startsWith "THETA".toList cs then
        let d := takeDigits (cs.drop 5)
        if d.1.isEmpty then c :: renameThetaAux fuel rest
        else "THETA(".toList ++ d.1 ++ ')' :: renameThetaAux fuel d.2
      else c :: renameThetaAux fuel rest

def renameTheta (cs : Str) : Str := renameThetaAux (cs.length + 1) cs

def thetaP : Str := "THETA".toList
def omegaP : Str := "OMEGA".toList
def sigmaP : Str := "SIGMA".toList

/-- `theta_labels + omega_labels + sigma_labels` of `rename_index`. -/
def orderedLabels (cols : List Str) : List Str :=
  cols.filter (startsWith thetaP) ++ cols.filter (startsWith omegaP) ++ cols.filter (startsWith sigmaP)

/-- `NONMEMTable.rename_index(df, ext=True)`. -/
def renameIndexExt (f : Frame) : Frame :=
  let labels := "ITERATION".toList :: orderedLabels f.cols ++ ["OBJ".toList]
  let g := selectCols labels f
  ⟨g.cols.map renameTheta, g.rows⟩

/-! ### ExtTable -/

/-- Numeric view of a cell; `none` = NaN. A non-numeric token is outside the model. -/
def cellNum : Option Str → Except Err (Option Dec)
  | none => .ok none
  | some t => match parseNum t with
    | some d => .ok (some d)
    | none => .error .unmodelled

/-- The ITERATION value of each row (`none` = NaN). -/
def iterColumn (f : Frame) : Except Err (List (Option Dec)) :=
  f.rows.mapM (fun r => cellNum (r.headD none))

/-- `ExtTable.data_frame`. -/
def extDataFrame (raw : Frame) : Except Err Frame :=
  let f := renameIndexExt raw
  match iterColumn f with
  | .error e => .error e
  | .ok its => if its.all (·.isNone) then .error .brokenExt else .ok f

def isIter (code : Int) : Option Dec → Bool
  | some d => d.eqv (Dec.ofInt code)
  | none => false

/-- `df.loc[df['ITERATION'] == iteration]`. -/
def rowsWithIter (f : Frame) (code : Int) : Except Err (List (List (Option Str))) := do
  let its ← iterColumn f
  pure ((f.rows.zip its).filter (fun p => isIter code p.2) |>.map (·.1))

/-- `_get_parameters(iteration, include_thetas)`: labels and the selected rows without
    ITERATION and OBJ (and without every column whose name contains THETA). -/
def getParameters (raw : Frame) (code : Int) (includeThetas : Bool := true) :
    Except Err (List Str × List (List (Option Str))) := do
  let f ← extDataFrame raw
  let rows ← rowsWithIter f code
  if rows.isEmpty then throw .keyError
  let keep := f.cols.map (fun c =>
    c != "ITERATION".toList && c != "OBJ".toList && (includeThetas || !containsSub thetaP c))
  let sel {α : Type} (xs : List α) : List α := (xs.zip keep).filter (·.2) |>.map (·.1)
  pure (sel f.cols, rows.map sel)

/-- `_get_ofv(iteration)`: the OBJ cell of the selected rows. -/
def getOfv (raw : Frame) (code : Int) : Except Err (List (Option Str)) := do
  let f ← extDataFrame raw
  let rows ← rowsWithIter f code
  if rows.isEmpty then throw .keyError
  pure (rows.map (fun r => lookupCol f.cols r "OBJ".toList))

/-- `ExtTable.iterations`: `list(it[it >= 0])`. -/
def iterations (raw : Frame) : Except Err (List Dec) := do
  let f ← extDataFrame raw
  let its ← iterColumn f
  pure (its.filterMap (fun o => match o with | some d => if d.nonneg then some d else none | none => none))

def maxDec : List Dec → Option Dec
  | [] => none
  | d :: ds => some (ds.foldl (fun a b => if a.le b then b else a) d)

/-- The integer an ITERATION value denotes, when it is one. -/
def Dec.toInt? (d : Dec) : Option Int :=
  if 0 ≤ d.e then some (d.m * (10 : Int) ^ d.e.toNat)
  else if d.m % (10 : Int) ^ (-d.e).toNat == 0 then some (d.m / (10 : Int) ^ (-d.e).toNat) else none

/-- try `get code` / `except KeyError:` `get (max(self.iterations))`. -/
def withFallback {α : Type} (raw : Frame) (code : Int) (get : Int → Except Err α) : Except Err α :=
  match get code with
  | .error .keyError =>
    match iterations raw with
    | .error e => .error e
    | .ok its => match maxDec its with
      | none => .error .noIterations
      | some d => match d.toInt? with
        | some i => get i
        | none => .error .unmodelled
  | r => r

end Pharmpy.C20
