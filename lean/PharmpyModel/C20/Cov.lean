/-
  C20 — `pharmpy.internals.math.cov2corr` / `corr2cov`, the conversions behind
  `modeling.calculate_corr_from_cov`, `calculate_corr_from_prec`, `calculate_cov_from_corrse`
  (how ModelfitResults.correlation_matrix is produced when NONMEM's .cor file is absent).

  The arithmetic is abstract (`Ops K`): theorems instantiate it with the operations of an
  arbitrary ordered field and an abstract square root; the driver instantiates it with exact
  rationals and the square roots supplied by the harness.
-/
namespace Pharmpy.C20

structure Ops (K : Type) where
  zero : K
  mul : K → K → K
  div : K → K → K
  sqrt : K → K
  isZero : K → Bool

variable {K : Type}

/-- Entry (i,j) of `cov2corr(cov)`:
    `v = np.sqrt(np.diag(cov)); corr = cov / np.outer(v, v); corr[cov == 0] = 0`. -/
def cov2corrEntry (o : Ops K) (c : Nat → Nat → K) (i j : Nat) : K :=
  if o.isZero (c i j) then o.zero
  else o.div (c i j) (o.mul (o.sqrt (c i i)) (o.sqrt (c j j)))

/-- Entry (i,j) of `corr2cov(corr, sd)` = `diag(sd) @ corr @ diag(sd)`. -/
def corr2covEntry (o : Ops K) (r : Nat → Nat → K) (sd : Nat → K) (i j : Nat) : K :=
  o.mul (o.mul (sd i) (r i j)) (sd j)

/-- A list-of-rows matrix as an entry function (`zero` outside). -/
def matFn (zero : K) (rows : List (List K)) : Nat → Nat → K :=
  fun i j => ((rows[i]?).bind (·[j]?)).getD zero

/-- `cov2corr` on a square matrix given as rows. -/
def cov2corr (o : Ops K) (rows : List (List K)) : List (List K) :=
  (List.range rows.length).map (fun i =>
    (List.range rows.length).map (fun j => cov2corrEntry o (matFn o.zero rows) i j))

/-- `corr2cov` on rows. -/
def corr2cov (o : Ops K) (rows : List (List K)) (sd : List K) : List (List K) :=
  (List.range rows.length).map (fun i =>
    (List.range rows.length).map (fun j =>
      corr2covEntry o (matFn o.zero rows) (fun k => sd.getD k o.zero) i j))

/-- Exact rationals; the square roots of the diagonal entries come from a table. -/
def ratOps (table : List (Rat × Rat)) : Ops Rat where
  zero := 0
  mul := (· * ·)
  div := (· / ·)
  sqrt := fun x => match table.find? (fun p => p.1 == x) with
    | some p => p.2
    | none => 0
  isZero := fun x => x == 0

end Pharmpy.C20
