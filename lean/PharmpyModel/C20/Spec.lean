import PharmpyModel.C20.Tables
/-
  C20 — the specification side: a reference WRITER for NONMEM table files following
  /repo/docs/NONMEM.rst ("phi files / File format": header = one space, names left justified in
  13 characters, last name as is; data right justified in 13 characters, OBJ in 22; integers for
  the first columns, `d.dddddE±xx` for estimates, plain decimals for OBJ), the `TABLE NO.` title
  line, and the documented meaning of the special ITERATION codes of .ext files.
-/
namespace Pharmpy.C20.Spec
open Pharmpy.C20

inductive Align where
  | right | left
  deriving DecidableEq, Repr

structure Col where
  width : Nat
  align : Align
  deriving DecidableEq, Repr

def blanks (k : Nat) : Str := List.replicate k ' '
def padLeft (w : Nat) (t : Str) : Str := blanks (w - t.length) ++ t
def padRight (w : Nat) (t : Str) : Str := t ++ blanks (w - t.length)

/-- A data field: right justified in its width; a label field (NAME column of cov/cor/coi) is
    one space followed by the label left justified in its width. -/
def renderField (c : Col) (tok : Str) : Str :=
  match c.align with
  | .right => padLeft c.width tok
  | .left => ' ' :: padRight c.width tok

def renderRow : List Col → List Str → Str
  | c :: cs, t :: ts => renderField c t ++ renderRow cs ts
  | _, _ => []

def headerGo (w : Nat) : List Str → Str
  | [] => []
  | [n] => n
  | n :: m :: rest => padRight w n ++ headerGo w (m :: rest)

/-- One space, every name but the last left justified in `w` characters (13 in ext/phi/cov files,
    12 in default $TABLE output), the last name. -/
def renderHeader (w : Nat) (names : List Str) : Str := ' ' :: headerGo w names

structure RefTable where
  hw : Nat                 -- header field width
  names : List Str
  cols : List Col
  rows : List (List Cell)
  deriving DecidableEq, Repr

def renderBody (t : RefTable) : List Str :=
  renderHeader t.hw t.names :: t.rows.map (fun r => renderRow t.cols (r.map renderCell))

/-- A table written with NOLABEL / NOHEADER: the data lines only. -/
def renderRecords (t : RefTable) : List Str :=
  t.rows.map (fun r => renderRow t.cols (r.map renderCell))

/-! ### when a table "fits" its format (decidable) -/

def isToken (t : Str) : Bool := !t.isEmpty && t.all (fun c => !isWs c)

def fitsField (c : Col) (tok : Str) : Bool :=
  isToken tok && (match c.align with
    | .right => decide (tok.length < c.width)
    | .left => true)

def fitsRow : List Col → List Str → Bool
  | [], [] => true
  | c :: cs, t :: ts => fitsField c t && fitsRow cs ts
  | _, _ => false

def headerOk (w : Nat) : List Str → Bool
  | [] => false
  | [n] => isToken n
  | n :: m :: rest => isToken n && decide (n.length < w) && headerOk w (m :: rest)

def cellOk : Cell → Bool
  | .sci _ d mant _ => decide (mant < 10 ^ (d + 1))
  | _ => true

def RefTable.fits (t : RefTable) : Bool :=
  headerOk t.hw t.names && !hasDup t.names && t.names.length == t.cols.length
    && t.rows.all (fun r => r.all cellOk && fitsRow t.cols (r.map renderCell))

/-- Fitting of a header-less table: at least one column; every row has one fitting cell per column. -/
def RefTable.fitsRecords (t : RefTable) : Bool :=
  !t.cols.isEmpty && t.rows.all (fun r => r.all cellOk && fitsRow t.cols (r.map renderCell))

/-! ### title line -/

structure TitleSpec where
  method : Str
  design : Option Str
  goal : Option Str
  nums : List Nat      -- six numbers
  deriving DecidableEq, Repr

def optPart (pre : String) (o : Option Str) (post : String) : Str :=
  match o with
  | some s => pre.toList ++ s ++ post.toList
  | none => []

/-- `TABLE NO.` + the table number right justified in `w` characters (6 in ext/phi/cov files,
    3 in $TABLE output). -/
def renderTitleNo (w n : Nat) : Str := tableNoPrefix ++ padLeft w (natDigits n)

/-- `: method[: design]: [Goal Function=goal: ]Problem=… Iteration2=…` (ext/phi/cov files). -/
def renderTitleRest (t : TitleSpec) : Str :=
  ": ".toList ++ t.method
    ++ optPart ": " t.design "" ++ ": ".toList ++ optPart "Goal Function=" t.goal ": "
    ++ "Problem=".toList ++ natDigits (t.nums.getD 0 0)
    ++ " Subproblem=".toList ++ natDigits (t.nums.getD 1 0)
    ++ " Superproblem1=".toList ++ natDigits (t.nums.getD 2 0)
    ++ " Iteration1=".toList ++ natDigits (t.nums.getD 3 0)
    ++ " Superproblem2=".toList ++ natDigits (t.nums.getD 4 0)
    ++ " Iteration2=".toList ++ natDigits (t.nums.getD 5 0)

/-- A file of several tables. -/
def renderFile (ts : List (Str × RefTable)) : List Str :=
  (ts.map (fun p => p.1 :: renderBody p.2)).flatten

/-! ### documented meaning of the special ITERATION values of an .ext file
    (NONMEM 7 "Additional output files": -1000000000 final estimates, -1000000001 standard
    errors, -1000000002 eigenvalues, -1000000003 condition number, -1000000004 OMEGA/SIGMA as
    standard deviations/correlations, -1000000005 their standard errors, -1000000006 fixed
    indicator (1 = fixed), -1000000007 termination status, -1000000008 partial derivatives). -/

def codeFinal : Int := -1000000000
def codeSE : Int := -1000000001
def codeEigen : Int := -1000000002
def codeCond : Int := -1000000003
def codeSdCorr : Int := -1000000004
def codeSdCorrSE : Int := -1000000005
def codeFixed : Int := -1000000006

open Generated in
/-- What table.py's properties must say, entry by entry. -/
def documentedExtProps : List ExtProp := [
  ⟨"final_parameter_estimates", "_get_parameters", codeFinal, true, "max-iteration", "series"⟩,
  ⟨"standard_errors", "_get_parameters", codeSE, true, "none", "series"⟩,
  ⟨"condition_number", "_get_parameters", codeCond, true, "none", "first-value"⟩,
  ⟨"omega_sigma_stdcorr", "_get_parameters", codeSdCorr, false, "none", "series"⟩,
  ⟨"omega_sigma_se_stdcorr", "_get_parameters", codeSdCorrSE, false, "none", "series"⟩,
  ⟨"fixed", "_get_parameters", codeFixed, true, "none", "apply-bool"⟩,
  ⟨"final_ofv", "_get_ofv", codeFinal, true, "max-iteration", "series"⟩,
  ⟨"initial_ofv", "_get_ofv", 0, true, "code:-1000000000", "series"⟩
]

end Pharmpy.C20.Spec
