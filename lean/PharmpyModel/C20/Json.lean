import PharmpyModel.C20.Num
/-
  C20 — `pharmpy.workflows.results._df_to_json` / `_df_read_json`: how a labelled table
  (DataFrame / Series: index labels, column labels, cells) is written to and read from the
  pandas "table" JSON form used inside results.json.

  `df.to_json(orient='table')`: `schema.fields` lists the index levels first (an unnamed single
  index is called `index`, unnamed levels of a MultiIndex `level_k`), then the columns;
  `schema.primaryKey` names the index fields; every record of `data` holds the index labels and
  the cells of one row under these names.  Reading back: the columns are the fields that are not
  in the primary key, the index is set from the primary-key fields, `index` / `level_k` names
  become unnamed again, a key missing from a record is a missing value.
  Cell values are abstract (`α`): their textual precision is a separate matter.
-/
namespace Pharmpy.C20

structure LTable (α : Type) where
  indexNames : List (Option Str)      -- one entry per index level; `none` = unnamed
  index : List (List α)               -- per row: one label per level
  cols : List Str
  cells : List (List α)               -- per row
  deriving DecidableEq, Repr

structure JTable (α : Type) where
  fields : List Str
  primaryKey : List Str
  data : List (List (Str × α))
  deriving DecidableEq, Repr

def indexLit : Str := ['i', 'n', 'd', 'e', 'x']
def levelLit : Str := ['l', 'e', 'v', 'e', 'l', '_']

/-- JSON field name of index level `k`. -/
def levelName (single : Bool) (k : Nat) : Option Str → Str
  | some n => n
  | none => if single then indexLit else levelLit ++ natDigits k

def jsonNamesFrom (single : Bool) : Nat → List (Option Str) → List Str
  | _, [] => []
  | k, n :: ns => levelName single k n :: jsonNamesFrom single (k + 1) ns

def jsonIndexNames (names : List (Option Str)) : List Str :=
  jsonNamesFrom (names.length == 1) 0 names

/-- `_df_to_json(df)` = `json.loads(df.to_json(orient='table'))` (structure).  pandas writes the
    primary key only when the index labels are unique (`build_table_schema`). -/
def encodeTable {α : Type} [DecidableEq α] (t : LTable α) : JTable α :=
  let inames := jsonIndexNames t.indexNames
  { fields := inames ++ t.cols
    primaryKey := if t.index.Nodup then inames else []
    data := (t.index.zip t.cells).map (fun r => inames.zip r.1 ++ t.cols.zip r.2) }

def lookupKey {α : Type} (k : Str) (r : List (Str × α)) : Option α :=
  (r.find? (fun p => p.1 == k)).map (·.2)

/-- reserved names that mean "unnamed" when read back -/
def isReserved (single : Bool) (s : Str) : Bool :=
  if single then s == indexLit else levelLit.isPrefixOf s

def restoreName (single : Bool) (s : Str) : Option Str :=
  if isReserved single s then none else some s

/-- `_df_read_json(obj)` = `pd.read_json(orient='table')` (structure); cells are `Option`:
    a key missing from a record reads as a missing value. -/
def decodeTable {α : Type} (j : JTable α) : LTable (Option α) :=
  let cols := j.fields.filter (fun f => !j.primaryKey.contains f)
  { indexNames := j.primaryKey.map (restoreName (j.primaryKey.length == 1))
    index := j.data.map (fun r => j.primaryKey.map (fun k => lookupKey k r))
    cols := cols
    cells := j.data.map (fun r => cols.map (fun k => lookupKey k r)) }

/-- What comes back when nothing is lost. -/
def LTable.some {α : Type} (t : LTable α) : LTable (Option α) :=
  { indexNames := t.indexNames, index := t.index.map (·.map Option.some), cols := t.cols,
    cells := t.cells.map (·.map Option.some) }

end Pharmpy.C20
