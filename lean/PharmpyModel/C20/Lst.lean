/-
  C20 — `NONMEMResultsFile.__init__` (results_file.py): the per-instance dictionary `table` that
  maps a table number (`#TBLN:`) to the parsed block of the .lst file.
  `self.table = {}` and then one item assignment `self.table[name] = content` per block, in file
  order.  A dictionary is an association list with unique keys, in insertion order.
-/
namespace Pharmpy.C20

abbrev LstTable (β : Type) := List (Nat × β)

/-- `d[k] = v` (an existing key keeps its position). -/
def assignBlock {β : Type} (t : LstTable β) (b : Nat × β) : LstTable β :=
  if t.any (fun p => p.1 == b.1) then t.map (fun p => if p.1 == b.1 then b else p) else t ++ [b]

/-- all assignments of one file on top of a given dictionary -/
def lstTableFrom {β : Type} (init : LstTable β) (blocks : List (Nat × β)) : LstTable β :=
  blocks.foldl assignBlock init

/-- The dictionary of a new instance: it starts EMPTY — nothing read earlier in the process is in it. -/
def lstTable {β : Type} (blocks : List (Nat × β)) : LstTable β := lstTableFrom [] blocks

/-- `rfile.table[n]` (`none` = KeyError, reported as False / NaN by results.py). -/
def lookupBlock {β : Type} (t : LstTable β) (n : Nat) : Option β :=
  (t.find? (fun p => p.1 == n)).map (·.2)

/-- Reading several runs one after the other in one process: every instance has its own dictionary. -/
def readRuns {β : Type} (runs : List (List (Nat × β))) : List (LstTable β) := runs.map lstTable

/-- The variant with ONE dictionary shared by all instances (a class attribute). -/
def readRunsShared {β : Type} : LstTable β → List (List (Nat × β)) → List (LstTable β)
  | _, [] => []
  | st, r :: rs => lstTableFrom st r :: readRunsShared (lstTableFrom st r) rs

end Pharmpy.C20
