import PharmpyModel.Core.Sexp
import PharmpyModel.Core.Stmts
/-
  Wire encoding of expressions and statements.
    integer atom            → lit
    other atom              → sym
    (f a) (f a b) (f a b c) → f1 / f2 / f3
    (= X e)                 → assignment
    (ode (A..) (r..))       → ODE marker
-/
namespace Pharmpy
open Sexp

partial def Expr.ofSexp? : Sexp → Option Expr
  | .atom s => match s.toInt? with
    | some n => some (.lit n)
    | none => some (.sym s)
  | .list [.atom f, a] => do some (.f1 f (← ofSexp? a))
  | .list [.atom f, a, b] => do some (.f2 f (← ofSexp? a) (← ofSexp? b))
  | .list [.atom f, a, b, c] => do some (.f3 f (← ofSexp? a) (← ofSexp? b) (← ofSexp? c))
  | _ => none

def Expr.toSexp : Expr → Sexp
  | .lit n => .atom (toString n)
  | .sym s => .atom s
  | .f1 f a => .list [.atom f, a.toSexp]
  | .f2 f a b => .list [.atom f, a.toSexp, b.toSexp]
  | .f3 f a b c => .list [.atom f, a.toSexp, b.toSexp, c.toSexp]

def symList? (x : Sexp) : Option (List Sym) := do
  let xs ← x.asList?
  xs.mapM Sexp.asAtom?

def Stmt.ofSexp? : Sexp → Option Stmt
  | .list [.atom "=", .atom x, e] => do some (.assign x (← Expr.ofSexp? e))
  | .list [.atom "ode", a, r] => do some (.ode (← symList? a) (← symList? r))
  | _ => none

def Stmt.toSexp : Stmt → Sexp
  | .assign x e => .list [.atom "=", .atom x, e.toSexp]
  | .ode a r => .list [.atom "ode", Sexp.ofStrs a, Sexp.ofStrs r]

def stmts? (x : Sexp) : Option (List Stmt) := do
  let xs ← x.asList?
  xs.mapM Stmt.ofSexp?

/-- Sort + dedupe strings for canonical set output. -/
def canonSet (xs : List String) : List String :=
  (xs.toArray.qsort (· < ·)).toList.eraseDups

def canonNats (xs : List Nat) : List Nat :=
  (xs.toArray.qsort (· < ·)).toList.eraseDups

end Pharmpy
