/-
  S-expressions: the wire format of the line protocol between the Python
  harness and the Lean drivers.  One request per line, one answer per line.
  Atoms are runs of characters other than blanks and parentheses, or
  double-quoted strings with `\"`, `\\`, `\n`, `\t` escapes.
  (Driver plumbing only: nothing here is the subject of a theorem.)
-/
namespace Pharmpy

inductive Sexp where
  | atom : String → Sexp
  | list : List Sexp → Sexp
  deriving Repr, Inhabited, BEq

namespace Sexp

private def needsQuote (s : String) : Bool :=
  s.isEmpty || s.any (fun c => c == ' ' || c == '(' || c == ')' || c == '"' || c == '\n' || c == '\t' || c == '\\')

private def quote (s : String) : String :=
  let body := s.foldl (fun acc c =>
    if c == '"' then acc ++ "\\\""
    else if c == '\\' then acc ++ "\\\\"
    else if c == '\n' then acc ++ "\\n"
    else if c == '\t' then acc ++ "\\t"
    else acc.push c) ""
  "\"" ++ body ++ "\""

partial def toString : Sexp → String
  | atom s => if needsQuote s then quote s else s
  | list xs => "(" ++ " ".intercalate (xs.map toString) ++ ")"

instance : ToString Sexp := ⟨Sexp.toString⟩

/-- Tokens: `(`, `)`, or atom text (already unescaped). -/
private inductive Tok where
  | lp | rp | at (s : String)

private partial def lexAux (cs : List Char) (acc : Array Tok) : Option (Array Tok) :=
  match cs with
  | [] => some acc
  | c :: rest =>
    if c == ' ' || c == '\t' || c == '\n' || c == '\r' then lexAux rest acc
    else if c == '(' then lexAux rest (acc.push .lp)
    else if c == ')' then lexAux rest (acc.push .rp)
    else if c == '"' then
      let rec str (cs : List Char) (s : String) : Option (String × List Char) :=
        match cs with
        | [] => none
        | '"' :: r => some (s, r)
        | '\\' :: 'n' :: r => str r (s.push '\n')
        | '\\' :: 't' :: r => str r (s.push '\t')
        | '\\' :: c :: r => str r (s.push c)
        | c :: r => str r (s.push c)
      match str rest "" with
      | none => none
      | some (s, r) => lexAux r (acc.push (.at s))
    else
      let rec word (cs : List Char) (s : String) : String × List Char :=
        match cs with
        | [] => (s, [])
        | c :: r =>
          if c == ' ' || c == '\t' || c == '\n' || c == '\r' || c == '(' || c == ')' then (s, c :: r)
          else word r (s.push c)
      let (s, r) := word (c :: rest) ""
      lexAux r (acc.push (.at s))

private partial def parseAux (toks : Array Tok) (i : Nat) : Option (Sexp × Nat) :=
  if h : i < toks.size then
    match toks[i] with
    | .at s => some (atom s, i + 1)
    | .rp => none
    | .lp =>
      let rec items (j : Nat) (acc : Array Sexp) : Option (Sexp × Nat) :=
        if h : j < toks.size then
          match toks[j] with
          | .rp => some (list acc.toList, j + 1)
          | _ => match parseAux toks j with
                 | none => none
                 | some (x, k) => items k (acc.push x)
        else none
      items (i + 1) #[]
  else none

def parse (s : String) : Option Sexp :=
  match lexAux s.toList #[] with
  | none => none
  | some toks =>
    match parseAux toks 0 with
    | some (x, k) => if k == toks.size then some x else none
    | none => none

def ofNat (n : Nat) : Sexp := atom (ToString.toString n)
def ofInt (n : Int) : Sexp := atom (ToString.toString n)
def ofBool (b : Bool) : Sexp := atom (if b then "true" else "false")
def ofStrs (xs : List String) : Sexp := list (xs.map atom)
def ofNats (xs : List Nat) : Sexp := list (xs.map ofNat)

def asNat? : Sexp → Option Nat
  | atom s => s.toNat?
  | _ => none
def asInt? : Sexp → Option Int
  | atom s => s.toInt?
  | _ => none
def asAtom? : Sexp → Option String
  | atom s => some s
  | _ => none
def asList? : Sexp → Option (List Sexp)
  | list xs => some xs
  | _ => none
def asBool? : Sexp → Option Bool
  | atom "true" => some true
  | atom "false" => some false
  | _ => none

end Sexp

/-- Generic driver loop: one request line in, one answer line out. State threaded. -/
partial def driverLoop {σ : Type} (h : IO.FS.Stream) (out : IO.FS.Stream)
    (step : σ → Sexp → σ × Sexp) (s : σ) : IO Unit := do
  let line ← h.getLine
  if line.isEmpty then return ()
  let trimmed := line.trimAscii.toString
  if trimmed.isEmpty then
    driverLoop h out step s
  else
    match Sexp.parse trimmed with
    | none =>
      out.putStrLn "(err bad-sexp)"
      out.flush
      driverLoop h out step s
    | some req =>
      let (s', ans) := step s req
      out.putStrLn (toString ans)
      out.flush
      driverLoop h out step s'

def runDriver {σ : Type} (step : σ → Sexp → σ × Sexp) (init : σ) : IO Unit := do
  let stdin ← IO.getStdin
  let stdout ← IO.getStdout
  driverLoop stdin stdout step init
  stdout.flush

end Pharmpy
