import PharmpyModel.Core.Expr
/-
  Ordered statement lists (pharmpy `Statements`): assignments and at most a few
  ODE-system markers.  For dataflow purposes an ODE system is a statement that
  *defines* its amount symbols and *reads* its right-hand-side symbols
  (`CompartmentalSystem.amounts` / `.rhs_symbols`).

  `run` is the reference semantics: execute in order; a later assignment to
  the same symbol shadows the earlier one; an ODE system sets every amount to
  an (uninterpreted) function of the current values of the symbols it reads.
-/
namespace Pharmpy

inductive Stmt where
  | assign : Sym → Expr → Stmt
  | ode    : List Sym → List Sym → Stmt      -- amounts, rhs symbols
  deriving DecidableEq, Repr, Inhabited

namespace Stmt

/-- Symbols read by the right-hand side (`rhs_symbols`). -/
def rhs : Stmt → List Sym
  | assign _ e => e.syms
  | ode _ r    => r

/-- Symbols defined by the statement. -/
def defs : Stmt → List Sym
  | assign x _ => [x]
  | ode a _    => a

def isOde : Stmt → Bool
  | ode _ _ => true
  | _ => false

/-- One execution step. -/
def exec {α : Type} (I : Interp α) (ρ : Env α) : Stmt → Env α
  | assign x e => ρ.set x (e.eval I ρ)
  | ode a r    => fun y => if y ∈ a then I.fn ("ode:" ++ y) (r.map ρ) else ρ y

end Stmt

/-- Sequential execution of a statement list. -/
def run {α : Type} (I : Interp α) (ss : List Stmt) (ρ : Env α) : Env α :=
  ss.foldl (fun ρ s => s.exec I ρ) ρ

end Pharmpy
