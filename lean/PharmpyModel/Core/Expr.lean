/-
  Core expression language shared by the statement-level models
  (C01, C02, C05, C07, C09, C10).

  `Expr` is a first-order term language over symbols, integer literals and
  *named* operations of arity 1, 2, 3.  `+`, `*`, `/`, `**`, `exp`, comparison
  operators and piecewise selection (`ite c a b`) are all just names: the
  evaluator is parametric in an interpretation `Interp α` over an arbitrary
  carrier `α`, so every theorem stated "for all `I`" holds for the reals with
  the usual meaning of the operations, for partial semantics encoded with an
  `Option`-like carrier, and for anything else.  Nothing in the statement-level
  theorems depends on algebraic laws.
-/
namespace Pharmpy

deriving instance DecidableEq for Except

abbrev Sym := String

inductive Expr where
  | lit : Int → Expr
  | sym : Sym → Expr
  | f1  : String → Expr → Expr
  | f2  : String → Expr → Expr → Expr
  | f3  : String → Expr → Expr → Expr → Expr
  deriving DecidableEq, Repr, Inhabited

/-- Interpretation of literals and named operations over a carrier `α`. -/
structure Interp (α : Type) where
  lit : Int → α
  fn  : String → List α → α

abbrev Env (α : Type) := Sym → α

namespace Expr

def eval {α : Type} (I : Interp α) (ρ : Env α) : Expr → α
  | lit n        => I.lit n
  | sym s        => ρ s
  | f1 f a       => I.fn f [eval I ρ a]
  | f2 f a b     => I.fn f [eval I ρ a, eval I ρ b]
  | f3 f a b c   => I.fn f [eval I ρ a, eval I ρ b, eval I ρ c]

/-- Free symbols, in first-occurrence order, possibly with repeats. -/
def syms : Expr → List Sym
  | lit _        => []
  | sym s        => [s]
  | f1 _ a       => syms a
  | f2 _ a b     => syms a ++ syms b
  | f3 _ a b c   => syms a ++ syms b ++ syms c

/-- Simultaneous substitution of symbols. -/
def subst (σ : Sym → Option Expr) : Expr → Expr
  | lit n        => lit n
  | sym s        => (match σ s with | some t => t | none => sym s)
  | f1 f a       => f1 f (subst σ a)
  | f2 f a b     => f2 f (subst σ a) (subst σ b)
  | f3 f a b c   => f3 f (subst σ a) (subst σ b) (subst σ c)

/-- Substitute one symbol (what `expr.subs({x: t})` does for a symbol key). -/
def subst1 (x : Sym) (t : Expr) : Expr → Expr :=
  subst (fun y => if y = x then some t else none)

def size : Expr → Nat
  | lit _ => 1
  | sym _ => 1
  | f1 _ a => size a + 1
  | f2 _ a b => size a + size b + 1
  | f3 _ a b c => size a + size b + size c + 1

end Expr

/-- Point update of an environment. -/
def Env.set {α : Type} (ρ : Env α) (x : Sym) (v : α) : Env α :=
  fun y => if y = x then v else ρ y

end Pharmpy
