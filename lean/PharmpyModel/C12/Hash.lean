import PharmpyModel.C12.Model
/-
  C12 — the pre-image of `ModelHash` (src/pharmpy/workflows/hashing.py).

      di = di.replace(path=None); model = model.replace(datainfo=di)
      model = model.replace(name='', description='')
      model_bytes = json.dumps(model.to_dict()).encode('utf-8')
      h = sha256(); for val in hash_pandas_object(df, index=False, ...): h.update(int(val).to_bytes(8))
      h.update(repr(list(df.columns))); h.update(repr(df.index)); h.update(repr(list(df.dtypes)))
      h.update(model_bytes)

  The pre-image is the *sequence of `h.update` arguments*.  `rowDigest`
  (pandas' row hash) and `dumps` (`json.dumps`) are parameters; the theorems
  assume they are injective (SHA-256 collision-freeness on update sequences is
  the remaining, stated, assumption).
-/
namespace Pharmpy.C12

structure Dataset (R : Type) where
  rows : List R
  columns : String      -- repr(list(df.columns))
  index : String        -- repr(df.index)
  dtypes : String       -- repr(list(df.dtypes))
  deriving DecidableEq, Repr

inductive Chunk where
  | row (digest : Nat)   -- 8 big-endian bytes
  | text (s : String)    -- utf-8 bytes of s
  deriving DecidableEq, Repr

section
variable {E M R : Type} (c : Codec E M) [DecidableEq E]

/-- the two `replace` calls: name, description and the dataset path are blanked -/
def Model.blank (m : Model E M) : Model E M :=
  { m with name := "", description := "", datainfo := { m.datainfo with path := none } }

def datasetChunks (rowDigest : R → Nat) (ds : Dataset R) : List Chunk :=
  ds.rows.map (fun r => .row (rowDigest r)) ++ [.text ds.columns, .text ds.index, .text ds.dtypes]

/-- everything fed to SHA-256, in order -/
def encode (rowDigest : R → Nat) (dumps : Json → String) (ds : Dataset R) (m : Model E M) : List Chunk :=
  datasetChunks rowDigest ds ++ [.text (dumps (m.blank.toDict c))]

end

/-! ### The intended repair (F4): emit a compartmental system in a canonical order.
    Compartments are emitted sorted by name with `output` first; each adjacency
    is emitted sorted by the successor's position in that order. -/

section
variable {E : Type} [DecidableEq E]

def Node.key : Node E → Option String
  | .output => none
  | .comp k => some k.name

/-- `output` first, then by name -/
def keyLe : Option String → Option String → Bool
  | none, _ => true
  | some _, none => false
  | some a, some b => decide (a ≤ b)

def nodeLe (a b : Node E) : Bool := keyLe a.key b.key

def Graph.canon (g : Graph E) : Graph E :=
  (g.map (fun p => (p.1, p.2.mergeSort (fun a b => nodeLe a.1 b.1)))).mergeSort (fun a b => nodeLe a.1 b.1)

def CompSys.canon (s : CompSys E) : CompSys E := { s with g := s.g.canon }

def Stmt.canon : Stmt E → Stmt E
  | .assign s e => .assign s e
  | .ode cs => .ode cs.canon

/-- the model with every compartmental system in canonical emission order -/
def Model.canonical {M : Type} (m : Model E M) : Model E M :=
  { m with statements := m.statements.map Stmt.canon }

/-- the repaired pre-image: `encode` of the canonically ordered model -/
def encodeRepaired {M R : Type} (c : Codec E M) (rowDigest : R → Nat) (dumps : Json → String) (ds : Dataset R)
    (m : Model E M) : List Chunk :=
  encode c rowDigest dumps ds m.canonical

/-- `adj[u][v]` -/
def Graph.rate? (g : Graph E) (u v : Node E) : Option E := (g.lookup u).bind (fun ss => ss.lookup v)

end
end Pharmpy.C12
