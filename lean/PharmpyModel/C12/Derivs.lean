import PharmpyModel.C12.Hash
/-
  C12 — `EstimationStep._canonicalize_derivatives` (src/pharmpy/model/execution_steps.py):

      derivatives = tuple(sorted([tuple(sorted(d, key=str)) for d in derivatives],
                                 key=lambda der: str(der[0])))

  on symbol names (a derivative = the tuple of the names of its arguments).  Python's `sorted`
  is stable; `isort` is a stable (insertion) sort, so both give the same list for the same key.
-/
namespace Pharmpy.C12

def insertBy {α : Type} (le : α → α → Bool) (x : α) : List α → List α
  | [] => [x]
  | y :: ys => if le x y then x :: y :: ys else y :: insertBy le x ys

/-- stable sort -/
def isort {α : Type} (le : α → α → Bool) : List α → List α
  | [] => []
  | x :: xs => insertBy le x (isort le xs)

def strLe (a b : String) : Bool := decide (a ≤ b)

/-- `tuple(sorted(d, key=str))` -/
def sortNames (d : List String) : List String := isort strLe d

/-- the outer key `str(der[0])` -/
def headLe (a b : List String) : Bool := keyLe a.head? b.head?

/-- `_canonicalize_derivatives`; `none` = the IndexError of `der[0]` on an empty derivative -/
def canonDerivs (ds : List (List String)) : Option (List (List String)) :=
  if ds.any List.isEmpty then none else some (isort headLe (ds.map sortNames))

/-- lexicographic order on the whole (sorted) name tuple -/
def lexLe (a b : List String) : Bool := decide (a ≤ b)

/-- the repair: order the derivatives on all their (sorted) arguments, not only on the first -/
def canonDerivsRepaired (ds : List (List String)) : List (List String) :=
  isort lexLe (ds.map sortNames)

end Pharmpy.C12
