/-
  C12 — a small JSON value model.

  `Json` is what `to_dict()` produces and `json.dumps` accepts: null, bool, int,
  float, str, list, dict with *ordered* string keys (Python dicts keep insertion
  order and `json.dumps` is called without `sort_keys`, so key order is part of
  the bytes that are hashed).  Python tuples and lists are both `arr` (JSON has
  one array type).  A float is carried as the text Python's `repr(float)` gives
  (`0.1`, `inf`, `1e-12`): `repr` round-trips floats, so the text identifies
  the value; no float arithmetic occurs anywhere in this property.
-/
namespace Pharmpy.C12

inductive Json where
  | null
  | bool (b : Bool)
  | int (n : Int)
  | flt (repr : String)
  | str (s : String)
  | arr (xs : List Json)
  | obj (kvs : List (String × Json))
  deriving Repr, Inhabited

namespace Json

/-- `d[k]` on a dict (first binding; `none` models `KeyError` / wrong type). -/
def get? (k : String) : Json → Option Json
  | obj kvs => kvs.lookup k
  | _ => none

def asStr? : Json → Option String
  | str s => some s
  | _ => none

def asInt? : Json → Option Int
  | int n => some n
  | _ => none

def asBool? : Json → Option Bool
  | bool b => some b
  | _ => none

def asFlt? : Json → Option String
  | flt r => some r
  | _ => none

def asArr? : Json → Option (List Json)
  | arr xs => some xs
  | _ => none

def asObj? : Json → Option (List (String × Json))
  | obj kvs => some kvs
  | _ => none

def keys : Json → List String
  | obj kvs => kvs.map Prod.fst
  | _ => []

end Json

/-- `[f x for x in xs]` where any failing element fails the whole comprehension. -/
def allSome {α β : Type} (f : α → Option β) : List α → Option (List β)
  | [] => some []
  | a :: as =>
    match f a with
    | none => none
    | some b =>
      match allSome f as with
      | none => none
      | some bs => some (b :: bs)

/-- Python sequence indexing with an `int`: negative indices count from the end,
    out of range is `IndexError` (`none`). -/
def pyIndex {α : Type} (xs : List α) (i : Int) : Option α :=
  if 0 ≤ i then xs[i.toNat]?
  else if -i ≤ xs.length then xs[(xs.length + i).toNat]?
  else none

end Pharmpy.C12
