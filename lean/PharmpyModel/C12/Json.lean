/-
  C12 — a small JSON value model.

  `Json` is what `to_dict()` produces and `json.dumps` accepts: null, bool, int,
  float, str, list, dict with *ordered* string keys (Python dicts keep insertion
  order and `json.dumps` is called without `sort_keys`, so key order is part of
  the bytes that are hashed).  Python tuples and lists are both `arr` (JSON has
  one array type).  A float is carried as the text Python's `repr(float)` gives
  (`0.1`, `inf`, `1e-12`): `repr` round-trips floats, so the text identifies
  the value; no float arithmetic occurs anywhere in this property.
-/
namespace Pharmpy.C12

inductive Json where
  | null
  | bool (b : Bool)
  | int (n : Int)
  | flt (repr : String)
  | str (s : String)
  | arr (xs : List Json)
  | obj (kvs : List (String × Json))
  deriving Repr, Inhabited

/-- A double, named by the text `float.__repr__` gives it (shortest round-trip repr): distinct
    doubles — including `-0.0`, subnormals, `inf`, `nan` — have distinct names, equal doubles the same. -/
abbrev Flt := String

namespace Json

mutual
/-- apply a numeric leaf encoder to every float leaf (structure, keys and all other leaves kept):
    `json.dumps` is `structural printer ∘ mapFlt float.__repr__`; a serialiser that rounds
    (e.g. `DataFrame.to_json(double_precision=15)`) is `mapFlt` of a non-injective encoder -/
def mapFlt (num : Flt → String) : Json → Json
  | null => null
  | bool b => bool b
  | int n => int n
  | flt x => flt (num x)
  | str s => str s
  | arr xs => arr (mapFltList num xs)
  | obj kvs => obj (mapFltObj num kvs)
def mapFltList (num : Flt → String) : List Json → List Json
  | [] => []
  | x :: xs => mapFlt num x :: mapFltList num xs
def mapFltObj (num : Flt → String) : List (String × Json) → List (String × Json)
  | [] => []
  | (k, v) :: r => (k, mapFlt num v) :: mapFltObj num r
end

mutual
/-- the float leaves, in document order -/
def floats : Json → List Flt
  | flt x => [x]
  | arr xs => floatsList xs
  | obj kvs => floatsObj kvs
  | _ => []
def floatsList : List Json → List Flt
  | [] => []
  | x :: xs => floats x ++ floatsList xs
def floatsObj : List (String × Json) → List Flt
  | [] => []
  | (_, v) :: r => floats v ++ floatsObj r
end

/-- `d[k]` on a dict (first binding; `none` models `KeyError` / wrong type). -/
def get? (k : String) : Json → Option Json
  | obj kvs => kvs.lookup k
  | _ => none

def asStr? : Json → Option String
  | str s => some s
  | _ => none

def asInt? : Json → Option Int
  | int n => some n
  | _ => none

def asBool? : Json → Option Bool
  | bool b => some b
  | _ => none

def asFlt? : Json → Option String
  | flt r => some r
  | _ => none

def asArr? : Json → Option (List Json)
  | arr xs => some xs
  | _ => none

def asObj? : Json → Option (List (String × Json))
  | obj kvs => some kvs
  | _ => none

def keys : Json → List String
  | obj kvs => kvs.map Prod.fst
  | _ => []

end Json

/-- `[f x for x in xs]` where any failing element fails the whole comprehension. -/
def allSome {α β : Type} (f : α → Option β) : List α → Option (List β)
  | [] => some []
  | a :: as =>
    match f a with
    | none => none
    | some b =>
      match allSome f as with
      | none => none
      | some bs => some (b :: bs)

/-- Python sequence indexing with an `int`: negative indices count from the end,
    out of range is `IndexError` (`none`). -/
def pyIndex {α : Type} (xs : List α) (i : Int) : Option α :=
  if 0 ≤ i then xs[i.toNat]?
  else if -i ≤ xs.length then xs[(xs.length + i).toNat]?
  else none

end Pharmpy.C12
