import PharmpyModel.C12.Json
/-
  C12 — executable model of `to_dict` / `from_dict` of pharmpy's model
  components, mirroring the code of

    src/pharmpy/model/statements.py      Assignment, Output, Bolus, Infusion, Compartment,
                                         CompartmentalSystem(+Builder), Statements
    src/pharmpy/model/parameters.py      Parameter, Parameters
    src/pharmpy/model/distributions/symbolic.py  NormalDistribution, JointNormalDistribution
    src/pharmpy/model/random_variables.py        VariabilityLevel/Hierarchy, RandomVariables
    src/pharmpy/model/execution_steps.py EstimationStep, SimulationStep, ExecutionSteps
    src/pharmpy/model/datainfo.py        ColumnInfo (inside DataInfo), DataInfo
    src/pharmpy/model/model.py           Model
    src/pharmpy/workflows/hashing.py     ModelHash pre-image (Hash.lean)

  Expressions and matrices are abstract: pharmpy serialises them with
  `sympy.srepr` and reads them back with `sympy.parse_expr`; the model is
  parametric in such a printer/parser pair (`Codec`), and every theorem that
  needs it states the round-trip law `Codec.Lawful` as a hypothesis (the harness
  monitors that law on the real sympy for every expression it generates).

  Key order of every dict is the order of the Python dict literal in the source.
  `none` models any exception of `from_dict` (KeyError, TypeError, IndexError).
-/
namespace Pharmpy.C12

/-- `Expr.serialize/deserialize`, `Matrix.serialize/deserialize`, and `str(tuple_of_exprs)`. -/
structure Codec (E M : Type) where
  ser : E → String
  de : String → Option E
  serM : M → String
  deM : String → Option M

structure Codec.Lawful {E M : Type} (c : Codec E M) : Prop where
  rt : ∀ e, c.de (c.ser e) = some e
  rtM : ∀ m, c.deM (c.serM m) = some m

section
variable {E M : Type} (c : Codec E M)

/-- `Expr.deserialize(d[k])` -/
def deStr (d : Json) (k : String) : Option E := do
  let s ← (← d.get? k).asStr?
  c.de s

/-- `None if d[k] is None else Expr.deserialize(d[k])` -/
def deOptStr (d : Json) (k : String) : Option (Option E) := do
  match ← d.get? k with
  | .null => some none
  | .str s => (c.de s).map some
  | _ => none

def serOpt : Option E → Json
  | none => .null
  | some e => .str (c.ser e)

def getStr (d : Json) (k : String) : Option String := do (← d.get? k).asStr?
def getInt (d : Json) (k : String) : Option Int := do (← d.get? k).asInt?
def getBool (d : Json) (k : String) : Option Bool := do (← d.get? k).asBool?
def getFlt (d : Json) (k : String) : Option String := do (← d.get? k).asFlt?
def getArr (d : Json) (k : String) : Option (List Json) := do (← d.get? k).asArr?

/-- keyword-argument lookup with a default (`cls(**d)` with a defaulted parameter) -/
def kw (d : Json) (k : String) (dflt : Json) : Json := (d.get? k).getD dflt

/-- `cls(**d)` raises TypeError on an unexpected keyword -/
def onlyKeys (d : Json) (allowed : List String) : Bool := d.keys.all (fun k => allowed.contains k)

/-! ### Doses -/

structure Bolus (E : Type) where
  amount : E
  admid : Int
  deriving DecidableEq, Repr

def Bolus.toDict (b : Bolus E) : Json :=
  .obj [("class", .str "Bolus"), ("amount", .str (c.ser b.amount)), ("admid", .int b.admid)]

def Bolus.fromDict (d : Json) : Option (Bolus E) := do
  let amount ← deStr c d "amount"
  let admid ← getInt d "admid"
  some { amount, admid }

structure Infusion (E : Type) where
  amount : E
  admid : Int
  rate : Option E
  duration : Option E
  deriving DecidableEq, Repr

def Infusion.toDict (i : Infusion E) : Json :=
  .obj [("class", .str "Infusion"), ("amount", .str (c.ser i.amount)),
        ("rate", serOpt c i.rate), ("duration", serOpt c i.duration), ("admid", .int i.admid)]

def Infusion.fromDict (d : Json) : Option (Infusion E) := do
  let amount ← deStr c d "amount"
  let admid ← getInt d "admid"
  let rate ← deOptStr c d "rate"
  let duration ← deOptStr c d "duration"
  some { amount, admid, rate, duration }

inductive Dose (E : Type) where
  | bolus (b : Bolus E)
  | infusion (i : Infusion E)
  deriving DecidableEq, Repr

def Dose.toDict : Dose E → Json
  | .bolus b => b.toDict c
  | .infusion i => i.toDict c

/-- the dispatch inside `Compartment.from_dict`: `'Bolus'` or else Infusion -/
def Dose.fromDict (d : Json) : Option (Dose E) :=
  match d.get? "class" with
  | none => none
  | some (.str "Bolus") => (Bolus.fromDict c d).map .bolus
  | some _ => (Infusion.fromDict c d).map .infusion

/-! ### Doses reached by construction and by transformations (`create`, `subs`)

  `Infusion.create` insists on exactly one of rate / duration (`none` = ValueError); `Infusion.subs`
  branches on the *presence* of the rate (`is not None`), never on its value, and maps the
  substitution over the fields that are present (`none` = the AssertionError when neither is).
  `f : E → E` is `Expr.subs(substitutions)`; it may send a symbol to the integer 0. -/

def Infusion.create (amount : E) (admid : Int) (rate duration : Option E) : Option (Infusion E) :=
  match rate, duration with
  | none, none => none
  | some _, some _ => none
  | r, d => some { amount, admid, rate := r, duration := d }

/-- exactly one of rate / duration is given -/
def Infusion.WF (i : Infusion E) : Bool := i.rate.isSome != i.duration.isSome

def Bolus.subs (f : E → E) (b : Bolus E) : Bolus E := { amount := f b.amount, admid := b.admid }

def Infusion.subs (f : E → E) (i : Infusion E) : Option (Infusion E) :=
  match i.rate, i.duration with
  | some r, _ => some { amount := f i.amount, admid := i.admid, rate := some (f r), duration := none }
  | none, some d => some { amount := f i.amount, admid := i.admid, rate := none, duration := some (f d) }
  | none, none => none

def Dose.subs (f : E → E) : Dose E → Option (Dose E)
  | .bolus b => some (.bolus (b.subs f))
  | .infusion i => (i.subs f).map .infusion

/-- A serialiser of an optional field that decides on the *value* of the field
    (`x.serialize() if x else None`; `Expr.__bool__` is `expr != 0`) instead of on its presence.
    `truthy := fun _ => true` is `serOpt`, the code as it is. -/
def serOptBy (truthy : E → Bool) : Option E → Json
  | none => .null
  | some e => if truthy e then .str (c.ser e) else .null

def Infusion.toDictBy (truthy : E → Bool) (i : Infusion E) : Json :=
  .obj [("class", .str "Infusion"), ("amount", .str (c.ser i.amount)),
        ("rate", serOptBy c truthy i.rate), ("duration", serOptBy c truthy i.duration), ("admid", .int i.admid)]

/-! ### Compartment -/

structure Compartment (E : Type) where
  name : String
  amount : E
  doses : List (Dose E)
  input : E
  lagTime : E
  bioavailability : E
  deriving DecidableEq, Repr

def Compartment.toDict (k : Compartment E) : Json :=
  .obj [("class", .str "Compartment"), ("name", .str k.name), ("amount", .str (c.ser k.amount)),
        ("doses", if k.doses.isEmpty then .null else .arr (k.doses.map (Dose.toDict c))),
        ("input", .str (c.ser k.input)), ("lag_time", .str (c.ser k.lagTime)),
        ("bioavailability", .str (c.ser k.bioavailability))]

def Compartment.fromDict (d : Json) : Option (Compartment E) := do
  let doses ← match ← d.get? "doses" with
    | .null => some []
    | .arr xs => allSome (Dose.fromDict c) xs
    | _ => none
  let name ← getStr d "name"
  let amount ← deStr c d "amount"
  let input ← deStr c d "input"
  let lagTime ← deStr c d "lag_time"
  let bioavailability ← deStr c d "bioavailability"
  some { name, amount, doses, input, lagTime, bioavailability }

/-! ### Compartmental system: the networkx DiGraph as an insertion-ordered
    dict of dicts (`G._adj`), exactly the iteration order `to_dict` observes. -/

inductive Node (E : Type) where
  | output
  | comp (k : Compartment E)
  deriving DecidableEq, Repr

/-- `G._adj`: node ↦ (successor ↦ rate), both levels in insertion order. -/
abbrev Graph (E : Type) := List (Node E × List (Node E × E))

structure CompSys (E : Type) where
  g : Graph E
  t : E
  deriving DecidableEq, Repr

variable [DecidableEq E]

def Graph.nodes (g : Graph E) : List (Node E) := g.map Prod.fst

def Graph.hasNode (g : Graph E) (n : Node E) : Bool := g.any (fun p => p.1 == n)

/-- `G.add_node(n)`: a present node keeps its place -/
def Graph.addNode (g : Graph E) (n : Node E) : Graph E :=
  if g.hasNode n then g else g ++ [(n, [])]

/-- `adj[v] = r` on an ordered dict: overwrite in place or append -/
def adjSet (ss : List (Node E × E)) (v : Node E) (r : E) : List (Node E × E) :=
  match ss with
  | [] => [(v, r)]
  | (w, r') :: rest => if w = v then (w, r) :: rest else (w, r') :: adjSet rest v r

/-- `G.add_edge(u, v, rate=r)` -/
def Graph.addEdge (g : Graph E) (u v : Node E) (r : E) : Graph E :=
  let g := (g.addNode u).addNode v
  g.map (fun p => if p.1 = u then (p.1, adjSet p.2 v r) else p)

/-- `G.remove_node(n)` -/
def Graph.removeNode (g : Graph E) (n : Node E) : Graph E :=
  (g.filter (fun p => p.1 != n)).map (fun p => (p.1, p.2.filter (fun q => q.1 != n)))

/-- `G.remove_edge(u, v)` (no error modelling) -/
def Graph.removeEdge (g : Graph E) (u v : Node E) : Graph E :=
  g.map (fun p => if p.1 = u then (p.1, p.2.filter (fun q => q.1 != v)) else p)

/-- one step of the loop in `from_dict`: `output` is only recorded, a compartment is `add_compartment`ed -/
def Graph.addComp (g : Graph E) : Node E → Graph E
  | .output => g
  | .comp k => g.addNode (.comp k)

/-- `CompartmentalSystemBuilder()` -/
def Graph.builderInit : Graph E := [(.output, [])]

def Node.toDict : Node E → Json
  | .output => .obj [("class", .str "Output")]
  | .comp k => k.toDict c

/-- `G.edges.data('rate')` with both ends replaced by `comps.index(..)` -/
def Graph.edgeTriples (g : Graph E) : List (Nat × Nat × E) :=
  g.flatMap (fun p => p.2.map (fun q => (g.nodes.idxOf p.1, g.nodes.idxOf q.1, q.2)))

def edgeJson (e : Nat × Nat × E) : Json :=
  .arr [.int e.1, .int e.2.1, .str (c.ser e.2.2)]

def CompSys.toDict (s : CompSys E) : Json :=
  .obj [("class", .str "CompartmentalSystem"),
        ("compartments", .arr (s.g.nodes.map (Node.toDict c))),
        ("rates", .arr (s.g.edgeTriples.map (edgeJson c))),
        ("t", .str (c.ser s.t))]

/-- one element of `d['compartments']` -/
def Node.fromDict (d : Json) : Option (Node E) :=
  match d.get? "class" with
  | none => none
  | some (.str "Output") => some .output
  | some _ => (Compartment.fromDict c d).map .comp

def edgeFromJson (comps : List (Node E)) (j : Json) : Option (Node E × Node E × E) :=
  match j with
  | .arr [.int a, .int b, .str r] => do
    let u ← pyIndex comps a
    let v ← pyIndex comps b
    let e ← c.de r
    some (u, v, e)
  | _ => none

def CompSys.fromDict (d : Json) : Option (CompSys E) := do
  let cds ← getArr d "compartments"
  let comps ← allSome (Node.fromDict c) cds
  -- the builder starts with `output`; every non-output entry is `add_compartment`ed
  let g0 : Graph E := comps.foldl Graph.addComp Graph.builderInit
  let rs ← getArr d "rates"
  let es ← allSome (edgeFromJson c comps) rs
  let g := es.foldl (fun g e => g.addEdge e.1 e.2.1 e.2.2) g0
  let t ← deStr c d "t"
  some { g, t }

/-! ### Statements -/

inductive Stmt (E : Type) where
  | assign (symbol expression : E)
  | ode (s : CompSys E)
  deriving DecidableEq, Repr

def Stmt.toDict : Stmt E → Json
  | .assign s e => .obj [("class", .str "Assignment"), ("symbol", .str (c.ser s)), ("expression", .str (c.ser e))]
  | .ode s => s.toDict c

def Stmt.fromDict (d : Json) : Option (Stmt E) :=
  match d.get? "class" with
  | none => none
  | some (.str "Assignment") => do
    let s ← deStr c d "symbol"
    let e ← deStr c d "expression"
    some (.assign s e)
  | some _ => (CompSys.fromDict c d).map .ode

def Statements.toDict (ss : List (Stmt E)) : Json :=
  .obj [("statements", .arr (ss.map (Stmt.toDict c)))]

def Statements.fromDict (d : Json) : Option (List (Stmt E)) := do
  allSome (Stmt.fromDict c) (← getArr d "statements")

end

/-! ### Parameters (no expressions involved) -/

structure Parameter where
  name : String
  /-- `init`, `lower`, `upper` pass through `to_dict` and `cls(**d)` unchanged (floats from
      `Parameter.create`, but e.g. `add_covariate_effect` stores ints), so they are JSON values -/
  init : Json
  lower : Json
  upper : Json
  fix : Bool
  deriving Repr

def Parameter.toDict (p : Parameter) : Json :=
  .obj [("name", .str p.name), ("init", p.init), ("lower", p.lower), ("upper", p.upper),
        ("fix", .bool p.fix)]

/-- `cls(**d)`: `name`, `init` required; `lower=-inf, upper=inf, fix=False`; unknown keyword = TypeError -/
def Parameter.fromDict (d : Json) : Option Parameter := do
  if !onlyKeys d ["name", "init", "lower", "upper", "fix"] then none
  let name ← getStr d "name"
  let init ← d.get? "init"
  let fix ← (kw d "fix" (.bool false)).asBool?
  some { name, init, lower := kw d "lower" (.flt "-inf"), upper := kw d "upper" (.flt "inf"), fix }

def Parameters.toDict (ps : List Parameter) : Json :=
  .obj [("parameters", .arr (ps.map Parameter.toDict))]

def Parameters.fromDict (d : Json) : Option (List Parameter) := do
  allSome Parameter.fromDict (← getArr d "parameters")

/-! ### Random variables -/

structure VarLevel where
  name : String
  reference : Bool
  group : Option String
  deriving DecidableEq, Repr

def optStr : Option String → Json
  | none => .null
  | some s => .str s

def VarLevel.toDict (l : VarLevel) : Json :=
  .obj [("name", .str l.name), ("reference", .bool l.reference), ("group", optStr l.group)]

def VarLevel.fromDict (d : Json) : Option VarLevel := do
  if !onlyKeys d ["name", "reference", "group"] then none
  let name ← getStr d "name"
  let reference ← (kw d "reference" (.bool false)).asBool?
  let group ← match kw d "group" .null with
    | .null => some none
    | .str s => some (some s)
    | _ => none
  some { name, reference, group }

def Hierarchy.toDict (ls : List VarLevel) : Json := .obj [("levels", .arr (ls.map VarLevel.toDict))]

def Hierarchy.fromDict (d : Json) : Option (List VarLevel) := do
  allSome VarLevel.fromDict (← getArr d "levels")

inductive Dist (E M : Type) where
  | normal (name level : String) (mean variance : E)
  | joint (names : List String) (level : String) (mean variance : M)
  deriving DecidableEq, Repr

section
variable {E M : Type} (c : Codec E M)

def Dist.toDict : Dist E M → Json
  | .normal n l m v => .obj [("class", .str "NormalDistribution"), ("name", .str n), ("level", .str l),
                             ("mean", .str (c.ser m)), ("variance", .str (c.ser v))]
  | .joint ns l m v => .obj [("class", .str "JointNormalDistribution"), ("names", .arr (ns.map .str)), ("level", .str l),
                             ("mean", .str (c.serM m)), ("variance", .str (c.serM v))]

def Dist.fromDict (d : Json) : Option (Dist E M) :=
  match d.get? "class" with
  | none => none
  | some (.str "NormalDistribution") => do
    let n ← getStr d "name"
    let l ← getStr d "level"
    let m ← deStr c d "mean"
    let v ← deStr c d "variance"
    some (.normal n l m v)
  | some _ => do
    let ns ← allSome Json.asStr? (← getArr d "names")
    let l ← getStr d "level"
    let m ← c.deM (← getStr d "mean")
    let v ← c.deM (← getStr d "variance")
    some (.joint ns l m v)

structure RandomVariables (E M : Type) where
  dists : List (Dist E M)
  etaLevels : List VarLevel
  epsLevels : List VarLevel
  deriving DecidableEq, Repr

def RandomVariables.toDict (r : RandomVariables E M) : Json :=
  .obj [("dists", .arr (r.dists.map (Dist.toDict c))), ("eta_levels", Hierarchy.toDict r.etaLevels),
        ("epsilon_levels", Hierarchy.toDict r.epsLevels)]

def RandomVariables.fromDict (d : Json) : Option (RandomVariables E M) := do
  let etaLevels ← Hierarchy.fromDict (← d.get? "eta_levels")
  let epsLevels ← Hierarchy.fromDict (← d.get? "epsilon_levels")
  let dists ← allSome (Dist.fromDict c) (← getArr d "dists")
  some { dists, etaLevels, epsLevels }

/-! ### Execution steps.  All fields except `derivatives` pass through `to_dict`
    and `cls(**d)` unchanged, so they are carried as JSON values.
    (`E` is kept as a parameter of the step types for uniformity; no field uses it any more.) -/

/-- `EstimationStep._derivatives` is a tuple of tuples of *symbols* (`create` refuses anything else);
    since 118f2d1 `to_dict` writes each symbol's name (`str(arg)`) and `from_dict` rebuilds
    `Expr.symbol(arg)`, so a derivative is carried as the list of its symbol names. -/
def derivsToJson (ds : List (List String)) : Json := .arr (ds.map (fun d => .arr (d.map .str)))

/-- `tuple(Expr.symbol(arg) for arg in der)`: `der` is a JSON array of names; a Python `str` is
    iterable too and yields its characters -/
def derivOfJson : Json → Option (List String)
  | .arr xs => allSome Json.asStr? xs
  | .str s => some (s.toList.map (fun ch => ch.toString))
  | _ => none

/-- `tuple(... for der in d.get('derivatives', ()))` -/
def derivsOfJson : Json → Option (List (List String))
  | .arr xs => allSome derivOfJson xs
  | _ => none

/-- pre-118f2d1: `tuple(str(d) for d in self._derivatives)` (and `from_dict` passed the strings through) -/
def derivsToJsonPre (strT : List String → String) (ds : List (List String)) : Json :=
  .arr (ds.map (fun d => .str (strT d)))

structure EstStep (E : Type) where
  method : Json
  interaction : Json
  parameterUncertaintyMethod : Json
  evaluation : Json
  maximumEvaluations : Json
  laplace : Json
  isample : Json
  niter : Json
  auto : Json
  keepEveryNthIter : Json
  derivatives : List (List String)
  predictions : Json
  residuals : Json
  individualEtaSamples : Json
  solver : Json
  solverRtol : Json
  solverAtol : Json
  toolOptions : Json
  deriving Repr

def EstStep.toDict (s : EstStep E) : Json :=
  .obj [("class", .str "EstimationStep"), ("method", s.method), ("interaction", s.interaction),
        ("parameter_uncertainty_method", s.parameterUncertaintyMethod), ("evaluation", s.evaluation),
        ("maximum_evaluations", s.maximumEvaluations), ("laplace", s.laplace), ("isample", s.isample),
        ("niter", s.niter), ("auto", s.auto), ("keep_every_nth_iter", s.keepEveryNthIter),
        ("derivatives", derivsToJson s.derivatives),
        ("predictions", s.predictions), ("residuals", s.residuals),
        ("individual_eta_samples", s.individualEtaSamples),
        ("solver", s.solver), ("solver_rtol", s.solverRtol), ("solver_atol", s.solverAtol),
        ("tool_options", s.toolOptions)]

def estKeys : List String :=
  ["method", "interaction", "parameter_uncertainty_method", "evaluation", "maximum_evaluations", "laplace",
   "isample", "niter", "auto", "keep_every_nth_iter", "derivatives", "predictions", "residuals",
   "individual_eta_samples", "solver", "solver_rtol", "solver_atol", "tool_options"]

/-- `d = dict(d); del d['class']; (tool_options -> frozenmapping); cls(**d)` -/
def EstStep.fromDict (d : Json) : Option (EstStep E) := do
  let _ ← d.get? "class"                  -- `del d['class']`: KeyError when absent
  let _ ← d.get? "tool_options"           -- `d['tool_options']` is read unconditionally
  if !onlyKeys d ("class" :: estKeys) then none
  let method ← d.get? "method"
  let derivatives ← derivsOfJson (kw d "derivatives" (.arr []))
  some { method,
         interaction := kw d "interaction" (.bool false),
         parameterUncertaintyMethod := kw d "parameter_uncertainty_method" .null,
         evaluation := kw d "evaluation" (.bool false),
         maximumEvaluations := kw d "maximum_evaluations" .null,
         laplace := kw d "laplace" (.bool false),
         isample := kw d "isample" .null,
         niter := kw d "niter" .null,
         auto := kw d "auto" .null,
         keepEveryNthIter := kw d "keep_every_nth_iter" .null,
         derivatives,
         predictions := kw d "predictions" (.arr []),
         residuals := kw d "residuals" (.arr []),
         individualEtaSamples := kw d "individual_eta_samples" (.bool false),
         solver := kw d "solver" .null,
         solverRtol := kw d "solver_rtol" .null,
         solverAtol := kw d "solver_atol" .null,
         toolOptions := kw d "tool_options" (.obj []) }

structure SimStep where
  n : Json
  seed : Json
  solver : Json
  solverRtol : Json
  solverAtol : Json
  toolOptions : Json
  deriving Repr

def SimStep.toDict (s : SimStep) : Json :=
  .obj [("class", .str "SimulationStep"), ("n", s.n), ("seed", s.seed),
        ("solver", s.solver), ("solver_rtol", s.solverRtol), ("solver_atol", s.solverAtol),
        ("tool_options", s.toolOptions)]

def SimStep.fromDict (d : Json) : Option SimStep := do
  let _ ← d.get? "class"
  let _ ← d.get? "tool_options"
  if !onlyKeys d ["class", "n", "seed", "solver", "solver_rtol", "solver_atol", "tool_options"] then none
  some { n := kw d "n" (.int 1), seed := kw d "seed" (.int 64206),
         solver := kw d "solver" .null, solverRtol := kw d "solver_rtol" .null,
         solverAtol := kw d "solver_atol" .null, toolOptions := kw d "tool_options" (.obj []) }

inductive Step (E : Type) where
  | est (s : EstStep E)
  | sim (s : SimStep)
  deriving Repr

def Step.toDict : Step E → Json
  | .est s => s.toDict
  | .sim s => s.toDict

def Step.fromDict (d : Json) : Option (Step E) :=
  match d.get? "class" with
  | none => none
  | some (.str "EstimationStep") => (EstStep.fromDict d).map .est
  | some _ => (SimStep.fromDict d).map .sim

def Steps.toDict (ss : List (Step E)) : Json := .obj [("steps", .arr (ss.map Step.toDict))]

def Steps.fromDict (d : Json) : Option (List (Step E)) := do
  allSome (Step.fromDict (E := E)) (← getArr d "steps")

end

/-! ### DataInfo.  The unit is carried as `str(col.unit)` (what `_to_dict` writes and
    `Unit.deserialize` re-reads through sympify); the remaining fields pass through. -/

structure ColumnInfo where
  name : Json
  type : Json
  scale : Json
  continuous : Json
  categories : Json
  unit : String
  datatype : Json
  drop : Json
  descriptor : Json
  deriving Repr

/-- the per-column dict written by `DataInfo._to_dict` (not `ColumnInfo.to_dict`) -/
def ColumnInfo.toDict (k : ColumnInfo) : Json :=
  .obj [("name", k.name), ("type", k.type), ("scale", k.scale), ("continuous", k.continuous),
        ("categories", k.categories), ("unit", .str k.unit), ("datatype", k.datatype), ("drop", k.drop),
        ("descriptor", k.descriptor)]

/-- `ColumnInfo.from_dict`: every key is subscripted -/
def ColumnInfo.fromDict (d : Json) : Option ColumnInfo := do
  let name ← d.get? "name"
  let type ← d.get? "type"
  let unit ← getStr d "unit"
  let scale ← d.get? "scale"
  let continuous ← d.get? "continuous"
  let categories ← d.get? "categories"
  let drop ← d.get? "drop"
  let datatype ← d.get? "datatype"
  let descriptor ← d.get? "descriptor"
  some { name, type, scale, continuous, categories, unit, datatype, drop, descriptor }

structure DataInfo where
  columns : List ColumnInfo
  path : Option String          -- metadata: never written by `to_dict`
  separator : Json
  missingDataToken : Json
  deriving Repr

/-- `DataInfo.to_dict() = self._to_dict(path=None)` -/
def DataInfo.toDict (di : DataInfo) : Json :=
  .obj [("columns", .arr (di.columns.map ColumnInfo.toDict)), ("path", .null),
        ("separator", di.separator), ("missing_data_token", di.missingDataToken)]

/-- `conf.missing_data_token` default for dicts written before the key existed -/
def defaultMissingDataToken : Json := .str "-99"

def DataInfo.fromDict (d : Json) : Option DataInfo := do
  let columns ← allSome ColumnInfo.fromDict (← getArr d "columns")
  let missingDataToken := kw d "missing_data_token" defaultMissingDataToken
  let path ← match ← d.get? "path" with
    | .null => some none
    | .str s => some (some s)
    | _ => none
  let separator ← d.get? "separator"
  some { columns, path, separator, missingDataToken }

/-! ### Initial individual estimates: a DataFrame as `df.to_dict(orient='split')` writes it
    (`{'index': labels, 'columns': names, 'data': rows}`, since /repo 31739c1) and
    `pd.DataFrame(d['data'], index=d['index'], columns=d['columns'])` reads it.  Labels and cells
    are JSON leaves (floats by name); every key of the dict is a string, so the dict is JSON as it is. -/

structure IE where
  index : List Json
  columns : List String
  data : List (List Json)      -- rows
  deriving Repr

/-- `df.to_dict(orient='split')` -/
def IE.toDict (ie : IE) : Json :=
  .obj [("index", .arr ie.index), ("columns", .arr (ie.columns.map .str)), ("data", .arr (ie.data.map .arr))]

/-- `pd.DataFrame(data, index=index, columns=columns)`: the number of rows must be the number of
    labels (else ValueError); a row of another length than `columns` is padded or refused by
    pandas — outside the model (`none`) -/
def IE.fromDict (d : Json) : Option IE := do
  let data ← allSome Json.asArr? (← getArr d "data")
  let index ← getArr d "index"
  let columns ← allSome Json.asStr? (← getArr d "columns")
  if data.length = index.length ∧ data.all (fun r => r.length == columns.length) then
    some { index, columns, data }
  else none

def ieOptToDict : Option IE → Json
  | none => .null
  | some ie => ie.toDict

/-- `None if ie_dict is None else pd.DataFrame.from_dict(ie_dict)` -/
def ieOptFromDict : Json → Option (Option IE)
  | .null => some none
  | j => (IE.fromDict j).map some

/-! ### Model -/

structure Model (E M : Type) where
  name : String                  -- metadata (not in `to_dict`)
  description : String           -- metadata (not in `to_dict`)
  parameters : List Parameter
  randomVariables : RandomVariables E M
  statements : List (Stmt E)
  executionSteps : List (Step E)
  datainfo : DataInfo
  valueType : Json
  /-- `{str(key): val}`: the dependent-variable symbols by name -/
  dependentVariables : List (String × Json)
  observationTransformation : List (E × E)
  /-- a DataFrame or `None` -/
  initialIndividualEstimates : Option IE
  deriving Repr

section
variable {E M : Type} (c : Codec E M) [DecidableEq E]

def Model.toDict (m : Model E M) : Json :=
  .obj [("parameters", Parameters.toDict m.parameters),
        ("random_variables", m.randomVariables.toDict c),
        ("statements", Statements.toDict c m.statements),
        ("execution_steps", Steps.toDict m.executionSteps),
        ("datainfo", m.datainfo.toDict),
        ("value_type", m.valueType),
        ("dependent_variables", .obj m.dependentVariables),
        ("observation_transformation", .obj (m.observationTransformation.map (fun p => (c.ser p.1, .str (c.ser p.2))))),
        ("initial_individual_estimates", ieOptToDict m.initialIndividualEstimates)]

/-- one item of `d['observation_transformation']`: key and value are both deserialised -/
def obsPairOf (p : String × Json) : Option (E × E) := do
  let k ← c.de p.1
  let v ← c.de (← p.2.asStr?)
  some (k, v)

/-- `Model.from_dict`; the new model has the default name and description -/
def Model.fromDict (d : Json) : Option (Model E M) := do
  let initialIndividualEstimates ← ieOptFromDict (← d.get? "initial_individual_estimates")
  let dependentVariables ← (← d.get? "dependent_variables").asObj?
  let obs ← (← d.get? "observation_transformation").asObj?
  let observationTransformation ← allSome (obsPairOf c) obs
  let parameters ← Parameters.fromDict (← d.get? "parameters")
  let randomVariables ← RandomVariables.fromDict c (← d.get? "random_variables")
  let statements ← Statements.fromDict c (← d.get? "statements")
  let executionSteps ← Steps.fromDict (E := E) (← d.get? "execution_steps")
  let datainfo ← DataInfo.fromDict (← d.get? "datainfo")
  let valueType ← d.get? "value_type"
  some { name := "", description := "", parameters, randomVariables, statements, executionSteps, datainfo,
         valueType, dependentVariables, observationTransformation, initialIndividualEstimates }

end

end Pharmpy.C12
