import PharmpyModel.C12.Hash
/-
  C12 — specification side: the invariants under which the round trip is claimed,
  content equality of compartmental systems (`CompartmentalSystem.__eq__`), and the
  concrete witnesses of the defects.
-/
namespace Pharmpy.C12

section
variable {E M : Type} [DecidableEq E]

/-- The invariant of a `CompartmentalSystem`'s graph: it is a dict of dicts (unique keys on both
    levels, every successor is a node) and `output` is the first node (the builder adds it first
    and nothing re-inserts it). Decidable. -/
def Graph.WF (g : Graph E) : Prop :=
  (g.map Prod.fst).Nodup ∧ (g.map Prod.fst).head? = some .output ∧
  ∀ p ∈ g, (p.2.map Prod.fst).Nodup ∧ ∀ q ∈ p.2, q.1 ∈ g.map Prod.fst

instance (g : Graph E) : Decidable g.WF := by unfold Graph.WF; infer_instance

/-- a DataFrame: one row per index label, one cell per column in every row -/
def IE.WF (ie : IE) : Prop :=
  ie.data.length = ie.index.length ∧ ie.data.all (fun r => r.length == ie.columns.length) = true

instance (ie : IE) : Decidable ie.WF := by unfold IE.WF; infer_instance

def Stmt.Good : Stmt E → Prop
  | .assign _ _ => True
  | .ode s => s.g.WF

instance (s : Stmt E) : Decidable s.Good := by cases s <;> unfold Stmt.Good <;> infer_instance

/-- side condition of the model-level round trip and of injectivity of the hash pre-image -/
def Model.Good (m : Model E M) : Prop :=
  (∀ s ∈ m.statements, s.Good) ∧ (∀ ie, m.initialIndividualEstimates = some ie → ie.WF)

instance (m : Model E M) : Decidable m.Good := by
  unfold Model.Good
  cases h : m.initialIndividualEstimates with
  | none => exact decidable_of_iff (∀ s ∈ m.statements, s.Good) (by simp)
  | some ie => exact decidable_of_iff ((∀ s ∈ m.statements, s.Good) ∧ ie.WF) (by simp)

/-- every binding of `a` is a binding of `b` -/
def adjSub (a b : List (Node E × E)) : Bool := a.all (fun q => b.lookup q.1 == some q.2)

/-- dict equality of two adjacency dicts (insertion order is irrelevant to `==`): mutual inclusion -/
def adjEqv (a b : List (Node E × E)) : Bool := adjSub a b && adjSub b a

def Graph.sub (g1 g2 : Graph E) : Bool :=
  g1.all (fun p => match g2.lookup p.1 with
    | some ss => adjEqv p.2 ss
    | none => false)

/-- `nx.to_dict_of_dicts(g1) == nx.to_dict_of_dicts(g2)` -/
def Graph.eqv (g1 g2 : Graph E) : Bool := g1.sub g2 && g2.sub g1

/-- compartment names identify the nodes (pharmpy addresses compartments by name), on both levels -/
def Graph.NamesDistinct (g : Graph E) : Prop :=
  (g.map (fun p => p.1.key)).Nodup ∧ ∀ p ∈ g, (p.2.map (fun q => q.1.key)).Nodup

instance (g : Graph E) : Decidable g.NamesDistinct := by unfold Graph.NamesDistinct; infer_instance

/-- `CompartmentalSystem.__eq__` (the third conjunct, equal `dosing_compartments`, is a function
    of the graph content) -/
def CompSys.eqv (a b : CompSys E) : Bool := decide (a.t = b.t) && a.g.eqv b.g

/-- `Statement.__eq__`: assignments structurally, compartmental systems by content -/
def Stmt.SameContent : Stmt E → Stmt E → Prop
  | .assign s e, .assign s' e' => s = s' ∧ e = e'
  | .ode a, .ode b => a.eqv b = true ∧ a.g.NamesDistinct ∧ b.g.NamesDistinct
  | _, _ => False

/-- `Statements.__eq__`: same length, pairwise `==` -/
inductive StmtsSame : List (Stmt E) → List (Stmt E) → Prop
  | nil : StmtsSame [] []
  | cons {a b : Stmt E} {as bs : List (Stmt E)} (h : a.SameContent b) (t : StmtsSame as bs) :
      StmtsSame (a :: as) (b :: bs)

/-- `Model.__eq__` (all components equal, statements pairwise `==`); name/description/path are not compared -/
def Model.SameContent (m m' : Model E M) : Prop :=
  StmtsSame m.statements m'.statements ∧
  { m.blank with statements := [] } = { m'.blank with statements := [] }

end

/-! ### Concrete witnesses (expressions are their serialised text) -/

def strCodec : Codec String String :=
  { ser := id, de := some, serM := id, deM := some }

/-- Python's `str` of a tuple of symbols: `(A, B)`, `(A,)` -/
def pyTupleStr (es : List String) : String :=
  match es with
  | [e] => "(" ++ e ++ ",)"
  | _ => "(" ++ ", ".intercalate es ++ ")"

def wCentral : Node String :=
  .comp { name := "CENTRAL", amount := "A_CENTRAL(t)", doses := [.bolus { amount := "AMT", admid := 1 }],
          input := "0", lagTime := "0", bioavailability := "1" }

def wPeri : Node String :=
  .comp { name := "PERIPHERAL", amount := "A_PERIPHERAL(t)", doses := [], input := "0", lagTime := "0",
          bioavailability := "1" }

/-- `add_compartment(CENTRAL); add_compartment(PERIPHERAL); add_flow ...` -/
def wOps (first second : Node String) : Graph String :=
  (((Graph.builderInit.addNode first).addNode second).addEdge wCentral .output "CL/V"
      |>.addEdge wCentral wPeri "Q/V").addEdge wPeri wCentral "Q/V2"

def wSys1 : CompSys String := { g := wOps wCentral wPeri, t := "t" }
def wSys2 : CompSys String := { g := wOps wPeri wCentral, t := "t" }

/-- an estimation step as `EstimationStep.create(..., derivatives=((ETA_1,),))` makes it -/
def wStep : EstStep String :=
  { method := .str "FOCE", interaction := .bool false, parameterUncertaintyMethod := .null, evaluation := .bool false,
    maximumEvaluations := .null, laplace := .bool false, isample := .null, niter := .null, auto := .null,
    keepEveryNthIter := .null, derivatives := [["ETA_1"], ["EPS_1", "ETA_1"]], predictions := .arr [], residuals := .arr [],
    individualEtaSamples := .bool false, solver := .null, solverRtol := .null, solverAtol := .null,
    toolOptions := .obj [] }

end Pharmpy.C12
