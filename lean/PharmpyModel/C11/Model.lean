/-
  C11 — executable model of the random-effect algebra of
  `pharmpy.model.random_variables.RandomVariables` and
  `pharmpy.model.distributions.symbolic.{Normal,JointNormal}Distribution`:

    create, __add__, names, _lookup_rv, __getitem__(collection), unjoin, join,
    subs, _calc_covariance_matrix, covariance_matrix, get_covariance,
    variance_parameters, JointNormalDistribution.__getitem__,
    validate_parameters / nearest_valid_parameters (control flow over an
    abstract numeric repair).

  A distribution is (names, level, joint?, mean vector, covariance matrix as a
  list of rows) over an abstract entry type `α` with a zero and decidable
  equality (the driver instantiates `α` with "rational number or symbol").
  Every definition mirrors the Python statement by statement; the work matrix
  of `_calc_covariance_matrix` / `join` (a mutable `sympy.zeros(n)`) is a
  function `Nat → Nat → α` updated point-wise and tabulated at the end.
  Deviations from a literal transcription (checked by the correspondence run):
  `del names[i]; row_del(i); col_del(i)` for the reversed removal indices is
  written as selection of the kept indices.
-/
namespace Pharmpy.C11

inductive Err where
  | keyError | valueError | indexError | attributeError | typeError | notImplementedError
  deriving DecidableEq, Repr

section generic
variable {α : Type} [Zero α] [DecidableEq α]

/-- `M[i, j]` of a matrix held as a list of rows (0 outside). -/
def ent (M : List (List α)) (i j : Nat) : α := (M.getD i []).getD j 0

/-- `M[idx, idx]`. -/
def subMat (M : List (List α)) (idx : List Nat) : List (List α) :=
  idx.map fun i => idx.map fun j => ent M i j

structure Dist (α : Type) where
  names : List String
  level : String
  joint : Bool            -- JointNormalDistribution (true) / NormalDistribution (false)
  mean  : List α
  var   : List (List α)   -- NormalDistribution: [[variance]]
  deriving DecidableEq, Repr

/-- `NormalDistribution(name, level, mean, variance)`. -/
def normal (name level : String) (m v : α) : Dist α := ⟨[name], level, false, [m], [[v]]⟩

abbrev RVs (α : Type) := List (Dist α)

/-- `RandomVariables.names`. -/
def names (rvs : RVs α) : List String := rvs.flatMap (·.names)

/-- `RandomVariables.nrvs`. -/
def nrvs (rvs : RVs α) : Nat := (rvs.map (·.names.length)).sum

/-! ### create / __add__ -/

/-- First name that occurs twice when scanning left to right (the check in `create`). -/
def firstDup : List String → List String → Option String
  | _, [] => none
  | seen, x :: xs => if seen.contains x then some x else firstDup (x :: seen) xs

/-- `RandomVariables.create(dists)`: ValueError when a name is added twice. -/
def create (dists : RVs α) : Except Err (RVs α) :=
  match firstDup [] (names dists) with
  | some _ => .error .valueError
  | none => .ok dists

/-- `rvs + dist`: only the level is checked (no uniqueness check, as in the code). -/
def addDist (levels : List String) (rvs : RVs α) (d : Dist α) : Except Err (RVs α) :=
  if levels.contains d.level then .ok (rvs ++ [d]) else .error .valueError

/-- `rvs + other_rvs` / `rvs + [dists]`. -/
def addRvs (rvs other : RVs α) : RVs α := rvs ++ other

/-! ### lookups -/

/-- `_lookup_rv`: index of the first distribution that has the name. -/
def lookupIdx (rvs : RVs α) (a : String) : Option Nat := rvs.findIdx? (·.names.contains a)

/-- `Distribution.get_covariance(name1, name2)`. -/
def Dist.getCov (d : Dist α) (a b : String) : Except Err α :=
  if d.joint then
    match d.names.idxOf? a, d.names.idxOf? b with
    | some i, some j => .ok (ent d.var i j)
    | _, _ => .error .valueError
  else if [a] = d.names ∧ [b] = d.names then .ok (ent d.var 0 0) else .error .keyError

/-- `RandomVariables.get_covariance(rv1, rv2)`. -/
def getCov (rvs : RVs α) (a b : String) : Except Err α :=
  match lookupIdx rvs a, lookupIdx rvs b with
  | some i, some j =>
    if i ≠ j then .ok 0
    else match rvs[i]? with
      | some d => d.getCov a b
      | none => .error .keyError
  | _, _ => .error .keyError

/-! ### unjoin -/

/-- Names of a block paired with their positions, restricted by `p`. -/
def selIdx (p : String → Bool) (ns : List String) : List (String × Nat) :=
  ns.zipIdx.filter (fun x => p x.1)

/-- The part of `unjoin` for one distribution. A joint distribution that has at least one of
    `inds` yields: one `NormalDistribution` per unjoined name (in block order), **followed by**
    what is left of the block (`keep`, appended after the loop): nothing, a
    `NormalDistribution` when one variable is left, else the block with rows/columns deleted. -/
def unjoinDist (inds : List String) (d : Dist α) : List (Dist α) :=
  if d.joint && d.names.any (inds.contains ·) then
    let removed := selIdx (inds.contains ·) d.names
    let kept := selIdx (fun n => !inds.contains n) d.names
    removed.map (fun x => normal x.1 d.level (d.mean.getD x.2 0) (ent d.var x.2 x.2))
    ++ (match kept with
        | [] => []
        | [x] => [normal x.1 d.level (d.mean.getD x.2 0) (ent d.var x.2 x.2)]
        | _ => [⟨kept.map (·.1), d.level, true, kept.map (fun x => d.mean.getD x.2 0),
                 subMat d.var (kept.map (·.2))⟩])
  else [d]

/-- `RandomVariables.unjoin(inds)`. -/
def unjoin (rvs : RVs α) (inds : List String) : RVs α := rvs.flatMap (unjoinDist inds)

/-! ### __getitem__ (collection of names) -/

def firstNameIn (ind : List String) (d : Dist α) : Bool :=
  match d.names with
  | n :: _ => ind.contains n
  | [] => false

/-- `rvs[ind]` for a collection `ind`. -/
def getitem (rvs : RVs α) (ind : List String) : RVs α :=
  let remove := (names rvs).filter (fun n => !ind.contains n)
  (unjoin rvs remove).filter (firstNameIn ind)

/-! ### _calc_covariance_matrix -/

abbrev Mat (α : Type) := Nat → Nat → α

def setM (M : Mat α) (i j : Nat) (v : α) : Mat α :=
  fun r c => if r = i ∧ c = j then v else M r c

/-- `for j in range(cols): M[row + i, col + j] = var[i, j]`. -/
def writeRow (M : Mat α) (off : Nat) (V : List (List α)) (i cols : Nat) : Mat α :=
  (List.range cols).foldl (fun M j => setM M (off + i) (off + j) (ent V i j)) M

/-- `for i in range(rows): for j in range(cols): …`. -/
def writeBlock (M : Mat α) (off : Nat) (V : List (List α)) (rows cols : Nat) : Mat α :=
  (List.range rows).foldl (fun M i => writeRow M off V i cols) M

def matRows (V : List (List α)) : Nat := V.length
def matCols (V : List (List α)) : Nat := (V.getD 0 []).length

/-- The loop over the distributions; `off` is `row` (= `col`). -/
def calcGo : List (Dist α) → Nat → Mat α → Mat α
  | [], _, M => M
  | d :: ds, off, M =>
    if d.joint then calcGo ds (off + matRows d.var) (writeBlock M off d.var (matRows d.var) (matCols d.var))
    else calcGo ds (off + 1) (setM M off off (ent d.var 0 0))

def tabulate (n : Nat) (M : Mat α) : List (List α) :=
  (List.range n).map fun r => (List.range n).map fun c => M r c

def calcMat (rvs : RVs α) : Mat α := calcGo rvs 0 (fun _ _ => 0)

/-- `_calc_covariance_matrix` → (means, M, names). -/
def calcCov (rvs : RVs α) : List α × List (List α) × List String :=
  (rvs.flatMap (·.mean), tabulate (nrvs rvs) (calcMat rvs), names rvs)

/-- `covariance_matrix`. -/
def covarianceMatrix (rvs : RVs α) : List (List α) := (calcCov rvs).2.1

/-! ### join -/

/-- `fill != 0`: every zero entry **off the diagonal** of the joined matrix becomes `fill`
    (`if row != col and M[row, col] == 0: M[row, col] = fill`). -/
def fillMat (fill : α) (M : List (List α)) : List (List α) :=
  M.zipIdx.map fun (row, i) => row.zipIdx.map fun (v, j) => if i ≠ j ∧ v = 0 then fill else v

/-- All `(row, col)` of `product(range(n), range(n))` in iteration order. -/
def pairs (n : Nat) : List (Nat × Nat) :=
  (List.range n).flatMap fun r => (List.range n).map fun c => (r, c)

/-- `name_template` branch: a zero below the diagonal gets a new symbol, written to both
    triangles. Returns the matrix and the `(row, col)` pairs that were named. -/
def nameMat (nm : Nat → Nat → Option α) (n : Nat) (M : Mat α) : Mat α × List (Nat × Nat) :=
  (pairs n).foldl (fun (acc : Mat α × List (Nat × Nat)) rc =>
      if acc.1 rc.1 rc.2 = 0 ∧ rc.1 > rc.2 then
        let s := (nm rc.2 rc.1).getD 0
        (setM (setM acc.1 rc.1 rc.2 s) rc.2 rc.1 s, acc.2 ++ [rc])
      else acc) (M, [])

/-- The final loop of `join`: the first distribution of the unjoined collection that has one
    of `inds` is replaced by the joined block, the others that have one are dropped. -/
def placeJoined (inds : List String) (jd : Dist α) : List (Dist α) → Bool → List (Dist α)
  | [], _ => []
  | d :: ds, first =>
    if d.names.any (inds.contains ·) then
      if first then jd :: placeJoined inds jd ds false else placeJoined inds jd ds false
    else d :: placeJoined inds jd ds first

/-- How new covariances are produced. -/
inductive Fill (α : Type) where
  | value (fill : α)                 -- `fill` (0 = leave zeros)
  | template (nm : Nat → Nat → Option α)
      -- `Symbol(name_template.format(param_names[col], param_names[row]))`; `none` = IndexError

structure JoinResult (α : Type) where
  rvs : RVs α
  named : List (α × α × α)   -- (new symbol, M[row,row], M[col,col]) = cov_to_params

/-- The matrix of the joined block (`M` after the `fill` / `name_template` loops), the
    `cov_to_params` entries, and whether every needed `param_names[...]` existed. -/
def joinMatrix (joined : RVs α) (f : Fill α) : List (List α) × List (α × α × α) × Bool :=
  let M := (calcCov joined).2.1
  match f with
  | .value fill => if fill ≠ 0 then (fillMat fill M, [], true) else (M, [], true)
  | .template nm =>
    let n := nrvs joined
    let r := nameMat nm n (calcMat joined)
    (tabulate n r.1, r.2.map (fun rc => ((nm rc.2 rc.1).getD 0, ent M rc.1 rc.1, ent M rc.2 rc.2)),
     r.2.all fun rc => (nm rc.2 rc.1).isSome)

/-- `RandomVariables.join(inds, fill, name_template, param_names)`. -/
def join (rvs : RVs α) (inds : List String) (f : Fill α) : Except Err (JoinResult α) :=
  if inds.any (fun a => !(names rvs).contains a) then .error .keyError else
  if inds.length = 0 then .ok ⟨rvs, []⟩ else     -- `if len(inds) == 0: return self, {}`
  let joined := getitem rvs inds
  let jm := joinMatrix joined f
  if !jm.2.2 then .error .indexError else
  match joined with
  | [] => .error .indexError
  | j0 :: _ =>
    let jd : Dist α := ⟨(calcCov joined).2.2, j0.level, true, (calcCov joined).1, jm.1⟩
    .ok ⟨placeJoined inds jd (unjoin rvs inds) true, jm.2.1⟩

/-! ### subs -/

/-- `Distribution.subs(d)`: entries through `fe`, names through `fn` (`_subs_name`). -/
def subsDist (fe : α → α) (fn : String → String) (d : Dist α) : Dist α :=
  { d with names := d.names.map fn, mean := d.mean.map fe, var := d.var.map (·.map fe) }

/-- `RandomVariables.subs(d)` = `self.replace(dists=…)` → `create` (uniqueness check). -/
def subs (fe : α → α) (fn : String → String) (rvs : RVs α) : Except Err (RVs α) :=
  create (rvs.map (subsDist fe fn))

/-! ### variance_parameters -/

def diag (d : Dist α) : List α :=
  if d.joint then (List.range (matRows d.var)).map (fun i => ent d.var i i) else [ent d.var 0 0]

def appendNew (acc : List α) (p : α) : List α := if acc.contains p then acc else acc ++ [p]

/-- The `parameters` list of `variance_parameters` (before `.name` is taken). -/
def varianceParameters (rvs : RVs α) : List α :=
  rvs.foldl (fun acc d => (diag d).foldl appendNew acc) []

/-! ### JointNormalDistribution.__getitem__ (collection of names) -/

/-- The result for a proper sub-collection: the selected names in block order, a
    `NormalDistribution` when one name is selected, else `variance[our_index, our_index]`. -/
def pickDist (d : Dist α) (p : String → Bool) : Dist α :=
  match selIdx p d.names with
  | [x] => normal x.1 d.level (d.mean.getD x.2 0) (ent d.var x.2 x.2)
  | sel => ⟨sel.map (·.1), d.level, true, sel.map (fun x => d.mean.getD x.2 0), subMat d.var (sel.map (·.2))⟩

def distGetitem (d : Dist α) (index : List String) : Except Err (Dist α) :=
  if index.length = 0 ∨ index.length > d.names.length then .error .keyError else
  if index.eraseDups.any (fun a => !d.names.contains a) then .error .keyError else
  if index.eraseDups.length = d.names.length then .ok d else
  .ok (pickDist d (index.eraseDups.contains ·))

/-! ### validate_parameters / nearest_valid_parameters

  `β` is the numeric matrix type (numpy array), `subst` = `dist.variance.subs(values).to_numpy()`,
  `isPsd` = `is_positive_semidefinite`, `near` = `nearest_positive_semidefinite` returning the
  repaired matrix, or `none` for "returned the very same object" (`B is A`). -/

/-- `validate_parameters`. -/
def validate {β : Type} (subst : List (List α) → β) (isPsd : β → Bool) (rvs : RVs α) : Bool :=
  rvs.all fun d => !d.joint || isPsd (subst d.var)

/-- Lower-triangle positions `(row, col)`, `col ≤ row`, in loop order. -/
def lowerTri (n : Nat) : List (Nat × Nat) :=
  (List.range n).flatMap fun r => (List.range (r + 1)).map fun c => (r, c)

/-- One distribution's step of `nearest_valid_parameters`: the assignments
    `nearest[elt.name] = B[row, col]` it performs (entry, new value). -/
def nearestStep {β V : Type} (subst : List (List α) → β) (near : β → Option (Nat → Nat → V))
    (d : Dist α) : List (α × V) :=
  if d.joint then
    match near (subst d.var) with
    | none => []
    | some B => (lowerTri (matRows d.var)).map fun rc => (ent d.var rc.1 rc.2, B rc.1 rc.2)
  else []

/-- All assignments of `nearest_valid_parameters`, in order (later ones win). -/
def nearestAssignments {β V : Type} (subst : List (List α) → β) (near : β → Option (Nat → Nat → V))
    (rvs : RVs α) : List (α × V) :=
  rvs.flatMap (nearestStep subst near)

/-- The value a sequence of assignments `nearest[key] = value` leaves under the key `a`
    (`none`: never assigned); later assignments win. -/
def lastAssigned {V : Type} (asg : List (α × V)) (a : α) : Option V :=
  asg.foldl (fun acc p => if p.1 = a then some p.2 else acc) none

/-- The block of `d` read back after the assignments (`dist.variance.subs(nearest)`): position
    `(i, j)` holds the value written last under the parameter standing at `(i, j)` of the symbolic
    matrix, `none` where nothing was written. -/
def blockAfter {V : Type} (asg : List (α × V)) (d : Dist α) : List (List (Option V)) :=
  (List.range (matRows d.var)).map fun i =>
    (List.range (matRows d.var)).map fun j => lastAssigned asg (ent d.var i j)

end generic

/-! ### nearest_positive_semidefinite: control flow over abstract numerics -/

/-- The numerical ingredients of `nearest_positive_semidefinite`, abstract. -/
structure NearOps (β : Type) where
  isPsd : β → Bool            -- `is_positive_semidefinite`
  higham : β → β              -- A ↦ A3 (symmetrise, polar factor from the SVD, average, symmetrise)
  bump : β → β → Nat → β      -- A, A3, k ↦ A3 + I·(−mineig(A3)·k² + spacing(‖A‖))

/-- Which `return` was taken. -/
inductive NearPath where
  | same              -- `return A` (the same object)
  | higham            -- first `return A3`
  | bumped (k : Nat)  -- `return A3` after the while loop, `k - 1` bumps
  deriving DecidableEq, Repr

/-- `while not is_positive_semidefinite(A3): …; k += 1` with fuel (termination is numerical
    and is not claimed). -/
def nearLoop {β : Type} (ops : NearOps β) (A : β) : Nat → β → Nat → Option (β × NearPath)
  | 0, _, _ => none
  | fuel + 1, A3, k =>
    if ops.isPsd A3 then some (A3, .bumped k)
    else nearLoop ops A fuel (ops.bump A A3 k) (k + 1)

/-- `nearest_positive_semidefinite(A)`; `none` = fuel exhausted. -/
def nearest {β : Type} (ops : NearOps β) (fuel : Nat) (A : β) : Option (β × NearPath) :=
  if ops.isPsd A then some (A, .same)
  else
    let A3 := ops.higham A
    if ops.isPsd A3 then some (A3, .higham)
    else nearLoop ops A fuel A3 1

/-! ### Model.create / Model.replace: when the initial estimates are canonicalised

  `P` = parameters, `R` = random variables; `valid p r` = `r.validate_parameters(p.inits)`,
  `repair p r` = `p.set_initial_estimates(r.nearest_valid_parameters(p.inits))`. -/

/-- `Model._canonicalize_parameter_estimates(params, rvs)`. -/
def canonicalizeEstimates {P R : Type} (valid : P → R → Bool) (repair : P → R → P) (p : P) (r : R) : P :=
  if valid p r then p else repair p r

/-- The two fields of a `Model` that matter here. -/
structure MState (P R : Type) where
  params : P
  rvs : R

/-- `Model.create(parameters=p, random_variables=r, …)`. -/
def modelCreate {P R : Type} (valid : P → R → Bool) (repair : P → R → P) (p : P) (r : R) : MState P R :=
  ⟨canonicalizeEstimates valid repair p r, r⟩

/-- `model.replace(parameters=newP?, random_variables=newR?, …)`: the estimates are canonicalised
    against the resulting random variables whether `parameters`, `random_variables`, both or
    neither is passed (the call is unconditional in `replace`). -/
def modelReplace {P R : Type} (valid : P → R → Bool) (repair : P → R → P) (m : MState P R)
    (newP : Option P) (newR : Option R) : MState P R :=
  let p := newP.getD m.params
  let r := newR.getD m.rvs
  ⟨canonicalizeEstimates valid repair p r, r⟩

/-- A history of `replace` calls. -/
def modelHistory {P R : Type} (valid : P → R → Bool) (repair : P → R → P) (m : MState P R)
    (ops : List (Option P × Option R)) : MState P R :=
  ops.foldl (fun m op => modelReplace valid repair m op.1 op.2) m

/-- The variant that canonicalises only when `parameters` is passed (kept for the witness theorem). -/
def modelReplaceOnlyIfParams {P R : Type} (valid : P → R → Bool) (repair : P → R → P) (m : MState P R)
    (newP : Option P) (newR : Option R) : MState P R :=
  let r := newR.getD m.rvs
  match newP with
  | some p => ⟨canonicalizeEstimates valid repair p r, r⟩
  | none => ⟨m.params, r⟩

/-! ### internals.math: triangular_root, flattened_to_symmetric, cov2corr / corr2cov -/

/-- `triangular_root(x) = floor(sqrt(2 x))`. -/
def triangularRoot (x : Nat) : Nat := Nat.sqrt (2 * x)

/-- Position of `(r, c)`, `c ≤ r`, in the row-major flattening of a lower triangle
    (`np.tril_indices`). -/
def triPos (r c : Nat) : Nat := r * (r + 1) / 2 + c

/-- `flattened_to_symmetric(x)`. -/
def flattenedToSymmetric (x : List Rat) : List (List Rat) :=
  let n := triangularRoot x.length
  (List.range n).map fun r => (List.range n).map fun c =>
    if c ≤ r then x.getD (triPos r c) 0 else x.getD (triPos c r) 0

/-- `cov2corr(cov)` with the vector `v = sqrt(diag(cov))` supplied (abstract square root):
    `corr = cov / outer(v, v); corr[cov == 0] = 0`. -/
def cov2corrWith (v : List Rat) (cov : List (List Rat)) : List (List Rat) :=
  (cov.zip v).map fun (row, vi) => (row.zip v).map fun (x, vj) => if x = 0 then 0 else x / (vi * vj)

/-- `corr2cov(corr, sd) = diag(sd) @ corr @ diag(sd)`. -/
def corr2cov (corr : List (List Rat)) (sd : List Rat) : List (List Rat) :=
  (corr.zip sd).map fun (row, si) => (row.zip sd).map fun (x, sj) => si * x * sj

end Pharmpy.C11

/-! ### The concrete entry type used by the driver: a rational number or a symbol -/
namespace Pharmpy.C11

inductive Entry where
  | num (q : Rat)
  | sym (s : String)
  deriving DecidableEq, Repr

instance : Zero Entry := ⟨.num 0⟩

/-- `elt.name`: only a symbol has a name (`ValueError: Expression has no name`). -/
def Entry.name? : Entry → Except Err String
  | .sym s => .ok s
  | .num _ => .error .valueError

/-- `[p.name for p in parameters]` of `variance_parameters`. -/
def varianceParameterNames (rvs : RVs Entry) : Except Err (List String) :=
  (varianceParameters rvs).mapM Entry.name?

/-- Simultaneous substitution of symbols in an entry (`Expr.subs` with symbol keys). -/
def Entry.subst (σ : List (String × Entry)) : Entry → Entry
  | .num q => .num q
  | .sym s => match σ.lookup s with
    | some e => e
    | none => .sym s

/-- `_subs_name`. -/
def substName (σ : List (String × Entry)) (n : String) : String :=
  match σ.lookup n with
  | some (.sym t) => t
  | some (.num q) => toString q
  | none => n

def subsE (σ : List (String × Entry)) (rvs : RVs Entry) : Except Err (RVs Entry) :=
  subs (Entry.subst σ) (substName σ) rvs

/-- `nearest[elt.name] = B[row, col]` for every assignment, in order, starting from `values`. -/
def applyAssignments {V : Type} (values : List (String × V)) :
    List (Entry × V) → Except Err (List (String × V))
  | [] => .ok values
  | (e, v) :: rest =>
    match e.name? with
    | .error k => .error k
    | .ok s => applyAssignments ((values.filter (·.1 ≠ s)) ++ [(s, v)]) rest

/-! ### parameters_sdcorr (and its inverse) over exact values with an abstract square root

  A dictionary of parameter values is a function `String → Option Rat`; `sqrt` is abstract.
  Every value is read from the **original** dictionary `vals` (`sigma_sym.subs(values)`,
  `variance.subs(values)`), never from the dictionary being written. -/

abbrev Dict := String → Option Rat

def fupd (f : Dict) (s : String) (v : Rat) : Dict := fun t => if t = s then some v else f t

/-- `newdict[name] = value` for every assignment, in order. -/
def applyF (f : Dict) (A : List (String × Rat)) : Dict := A.foldl (fun f p => fupd f p.1 p.2) f

/-- `(i, j)` for `i in range(rows)` for `j in range(cols)`. -/
def positions (d : Dist Entry) : List (Nat × Nat) :=
  (List.range (matRows d.var)).flatMap fun i => (List.range (matCols d.var)).map fun j => (i, j)

/-- The symbol at a position of the symbolic matrix (`elt.name`). -/
def symAt (d : Dist Entry) (i j : Nat) : Option String :=
  match ent d.var i j with
  | .sym s => some s
  | .num _ => none

/-- Is the entry at a position numeric once `vals` is substituted? -/
def hasVal (vals : Dict) (d : Dist Entry) (i j : Nat) : Bool :=
  match ent d.var i j with
  | .sym s => (vals s).isSome
  | .num _ => true

/-- `sigma[i, j]` = the entry with `vals` substituted. -/
def valAt (vals : Dict) (d : Dist Entry) (i j : Nat) : Rat :=
  match ent d.var i j with
  | .sym s => (vals s).getD 0
  | .num q => q

/-- `corr[i, j]` of `cov2corr(sigma)` off the diagonal, `sqrt(sigma[i, i])` on it. -/
def fwdVal (sqrt : Rat → Rat) (vals : Dict) (d : Dist Entry) (i j : Nat) : Rat :=
  if i ≠ j then
    (if valAt vals d i j = 0 then 0
     else valAt vals d i j / (sqrt (valAt vals d i i) * sqrt (valAt vals d j j)))
  else sqrt (valAt vals d i i)

/-- The exception one distribution raises in `parameters_sdcorr`, if any. -/
def sdcorrErr (vals : Dict) (d : Dist Entry) : Option Err :=
  if d.joint then
    if (positions d).any (fun p => !hasVal vals d p.1 p.2) then some .typeError       -- `to_numpy` of a symbolic matrix
    else if (positions d).any (fun p => (symAt d p.1 p.2).isNone) then some .valueError  -- `elt.name` of a number
    else none
  else match ent d.var 0 0 with
    | .sym _ => none
    | .num _ => some .notImplementedError

/-- The assignments `newdict[name] = …` one distribution performs. -/
def sdcorrAsg (sqrt : Rat → Rat) (vals : Dict) (d : Dist Entry) : List (String × Rat) :=
  if d.joint then
    (positions d).filterMap fun p => (symAt d p.1 p.2).map fun s => (s, fwdVal sqrt vals d p.1 p.2)
  else match ent d.var 0 0 with
    | .sym s => if (vals s).isSome then [(s, sqrt ((vals s).getD 0))] else []
    | .num _ => []

/-- `RandomVariables.parameters_sdcorr(values)`. -/
def sdcorr (sqrt : Rat → Rat) (vals : Dict) (rvs : RVs Entry) : Except Err Dict :=
  match rvs.findSome? (sdcorrErr vals) with
  | some e => .error e
  | none => .ok (applyF vals (rvs.flatMap (sdcorrAsg sqrt vals)))

/-- The inverse conversion (sd/corr → var/cov) with the same structure: `sd²` on the diagonal,
    `corr · sd_i · sd_j` off it, every value read from the sd/corr dictionary `D`. -/
def invVal (D : Dict) (d : Dist Entry) (i j : Nat) : Rat :=
  if i ≠ j then valAt D d i j * valAt D d i i * valAt D d j j
  else valAt D d i i * valAt D d i i

def sdcorrInvAsg (D : Dict) (d : Dist Entry) : List (String × Rat) :=
  if d.joint then
    (positions d).filterMap fun p => (symAt d p.1 p.2).map fun s => (s, invVal D d p.1 p.2)
  else match ent d.var 0 0 with
    | .sym s => if (D s).isSome then [(s, (D s).getD 0 * (D s).getD 0)] else []
    | .num _ => []

def sdcorrInv (D : Dict) (rvs : RVs Entry) : Dict := applyF D (rvs.flatMap (sdcorrInvAsg D))

/-- The variant that substitutes with the dictionary being written (kept for the witness theorem):
    a parameter converted by an earlier distribution is read again as if it were a variance. -/
def sdcorrAcc (sqrt : Rat → Rat) (vals : Dict) (rvs : RVs Entry) : Dict :=
  rvs.foldl (fun f d => applyF f (sdcorrAsg sqrt f d)) vals

/-- Decidable certificate: every parameter is assigned one value only (whatever distribution
    assigns it) — the role of a shared parameter is the same everywhere. -/
def agree (A : List (String × Rat)) : Bool :=
  A.all fun p => A.all fun q => p.1 != q.1 || p.2 == q.2

end Pharmpy.C11
