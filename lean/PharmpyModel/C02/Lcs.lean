/-
  C02 — executable model of `pharmpy.internals.sequence.lcs.diff`
  (`src/pharmpy/internals/sequence/lcs.py`).

  Python                              Lean
  ------------------------------      -----------------------------------------
  first `for a, b in zip(old,new)`    `commonPrefix`
  `zip(reversed(rold), reversed(rnew))` `commonPrefix` of the reversed remainders
  `_matrix(a, b)`                     `table` (same numbers, built in the same
                                      order; rows/columns are indexed from the
                                      *end* because the walk below consumes the
                                      reversed lists: `lengths[i][j]` of Python
                                      is `(table xr yr)[|x|-i][|y|-j]`)
  `_diff(c, x, y, i, j)`              `walk` on the reversed prefixes
                                      `x[:i+1]`, `y[:j+1]` (head = `x[i]`,`y[j]`);
                                      `c[i+1][j]` = `rows[0][1]`,
                                      `c[i][j+1]` = `rows[1][0]`
  `while saved: yield saved.pop()`    zero-ops for the common suffix, in order

  `lcsR` is the specification of the matrix entries (the defining recurrence of
  the LCS length on reversed prefixes); `walkSpec` is `_diff` reading `lcsR`
  instead of the table.  `PharmpyProofs/C02` proves `table` = `lcsR` entrywise,
  hence `walk (table ..) = walkSpec`, and the property theorems.
-/
namespace Pharmpy.C02

/-- One diff entry: operation (+1 insert, -1 delete, 0 keep) and the element. -/
abbrev Op (α : Type) := Int × α

section
variable {α : Type} [DecidableEq α]

/-- Longest common prefix (the first loop of `diff`). -/
def commonPrefix : List α → List α → List α
  | a :: xs, b :: ys => if a = b then b :: commonPrefix xs ys else []
  | _, _ => []

/-- LCS length by its defining recurrence (on reversed prefixes). Specification only. -/
def lcsR : List α → List α → Nat
  | [], _ => 0
  | _ :: _, [] => 0
  | a :: xs, b :: ys =>
    if a = b then lcsR xs ys + 1 else max (lcsR (a :: xs) ys) (lcsR xs (b :: ys))
termination_by xs ys => xs.length + ys.length

/-- New matrix row for element `a` from the previous row `prev`
    (`prev` = row of `xs`, result = row of `a :: xs`; entry `k` is for `drop k yr`). -/
def rowStep (a : α) : List α → List Nat → List Nat
  | [], _ => [0]
  | b :: ys, prev =>
    let rest := rowStep a ys prev.tail
    let v := if a = b then prev.tail.headD 0 + 1 else max (rest.headD 0) (prev.headD 0)
    v :: rest

/-- `_matrix`: rows for `xr, tail xr, …, []`; each row has entries for `yr, tail yr, …, []`. -/
def table : List α → List α → List (List Nat)
  | [], yr => [List.replicate (yr.length + 1) 0]
  | a :: xs, yr =>
    let t := table xs yr
    rowStep a yr (t.headD []) :: t

/-- Entry `[i][j]` of a row list. -/
def entry (rows : List (List Nat)) (i j : Nat) : Nat := (rows.getD i []).getD j 0

/-- `_diff`: backtracking walk. `rows` is the table for the current `(xr, yr)`. -/
def walk : List (List Nat) → List α → List α → List (Op α)
  | _, [], [] => []
  | rows, [], b :: ys => walk (rows.map List.tail) [] ys ++ [(1, b)]
  | rows, a :: xs, [] => walk rows.tail xs [] ++ [(-1, a)]
  | rows, a :: xs, b :: ys =>
    if a = b then walk (rows.tail.map List.tail) xs ys ++ [(0, a)]
    else if entry rows 0 1 ≥ entry rows 1 0 then
      walk (rows.map List.tail) (a :: xs) ys ++ [(1, b)]
    else walk rows.tail xs (b :: ys) ++ [(-1, a)]
termination_by _ xs ys => xs.length + ys.length

/-- `_diff` reading the specification `lcsR` instead of the matrix. -/
def walkSpec : List α → List α → List (Op α)
  | [], [] => []
  | [], b :: ys => walkSpec [] ys ++ [(1, b)]
  | a :: xs, [] => walkSpec xs [] ++ [(-1, a)]
  | a :: xs, b :: ys =>
    if a = b then walkSpec xs ys ++ [(0, a)]
    else if lcsR (a :: xs) ys ≥ lcsR xs (b :: ys) then walkSpec (a :: xs) ys ++ [(1, b)]
    else walkSpec xs (b :: ys) ++ [(-1, a)]
termination_by xs ys => xs.length + ys.length

def zeros (l : List α) : List (Op α) := l.map (fun b => ((0 : Int), b))

/-- `diff(old, new)`. -/
def diff (old new : List α) : List (Op α) :=
  let pre := commonPrefix old new
  let rold := old.drop pre.length
  let rnew := new.drop pre.length
  let sufR := commonPrefix rold.reverse rnew.reverse          -- `saved`, in append order
  let mo := (rold.take (rold.length - sufR.length)).reverse   -- reversed middle of old
  let mn := (rnew.take (rnew.length - sufR.length)).reverse
  zeros pre ++ walk (table mo mn) mo mn ++ zeros sufR.reverse

/-- The same with the specification walk. -/
def diffSpec (old new : List α) : List (Op α) :=
  let pre := commonPrefix old new
  let rold := old.drop pre.length
  let rnew := new.drop pre.length
  let sufR := commonPrefix rold.reverse rnew.reverse
  let mo := (rold.take (rold.length - sufR.length)).reverse
  let mn := (rnew.take (rnew.length - sufR.length)).reverse
  zeros pre ++ walkSpec mo mn ++ zeros sufR.reverse

/-- Elements left when the `+1` ops are dropped (must be `old`). -/
def dropIns (d : List (Op α)) : List α := (d.filter (fun o => o.1 ≠ 1)).map (·.2)
/-- Elements left when the `-1` ops are dropped (must be `new`). -/
def dropDel (d : List (Op α)) : List α := (d.filter (fun o => o.1 ≠ -1)).map (·.2)
/-- The kept elements. -/
def kept (d : List (Op α)) : List α := (d.filter (fun o => o.1 = 0)).map (·.2)

/-- Python's `_matrix` in Python's index order (for the correspondence run). -/
def matrixPy (x y : List α) : List (List Nat) :=
  ((table x.reverse y.reverse).map List.reverse).reverse

end
end Pharmpy.C02
