import PharmpyModel.Generated.PkConv
import PharmpyModel.C02.Advan
/-
  C02 — interpretation of the tables extracted by translator T2
  (`Generated/PkConv.lean`) and the independent PREDPP specification they are
  checked against: which TRANS exist for which ADVAN, and what the basic PK
  parameters of each (ADVAN, TRANS) are called (NONMEM Users Guide VI, PREDPP).
-/
namespace Pharmpy.C02
open Generated

/-! ### TRANS ladder of `new_advan_trans` -/

def pickBranch (advan : String) (old : String) : List (List String × String) × String → String
  | (brs, dflt) =>
    let r := match brs.find? (fun b => b.1.contains advan) with
      | some b => b.2
      | none => dflt
    if r = "=old" then old else r

/-- `trans` computed by `new_advan_trans` (`none` = Python `None`).
    `quot` = the elimination rate is a quotient of two symbols (only read when `oldtrans` is None). -/
def chooseTrans (oldtrans : Option String) (advan : String) (nonlin quot : Bool) : Option String :=
  if nonlin then none else
  match oldtrans with
  | none => some (pickBranch advan "" (if quot then transNoneQuotient else transNoneOther))
  | some o =>
    match transLadder.find? (fun r => r.1 = o) with
    | some r => some (pickBranch advan o r.2)
    | none => some transElse

/-! ### rename dictionaries of `pk_param_conversion` -/

def Generated.TransCond.holds (trans : String) : TransCond → Bool
  | .any => true
  | .eq t => trans = t
  | .ne t => trans ≠ t
  | .notIn ts => !ts.contains trans

/-- The literal part of the dictionary `d` for (from_advan, advan, trans). -/
def renameFor (fromA toA trans : String) : List (String × String) :=
  (renameTable.filter (fun e => e.1 = fromA && e.2.1 = toA && e.2.2.1.holds trans)).flatMap (·.2.2.2)

/-- Simultaneous renaming of one name (`statements.subs(d)` on a symbol). -/
def applyRename (d : List (String × String)) (x : String) : String := (d.lookup x).getD x

/-! ### specification (PREDPP) -/

def linearAdvans : List String := ["ADVAN1", "ADVAN2", "ADVAN3", "ADVAN4", "ADVAN11", "ADVAN12", "ADVAN5"]

/-- TRANS subroutines that exist for an ADVAN. -/
def validTrans : String → List String
  | "ADVAN1" | "ADVAN2" => ["TRANS1", "TRANS2"]
  | "ADVAN3" | "ADVAN4" => ["TRANS1", "TRANS3", "TRANS4", "TRANS5", "TRANS6"]
  | "ADVAN11" | "ADVAN12" => ["TRANS1", "TRANS4", "TRANS6"]
  | _ => ["TRANS1"]

inductive Role where
  | k | ka | cl | vc | q1 | vp1 | q2 | vp2 | kcp1 | kp1c | kcp2 | kp2c | vss | aob | alpha | beta | gamma
  deriving Repr, DecidableEq

/-- Names of the basic PK parameters by role (central = compartment 1 without, 2 with a depot). -/
def pkNames : String → String → List (Role × String)
  | "ADVAN1", "TRANS1" => [(.k, "K")]
  | "ADVAN1", "TRANS2" => [(.cl, "CL"), (.vc, "V")]
  | "ADVAN2", "TRANS1" => [(.k, "K"), (.ka, "KA")]
  | "ADVAN2", "TRANS2" => [(.cl, "CL"), (.vc, "V"), (.ka, "KA")]
  | "ADVAN3", "TRANS1" => [(.k, "K"), (.kcp1, "K12"), (.kp1c, "K21")]
  | "ADVAN3", "TRANS3" => [(.cl, "CL"), (.vc, "V"), (.q1, "Q"), (.vss, "VSS")]
  | "ADVAN3", "TRANS4" => [(.cl, "CL"), (.vc, "V1"), (.q1, "Q"), (.vp1, "V2")]
  | "ADVAN3", "TRANS5" => [(.aob, "AOB"), (.alpha, "ALPHA"), (.beta, "BETA")]
  | "ADVAN3", "TRANS6" => [(.alpha, "ALPHA"), (.beta, "BETA"), (.kp1c, "K21")]
  | "ADVAN4", "TRANS1" => [(.k, "K"), (.kcp1, "K23"), (.kp1c, "K32"), (.ka, "KA")]
  | "ADVAN4", "TRANS3" => [(.cl, "CL"), (.vc, "V"), (.q1, "Q"), (.vss, "VSS"), (.ka, "KA")]
  | "ADVAN4", "TRANS4" => [(.cl, "CL"), (.vc, "V2"), (.q1, "Q"), (.vp1, "V3"), (.ka, "KA")]
  | "ADVAN4", "TRANS5" => [(.aob, "AOB"), (.alpha, "ALPHA"), (.beta, "BETA"), (.ka, "KA")]
  | "ADVAN4", "TRANS6" => [(.alpha, "ALPHA"), (.beta, "BETA"), (.kp1c, "K32"), (.ka, "KA")]
  | "ADVAN11", "TRANS1" => [(.k, "K"), (.kcp1, "K12"), (.kp1c, "K21"), (.kcp2, "K13"), (.kp2c, "K31")]
  | "ADVAN11", "TRANS4" => [(.cl, "CL"), (.vc, "V1"), (.q1, "Q2"), (.vp1, "V2"), (.q2, "Q3"), (.vp2, "V3")]
  | "ADVAN11", "TRANS6" => [(.alpha, "ALPHA"), (.beta, "BETA"), (.gamma, "GAMMA"), (.kp1c, "K21"), (.kp2c, "K31")]
  | "ADVAN12", "TRANS1" => [(.k, "K"), (.kcp1, "K23"), (.kp1c, "K32"), (.kcp2, "K24"), (.kp2c, "K42"), (.ka, "KA")]
  | "ADVAN12", "TRANS4" => [(.cl, "CL"), (.vc, "V2"), (.q1, "Q3"), (.vp1, "V3"), (.q2, "Q4"), (.vp2, "V4"), (.ka, "KA")]
  | "ADVAN12", "TRANS6" => [(.alpha, "ALPHA"), (.beta, "BETA"), (.gamma, "GAMMA"), (.kp1c, "K32"), (.kp2c, "K42"), (.ka, "KA")]
  | _, _ => []

/-- The rename for (from, to) carries every parameter that has the same role on both sides from its
    old name to its new name, when the model had `t0` and gets `t1`. -/
def renameConsistent (fromA toA t0 t1 : String) : Bool :=
  (pkNames fromA t0).all (fun p =>
    match (pkNames toA t1).lookup p.1 with
    | some b => applyRename (renameFor fromA toA t1) p.2 = b
    | none => true)

/-- A rename dictionary is a partial injection with distinct keys (so simultaneous substitution can
    neither merge two parameters nor depend on dictionary order). -/
def injectiveDict (d : List (String × String)) : Bool :=
  (d.map (·.1)).Nodup && (d.map (·.2)).Nodup

/-- One-step structural transitions: a depot or one peripheral compartment is added or removed. -/
def adjacent : List (String × String) :=
  [("ADVAN1", "ADVAN2"), ("ADVAN2", "ADVAN1"), ("ADVAN1", "ADVAN3"), ("ADVAN3", "ADVAN1"),
   ("ADVAN2", "ADVAN4"), ("ADVAN4", "ADVAN2"), ("ADVAN3", "ADVAN4"), ("ADVAN4", "ADVAN3"),
   ("ADVAN3", "ADVAN11"), ("ADVAN11", "ADVAN3"), ("ADVAN4", "ADVAN12"), ("ADVAN12", "ADVAN4"),
   ("ADVAN11", "ADVAN12"), ("ADVAN12", "ADVAN11")]

end Pharmpy.C02
