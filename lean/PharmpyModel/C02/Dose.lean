/-
  C02 — reserved dose parameters: the PREDPP reading of `$PK` versus the dose
  attributes of the in-memory compartments, and the two updaters that are
  supposed to keep them equal (`update_bio`, `update_lag_time` in
  `pharmpy/model/external/nonmem/update.py`).

  PREDPP rule (NONMEM Users Guide VI): if `$PK` assigns `Fn` / `ALAGn` the value is
  the bioavailability / absorption lag of compartment `n`, whether or not anything
  else refers to it; if it does not, the bioavailability is 1 and the lag 0.
  So the generated text denotes the in-memory dosing attributes iff, for every
  dosing compartment, `attribute = pkAttr` below — one equation, both directions.
-/
namespace Pharmpy.C02

/-- Value of a dose attribute of an in-memory compartment. -/
inductive Attr where
  | neutral                 -- bioavailability 1 / lag time 0
  | sym (name : String)     -- a single symbol
  | other (id : String)     -- any other expression (printed form)
  deriving DecidableEq, Repr

def Attr.str : Attr → String
  | .neutral => "neutral"
  | .sym s => s
  | .other s => s

/-- A dosing compartment: NONMEM number and its in-memory attributes. -/
structure DComp where
  num : Nat
  bio : Attr
  lag : Attr
  deriving DecidableEq, Repr

/-- `$PK` as far as it matters here: assigned symbol and printed right-hand side, in order. -/
abbrev Pk := List (String × String)

def assigned (pk : Pk) (x : String) : Bool := pk.any (fun p => p.1 = x)

def fName (n : Nat) : String := "F" ++ toString n
def alagName (n : Nat) : String := "ALAG" ++ toString n

/-- `re.match("F[0-9]", s)`: `F` followed by a digit (prefix match). -/
def isFdigit (s : String) : Bool :=
  match s.toList with
  | 'F' :: c :: _ => c.isDigit
  | _ => false

/-- PREDPP reading of `$PK` for compartment `n`. -/
def pkBio (pk : Pk) (n : Nat) : Attr := if assigned pk (fName n) then .sym (fName n) else .neutral
def pkLag (pk : Pk) (n : Nat) : Attr := if assigned pk (alagName n) then .sym (alagName n) else .neutral

/-- The text denotes the object's dosing attributes (both directions). -/
def Consistent (c : DComp) (pk : Pk) : Prop := c.bio = pkBio pk c.num ∧ c.lag = pkLag pk c.num
def BioConsistent (c : DComp) (pk : Pk) : Prop := c.bio = pkBio pk c.num
def LagConsistent (c : DComp) (pk : Pk) : Prop := c.lag = pkLag pk c.num

instance (c : DComp) (pk : Pk) : Decidable (BioConsistent c pk) := by unfold BioConsistent; exact inferInstance
instance (c : DComp) (pk : Pk) : Decidable (LagConsistent c pk) := by unfold LagConsistent; exact inferInstance
instance (c : DComp) (pk : Pk) : Decidable (Consistent c pk) := by unfold Consistent; exact inferInstance

/-- Loop body of `update_bio` for one dosing compartment. -/
def updateBioOne (c : DComp) (pk : Pk) : DComp × Pk :=
  let f := fName c.num
  if c.bio = .neutral ∨ c.bio = .sym f then (c, pk)
  else if isFdigit c.bio.str then
    -- `statements.subs({Fk: Fn})`: the symbol is renamed wherever it is assigned (and in the compartment)
    ({ c with bio := .sym f }, pk.map (fun p => (if p.1 = c.bio.str then f else p.1, p.2)))
  else
    -- `Fn = <bioavailability>` is added and the compartment refers to `Fn`
    ({ c with bio := .sym f }, pk ++ [(f, c.bio.str)])

/-- `update_lag_time` (the dosing compartment is always number 1; the name `ALAG1` is hard-coded). -/
def updateLag (oldLag : Attr) (c : DComp) (pk : Pk) : DComp × Pk :=
  if c.lag ≠ oldLag ∧ c.lag ≠ .neutral then
    ({ c with lag := .sym "ALAG1" }, pk ++ [("ALAG1", c.lag.str)])
  else (c, pk)

/-- What `update_bio` silently relies on: no reserved assignment is left over for a compartment
    whose attribute is neutral, and a reserved symbol the object refers to is assigned. -/
def NoStaleBio (c : DComp) (pk : Pk) : Prop :=
  (c.bio = .neutral → assigned pk (fName c.num) = false) ∧
  (isFdigit c.bio.str = true → assigned pk c.bio.str = true) ∧
  (c.bio ≠ .neutral → c.bio ≠ .sym (fName c.num) → assigned pk (fName c.num) = false ∨ isFdigit c.bio.str = true)

def NoStaleLag (oldLag : Attr) (c : DComp) (pk : Pk) : Prop :=
  c.num = 1 ∧ (c.lag = .neutral → assigned pk "ALAG1" = false) ∧
  (c.lag = oldLag → c.lag ≠ .neutral → c.lag = .sym "ALAG1" ∧ assigned pk "ALAG1" = true)

end Pharmpy.C02
