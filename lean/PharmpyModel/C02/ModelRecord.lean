import PharmpyModel.C02.Advan
/-
  C02 — `update_model_record` (update.py): what the model internals remember about the compartment numbering.

  `compartment_map` is the numbering every later structural change starts from (`pk_param_conversion` renumbers
  Sn / A(n) / Kij, `update_cmt` the CMT column).  The function must leave it equal to the numbering of the control
  stream it has just produced, in all three branches (specific ADVAN: $MODEL dropped; general: $MODEL rewritten;
  general and unchanged: kept).
-/
namespace Pharmpy.C02

structure Internals where
  map : List (String × Nat)            -- compartment_map without OUTPUT
  modelRec : Option (List String)      -- compartments listed by $MODEL, if the record exists
  deriving Repr, DecidableEq

def specificAdvans : List String := ["ADVAN1", "ADVAN2", "ADVAN3", "ADVAN4", "ADVAN10", "ADVAN11", "ADVAN12"]

/-- `update_model_record(model, advan)`; `names` = `compartment_names` of the new ODE system, `solver` = an ODE solver is set. -/
def updateModelRecord (advan : String) (solver : Bool) (names : List String) (int : Internals) : Internals :=
  if specificAdvans.contains advan = true then { map := newCompartmentalMap names, modelRec := none }
  else if int.map ≠ newCompartmentalMap names ∨ solver = true then { map := newCompartmentalMap names, modelRec := some names }
  else { map := newCompartmentalMap names, modelRec := int.modelRec }

/-- The state invariant: the remembered numbering is the numbering of the generated control stream. -/
def MapFresh (names : List String) (int : Internals) : Prop := int.map = newCompartmentalMap names

end Pharmpy.C02
