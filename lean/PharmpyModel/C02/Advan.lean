import PharmpyModel.Core.Stmts
/-
  C02 — executable model of the ADVAN decision of
  `pharmpy/model/external/nonmem/update.py` (`new_advan_trans`,
  `match_advan1/2/3/4/11/12`) together with the graph queries of
  `CompartmentalSystem` they use (`central_compartment`, `dosing_compartments`,
  `get_compartment_outflows`, `get_bidirectionals`, `get_flow`,
  `_order_compartments`/`compartment_names`) and `new_compartmental_map` /
  `create_compartment_remap`.

  Compartments are numbered 1..n **in name order** (the harness assigns the
  ids by sorting the names, so "sorted by name" is "sorted by id"); 0 is the
  output compartment.  Edges are given twice: `succE` in successor-iteration
  order and `predE` in predecessor-iteration order of the networkx digraph
  (the code looks at `list(predecessors(output))[-1]` and at `bidir[0]`,
  `bidir[1]`, so the orders are observable).
-/
namespace Pharmpy.C02
open Pharmpy

structure CGraph where
  n : Nat
  succE : List (Nat × Nat)
  predE : List (Nat × Nat)
  zeroRate : List (Nat × Nat)      -- edges whose rate expression is 0
  doses : List Nat                 -- compartments with at least one dose
  inputs : List Nat                -- compartments with a zero-order input (`comp.input != 0`)
  special : List Nat               -- compartments named METABOLITE / EFFECT / COMPLEX / RESPONSE
  centralByName : Option Nat       -- the compartment named CENTRAL
  deriving Repr, DecidableEq

inductive Advan where
  | a1 | a2 | a3 | a4 | a5 | a11 | a12 | a13
  deriving Repr, DecidableEq

def Advan.name : Advan → String
  | .a1 => "ADVAN1" | .a2 => "ADVAN2" | .a3 => "ADVAN3" | .a4 => "ADVAN4"
  | .a5 => "ADVAN5" | .a11 => "ADVAN11" | .a12 => "ADVAN12" | .a13 => "ADVAN13"

namespace CGraph

def succs (g : CGraph) (v : Nat) : List Nat := (g.succE.filter (fun e => e.1 = v)).map (·.2)
def preds (g : CGraph) (v : Nat) : List Nat := (g.predE.filter (fun e => e.2 = v)).map (·.1)
def hasEdge (g : CGraph) (a b : Nat) : Bool := g.succE.contains (a, b)
/-- `get_flow(a, b) != 0`. -/
def flowNZ (g : CGraph) (a b : Nat) : Bool := g.hasEdge a b && !g.zeroRate.contains (a, b)

/-- `central_compartment` (`none` = ValueError). -/
def central (g : CGraph) : Option Nat :=
  match (g.preds 0).getLast? with
  | none => none
  | some c => if g.special.contains c then g.centralByName else some c

/-- `dosing_compartments` (`none` = ValueError). -/
def dosingComps (g : CGraph) : Option (List Nat) :=
  let ds := (List.range' 1 g.n).filter (fun v => g.doses.contains v)
  if ds.isEmpty then none else
  match g.central with
  | none => none
  | some c =>
    some (ds.foldl (fun acc node =>
      if node ≠ c then
        (if acc.length ≥ 2 then acc.dropLast ++ [node] ++ acc.getLast?.toList else node :: acc)
      else acc ++ [node]) [])

/-- `get_bidirectionals(c)`. -/
def bidir (g : CGraph) (c : Nat) : List Nat := (g.preds c).filter (fun v => g.hasEdge c v)

/-- Successors without the output, sorted by name (`sortfunc`). -/
def sortedSuccs (g : CGraph) (v : Nat) : List Nat := (List.range' 1 g.n).filter (fun w => g.hasEdge v w)

/-- Node order of `nx.bfs_tree(g, src, sort_neighbors=sortfunc)`. -/
def bfsAux (g : CGraph) : Nat → List Nat → List Nat → List Nat
  | 0, _, order => order
  | _, [], order => order
  | fuel + 1, v :: q, order =>
    let nb := (g.sortedSuccs v).filter (fun w => !order.contains w)
    bfsAux g fuel (q ++ nb) (order ++ nb)

def bfsFrom (g : CGraph) (src : Nat) : List Nat := bfsAux g (g.n + 1) [src] [src]

def addRemaining (g : CGraph) : Nat → List Nat → List Nat → List Nat
  | 0, _, nodes => nodes
  | _, [], nodes => nodes
  | fuel + 1, comp :: rest, nodes =>
    let new := (g.bfsFrom comp).filter (fun c => !nodes.contains c)
    addRemaining g fuel (rest.filter (fun c => !new.contains c)) (nodes ++ new)

/-- `_order_compartments` = the NONMEM compartment numbering (`compartment_names`). -/
def order (g : CGraph) : List Nat :=
  match g.dosingComps with
  | none => List.range' 1 g.n
  | some ds =>
    let nodes := g.bfsFrom (ds.headD 0)
    let rem := (List.range' 1 g.n).filter (fun v => !nodes.contains v)
    let remaining := rem.filter (fun v => g.inputs.contains v) ++ rem.filter (fun v => !g.inputs.contains v)
    g.addRemaining g.n remaining nodes

end CGraph

/-! ### `dep_assigns` loop of `match_advan2/4/12` -/

def depStep (s : Stmt) (acc : Expr × List Sym) : Expr × List Sym :=
  match s with
  | .assign x t => if acc.1.syms.contains x then (Expr.subst1 x t acc.1, x :: acc.2) else acc
  | .ode _ _ => acc

/-- `for s in reversed(statements.before_odes): if s.symbol in expr.free_symbols: …` -/
def depAssigns (before : List Stmt) (rate : Expr) : List Sym := (before.foldr depStep (rate, [])).2

def usesReserved (before : List Stmt) (rate : Expr) : Bool :=
  let d := depAssigns before rate
  d.contains "CL" || d.contains "V"

/-! ### `match_advanN` (`none` = the call raises ValueError) -/

open CGraph

def matchAdvan1 (g : CGraph) : Bool := g.n = 1

/-- Shared head of `match_advan2/4/12`: dosing compartment, its single outflow target. -/
def depotCentral (g : CGraph) : Option (Option (Nat × Nat)) :=
  match g.dosingComps with
  | none => none
  | some ds =>
    let d := ds.headD 0
    match g.succs d with
    | [c] => some (some (d, c))
    | _ => some none

/-- `reserved d c` answers the "rate depends on CL or V assignments" test for the flow d→c. -/
def matchAdvan2 (g : CGraph) (reserved : Nat → Nat → Bool) : Option Bool :=
  if g.n ≠ 2 then some false else
  match depotCentral g with
  | none => none
  | some none => some false
  | some (some (d, c)) =>
    if reserved d c then some false
    else some ((g.succs c).length = 1)

def matchAdvan3 (g : CGraph) : Option Bool :=
  if g.n ≠ 2 then some false else
  match g.dosingComps with
  | none => none
  | some ds =>
    let c := ds.headD 0
    match g.bidir c with
    | [p] => some (!g.flowNZ p 0)
    | _ => some false

def matchAdvan4 (g : CGraph) (reserved : Nat → Nat → Bool) : Option Bool :=
  if g.n ≠ 3 then some false else
  match depotCentral g with
  | none => none
  | some none => some false
  | some (some (d, c)) =>
    if reserved d c then some false
    else match g.bidir c with
      | [p] => some (!(g.flowNZ p 0 || g.flowNZ p d))
      | _ => some false

def matchAdvan11 (g : CGraph) : Option Bool :=
  if g.n ≠ 3 then some false else
  match g.dosingComps with
  | none => none
  | some ds =>
    let c := ds.headD 0
    match g.bidir c with
    | [p, q] => some (!(g.flowNZ p 0 || g.flowNZ q 0 || g.flowNZ p q))
    | _ => some false

def matchAdvan12 (g : CGraph) (reserved : Nat → Nat → Bool) : Option Bool :=
  if g.n ≠ 4 then some false else
  match depotCentral g with
  | none => none
  | some none => some false
  | some (some (d, c)) =>
    if reserved d c then some false
    else match g.bidir c with
      | [p, q] => some (!(g.flowNZ p 0 || g.flowNZ q 0 || g.flowNZ p q))
      | _ => some false

/-- The ADVAN ladder of `new_advan_trans` (`none` = ValueError from a `match_advanN`). -/
def chooseAdvan (g : CGraph) (nonlin hasZo : Bool) (reserved : Nat → Nat → Bool) : Option Advan :=
  if nonlin || hasZo then some .a13
  else if matchAdvan1 g then some .a1
  else match matchAdvan2 g reserved with
  | none => none
  | some true => some .a2
  | some false =>
  match matchAdvan3 g with
  | none => none
  | some true => some .a3
  | some false =>
  match matchAdvan4 g reserved with
  | none => none
  | some true => some .a4
  | some false =>
  match matchAdvan11 g with
  | none => none
  | some true => some .a11
  | some false =>
  match matchAdvan12 g reserved with
  | none => none
  | some true => some .a12
  | some false => some .a5

/-! ### compartment maps -/

/-- `new_compartmental_map`: name ↦ 1-based position in `compartment_names`. -/
def newCompartmentalMap (names : List String) : List (String × Nat) :=
  names.zipIdx.map (fun p => (p.1, p.2 + 1))

/-- `create_compartment_remap(oldmap, newmap)`: old number ↦ new number for names in both.
    (A Python dict: a later entry with the same key overwrites; keys here are the old numbers.) -/
def createCompartmentRemap (oldmap newmap : List (String × Nat)) : List (Nat × Nat) :=
  oldmap.filterMap (fun p => (newmap.lookup p.1).map (fun m => (p.2, m)))

/-! ### specification: the PREDPP shapes -/

/-- The graph has exactly the given edges (all with non-zero rate). -/
def HasExactlyEdges (g : CGraph) (es : List (Nat × Nat)) : Prop :=
  ∀ a b, g.hasEdge a b = true ↔ (a, b) ∈ es

/-- Well-formedness every `CompartmentalSystem` built by the modeling functions satisfies. -/
structure WF (g : CGraph) : Prop where
  noSelf : ∀ a, g.hasEdge a a = false
  srcIn : ∀ a b, g.hasEdge a b = true → 1 ≤ a ∧ a ≤ g.n
  dstIn : ∀ a b, g.hasEdge a b = true → b ≤ g.n
  predSame : ∀ e, e ∈ g.predE ↔ e ∈ g.succE
  toOutput : ∃ a, g.hasEdge a 0 = true
  noZero : g.zeroRate = []

instance (g : CGraph) : Decidable (∃ a, g.hasEdge a 0 = true) :=
  decidable_of_iff (g.succE.any (fun e => e.2 = 0) = true) (by
    simp [CGraph.hasEdge, List.any_eq_true])

end Pharmpy.C02
