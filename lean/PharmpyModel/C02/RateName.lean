/-
  C02 × C01 — the names `update.py` gives to the rate constants of a general linear model
  (ADVAN5 / ADVAN7 branch of `update_pk_parameters`… `param = f'K{sn}{t}{dn}'`) and the
  reading of those names by `advan.py::_find_rates` (`PharmpyModel.C01.Rates`).

  `n` is the NONMEM number of the output compartment (`len(newmap)` in the code, which is
  also the `ncomps` argument `_find_rates` receives when the generated code is read back),
  `sn` the number of the source compartment, `dn` the number of the destination.
-/
import PharmpyModel.C01.Rates
namespace Pharmpy.C02.RateName
open Pharmpy.C01.Rates

/-- Python `str(k)` of a non-negative integer. -/
def digits (k : Nat) : List Char := Nat.toDigits 10 k

/-- `t` in update.py: the `T` separator is needed as soon as one of the two numbers has two
    digits; a flow to the output compartment is written with destination `0`, so there the
    separator is needed exactly when the source has two digits. -/
def sep (n sn dn : Nat) : List Char :=
  if 10 ≤ sn ∨ 10 ≤ dn then
    if dn ≠ n ∨ 10 ≤ sn then ['T'] else []
  else []

/-- The name assigned to the rate `sn → dn`. -/
def rateParam (n sn dn : Nat) : String :=
  String.ofList ('K' :: (digits sn ++ sep n sn dn ++ (if dn = n then ['0'] else digits dn)))

/-- The spellings under which an existing assignment is recognised (`synonyms=names`). -/
def synonyms (n sn dn : Nat) : List String :=
  [String.ofList ('K' :: (digits sn ++ digits dn)), String.ofList ('K' :: (digits sn ++ 'T' :: digits dn))] ++
  (if dn = n then [String.ofList ('K' :: (digits sn ++ ['0'])), String.ofList ('K' :: (digits sn ++ ['T', '0']))] else [])

/-- The separator as written before the repair (`if dest_comp != output: t = 'T'`). -/
def sepOld (n sn dn : Nat) : List Char :=
  if 10 ≤ sn ∨ 10 ≤ dn then
    if dn ≠ n then ['T'] else []
  else []

def rateParamOld (n sn dn : Nat) : String :=
  String.ofList ('K' :: (digits sn ++ sepOld n sn dn ++ (if dn = n then ['0'] else digits dn)))

end Pharmpy.C02.RateName
