import PharmpyModel.C02.Lcs
/-
  C02 — executable model of the node index of a NONMEM code record and of
  `_index_statements_diff` + `CodeRecord.update_statements`
  (`src/pharmpy/model/external/nonmem/records/code_record.py`).

  A record is `children : List ν` (AST nodes: statement nodes, comments,
  blank lines, verbatim code) together with `index : List Idx`, entries
  `(ni, nj, si, sj)` meaning "nodes `children[ni:nj]` are the text of statements
  `statements[si:sj]`".  `gen s` is `_statement_to_nodes` (one statement may be
  printed as SEVERAL nodes: a Piecewise without else becomes a run of logical IFs).

  Python                                   Lean
  ---------------------------------------  ------------------------------------
  `_index_statements_diff(last, index, it)`  `indexDiff` (one op per step; the inner
                                             `while expected > 0` loop is the `pending` state)
  the `yield`s at the end of a group         `flushGroup`
  loop body of `update_statements`           `applyGroup`
  `update_statements`                        `updateStatements`
  `children[a:b]`                            `slice`

  Specification side: `Piece` (a gap of non-statement nodes, or a block of
  nodes with the statements they print), `piecesOf`; `PharmpyProofs/C02/Record*`
  proves that the positional bookkeeping of `updateStatements` is exactly
  `(flatten pieces, indexFrom pieces)` and that every such index is a partition
  whose spans are the blocks.
-/
namespace Pharmpy.C02

/-- `(ni, nj, si, sj)`. -/
abbrev Idx := Nat × Nat × Nat × Nat

/-- Python `l[a:b]` (empty when `b ≤ a`). -/
def slice {α : Type} (l : List α) (a b : Nat) : List α := (l.drop a).take (b - a)

structure Group (σ : Type) where
  op : Int
  stmts : List σ
  ni : Nat
  nj : Nat
  deriving Repr, DecidableEq

section
variable {σ ν : Type}

/-- What `_index_statements_diff` yields when the ops of one index entry are complete. -/
def flushGroup (ni nj : Nat) (ops : List (Op σ)) : List (Group σ) :=
  if ops.all (fun o => o.1 = 0) then [⟨0, ops.map (·.2), ni, nj⟩]
  else
    ⟨-1, (ops.filter (fun o => o.1 ≠ 1)).map (·.2), ni, nj⟩ ::
      (let news := (ops.filter (fun o => o.1 ≠ -1)).map (·.2)
       if news.isEmpty then [] else [⟨1, news, nj, nj⟩])

/-- The statement group being collected: `(ni, nj, expected, ops so far)`. -/
abbrev Pending (σ : Type) := Nat × Nat × Nat × List (Op σ)

/-- `_index_statements_diff(last_node_index, index, it)`; `none` = the generator fails
    (`assert index_index < len(index)`, or the stream ends inside a group). -/
def indexDiff : Nat → List Idx → Option (Pending σ) → List (Op σ) → Option (List (Group σ))
  | _, _, none, [] => some []
  | _, _, some _, [] => none
  | last, idx, none, (op, s) :: rest =>
    if op = 1 then (indexDiff last idx none rest).map (fun gs => ⟨1, [s], last, last⟩ :: gs)
    else match idx with
      | [] => none
      | (ni, nj, si, sj) :: idx' =>
        if sj - si - 1 = 0 then (indexDiff nj idx' none rest).map (fun gs => flushGroup ni nj [(op, s)] ++ gs)
        else indexDiff last idx' (some (ni, nj, sj - si - 1, [(op, s)])) rest
  | last, idx, some (ni, nj, expected, acc), (op, s) :: rest =>
    if (if op ≠ 1 then expected - 1 else expected) = 0 then
      (indexDiff nj idx none rest).map (fun gs => flushGroup ni nj (acc ++ [(op, s)]) ++ gs)
    else indexDiff last idx (some (ni, nj, (if op ≠ 1 then expected - 1 else expected), acc ++ [(op, s)])) rest

/-- Loop state of `update_statements`. -/
structure UState (ν : Type) where
  children : List ν
  index : List Idx
  si : Nat
  last : Nat
  deriving Repr

/-- The `for s in statements:` loop of an insertion group. -/
def insertStmts (gen : σ → List ν) : List σ → List ν × List Idx × Nat → List ν × List Idx × Nat
  | [], acc => acc
  | s :: ss, (ch, ix, si) =>
    let nodes := gen s
    let pos := ch.length
    insertStmts gen ss (ch ++ nodes, ix ++ [(pos, pos + nodes.length, si, si + 1)], si + 1)

/-- One iteration of the main loop of `update_statements`. -/
def applyGroup (gen : σ → List ν) (old : List ν) (st : UState ν) (g : Group σ) : UState ν :=
  let c1 := st.children ++ slice old st.last g.ni
  if g.op = 1 then
    let r := insertStmts gen g.stmts (c1, st.index, st.si)
    ⟨r.1, r.2.1, r.2.2, g.nj⟩
  else if g.op = 0 then
    let pos := c1.length
    ⟨c1 ++ slice old g.ni g.nj, st.index ++ [(pos, pos + (g.nj - g.ni), st.si, st.si + g.stmts.length)],
      st.si + g.stmts.length, g.nj⟩
  else ⟨c1, st.index, st.si, g.nj⟩

def applyGroups (gen : σ → List ν) (old : List ν) : UState ν → List (Group σ) → UState ν
  | st, [] => st
  | st, g :: gs => applyGroups gen old (applyGroup gen old st g) gs

/-- `first_statement_index`: the first indexed node, or `fallback` (first verbatim node / end). -/
def firstStatementIndex (index : List Idx) (fallback : Nat) : Nat :=
  match index with
  | [] => fallback
  | e :: _ => e.1

/-- `CodeRecord.update_statements`: new children and new index, from the diff `ops` old → new. -/
def updateStatements (gen : σ → List ν) (old : List ν) (index : List Idx) (fallback : Nat)
    (ops : List (Op σ)) : Option (List ν × List Idx) :=
  match indexDiff (firstStatementIndex index fallback) index none ops with
  | none => none
  | some groups =>
    let st := applyGroups gen old ⟨[], [], 0, 0⟩ groups
    some (st.children ++ old.drop st.last, st.index)

/-! ### specification side -/

inductive Piece (ν σ : Type) where
  | gap : List ν → Piece ν σ
  | block : List ν → List σ → Piece ν σ
  deriving Repr

def Piece.nodes : Piece ν σ → List ν
  | .gap ns => ns
  | .block ns _ => ns

def Piece.stmts : Piece ν σ → List σ
  | .gap _ => []
  | .block _ ss => ss

def nodesOf (ps : List (Piece ν σ)) : List ν := ps.flatMap Piece.nodes
def stmtsOf (ps : List (Piece ν σ)) : List σ := ps.flatMap Piece.stmts

/-- The index that describes a piece list laid out from node offset `off`, statement offset `si`. -/
def indexFrom : Nat → Nat → List (Piece ν σ) → List Idx
  | _, _, [] => []
  | off, si, .gap ns :: ps => indexFrom (off + ns.length) si ps
  | off, si, .block ns ss :: ps =>
    (off, off + ns.length, si, si + ss.length) :: indexFrom (off + ns.length) (si + ss.length) ps

/-- Pieces contributed by one group. -/
def piecesOfGroup (gen : σ → List ν) (old : List ν) (last : Nat) (g : Group σ) : List (Piece ν σ) :=
  .gap (slice old last g.ni) ::
    (if g.op = 1 then g.stmts.map (fun s => .block (gen s) [s])
     else if g.op = 0 then [.block (slice old g.ni g.nj) g.stmts]
     else [])

def piecesOfGroups (gen : σ → List ν) (old : List ν) : Nat → List (Group σ) → List (Piece ν σ)
  | last, [] => [.gap (old.drop last)]
  | last, g :: gs => piecesOfGroup gen old last g ++ piecesOfGroups gen old g.nj gs

/-- Statements that survive into the new record (kept and inserted groups). -/
def groupStmts : List (Group σ) → List σ
  | [] => []
  | g :: gs => (if g.op = 1 ∨ g.op = 0 then g.stmts else []) ++ groupStmts gs

/-- An index is a partition: spans ordered, disjoint, inside the node list; statement ranges consecutive. -/
def IndexWF : Nat → Nat → Nat → Nat → List Idx → Prop
  | off, si, nN, nS, [] => off ≤ nN ∧ si = nS
  | off, si, nN, nS, (ni, nj, s0, s1) :: es => off ≤ ni ∧ ni ≤ nj ∧ s0 = si ∧ si ≤ s1 ∧ IndexWF nj s1 nN nS es

end
end Pharmpy.C02
