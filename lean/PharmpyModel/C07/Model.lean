import PharmpyModel.Core.Stmts
/-
  C07 — executable model of pharmpy's "model preserving" statement rewrites

    make_declarative            (modeling/expressions.py)
    cleanup_model, inlining pass (modeling/expressions.py)
    replace_non_random_rvs      (statements.subs of constants; modeling/random_variables.py)
    replace_fixed_thetas        (prepends `theta = init`; modeling/parameters.py)
    rename_symbols / greekify   (statements.subs of a symbol→symbol map; modeling/common.py)
    mu_reference_model          (statement surgery only; modeling/expressions.py)
    get_observation_expression  (first assignment of the DV, expanded backwards)

  Statements are the shared `Expr` plus a C07-specific statement type: the ODE
  system carries its *expressions* (rates, dose amounts, lag times, …) because
  all of the rewrites substitute into them (`CompartmentalSystem.subs`).  An
  ODE system sets every amount to an uninterpreted function of the current
  values of its expressions.  `ofCore` embeds the shared `Stmt`.

  Encoding convention (harness/common/exprconv.py): applied functions such as
  `A_CENTRAL(t)` are atoms; pharmpy's `Expr.is_symbol()` is true for them too
  (symengine `FunctionSymbol`), so `X = A_CENTRAL(t)` is an alias for cleanup_model.
-/
namespace Pharmpy.C07
open Pharmpy

inductive St where
  | assign : Sym → Expr → St
  | ode    : List Sym → List Expr → St      -- amounts, expressions of the system
  deriving DecidableEq, Repr, Inhabited

namespace St

def defs : St → List Sym
  | assign x _ => [x]
  | ode a _    => a

def reads : St → List Sym
  | assign _ e => e.syms
  | ode _ r    => r.flatMap Expr.syms

def exec {α : Type} (I : Interp α) (ρ : Env α) : St → Env α
  | assign x e => ρ.set x (e.eval I ρ)
  | ode a r    => fun y => if y ∈ a then I.fn ("ode:" ++ y) (r.map (Expr.eval I ρ)) else ρ y

def ofCore : Stmt → St
  | .assign x e => assign x e
  | .ode a r    => ode a (r.map Expr.sym)

end St

/-- Sequential execution. -/
def run {α : Type} (I : Interp α) (ss : List St) (ρ : Env α) : Env α :=
  ss.foldl (fun ρ s => s.exec I ρ) ρ

/-- Symbols on the left of an assignment, in order. -/
def lhs : List St → List Sym
  | [] => []
  | .assign x _ :: ss => x :: lhs ss
  | .ode _ _ :: ss => lhs ss

/-! ### Python `dict` of pending substitutions (`current`) -/

abbrev Sub := List (Sym × Expr)

namespace Sub

def get : Sub → Sym → Option Expr
  | [], _ => none
  | (k, v) :: σ, x => if x = k then some v else get σ x

def del (σ : Sub) (x : Sym) : Sub := σ.filter (fun p => p.1 != x)

/-- `current[x] = e` (overwrites). -/
def set (σ : Sub) (x : Sym) (e : Expr) : Sub := (x, e) :: σ.del x

def dom (σ : Sub) : List Sym := σ.map (·.1)

/-- Symbols read by the pending values. -/
def rangeSyms (σ : Sub) : List Sym := σ.flatMap (fun p => p.2.syms)

end Sub

/-- `expr.subs(current)`: simultaneous, one pass. -/
def substE (σ : Sub) (e : Expr) : Expr := e.subst σ.get

/-- `Assignment.create(s.symbol, s.expression.subs(current))` resp.
    `CompartmentalSystem.subs(current)`: right-hand sides only. -/
def St.substRhs (σ : Sub) : St → St
  | .assign x e => .assign x (substE σ e)
  | .ode a r    => .ode a (r.map (substE σ))

/-- `Assignment.subs` also substitutes the assigned symbol. -/
def lhsSubst (σ : Sub) (x : Sym) : Sym :=
  match σ.get x with
  | some (.sym y) => y
  | _ => x

/-- `Statement.subs(d)` as used by `Statements.subs`, `cleanup_model`. -/
def St.substAll (σ : Sub) : St → St
  | .assign x e => .assign (lhsSubst σ x) (substE σ e)
  | .ode a r    => .ode (a.map (lhsSubst σ)) (r.map (substE σ))

/-! ### make_declarative -/

def assignsTo (x : Sym) : St → Bool
  | .assign y _ => y == x
  | .ode _ _ => false

def assignedIn (x : Sym) (ss : List St) : Bool := ss.any (assignsTo x)

/-! #### the code before the repair e5b2100 (kept for the witness theorems) -/

/-- Second loop of `make_declarative` as it was before `fix: make_declarative substitutes pending values into the
    first assignment of a reassigned symbol`.  `seen` = symbols assigned so far
    (`i not in duplicated_symbols[s.symbol]` ⇔ first assignment of the symbol
    ⇔ not in `seen`); a symbol is in `duplicated_symbols` iff it is assigned
    earlier or later; the index list becomes empty exactly at the last
    assignment. -/
def mdGoOld (seen : List Sym) (cur : Sub) : List St → List St
  | [] => []
  | .ode a r :: rest => .ode a (r.map (substE cur)) :: mdGoOld seen cur rest
  | .assign x e :: rest =>
    if !seen.contains x && !assignedIn x rest then
      .assign x (substE cur e) :: mdGoOld (x :: seen) cur rest          -- not duplicated
    else if !seen.contains x then
      mdGoOld (x :: seen) (cur.set x e) rest                             -- first of several: NOT substituted
    else if assignedIn x rest then
      mdGoOld seen (cur.set x (substE cur e)) rest                       -- in the middle
    else
      .assign x (substE cur e) :: mdGoOld seen (cur.del x) rest          -- last: emit, `del current[x]`

def makeDeclarativeOld (ss : List St) : List St := mdGoOld [] [] ss

/-- The decidable side-condition of the pre-repair code: (a) the first assignment of a
    re-assigned symbol reads no symbol whose inlined value is pending (the
    code stores that expression un-substituted); (b) no emitted statement
    defines a symbol that a still pending value reads (the pending value
    would silently switch to the new value). -/
def mdSafeOld (seen : List Sym) (cur : Sub) : List St → Bool
  | [] => true
  | .ode a _ :: rest =>
    a.all (fun y => !cur.dom.contains y && !cur.rangeSyms.contains y) && mdSafeOld seen cur rest
  | .assign x e :: rest =>
    if !seen.contains x && !assignedIn x rest then
      !cur.rangeSyms.contains x && mdSafeOld (x :: seen) cur rest
    else if !seen.contains x then
      e.syms.all (fun y => !cur.dom.contains y) && mdSafeOld (x :: seen) (cur.set x e) rest
    else if assignedIn x rest then
      mdSafeOld seen (cur.set x (substE cur e)) rest
    else
      !(cur.del x).rangeSyms.contains x && mdSafeOld seen (cur.del x) rest

def noStaleCaptureOld (ss : List St) : Bool := mdSafeOld [] [] ss

/-! #### make_declarative as it is now: the pending values are substituted into the first assignment too -/

/-- Second loop of `make_declarative`.  A symbol is in `duplicated_symbols` iff it is assigned earlier (`seen`) or
    later; `i not in duplicated_symbols[s.symbol]` ⇔ first assignment; the index list becomes empty exactly at the
    last assignment.  First and middle assignments both store `s.expression.subs(current)`.  (`mdLit` below is the
    index-list transcription; the driver answers with both and the harness compares them with the code.) -/
def mdGo (seen : List Sym) (cur : Sub) : List St → List St
  | [] => []
  | .ode a r :: rest => .ode a (r.map (substE cur)) :: mdGo seen cur rest
  | .assign x e :: rest =>
    if !seen.contains x && !assignedIn x rest then
      .assign x (substE cur e) :: mdGo (x :: seen) cur rest
    else if assignedIn x rest then
      mdGo (x :: seen) (cur.set x (substE cur e)) rest          -- first or middle: always substituted
    else
      .assign x (substE cur e) :: mdGo seen (cur.del x) rest

/-- The decidable side-condition `NoStaleCapture` of the current code — only clause (b) of `mdSafeOld` remains:
    no emitted statement defines a symbol that a still pending value reads. -/
def mdSafe (seen : List Sym) (cur : Sub) : List St → Bool
  | [] => true
  | .ode a _ :: rest =>
    a.all (fun y => !cur.dom.contains y && !cur.rangeSyms.contains y) && mdSafe seen cur rest
  | .assign x e :: rest =>
    if !seen.contains x && !assignedIn x rest then
      !cur.rangeSyms.contains x && mdSafe (x :: seen) cur rest
    else if assignedIn x rest then
      mdSafe (x :: seen) (cur.set x (substE cur e)) rest
    else
      !(cur.del x).rangeSyms.contains x && mdSafe seen (cur.del x) rest

def makeDeclarative (ss : List St) : List St := mdGo [] [] ss

def noStaleCapture (ss : List St) : Bool := mdSafe [] [] ss

/-! #### literal transcription with index lists -/

/-- First loop: `duplicated_symbols` (symbol ↦ indices of all but the first assignment). -/
def dupTable (ss : List St) : List (Sym × List Nat) :=
  let rec go (i : Nat) (assigned : List Sym) (dups : List (Sym × List Nat)) : List St → List (Sym × List Nat)
    | [] => dups
    | .ode _ _ :: rest => go (i + 1) assigned dups rest
    | .assign x _ :: rest =>
      if assigned.contains x then
        let old := (dups.lookup x).getD []
        go (i + 1) assigned ((x, old ++ [i]) :: dups.filter (fun p => p.1 != x)) rest
      else go (i + 1) (x :: assigned) dups rest
  go 0 [] [] ss

def mdLit (ss : List St) : List St :=
  let rec go (i : Nat) (dups : List (Sym × List Nat)) (cur : Sub) : List St → List St
    | [] => []
    | .ode a r :: rest => .ode a (r.map (substE cur)) :: go (i + 1) dups cur rest
    | .assign x e :: rest =>
      match dups.lookup x with
      | some idx =>
        if !idx.contains i then
          go (i + 1) dups (cur.set x (substE cur e)) rest
        else
          let idx' := idx.drop 1
          let dups' := (x, idx') :: dups.filter (fun p => p.1 != x)
          if !idx'.isEmpty then
            go (i + 1) dups' (cur.set x (substE cur e)) rest
          else
            .assign x (substE cur e) :: go (i + 1) dups' (cur.del x) rest
      | none => .assign x (substE cur e) :: go (i + 1) dups cur rest
  go 0 (dupTable ss) [] ss

/-! ### cleanup_model: inlining of `X = Y` assignments -/

def inlineGo (cur : Sub) : List St → List St
  | [] => []
  | .assign x (.sym y) :: rest => inlineGo (cur.set x (.sym y)) rest     -- stored un-substituted, statement dropped
  | s :: rest => s.substAll cur :: inlineGo cur rest

/-- The alias table at the end of the pass. -/
def inlineFinal (cur : Sub) : List St → Sub
  | [] => cur
  | .assign x (.sym y) :: rest => inlineFinal (cur.set x (.sym y)) rest
  | _ :: rest => inlineFinal cur rest

def cleanupInline (ss : List St) : List St := inlineGo [] ss

/-- Side-condition: an alias target is not itself a pending alias (the code
    does not chase chains), no kept statement defines an alias or a symbol an
    alias points to. -/
def inlineSafe (cur : Sub) : List St → Bool
  | [] => true
  | .assign x (.sym y) :: rest => !cur.dom.contains y && inlineSafe (cur.set x (.sym y)) rest
  | s :: rest =>
    s.defs.all (fun d => !cur.dom.contains d && !cur.rangeSyms.contains d) && inlineSafe cur rest

/-! ### constants: replace_non_random_rvs (substitute) / replace_fixed_thetas (prepend) -/

def constSub (d : List (Sym × Int)) : Sub := d.map (fun p => (p.1, Expr.lit p.2))

/-- `model.statements.subs(d)` with `d` mapping symbols to numbers. -/
def substConsts (d : List (Sym × Int)) (ss : List St) : List St :=
  ss.map (St.substAll (constSub d))

/-- `new_assignments + model.statements`. -/
def prependConsts (d : List (Sym × Expr)) (ss : List St) : List St :=
  d.map (fun p => St.assign p.1 p.2) ++ ss

/-! ### replace_non_random_rvs: which random variables are "not actually random" -/

/-- A distribution of `model.random_variables`: its random variables and its parameter names
    (variances and covariances; a joint/BLOCK distribution has several of each). -/
structure Dist where
  rvs : List Sym
  params : List Sym
  deriving DecidableEq, Repr, Inhabited

/-- The for/else loop: a distribution is dropped iff *every* parameter is `init == 0 and fix`
    (`zf` = names of the parameters that are fixed to zero). -/
def Dist.allZeroFix (zf : List Sym) (d : Dist) : Bool := d.params.all (fun p => zf.contains p)

def removedDists (zf : List Sym) (dists : List Dist) : List Dist := dists.filter (Dist.allZeroFix zf)

def keptDists (zf : List Sym) (dists : List Dist) : List Dist := dists.filter (fun d => !d.allZeroFix zf)

/-- Keys of `d`: parameters and random variables of the dropped distributions. -/
def nonRandomSyms (zf : List Sym) (dists : List Dist) : List Sym :=
  (removedDists zf dists).flatMap (fun d => d.params ++ d.rvs)

def nonRandomConsts (zf : List Sym) (dists : List Dist) : List (Sym × Int) :=
  (nonRandomSyms zf dists).map (fun x => (x, 0))

/-- `new_statements = model.statements.subs(d)`. -/
def replaceNonRandom (zf : List Sym) (dists : List Dist) (ss : List St) : List St :=
  substConsts (nonRandomConsts zf dists) ss

/-! ### rename_symbols / greekify_model -/

def renameE (r : Sym → Sym) : Expr → Expr
  | .lit n => .lit n
  | .sym s => .sym (r s)
  | .f1 f a => .f1 f (renameE r a)
  | .f2 f a b => .f2 f (renameE r a) (renameE r b)
  | .f3 f a b c => .f3 f (renameE r a) (renameE r b) (renameE r c)

/-- Amount functions (`A_CENTRAL(t)`) are derived from compartment names and
    are not touched by `CompartmentalSystem.subs`. -/
def St.rename (r : Sym → Sym) : St → St
  | .assign x e => .assign (r x) (renameE r e)
  | .ode a es   => .ode a (es.map (renameE r))

def renameAll (r : Sym → Sym) (ss : List St) : List St := ss.map (St.rename r)

/-- Renaming given as a finite table (`new_names`), identity elsewhere. -/
def tableFn (t : List (Sym × Sym)) (x : Sym) : Sym :=
  match t.lookup x with
  | some y => y
  | none => x

/-- Decidable sufficient condition for `tableFn t` to be injective on a
    universe of symbols `univ`: images of distinct universe symbols differ. -/
def injectiveOn (t : List (Sym × Sym)) (univ : List Sym) : Bool :=
  univ.all (fun a => univ.all (fun b => a == b || tableFn t a != tableFn t b))

/-! ### mu_reference_model: replace statement `k` (`x = e`) by `mu = m ; x = e'` -/

def muInsert (ss : List St) (k : Nat) (mu : Sym) (m e' : Expr) : List St :=
  match ss[k]? with
  | some (.assign x _) => ss.take k ++ [.assign mu m, .assign x e'] ++ ss.drop (k + 1)
  | _ => ss

/-! ### get_observation_expression -/

/-- Index of the *first* statement whose symbol is the DV (`for i, s in enumerate(stats): if s.symbol == dv`). -/
def firstIndex (dv : Sym) : List St → Option Nat
  | [] => none
  | .assign x _ :: rest => if x = dv then some 0 else (firstIndex dv rest).map (· + 1)
  | .ode _ _ :: rest => (firstIndex dv rest).map (· + 1)

/-- `for j in range(i, -1, -1): y = y.subs({stats[j].symbol: stats[j].expression})`
    over a prefix; `none` when an ODE system is met (AttributeError in the code). -/
def expandStep (s : St) (acc : Option Expr) : Option Expr :=
  match s, acc with
  | _, none => none
  | .ode _ _, some _ => none
  | .assign x t, some e => some (Expr.subst1 x t e)

def expandBack (pre : List St) (e : Expr) : Option Expr :=
  pre.foldr expandStep (some e)

def obsExpr (ss : List St) (dv : Sym) : Option Expr :=
  match firstIndex dv ss with
  | none => none
  | some i =>
    match ss[i]? with
    | some (.assign _ t) => expandBack (ss.take (i + 1)) t     -- `y = s.expression`, then j = i, i-1, …, 0
    | _ => none

/-- Side-condition under which the *first* assignment is the observation: the DV
    is not defined again later and its defining expression does not read the DV
    (the loop substitutes statement `i` into its own expression once more). -/
def obsSafe (ss : List St) (dv : Sym) : Bool :=
  match firstIndex dv ss with
  | none => false
  | some i =>
    (ss.drop (i + 1)).all (fun s => !s.defs.contains dv) &&
    (match ss[i]? with
     | some (.assign _ t) => !t.syms.contains dv
     | _ => false)

/-- `get_individual_prediction_expression` / `get_population_prediction_expression`:
    set the given random variables to zero. -/
def zeroSub (xs : List Sym) : Sub := xs.map (fun x => (x, Expr.lit 0))

def predExpr (ss : List St) (dv : Sym) (zero : List Sym) : Option Expr :=
  (obsExpr ss dv).map (substE (zeroSub zero))

/-! ### numeric evaluators (modeling/evaluation.py): the `parameters` mapping

  `ParameterMap = Mapping[Union[str, sympy.Symbol], float]`: a key is a parameter NAME given as a
  string, as a sympy symbol or as a pharmpy `Expr` symbol.  `expr.subs(mapping)` sympifies every key
  to the symbol of its name; when two entries denote the same symbol the first inserted one wins.
  The evaluators are `eval` of the extracted expression under the environment the mapping denotes. -/

inductive Key where
  | str    : Sym → Key
  | symbol : Sym → Key
  | expr   : Sym → Key
  deriving DecidableEq, Repr, Inhabited

def Key.name : Key → Sym
  | .str n => n
  | .symbol n => n
  | .expr n => n

def Key.isStr : Key → Bool
  | .str _ => true
  | _ => false

/-- A Python mapping in insertion order (keys pairwise different as Python objects). -/
abbrev PMap := List (Key × Expr)

namespace PMap

/-- The value a mapping gives to a parameter NAME: first entry whose key denotes that name. -/
def value : PMap → Sym → Option Expr
  | [], _ => none
  | (k, v) :: m, n => if n = k.name then some v else value m n

/-- `mapping[key]` by Python key equality (a `str` never equals a symbol). -/
def atKey : PMap → Key → Option Expr
  | [], _ => none
  | (k, v) :: m, q => if q = k then some v else atKey m q

/-- What `Expr.subs(mapping)` substitutes. -/
def toSub (m : PMap) : Sub := m.map (fun p => (p.1.name, p.2))

end PMap

/-- `model.parameters.inits`: keyed by name strings. -/
def initsMap (inits : List (Sym × Expr)) : PMap := inits.map (fun p => (Key.str p.1, p.2))

/-- `mapping = model.parameters.inits if parameters is None else parameters`
    (evaluate_population_prediction, evaluate_individual_prediction, both gradient evaluators,
    evaluate_weighted_residuals). -/
def directMapping (inits : List (Sym × Expr)) : Option PMap → PMap
  | none => initsMap inits
  | some m => m

/-- Python `{**base, **given}`: entries of `base` keep their position and take the value `given` has
    at the *same key*; entries of `given` whose key is not a key of `base` follow. -/
def pyMerge (base given : PMap) : PMap :=
  base.map (fun q => (q.1, (given.atKey q.1).getD q.2)) ++
    given.filter (fun p => !(base.any (fun q => q.1 == p.1)))

/-- `d[k] = v` on an insertion-ordered dict. -/
def pyInsert (m : PMap) (k : Key) (v : Expr) : PMap :=
  if m.any (fun q => q.1 == k) then m.map (fun q => if q.1 == k then (q.1, v) else q) else m ++ [(k, v)]

/-- `{str(key): value for key, value in parameter_estimates.items()}`. -/
def normalise (m : PMap) : PMap :=
  m.foldl (fun acc p => pyInsert acc (Key.str p.1.name) p.2) []

/-- evaluate_expression since 20af928:
    `inits if parameter_estimates is None else {**inits, **{str(key): value for key, value in parameter_estimates.items()}}`. -/
def mergedMapping (inits : List (Sym × Expr)) : Option PMap → PMap
  | none => initsMap inits
  | some m => pyMerge (initsMap inits) (normalise m)

/-- evaluate_expression before 20af928: `{**inits, **parameter_estimates}` (keys merged as Python objects). -/
def mergedMappingOld (inits : List (Sym × Expr)) : Option PMap → PMap
  | none => initsMap inits
  | some m => pyMerge (initsMap inits) m

/-- `expr.subs(mapping)`. -/
def evalWith (m : PMap) (e : Expr) : Expr := substE m.toSub e

/-- evaluate_population_prediction / evaluate_individual_prediction as expressions over the data
    columns (and etas): prediction extractor, then the parameter mapping. -/
def evaluatePred (ss : List St) (dv : Sym) (zero : List Sym) (m : PMap) : Option Expr :=
  (predExpr ss dv zero).map (evalWith m)

/-- evaluate_expression: `statements.full_expression(expression)` (C10), then the mapping. -/
def evaluateExpression (ss : List St) (e : Expr) (m : PMap) : Option Expr :=
  (expandBack ss e).map (evalWith m)

/-- The environment a mapping denotes over `ρ`: parameters named by the mapping take its values. -/
def overlay {α : Type} (I : Interp α) (ρ : Env α) (m : PMap) : Env α :=
  fun y => match m.value y with
    | some v => v.eval I ρ
    | none => ρ y

/-! ### eval_expr (internals/expr/eval.py): binding the data arrays to the symbols

  `eval_expr(expr, n, datamap)` orders the free symbols, fetches `datamap[symbol]` for each and
  calls the compiled function with the arrays in that order.  Its contract: the value at a record
  is `eval` of the expression under the environment that binds EACH symbol to ITS column — binding
  by name; the order chosen for the argument list is an implementation detail. -/

/-- First value paired with `y`. -/
def assocGet {α : Type} : List (Sym × α) → Sym → Option α
  | [], _ => none
  | (k, v) :: l, y => if y = k then some v else assocGet l y

/-- The environment an argument list denotes: symbol `i` is bound to value `i`. -/
def bindEnv {α : Type} (pairs : List (Sym × α)) (dflt : Env α) : Env α :=
  fun y => match assocGet pairs y with
    | some v => v
    | none => dflt y

/-- Value of the compiled function at one record: `fn(*data)` with `data[i] = datamap[symbols[i]]`. -/
def evalRow {α : Type} (I : Interp α) (e : Expr) (symbols : List Sym) (data : List α) (dflt : Env α) : α :=
  e.eval I (bindEnv (symbols.zip data) dflt)

end Pharmpy.C07
