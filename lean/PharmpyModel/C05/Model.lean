import PharmpyModel.C05.Graph
/-
  C05 — executable model of `CompartmentalSystemBuilder` / `CompartmentalSystem`
  (src/pharmpy/model/statements.py), mirroring the code as it is.

  `ε` is the type of expressions (rates, amounts, inputs, lag times, …).  The
  driver instantiates it with `Pharmpy.Expr`; the theorems are for every `ε`
  with decidable equality and a zero test.
-/
namespace Pharmpy.C05

/-- what the model needs to know about expressions: `e != 0` (used on `Compartment.input`) -/
class ExprLike (ε : Type) where
  isZero : ε → Bool

inductive Dose (ε : Type) where
  | bolus (amount : ε) (admid : Int)
  | infusion (amount : ε) (admid : Int) (rate : Option ε) (duration : Option ε)
  deriving DecidableEq, Repr

namespace Dose
variable {ε : Type}
def admid : Dose ε → Int
  | bolus _ a => a
  | infusion _ a _ _ => a
def isInfusion : Dose ε → Bool
  | bolus _ _ => false
  | infusion _ _ _ _ => true
end Dose

/-- `Compartment` (a value: equality and hash are over all six fields) -/
structure Comp (ε : Type) where
  name : String
  amount : ε
  doses : List (Dose ε)          -- `_doses`, the stored tuple
  input : ε
  lagTime : ε
  bioavailability : ε
  deriving DecidableEq, Repr

/-- `Compartment.doses` (the property): with more than one dose, infusions first (stable) -/
def Comp.dosesView {ε : Type} (c : Comp ε) : List (Dose ε) :=
  if c.doses.length > 1 then c.doses.filter (·.isInfusion) ++ c.doses.filter (fun d => !d.isInfusion)
  else c.doses

/-- graph node: the singleton `output` or a compartment -/
inductive Node (ε : Type) where
  | output
  | comp (c : Comp ε)
  deriving DecidableEq, Repr

namespace Node
variable {ε : Type}
def isOutput : Node ε → Bool
  | output => true
  | comp _ => false
/-- `.name` (never asked of `output` by the code; "" there) -/
def name : Node ε → String
  | output => ""
  | comp c => c.name
def comp? : Node ε → Option (Comp ε)
  | output => none
  | comp c => some c
end Node

abbrev CGraph (ε : Type) := Graph (Node ε) ε

inductive Err where
  | valueError | networkXError | unsupported
  deriving DecidableEq, Repr

section
variable {ε : Type} [DecidableEq ε]

/-- `CompartmentalSystemBuilder()` : a DiGraph holding the output node -/
def newBuilder : CGraph ε := (Graph.empty).addNode .output

/-- `_comps(graph)` listed in node order (the code has a set; every use sorts by name or
    only iterates) -/
def comps (g : CGraph ε) : List (Node ε) := g.nodes.filter (fun n => !n.isOutput)

/-- `sorted(xs, key=lambda c: c.name)` (stable) -/
def sortByName (xs : List (Node ε)) : List (Node ε) :=
  xs.mergeSort (fun a b => decide (a.name ≤ b.name))

/-! #### builder operations -/

def addCompartment (g : CGraph ε) (c : Comp ε) : CGraph ε := g.addNode (.comp c)

def removeCompartment (g : CGraph ε) (c : Comp ε) : Except Err (CGraph ε) :=
  if Node.comp c ∈ g.nodes then .ok (g.removeNode (.comp c)) else .error .networkXError

def addFlow (g : CGraph ε) (s : Comp ε) (d : Node ε) (r : ε) : CGraph ε := g.addEdge (.comp s) d r

def removeFlow (g : CGraph ε) (s : Comp ε) (d : Node ε) : Except Err (CGraph ε) :=
  if (g.getFlow (.comp s) d).isSome then .ok (g.removeEdge (.comp s) d) else .error .networkXError

def relabelE (g : CGraph ε) (m : List (Node ε × Node ε)) : Except Err (CGraph ε) :=
  match g.relabel m with
  | some g' => .ok g'
  | none => .error .unsupported

/-- `if admid:` — `None` and `0` are both false -/
def admidGiven : Option Int → Option Int
  | some 0 => none
  | a => a

def moveDose (g : CGraph ε) (src dst : Comp ε) (admid : Option Int) : Except Err (CGraph ε) :=
  if src.dosesView.isEmpty then .error .valueError
  else
    let keep := match admidGiven admid with
      | some a => src.dosesView.filter (fun d => d.admid ≠ a)
      | none => []
    let moved := match admidGiven admid with
      | some a => src.dosesView.filter (fun d => d.admid = a)
      | none => src.dosesView
    let newSrc := { src with doses := keep }
    let newDst := { dst with doses := dst.dosesView ++ moved }
    -- `{source: new_source, destination: new_dest}`: one key when source == destination
    let m := if src = dst then [(Node.comp src, Node.comp newDst)]
             else [(Node.comp src, Node.comp newSrc), (Node.comp dst, Node.comp newDst)]
    relabelE g m

def setDose (g : CGraph ε) (c : Comp ε) (ds : List (Dose ε)) : Except Err (CGraph ε) :=
  relabelE g [(.comp c, .comp { c with doses := ds })]

def addDose (g : CGraph ε) (c : Comp ε) (ds : List (Dose ε)) : Except Err (CGraph ε) :=
  relabelE g [(.comp c, .comp { c with doses := c.dosesView ++ ds })]

def removeDose (g : CGraph ε) (c : Comp ε) (admid : Option Int) : Except Err (CGraph ε) :=
  let ds := match admidGiven admid with
    | some a => c.dosesView.filter (fun d => d.admid ≠ a)
    | none => []
  relabelE g [(.comp c, .comp { c with doses := ds })]

def setLagTime (g : CGraph ε) (c : Comp ε) (e : ε) : Except Err (CGraph ε) :=
  relabelE g [(.comp c, .comp { c with lagTime := e })]

def setBioavailability (g : CGraph ε) (c : Comp ε) (e : ε) : Except Err (CGraph ε) :=
  relabelE g [(.comp c, .comp { c with bioavailability := e })]

def setInput (g : CGraph ε) (c : Comp ε) (e : ε) : Except Err (CGraph ε) :=
  relabelE g [(.comp c, .comp { c with input := e })]

/-- the mapping of `CompartmentalSystem.subs`: `{comp: comp.subs(σ) for comp in _comps(self._g)}`;
    `_comps` is the list of compartments IN NODE ORDER (since /repo 459172f; it was a set before) -/
def subsMapping (g : CGraph ε) (f : Node ε → Node ε) : List (Node ε × Node ε) :=
  (comps g).map (fun n => (n, f n))

/-- `CompartmentalSystem.subs`: the substituted rates (`rate`) and compartments (`f`) are supplied
    (they are computed by sympy/symengine); the model is the graph surgery: every rate replaced, then
    `relabel_nodes(cb._g, mapping, copy=False)` with the mapping in node order. -/
def subsGraph (g : CGraph ε) (rate : ε → ε) (f : Node ε → Node ε) : Except Err (CGraph ε) :=
  relabelE (g.mapRates rate) (subsMapping g f)

/-! #### `subs` with the substitution itself: a map `σ` on expressions applied to every field -/

/-- `Dose.subs` -/
def Dose.mapExpr (σ : ε → ε) : Dose ε → Dose ε
  | .bolus a i => .bolus (σ a) i
  | .infusion a i r d => .infusion (σ a) i (r.map σ) (d.map σ)

/-- `Compartment.subs`: every expression field substituted (the doses are taken from the `doses` property,
    i.e. re-sorted infusions first); the name stays -/
def Comp.mapExpr (σ : ε → ε) (c : Comp ε) : Comp ε :=
  { name := c.name, amount := σ c.amount, doses := c.dosesView.map (Dose.mapExpr σ), input := σ c.input,
    lagTime := σ c.lagTime, bioavailability := σ c.bioavailability }

def Node.mapExpr (σ : ε → ε) : Node ε → Node ε
  | .output => .output
  | .comp c => .comp (c.mapExpr σ)

/-- `CompartmentalSystem.subs(σ)`: every rate and every compartment substituted -/
def subsSigma (g : CGraph ε) (σ : ε → ε) : Except Err (CGraph ε) := subsGraph g σ (Node.mapExpr σ)

/-! #### queries of `CompartmentalSystem` -/

def specialNames : List String := ["METABOLITE", "EFFECT", "COMPLEX", "RESPONSE"]

/-- `find_compartment(name)` -/
def findCompartment (g : CGraph ε) (nm : String) : Option (Node ε) :=
  (comps g).find? (fun n => n.name = nm)

/-- `central_compartment`: last predecessor of `output`; the four special names redirect
    to the compartment called CENTRAL; `ValueError` otherwise. -/
def centralCompartment (g : CGraph ε) : Except Err (Node ε) :=
  match (g.predsOf .output).getLast? with
  | none => .error .valueError
  | some c =>
    if c.name ∈ specialNames then
      match findCompartment g "CENTRAL" with
      | some c' => .ok c'
      | none => .error .valueError
    else .ok c

/-- the loop body of `dosing_compartments` -/
def dosingStep (centralName : String) (acc : List (Node ε)) (n : Node ε) : List (Node ε) :=
  if n.name ≠ centralName then
    if acc.length ≥ 2 then acc.dropLast ++ [n] ++ (acc.drop (acc.length - 1))
    else n :: acc
  else acc ++ [n]

def hasDoses : Node ε → Bool
  | .output => false
  | .comp c => !c.dosesView.isEmpty

/-- `dosing_compartments`.  `self.central_compartment` is evaluated only when a compartment
    with doses is met, so without doses the error is the final `ValueError`; with doses
    and no central compartment it is the `ValueError` of `central_compartment`. -/
def dosingCompartments (g : CGraph ε) : Except Err (List (Node ε)) :=
  let dosed := (sortByName (comps g)).filter hasDoses
  if dosed.isEmpty then .error .valueError
  else match centralCompartment g with
    | .error e => .error e
    | .ok central => .ok (dosed.foldl (dosingStep central.name) [])

/-- `sortfunc ∘ successors` of `_order_compartments` -/
def orderNbrs (g : CGraph ε) (x : Node ε) : List (Node ε) :=
  sortByName ((g.succs x).filter (fun n => !n.isOutput))

/-- the inner `for c in connected` loop: `(nodes, remaining)` -/
def absorb (comp : Node ε) : List (Node ε) → List (Node ε) × List (Node ε) → List (Node ε) × List (Node ε)
  | [], s => s
  | c :: cs, (ns, rm) =>
    if c ∈ ns then absorb comp cs (ns, rm)
    else absorb comp cs (ns ++ [c], if c = comp then rm else rm.erase c)

/-- the `while remaining:` loop -/
def remainingLoop (nbrs : Node ε → List (Node ε)) (bfsFuel : Nat) :
    Nat → List (Node ε) → List (Node ε) → List (Node ε)
  | 0, _, ns => ns
  | _ + 1, [], ns => ns
  | fuel + 1, comp :: rm, ns =>
    let s := absorb comp (bfs nbrs bfsFuel comp) (ns, rm)
    remainingLoop nbrs bfsFuel fuel s.2 s.1

variable [ExprLike ε]

def hasInput : Node ε → Bool
  | .output => false
  | .comp c => !ExprLike.isZero c.input

/-- `_order_compartments` -/
def orderCompartments (g : CGraph ε) : List (Node ε) :=
  match dosingCompartments g with
  | .error _ => sortByName (comps g)
  | .ok [] => sortByName (comps g)       -- unreachable: the list is never empty
  | .ok (d :: _) =>
    let fuel := g.nodes.length + 1
    let nodes0 := bfs (orderNbrs g) fuel d
    let unsorted := (comps g).filter (fun n => decide (n ∉ nodes0))
    let remaining := sortByName (unsorted.filter hasInput) ++ sortByName (unsorted.filter (fun n => !hasInput n))
    remainingLoop (orderNbrs g) fuel (remaining.length + 1) remaining nodes0

def compartmentNames (g : CGraph ε) : List String := (orderCompartments g).map (·.name)

/-! #### to_dict / from_dict -/

/-- `to_dict`: the nodes in graph order and the edges as index triples -/
def toDict (g : CGraph ε) : List (Node ε) × List (Nat × Nat × ε) :=
  (g.nodes, g.edges.map (fun e => (g.nodes.idxOf e.1, g.nodes.idxOf e.2.1, e.2.2)))

/-- `from_dict`: a new builder (output first); compartments added in order, an `Output`
    entry only fills its slot of `comps`; then `add_flow(comps[i], comps[j], rate)`. -/
def fromDict (d : List (Node ε) × List (Nat × Nat × ε)) : CGraph ε :=
  let g0 := d.1.foldl (fun g n => if n.isOutput then g else g.addNode n) (newBuilder (ε := ε))
  d.2.foldl (fun g e => g.addEdge (d.1.getD e.1 .output) (d.1.getD e.2.1 .output) e.2.2) g0

/-! #### operation sequences -/

/-- everything that can be done to a builder (and `subs` / dict round trip of the system built from it) -/
inductive Op (ε : Type) where
  | addCompartment (c : Comp ε)
  | removeCompartment (c : Comp ε)
  | addFlow (s : Comp ε) (d : Node ε) (r : ε)
  | removeFlow (s : Comp ε) (d : Node ε)
  | moveDose (s d : Comp ε) (admid : Option Int)
  | setDose (c : Comp ε) (ds : List (Dose ε))
  | addDose (c : Comp ε) (ds : List (Dose ε))
  | removeDose (c : Comp ε) (admid : Option Int)
  | setLagTime (c : Comp ε) (e : ε)
  | setBioavailability (c : Comp ε) (e : ε)
  | setInput (c : Comp ε) (e : ε)
  | subs (rates : List (ε × ε)) (table : List (Node ε × Node ε))
  | roundtrip

def Op.apply (g : CGraph ε) : Op ε → Except Err (CGraph ε)
  | .addCompartment c => .ok (C05.addCompartment g c)
  | .removeCompartment c => C05.removeCompartment g c
  | .addFlow s d r => .ok (C05.addFlow g s d r)
  | .removeFlow s d => C05.removeFlow g s d
  | .moveDose s d a => C05.moveDose g s d a
  | .setDose c ds => C05.setDose g c ds
  | .addDose c ds => C05.addDose g c ds
  | .removeDose c a => C05.removeDose g c a
  | .setLagTime c e => C05.setLagTime g c e
  | .setBioavailability c e => C05.setBioavailability g c e
  | .setInput c e => C05.setInput g c e
  | .subs rates table => subsGraph g (fun e => (alGet? rates e).getD e) (fun n => (alGet? table n).getD n)
  | .roundtrip => .ok (fromDict (toDict g))

/-- a refused operation leaves the builder unchanged -/
def Op.step (g : CGraph ε) (op : Op ε) : CGraph ε :=
  match op.apply g with
  | .ok g' => g'
  | .error _ => g

/-- the builder after a sequence of operations on `CompartmentalSystemBuilder()` -/
def runOps (ops : List (Op ε)) : CGraph ε := ops.foldl Op.step newBuilder

end
end Pharmpy.C05
