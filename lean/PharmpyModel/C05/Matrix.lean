/-
  C05 — `compartmental_matrix`, `amounts`, `zero_order_inputs`, `eqs` over an
  arbitrary node type `α` and an arbitrary type of rates `ρ` with `0`, `+`, `-`, `*`
  (the driver uses symbolic expressions, the theorems any commutative ring), and
  the specification `rhs` = inflows − outflows + input.
-/
namespace Pharmpy.C05

variable {α ρ : Type}

/-- `diagsum = 0; for j: diagsum -= get_flow(from, nodes[j])`, then `diagsum - get_flow(from, output)` -/
def diagEntry [Zero ρ] [Sub ρ] (nodes : List α) (flow : α → α → ρ) (out : α → ρ) (frm : α) : ρ :=
  (nodes.foldl (fun acc to => acc - flow frm to) 0) - out frm

/-- `compartmental_matrix` as a list of rows: row `r`, column `c` is `f[r, c]`;
    `f[j, i] = get_flow(nodes[i], nodes[j])` for `i ≠ j` (indices, as in the code) and
    `f[i, i] = diagsum - outrate`. -/
def compartmentalMatrix [Zero ρ] [Sub ρ] (nodes : List α) (flow : α → α → ρ) (out : α → ρ) : List (List ρ) :=
  nodes.zipIdx.map (fun to =>
    nodes.zipIdx.map (fun frm =>
      if frm.2 ≠ to.2 then flow frm.1 to.1 else diagEntry nodes flow out frm.1))

/-- `M @ v` for one row -/
def dot [Zero ρ] [Add ρ] [Mul ρ] (row v : List ρ) : ρ := (List.zipWith (· * ·) row v).sum

/-- the right-hand sides `compartmental_matrix @ amounts + zero_order_inputs` -/
def odeRhs [Zero ρ] [Add ρ] [Sub ρ] [Mul ρ] (nodes : List α) (flow : α → α → ρ) (out : α → ρ)
    (amount input : α → ρ) : List ρ :=
  List.zipWith (fun row n => dot row (nodes.map amount) + input n)
    (compartmentalMatrix nodes flow out) nodes

/-- Specification: net rate of change of compartment `c` = inflows − outflows + input,
    the compartments being listed by `cs`. -/
def specRhs [Zero ρ] [Add ρ] [Sub ρ] [Mul ρ] (cs : List α) (flow : α → α → ρ) (out : α → ρ)
    (amount input : α → ρ) (c : α) : ρ :=
  (cs.map (fun d => flow d c * amount d)).sum
    - ((cs.map (fun d => flow c d)).sum + out c) * amount c + input c

end Pharmpy.C05
