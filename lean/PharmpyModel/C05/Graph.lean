/-
  C05 — insertion-ordered directed graph, exactly the part of networkx 3.6.1's
  `DiGraph` that `CompartmentalSystemBuilder` / `CompartmentalSystem` use.

  A networkx `DiGraph` keeps three insertion-ordered dicts: `_node`, `_succ`
  (dict of dicts, edge data inside) and `_pred`.  `_node` and `_succ` always
  have the same keys in the same order, so they are one association list
  `adj : List (α × List (α × ρ))` here (node ↦ successor ↦ rate).  `_pred` is
  NOT stored: every `CompartmentalSystem` is built from `builder._g.copy()`,
  and `DiGraph.copy` re-adds all edges in (node order, successor order), so
  in a `CompartmentalSystem` the predecessor order of `v` is "the nodes, in
  node order, that have an edge to `v`" (`predsOf`).  Inside a builder the
  order of `_pred` only ever influences the order of `_pred` (relabelling
  re-adds in-edges in `_pred` order, each to a different source), never node
  order or successor order.  The correspondence run checks all of this against
  the real networkx on every generated operation sequence.

  Python-dict semantics of the association lists: setting an existing key
  replaces the value in place, a new key is appended, deletion keeps the order
  of the rest.
-/
namespace Pharmpy.C05

variable {κ ν α ρ : Type}

/-- dict lookup -/
def alGet? [DecidableEq κ] : List (κ × ν) → κ → Option ν
  | [], _ => none
  | (k, v) :: l, x => if x = k then some v else alGet? l x

/-- `d[x] = v` -/
def alSet [DecidableEq κ] : List (κ × ν) → κ → ν → List (κ × ν)
  | [], x, v => [(x, v)]
  | (k, w) :: l, x, v => if x = k then (k, v) :: l else (k, w) :: alSet l x v

/-- `del d[x]` (all entries with that key; keys are unique in a dict) -/
def alErase [DecidableEq κ] (l : List (κ × ν)) (x : κ) : List (κ × ν) :=
  l.filter (fun p => decide (p.1 ≠ x))

structure Graph (α ρ : Type) where
  adj : List (α × List (α × ρ))
  deriving Repr

namespace Graph
variable [DecidableEq α]

def empty : Graph α ρ := ⟨[]⟩

/-- `list(G.nodes)` -/
def nodes (g : Graph α ρ) : List α := g.adj.map (·.1)

/-- `G._succ[u]` as (successor, rate) pairs in insertion order; `[]` for a missing node -/
def succOf (g : Graph α ρ) (u : α) : List (α × ρ) := (alGet? g.adj u).getD []

/-- `list(G.successors(u))` -/
def succs (g : Graph α ρ) (u : α) : List α := (g.succOf u).map (·.1)

/-- `G.edges[u, v]['rate']`, `none` when there is no such edge -/
def getFlow (g : Graph α ρ) (u v : α) : Option ρ := alGet? (g.succOf u) v

/-- predecessor order in a freshly copied graph (see the header) -/
def predsOf (g : Graph α ρ) (v : α) : List α :=
  (g.adj.filter (fun p => (alGet? p.2 v).isSome)).map (·.1)

/-- `G.add_node(n)` -/
def addNode (g : Graph α ρ) (n : α) : Graph α ρ :=
  if n ∈ g.nodes then g else ⟨g.adj ++ [(n, [])]⟩

/-- `G._succ[u] = s` (helper: replace the successor dict of one node) -/
def setSucc (g : Graph α ρ) (u : α) (s : List (α × ρ)) : Graph α ρ := ⟨alSet g.adj u s⟩

/-- `G.add_edge(u, v, rate=r)`: adds missing endpoints (u first), replaces the data of an
    existing edge in place, appends a new one. -/
def addEdge (g : Graph α ρ) (u v : α) (r : ρ) : Graph α ρ :=
  let g1 := (g.addNode u).addNode v
  g1.setSucc u (alSet (g1.succOf u) v r)

/-- `G.remove_node(n)` for a node that is present -/
def removeNode (g : Graph α ρ) (n : α) : Graph α ρ :=
  ⟨(alErase g.adj n).map (fun p => (p.1, alErase p.2 n))⟩

/-- `G.remove_edge(u, v)` for an edge that is present -/
def removeEdge (g : Graph α ρ) (u v : α) : Graph α ρ :=
  g.setSucc u (alErase (g.succOf u) v)

/-- `G.add_edges_from(es)` -/
def addEdges (g : Graph α ρ) (es : List (α × α × ρ)) : Graph α ρ :=
  es.foldl (fun g e => g.addEdge e.1 e.2.1 e.2.2) g

/-- out-edges of `old` renamed, as `_relabel_inplace` builds them -/
def relabelOut (g : Graph α ρ) (old new : α) : List (α × α × ρ) :=
  (g.succOf old).map (fun p => (new, (if old = p.1 then new else p.1), p.2))

/-- in-edges of `old` renamed (sources in node order; the order is immaterial, see header) -/
def relabelIn (g : Graph α ρ) (old new : α) : List (α × α × ρ) :=
  g.adj.filterMap (fun p => (alGet? p.2 old).map (fun r => ((if old = p.1 then new else p.1), new, r)))

/-- One iteration of the loop of `networkx.relabel._relabel_inplace` (DiGraph branch):
    `old` absent ⇒ skipped (`KeyError` → `continue`); the new node is added first (at the
    end, unless present); `new == old` ⇒ nothing else; otherwise the renamed out- and
    in-edges are collected, `old` is removed and the edges are added back. -/
def relabel1 (g : Graph α ρ) (old new : α) : Graph α ρ :=
  if old ∈ g.nodes then
    let g1 := g.addNode new
    if new = old then g1
    else (g1.removeNode old).addEdges (g1.relabelOut old new ++ g1.relabelIn old new)
  else g

/-- The order in which `_relabel_inplace` visits the old labels.
    * keys and values disjoint: the nodes of `G` that are keys, in node order;
    * otherwise: reversed topological order of the digraph of the mapping without
      self-loops.  For mappings whose only key/value overlaps are identity entries
      (all the builder and `subs` ever produce when names are distinct, since a
      relabelled compartment keeps its name) the topological generations are
      [all keys in mapping order], [the changed values in mapping order]; reversed, the
      values come first (not keys: skipped) and then the keys in *reverse mapping order*.
    `none` = a mapping outside that class (the driver refuses it). -/
def relabelOrder (g : Graph α ρ) (mapping : List (α × α)) : Option (List α) :=
  let keys := mapping.map (·.1)
  let vals := mapping.map (·.2)
  if keys.all (fun k => !(vals.contains k)) then
    some (g.nodes.filter (fun n => keys.contains n))
  else if mapping.all (fun p => p.2 = p.1 || !(keys.contains p.2)) then
    some keys.reverse
  else none

/-- `nx.relabel_nodes(G, mapping, copy=False)`; `mapping` is a dict (unique keys). -/
def relabel (g : Graph α ρ) (mapping : List (α × α)) : Option (Graph α ρ) :=
  (g.relabelOrder mapping).map (fun order =>
    order.foldl (fun g old => match alGet? mapping old with
      | some new => g.relabel1 old new
      | none => g) g)

/-- apply a function to every rate (`cb._g.edges[u, v]['rate'] = rate.subs(...)` for all edges) -/
def mapRates (g : Graph α ρ) (f : ρ → ρ) : Graph α ρ :=
  ⟨g.adj.map (fun p => (p.1, p.2.map (fun q => (q.1, f q.2))))⟩

/-- `G.edges.data('rate')`: all edges in (node order, successor order) -/
def edges (g : Graph α ρ) : List (α × α × ρ) :=
  g.adj.flatMap (fun p => p.2.map (fun q => (p.1, q.1, q.2)))

/-- Well-formedness kept by every networkx operation: distinct nodes, every edge
    target is a node, successor keys distinct. -/
def WF (g : Graph α ρ) : Prop :=
  g.nodes.Nodup ∧ (∀ p ∈ g.adj, ∀ q ∈ p.2, q.1 ∈ g.nodes) ∧ (∀ p ∈ g.adj, (p.2.map (·.1)).Nodup)

end Graph

/-! ### Breadth-first search as `networkx.bfs_tree(G, source, sort_neighbors=f)` reports it

`list(bfs_tree(...))` is the source followed by the nodes in discovery order.
`generic_bfs_edges` works layer by layer, which visits parents in discovery order — a
FIFO queue.  `nbrs` is `sort_neighbors ∘ successors`. -/

/-- scan the (sorted) children of one parent: unseen ones are enqueued and marked seen -/
def bfsVisit [DecidableEq α] : List α → List α × List α → List α × List α
  | [], s => s
  | c :: cs, (q, seen) =>
    if c ∈ seen then bfsVisit cs (q, seen) else bfsVisit cs (q ++ [c], seen ++ [c])

/-- `seen` is kept in discovery order, so it is the answer -/
def bfsLoop [DecidableEq α] (nbrs : α → List α) : Nat → List α → List α → List α
  | 0, _, seen => seen
  | _ + 1, [], seen => seen
  | fuel + 1, p :: q, seen =>
    let s := bfsVisit (nbrs p) (q, seen)
    bfsLoop nbrs fuel s.1 s.2

def bfs [DecidableEq α] (nbrs : α → List α) (fuel : Nat) (src : α) : List α :=
  bfsLoop nbrs fuel [src] [src]

end Pharmpy.C05
