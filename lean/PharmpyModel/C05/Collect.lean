/-
  C05 — `canonical_ode_rhs` (src/pharmpy/internals/expr/ode.py) as a rewrite of a sum of monomials.

  `CompartmentalSystem.eqs` does not report `M·A + u` itself but
  `canonical_ode_rhs(rhs) = sympy.collect(expand_rates(rhs), sorted(amount functions))`: the expanded
  right-hand side is a sum of monomials `coefficient · key`, the key being the product of the powers of
  amount functions in the term (`1`, `A_C(t)`, `A_C(t)**2`, `sqrt(A_C(t))`, `A_C(t)*A_T(t)`, …) and the
  coefficient everything else; `collect` regroups the monomials by key and adds the coefficients.  The
  model is that regrouping, generic in the type of keys `κ` and of coefficients `ρ`.
-/
namespace Pharmpy.C05

variable {κ ρ : Type}

/-- add the monomial `c · k` to the groups: the coefficient of an existing key is increased in place, a new
    key is appended (first-occurrence order) -/
def collectAdd [DecidableEq κ] [Add ρ] : List (κ × ρ) → κ → ρ → List (κ × ρ)
  | [], k, c => [(k, c)]
  | (k', c') :: l, k, c => if k = k' then (k', c' + c) :: l else (k', c') :: collectAdd l k c

/-- `collect(sum of monomials, keys, evaluate=False)`: one (key, summed coefficient) entry per key -/
def collectBy [DecidableEq κ] [Add ρ] (ms : List (κ × ρ)) : List (κ × ρ) :=
  ms.foldl (fun acc m => collectAdd acc m.1 m.2) []

/-- value of a sum of monomials / of the rebuilt canonical form `Σ key · coefficient`, the keys valued by `v` -/
def evalMonomials [Zero ρ] [Add ρ] [Mul ρ] (v : κ → ρ) (ms : List (κ × ρ)) : ρ :=
  (ms.map (fun m => v m.1 * m.2)).sum

end Pharmpy.C05
