/-
  C15 — `ThreadSafeKeyedRefPool` of `pharmpy.internals.fs.lock`: a keyed pool of
  reference-counted objects (thread locks by path, process locks by fd, fds by path).

  `enter k`  (the `with self._lock:` region before `yield`): create the object for `k` if the
             pool has none (objects are numbered in creation order), else count one more
             reference; the caller receives the object.
  `exit k`   (the region after `yield`): drop one reference; the last one removes the entry and
             runs the destructor (for the fd pool: `os.close`) — inside the same region.
-/
namespace Pharmpy.C15

structure Pool where
  refs      : List (Nat × Nat × Nat) := []   -- (key, object id, refcount), at most one entry per key
  nextObj   : Nat := 0
  destroyed : List Nat := []                 -- object ids whose destructor has run
  deriving Repr, DecidableEq, Inhabited

namespace Pool

def find (p : Pool) (k : Nat) : Option (Nat × Nat) :=
  (p.refs.find? (fun e => e.1 == k)).map (fun e => e.2)

/-- Returns the new pool and the object handed to the caller. -/
def enter (p : Pool) (k : Nat) : Pool × Nat :=
  match p.find k with
  | none => ({ p with refs := (k, p.nextObj, 1) :: p.refs, nextObj := p.nextObj + 1 }, p.nextObj)
  | some (o, n) =>
    ({ p with refs := (k, o, n + 1) :: p.refs.filter (fun e => e.1 != k) }, o)

/-- `none` = the key is not in the pool (the real code would raise `KeyError`). -/
def exit (p : Pool) (k : Nat) : Option Pool :=
  match p.find k with
  | none => none
  | some (o, n) =>
    if n ≤ 1 then
      some { p with refs := p.refs.filter (fun e => e.1 != k), destroyed := o :: p.destroyed }
    else
      some { p with refs := (k, o, n - 1) :: p.refs.filter (fun e => e.1 != k) }

end Pool

/-- Pool operations with the outstanding references (`holders`: (thread, key, object)) tracked
    beside the pool, so that the invariants can talk about who holds what. -/
structure PoolSt where
  pool    : Pool := {}
  holders : List (Nat × Nat × Nat) := []
  deriving Repr, DecidableEq, Inhabited

inductive PoolEv where
  | enter (t k : Nat)
  | exit  (t k : Nat)
  deriving Repr, DecidableEq

/-- A thread can only release a reference it holds (context managers). -/
def poolStep (s : PoolSt) : PoolEv → Option PoolSt
  | .enter t k =>
    let (p', o) := s.pool.enter k
    some { pool := p', holders := (t, k, o) :: s.holders }
  | .exit t k =>
    match s.holders.find? (fun h => h.1 == t && h.2.1 == k) with
    | none => none
    | some h =>
      match s.pool.exit k with
      | none => none
      | some p' => some { pool := p', holders := s.holders.erase h }

def poolRun : PoolSt → List PoolEv → Option PoolSt
  | s, [] => some s
  | s, e :: es => match poolStep s e with
    | none => none
    | some s' => poolRun s' es

end Pharmpy.C15
