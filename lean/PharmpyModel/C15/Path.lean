/-
  C15 — `path_lock` of `pharmpy.internals.fs.lock`: which key each of the three registries is
  entered with.

      key = os.path.normpath(path)
      with thread_level_lock(key, ...):                       # _thread_level_lock_ref(key)
          with process_level_path_lock(key, ...) as fd:       # _fd_ref(key) -> os.open(key)
              ...                                             # _process_level_lock_ref(fd)

  "single fd per normalised path (fcntl locks die when any fd of the file is closed)": every
  spelling of one path must reach the SAME entry of the descriptor pool, otherwise one process
  owns two descriptors of one file and unlocking/closing either drops the lock of the other.

  `normpath` mirrors `posixpath.normpath` (component walk with a stack).
-/
import PharmpyModel.C15.Pool
namespace Pharmpy.C15

/-- One iteration of the loop of `posixpath.normpath` on the reversed stack `st` of kept
    components (`abs` = the path has initial slashes). -/
def normStep (abs : Bool) (st : List String) (c : String) : List String :=
  if c == "" || c == "." then st
  else if c != ".." then c :: st
  else match st with
    | [] => if abs then [] else [c]
    | top :: rest => if top == ".." then c :: st else rest

def normStack (abs : Bool) (cs : List String) : List String := cs.foldl (normStep abs) []

def normComps (abs : Bool) (cs : List String) : List String := (normStack abs cs).reverse

/-- Components of a path (`path.split('/')`). -/
def splitSlash (p : String) : List String :=
  let rec go : List Char → List Char → List String
    | [], cur => [String.ofList cur.reverse]
    | c :: cs, cur => if c == '/' then String.ofList cur.reverse :: go cs [] else go cs (c :: cur)
  go p.toList []

/-- Number of initial slashes kept by POSIX: 0, 1, or exactly 2 for `//x`. -/
def initialSlashes (p : String) : Nat :=
  match p.toList with
  | '/' :: '/' :: '/' :: _ => 1
  | '/' :: '/' :: _ => 2
  | '/' :: _ => 1
  | _ => 0

/-- A path in split form: number of initial slashes + components. -/
def joinPath (slashes : Nat) (cs : List String) : String :=
  let r := String.ofList (List.replicate slashes '/') ++ "/".intercalate cs
  if r == "" then "." else r

def normpath (p : String) : String :=
  if p == "" then "." else
  let n := initialSlashes p
  joinPath n (normComps (n != 0) (splitSlash p))

/-- The keys `path_lock(path)` enters the registries with. -/
structure PathKeys where
  threadKey : String   -- key of `_thread_level_lock_ref`
  fdKey     : String   -- key of `_fd_ref` = the name handed to `os.open`
  deriving Repr, DecidableEq

def pathLockKeys (path : String) : PathKeys :=
  let key := normpath path
  { threadKey := key, fdKey := key }

/-- Users of `path_lock`, by the spelling of the path they pass. -/
inductive PathEv where
  | enter (t : Nat) (path : String)
  | exit  (t : Nat) (path : String)
  deriving Repr, DecidableEq

/-- The descriptor-pool operation performed by a `path_lock` user (`num` numbers the keys). -/
def PathEv.toFdPool (num : String → Nat) : PathEv → PoolEv
  | .enter t p => .enter t (num (pathLockKeys p).fdKey)
  | .exit t p => .exit t (num (pathLockKeys p).fdKey)

def PathEv.toThreadPool (num : String → Nat) : PathEv → PoolEv
  | .enter t p => .enter t (num (pathLockKeys p).threadKey)
  | .exit t p => .exit t (num (pathLockKeys p).threadKey)

end Pharmpy.C15
