/-
  C15 — thread-level reader–writer lock of `pharmpy.internals.fs.lock`
  (`ShareableThreadLock`: a `Condition` over an `RLock` plus the counter
  `_acquired_by`), as a transition system over an UNBOUNDED set of thread ids.

  Granularity: one transition per mutex-protected region (everything a thread
  does between acquiring the condition's RLock and its next blocking call).
  Regions on the same lock cannot interleave, so this loses no behaviour.

  * `frames`  — active lock frames, newest first; `(t, true)` = exclusive.
                `_acquired_by[t]` is the number of frames of `t`.
  * `owner`, `depth` — the RLock between regions (an exclusive body keeps it).
  * `waiting` — threads inside `Condition.wait()` with their saved recursion depth.
  * `notified` — waiters that `notify_all()` has released but that have not yet
                re-acquired the RLock.

  `fixed = true` is the code after the repair (notify whenever a thread's own
  count drops to zero in the shared exit path); `fixed = false` is the code
  before it (notify only when *nobody* holds any more).
-/
namespace Pharmpy.C15

abbrev Tid := Nat

structure TL where
  owner    : Option Tid := none
  depth    : Nat := 0
  frames   : List (Tid × Bool) := []
  waiting  : List (Tid × Nat) := []
  notified : List Tid := []
  deriving Repr, DecidableEq, Inhabited

inductive Out where
  | entered | exited | waitingNow | raisedRecursive | raisedWouldBlock
  deriving Repr, DecidableEq

/-- Number of frames of `t` in a frame list. -/
def cnt : List (Tid × Bool) → Tid → Nat
  | [], _ => 0
  | f :: fs, t => (if f.1 = t then 1 else 0) + cnt fs t
/-- Number of exclusive frames of `t`. -/
def exc : List (Tid × Bool) → Tid → Nat
  | [], _ => 0
  | f :: fs, t => (if f.1 = t ∧ f.2 = true then 1 else 0) + exc fs t
/-- The oldest frame of `t` exists and is a shared one. -/
def oldSh : List (Tid × Bool) → Tid → Bool
  | [], _ => false
  | f :: fs, t => if f.1 = t then (if cnt fs t = 0 then !f.2 else oldSh fs t) else oldSh fs t

namespace TL

/-- `_acquired_by[t]`. -/
def count (s : TL) (t : Tid) : Nat := cnt s.frames t
/-- Number of exclusive frames of `t`. -/
def exCount (s : TL) (t : Tid) : Nat := exc s.frames t
/-- `self._acquired_by - this_thread_count` is non-empty. -/
def others (s : TL) (t : Tid) : Bool := s.frames.any (fun f => f.1 != t)

def rlockAvail (s : TL) (t : Tid) : Bool := s.owner == none || s.owner == some t

def acquire (s : TL) (t : Tid) : TL := { s with owner := some t, depth := s.depth + 1 }

def release (s : TL) : TL :=
  if s.depth ≤ 1 then { s with owner := none, depth := 0 } else { s with depth := s.depth - 1 }

/-- Remove the newest frame of `t`, which must have mode `ex` (context managers are LIFO). -/
def popFrame : List (Tid × Bool) → Tid → Bool → Option (List (Tid × Bool))
  | [], _, _ => none
  | f :: fs, t, ex =>
    if f.1 == t then (if f.2 == ex then some fs else none)
    else (popFrame fs t ex).map (f :: ·)

def notifyAll (s : TL) : TL := { s with notified := s.waiting.map (·.1) }

/-- `_lock_sh` entry region. `none` = the thread blocks on the RLock. -/
def shEnter (s : TL) (t : Tid) (blocking reentrant : Bool) : Option (TL × Out) :=
  if s.rlockAvail t then
    if !reentrant && s.count t > 0 then some (s, .raisedRecursive)
    else some ({ s with frames := (t, false) :: s.frames }, .entered)
  else if blocking then none else some (s, .raisedWouldBlock)

/-- `_lock_sh` exit region. -/
def shExit (fixed : Bool) (s : TL) (t : Tid) : Option (TL × Out) :=
  if s.rlockAvail t then
    match popFrame s.frames t false with
    | none => none
    | some fs =>
      let s1 := { s with frames := fs }
      let s2 := if s1.count t == 0 && (fixed || fs.isEmpty) then s1.notifyAll else s1
      some (s2, .exited)
  else none

/-- After the wait loop of `_lock_ex`, RLock held, nobody else holds. -/
def exProceed (s : TL) (t : Tid) (reentrant : Bool) : TL × Out :=
  if s.count t > 0 && !reentrant then (s.release, .raisedRecursive)
  else ({ s with frames := (t, true) :: s.frames }, .entered)

/-- `_lock_ex` entry region up to the first `wait()` or the body. -/
def exEnter (s : TL) (t : Tid) (blocking reentrant : Bool) : Option (TL × Out) :=
  if s.rlockAvail t then
    let s1 := s.acquire t
    if s1.others t then
      if blocking then
        some ({ s1 with owner := none, depth := 0, waiting := (t, s1.depth) :: s1.waiting }, .waitingNow)
      else some (s1.release, .raisedWouldBlock)
    else some (s1.exProceed t reentrant)
  else if blocking then none else some (s, .raisedWouldBlock)

/-- A notified waiter re-acquires the RLock and re-checks the loop condition. -/
def exWake (s : TL) (t : Tid) (reentrant : Bool) : Option (TL × Out) :=
  match s.waiting.find? (fun w => w.1 == t) with
  | none => none
  | some (_, d) =>
    if s.notified.contains t && s.owner == none then
      let s1 := { s with owner := some t, depth := d,
                         waiting := s.waiting.filter (fun w => w.1 != t),
                         notified := s.notified.filter (· != t) }
      if s1.others t then
        some ({ s1 with owner := none, depth := 0, waiting := (t, d) :: s1.waiting }, .waitingNow)
      else some (s1.exProceed t reentrant)
    else none

/-- `_lock_ex` exit (`finally`): no acquisition needed, the RLock is still held. -/
def exExit (s : TL) (t : Tid) : Option (TL × Out) :=
  match popFrame s.frames t true with
  | none => none
  | some fs => some (({ s with frames := fs } : TL).release, .exited)

end TL

inductive Ev where
  | shEnter (t : Tid) (blocking reentrant : Bool)
  | shExit  (t : Tid)
  | exEnter (t : Tid) (blocking reentrant : Bool)
  | exWake  (t : Tid) (reentrant : Bool)
  | exExit  (t : Tid)
  deriving Repr, DecidableEq

def Ev.tid : Ev → Tid
  | .shEnter t _ _ | .shExit t | .exEnter t _ _ | .exWake t _ | .exExit t => t

def isWaiting (s : TL) (t : Tid) : Bool := s.waiting.any (fun w => w.1 == t)

/-- One transition. A thread parked in `wait()` can only wake up. -/
def step (fixed : Bool) (s : TL) : Ev → Option (TL × Out)
  | .shEnter t b r => if isWaiting s t then none else s.shEnter t b r
  | .shExit t      => if isWaiting s t then none else s.shExit fixed t
  | .exEnter t b r => if isWaiting s t then none else s.exEnter t b r
  | .exWake t r    => s.exWake t r
  | .exExit t      => if isWaiting s t then none else s.exExit t

/-- Run a list of events from a state; `none` if some event is not enabled. -/
def runEvs (fixed : Bool) : TL → List Ev → Option TL
  | s, [] => some s
  | s, e :: es => match step fixed s e with
    | none => none
    | some (s', _) => runEvs fixed s' es

/-- A thread is inside a lock body. -/
def inBody (s : TL) (t : Tid) : Bool := s.count t > 0
def inExBody (s : TL) (t : Tid) : Bool := s.exCount t > 0

end Pharmpy.C15
