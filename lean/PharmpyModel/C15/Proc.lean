/-
  C15 — process-level lock of `pharmpy.internals.fs.lock`
  (`ShareableProcessLock` of every process on ONE file + the kernel's POSIX
  record-lock table for that file), for an unbounded number of processes and
  threads.

  Per process `p`: the bookkeeping counters `_shared_by`, `_exclusively_held_by`
  (multisets of thread ids) and `pend` = the thread that currently holds the
  internal mutex `_lock` while it is inside `lockf` (the code calls `lockf`
  with the mutex held, so a blocked `lockf` keeps every other thread of the
  process out of the lock's regions).

  Kernel: at most one entry per process, `(p, true)` = exclusive.  A request is
  grantable iff no *other* process holds a conflicting entry (a process's own
  entry is replaced: upgrade / downgrade).
-/
namespace Pharmpy.C15

abbrev Pid := Nat

structure Pend where
  tid      : Nat
  shared   : Bool      -- requested mode
  blocking : Bool
  addAfter : Bool      -- true: entry (count the thread after the grant); false: downgrade on exit
  deriving Repr, DecidableEq

structure PL where
  sharedBy : List Nat := []
  exclBy   : List Nat := []
  pend     : Option Pend := none
  deriving Repr, DecidableEq, Inhabited

structure KS where
  kernel : List (Pid × Bool) := []
  procs  : Pid → PL := fun _ => {}

inductive POut where
  | entered | exited | inLockf | raisedRecursive | raisedWouldBlock
  deriving Repr, DecidableEq

namespace KS

def setProc (s : KS) (p : Pid) (l : PL) : KS :=
  { s with procs := fun q => if q = p then l else s.procs q }

/-- No other process holds a conflicting record lock. -/
def grantable (s : KS) (p : Pid) (ex : Bool) : Bool :=
  s.kernel.all (fun e => e.1 == p || (!ex && !e.2))

def kset (s : KS) (p : Pid) (ex : Bool) : KS :=
  { s with kernel := (p, ex) :: s.kernel.filter (fun e => e.1 != p) }

def kerase (s : KS) (p : Pid) : KS :=
  { s with kernel := s.kernel.filter (fun e => e.1 != p) }

def isHeld (l : PL) : Bool := !l.sharedBy.isEmpty || !l.exclBy.isEmpty

def addHolder (l : PL) (t : Nat) (shared : Bool) : PL :=
  if shared then { l with sharedBy := t :: l.sharedBy } else { l with exclBy := t :: l.exclBy }

def removeHolder (l : PL) (t : Nat) (shared : Bool) : PL :=
  if shared then { l with sharedBy := l.sharedBy.erase t } else { l with exclBy := l.exclBy.erase t }

/-- `ShareableProcessLock.lock` entry region up to the `lockf` call (if any). -/
def pEnter (s : KS) (p : Pid) (t : Nat) (shared blocking reentrant : Bool) : Option (KS × POut) :=
  let l := s.procs p
  match l.pend with
  | some _ => if blocking then none else some (s, .raisedWouldBlock)
  | none =>
    if !reentrant && (l.sharedBy.contains t || l.exclBy.contains t) then some (s, .raisedRecursive)
    else
      let heldShared := !l.sharedBy.isEmpty
      if !isHeld l || (heldShared && !shared) then
        some (s.setProc p { l with pend := some ⟨t, shared, blocking, true⟩ }, .inLockf)
      else some (s.setProc p (addHolder l t shared), .entered)

/-- The pending `lockf` call returns (granted, or refused when non-blocking). `none` = still blocked. -/
def pLockf (s : KS) (p : Pid) (t : Nat) : Option (KS × POut) :=
  let l := s.procs p
  match l.pend with
  | none => none
  | some pd =>
    if pd.tid != t then none
    else if s.grantable p (!pd.shared) then
      let s1 := s.kset p (!pd.shared)
      let l1 := { l with pend := none }
      if pd.addAfter then some (s1.setProc p (addHolder l1 t pd.shared), .entered)
      else some (s1.setProc p l1, .exited)
    else if pd.blocking then none
    else some (s.setProc p { l with pend := none }, .raisedWouldBlock)

/-- `ShareableProcessLock.lock` exit region up to the downgrade `lockf` (if any). -/
def pExit (s : KS) (p : Pid) (t : Nat) (shared : Bool) : Option (KS × POut) :=
  let l := s.procs p
  match l.pend with
  | some _ => none
  | none =>
    if !(if shared then l.sharedBy.contains t else l.exclBy.contains t) then none
    else
      let l1 := removeHolder l t shared
      if !isHeld l1 then some ((s.kerase p).setProc p l1, .exited)
      else if l1.exclBy.isEmpty && !shared then
        some (s.setProc p { l1 with pend := some ⟨t, true, true, false⟩ }, .inLockf)
      else some (s.setProc p l1, .exited)

end KS

inductive PEv where
  | enter (p : Pid) (t : Nat) (shared blocking reentrant : Bool)
  | lockf (p : Pid) (t : Nat)
  | exit  (p : Pid) (t : Nat) (shared : Bool)
  deriving Repr, DecidableEq

def pstep (s : KS) : PEv → Option (KS × POut)
  | .enter p t sh b r => s.pEnter p t sh b r
  | .lockf p t => s.pLockf p t
  | .exit p t sh => s.pExit p t sh

def prun : KS → List PEv → Option KS
  | s, [] => some s
  | s, e :: es => match pstep s e with
    | none => none
    | some (s', _) => prun s' es

/-- Thread `t` of process `p` is inside a body holding the file exclusively / in any mode. -/
def pInEx (s : KS) (p : Pid) (t : Nat) : Bool := (s.procs p).exclBy.contains t
def pIn (s : KS) (p : Pid) (t : Nat) : Bool := (s.procs p).sharedBy.contains t || (s.procs p).exclBy.contains t

end Pharmpy.C15
