import PharmpyModel.C18.Mfl
/-
  C18 — executable model of tools/modelsearch/algorithms.py:
  `_is_allowed`, `_is_allowed_peripheral`, `exhaustive`, `exhaustive_stepwise`,
  `reduced_stepwise` (task names and parent edges of the built workflows; the model
  transformations themselves are outside).

  `mfl_funcs` is represented by its key list (dict order).  Function identity
  (`mfl_funcs[feat] in func_type`) is key-kind equality: every key has its own function
  object and `functools.partial` compares by identity.
-/
namespace Pharmpy.C18

/-- decimal digits to a number (kernel-reducible, unlike `String.toNat!`) -/
def digitsToNat (s : String) : Nat := s.toList.foldl (fun n c => 10 * n + (c.toNat - 48)) 0

/-- `args[0]` of a key, as the int it is for PERIPHERALS keys. -/
def Key.arg0 (k : Key) : Nat := digitsToNat ((k.drop 1).headD "0")

def Key.isPeripheral (k : Key) : Bool := k.kind == "PERIPHERALS"

/-- `n_all` of `_is_allowed_peripheral` -/
def periCounts (funcs : List Key) : List Nat := (funcs.filter Key.isPeripheral).map Key.arg0

def listMin : List Nat → Nat
  | [] => 0
  | x :: xs => xs.foldl min x

/-- `_is_allowed_peripheral` (`n_prev` non-empty iff a PERIPHERALS key was used before) -/
def isAllowedPeripheral (funcs : List Key) (cur : Key) (prev : List Key) : Bool :=
  let nAll := periCounts funcs
  let n := cur.arg0
  if (prev.filter Key.isPeripheral).isEmpty then n == listMin nAll
  else
    let i := nAll.idxOf n
    i > 0 && nAll.getD (i - 1) 0 < n

/-- one row of `not_supported_combo` against the current key and one previous key -/
def comboHit (c : List String × List String) (cur f : Key) : Bool :=
  (c.1.isPrefixOf cur && c.2.isPrefixOf f) || (c.2.isPrefixOf cur && c.1.isPrefixOf f)

/-- `_is_allowed(feat_current, func_current, feat_previous, mfl_funcs)` -/
def isAllowed (funcs : List Key) (cur : Key) (prev : List Key) : Bool :=
  if prev.contains cur then false
  else if cur.isPeripheral then isAllowedPeripheral funcs cur prev
  else if Gen.neverAllowed.contains cur then false
  else if prev.any (fun f => f.kind == cur.kind) then false
  else if prev.isEmpty then true
  else !(Gen.notSupportedCombo.any (fun c => prev.any (fun f => comboHit c cur f)))

/-- the candidates one leaf (its root-first feature path) gets in one sweep -/
def extendPath (funcs : List Key) (p : List Key) : List (List Key) :=
  (funcs.filter (fun f => isAllowed funcs f p)).map (fun f => p ++ [f])

def nextLayer (funcs : List Key) (layer : List (List Key)) : List (List Key) :=
  layer.flatMap (extendPath funcs)

/-- the `while True` loop; a sweep that creates nothing ends it -/
def stepwiseAux (funcs : List Key) : Nat → List (List Key) → List (List Key)
  | 0, _ => []
  | fuel + 1, layer =>
    let nl := nextLayer funcs layer
    if nl.isEmpty then [] else nl ++ stepwiseAux funcs fuel nl

/-- `exhaustive_stepwise(mfl_funcs, …)`: the candidate tasks in creation order
    (`modelsearch_run1`, `modelsearch_run2`, …), each as its root-first path of feature
    keys (its own key last).  A path cannot repeat a key, so `length + 1` sweeps suffice
    (theorem `stepwise_fuel_irrelevant`). -/
def exhaustiveStepwise (funcs : List Key) : List (List Key) :=
  stepwiseAux funcs (funcs.length + 1) [[]]

/-- `exhaustive(mfl_funcs, …)`: the combos of `modelsearch_run1`, … -/
def exhaustive (funcs : List Key) : List (List Key) := allCombinations funcs

/-! ### reduced_stepwise

A leaf of the workflow under construction: the multiset of features upstream of it
(as a list, only membership matters) and whether it is a `choose_best_model` collector. -/

structure Leaf where
  feats : List Key
  deriving DecidableEq, Repr

def sameSet (a b : List Key) : Bool := a.all (b.contains ·) && b.all (a.contains ·)

/-- `_find_same_model_groups`: groups (index lists) of leaves with equal feature sets,
    only groups with more than one member. -/
def sameModelGroups (leaves : List (List Key)) : List (List Nat) :=
  let n := leaves.length
  let rec go (fuel : Nat) (i : Nat) (removed : List Nat) (acc : List (List Nat)) : List (List Nat) :=
    match fuel with
    | 0 => acc
    | fuel + 1 =>
      if i ≥ n then acc
      else if removed.contains i then go fuel (i + 1) removed acc
      else
        let fi := leaves.getD i []
        let members := (List.range n).filter (fun j => j != i && !removed.contains j && sameSet (leaves.getD j []) fi)
        let removed := removed ++ [i] ++ members
        let acc := if members.isEmpty then acc else acc ++ [i :: members]
        go fuel (i + 1) removed acc
  go (n + 1) 0 [] []

/-- One candidate created by `reduced_stepwise`: its key, and the set of features
    upstream of it (sorted by the harness before comparison). -/
structure RCand where
  key : Key
  upstream : List Key
  deriving DecidableEq, Repr

/-- one sweep of `reduced_stepwise` on the current output tasks (leaves, in node order);
    returns (new leaves in node order, candidates created, collectors created) -/
def reducedSweep (funcs : List Key) (leaves : List (List Key)) :
    List (List Key) × List RCand × Nat :=
  let live := fun (p : List Key) => !(extendPath funcs p).isEmpty
  let groups := sameModelGroups leaves
  -- collectors are only added when there is more than one group
  let collected : List (List Nat) :=
    if groups.length > 1 then groups.filter (fun g => g.all (fun i => live (leaves.getD i []))) else []
  let grouped : List Nat := collected.flatten
  -- output tasks afterwards: leaves that were not collected (node order), then the collectors
  let kept := (List.range leaves.length).filter (fun i => !grouped.contains i)
  let outs : List (List Key) :=
    kept.map (fun i => leaves.getD i []) ++
      collected.map (fun g => dedup (g.flatMap (fun i => leaves.getD i [])))
  let created := outs.flatMap (fun p => (funcs.filter (fun f => isAllowed funcs f p)).map (fun f => (p, f)))
  let dead := outs.filter (fun p => !live p)
  (dead ++ created.map (fun pf => pf.1 ++ [pf.2]), created.map (fun pf => ⟨pf.2, pf.1⟩), collected.length)

def reducedAux (funcs : List Key) : Nat → List (List Key) → Bool → List RCand × Nat
  | 0, _, _ => ([], 0)
  | fuel + 1, leaves, first =>
    let (nl, cands, ncoll) :=
      if first then
        -- no task yet: the single pseudo-task '' with no previous features
        let created := (funcs.filter (fun f => isAllowed funcs f [])).map (fun f => (([] : List Key), f))
        (created.map (fun pf => pf.1 ++ [pf.2]), created.map (fun pf => (⟨pf.2, pf.1⟩ : RCand)), 0)
      else reducedSweep funcs leaves
    if cands.isEmpty then ([], ncoll)
    else
      let (rest, nc) := reducedAux funcs fuel nl false
      (cands ++ rest, ncoll + nc)

/-- `reduced_stepwise(mfl_funcs, …)`: candidates in creation order and the number of
    `choose_best_model` tasks. -/
def reducedStepwise (funcs : List Key) : List RCand × Nat :=
  reducedAux funcs (funcs.length + 2) [] true

end Pharmpy.C18
