import PharmpyModel.C18.Search
/-
  C18 — specification-side notions (no code is mirrored here).
-/
namespace Pharmpy.C18

/-- Two elements lie in a common block of `P`. -/
def Rel {α : Type} (P : List (List α)) (a b : α) : Prop := ∃ p, p ∈ P ∧ a ∈ p ∧ b ∈ p

/-- `P` is a set partition of the elements of `l` (for duplicate-free `l`: non-empty,
    pairwise disjoint blocks that cover `l`). -/
def IsPartition {α : Type} (l : List α) (P : List (List α)) : Prop :=
  (∀ p, p ∈ P → p ≠ []) ∧ P.flatten.Perm l

/-- Two block lists describe different partitions of (the elements of) `S`. -/
def Differ {α : Type} (S : List α) (P Q : List (List α)) : Prop :=
  ∃ a, a ∈ S ∧ ∃ b, b ∈ S ∧ ¬ (Rel P a b ↔ Rel Q a b)

/-- Stirling numbers of the second kind. -/
def stirling2 : Nat → Nat → Nat
  | 0, 0 => 1
  | 0, _ + 1 => 0
  | _ + 1, 0 => 0
  | n + 1, k + 1 => (k + 1) * stirling2 n (k + 1) + stirling2 n k

/-- `f 0 + f 1 + … + f n` -/
def sumTo (f : Nat → Nat) : Nat → Nat
  | 0 => f 0
  | n + 1 => sumTo f n + f (n + 1)

/-- Bell numbers: the number of set partitions of an `n`-element set. -/
def bell (n : Nat) : Nat := sumTo (stirling2 n) n

/-- binomial coefficients -/
def choose : Nat → Nat → Nat
  | _, 0 => 1
  | 0, _ + 1 => 0
  | n + 1, k + 1 => choose n k + choose n (k + 1)

/-- all sub-lists with `a ≤ length ≤ b`, by increasing length -/
def subsetsL {α : Type} (l : List α) (a b : Nat) : List (List α) :=
  (List.range (b + 1 - a)).flatMap (fun i => combs (a + i) l)


end Pharmpy.C18
