import PharmpyModel.C18.Search
import PharmpyModel.Core.Expr
/-
  C18 — specification-side notions (no code is mirrored here).
-/
namespace Pharmpy.C18

/-- Two elements lie in a common block of `P`. -/
def Rel {α : Type} (P : List (List α)) (a b : α) : Prop := ∃ p, p ∈ P ∧ a ∈ p ∧ b ∈ p

/-- `P` is a set partition of the elements of `l` (for duplicate-free `l`: non-empty,
    pairwise disjoint blocks that cover `l`). -/
def IsPartition {α : Type} (l : List α) (P : List (List α)) : Prop :=
  (∀ p, p ∈ P → p ≠ []) ∧ P.flatten.Perm l

/-- Two block lists describe different partitions of (the elements of) `S`. -/
def Differ {α : Type} (S : List α) (P Q : List (List α)) : Prop :=
  ∃ a, a ∈ S ∧ ∃ b, b ∈ S ∧ ¬ (Rel P a b ↔ Rel Q a b)

/-- Stirling numbers of the second kind. -/
def stirling2 : Nat → Nat → Nat
  | 0, 0 => 1
  | 0, _ + 1 => 0
  | _ + 1, 0 => 0
  | n + 1, k + 1 => (k + 1) * stirling2 n (k + 1) + stirling2 n k

/-- `f 0 + f 1 + … + f n` -/
def sumTo (f : Nat → Nat) : Nat → Nat
  | 0 => f 0
  | n + 1 => sumTo f n + f (n + 1)

/-- Bell numbers: the number of set partitions of an `n`-element set. -/
def bell (n : Nat) : Nat := sumTo (stirling2 n) n

/-- binomial coefficients -/
def choose : Nat → Nat → Nat
  | _, 0 => 1
  | 0, _ + 1 => 0
  | n + 1, k + 1 => choose n k + choose n (k + 1)

/-- all sub-lists with `a ≤ length ≤ b`, by increasing length -/
def subsetsL {α : Type} (l : List α) (a b : Nat) : List (List α) :=
  (List.range (b + 1 - a)).flatMap (fun i => combs (a + i) l)


/-! ### well-formed search spaces: every mode name is one the grammar allows -/

def Modes.valid (wc : List String) : Modes → Bool
  | .names l => l.all (wc.contains ·)
  | _ => true

def optValid (wc : List String) : Option Modes → Bool
  | none => true
  | some m => m.valid wc

/-- every ABSORPTION / ELIMINATION / LAGTIME mode is one of the grammar's (decidable) -/
def MF.valid (a : MF) : Bool :=
  optValid Gen.absorptionWildcard a.absorption && optValid Gen.eliminationWildcard a.elimination &&
    optValid Gen.lagtimeWildcard a.lagtime

/-- every PK attribute is present and there is at least one transit and one peripheral atom
    (what `ModelFeatures.create` establishes for every non-degenerate PK description) -/
def MF.full (a : MF) : Bool :=
  a.absorption.isSome && a.elimination.isSome && a.lagtime.isSome &&
    !(a.transits.flatMap Transits.atoms).isEmpty && !(a.peripherals.flatMap Peripherals.atoms).isEmpty

/-- the five default atoms `ModelFeatures.create` may insert -/
def defaultAtoms : List Atom :=
  Gen.defaultAbsorption.map Atom.abs ++ Gen.defaultElimination.map Atom.elim ++
  Gen.defaultTransitsCounts.flatMap (fun c => Gen.defaultTransitsDepot.map (Atom.trans c)) ++
  Gen.defaultPeripheralsCounts.flatMap (fun c => Gen.defaultPeripheralsModes.map (Atom.peri c)) ++
  Gen.defaultLagtime.map Atom.lag

def Atom.isTrans : Atom → Bool
  | .trans _ _ => true
  | _ => false

def Atom.isMetPeri : Atom → Bool
  | .peri _ m => m == "MET"
  | _ => false

/-! ### stepwise search: the path rule -/

/-- every step of the path is a key of the table that `_is_allowed` accepts given the keys
    applied before it (`prev` = keys already on the path) -/
def allowedFrom (funcs : List Key) (prev : List Key) : List Key → Bool
  | [] => true
  | f :: rest => funcs.contains f && isAllowed funcs f prev && allowedFrom funcs (prev ++ [f]) rest

def allowedPath (funcs : List Key) (p : List Key) : Bool := allowedFrom funcs [] p

/-- the candidates created in the `k`-th sweep of the `while True` loop -/
def layer (funcs : List Key) : Nat → List (List Key)
  | 0 => [[]]
  | k + 1 => nextLayer funcs (layer funcs k)

/-- `t` takes one element from each list of `gs`, in order -/
def pickOne {β : Type} : List β → List (List β) → Prop
  | [], [] => True
  | a :: t, g :: gs => a ∈ g ∧ pickOne t gs
  | _, _ => False

/-! ### helpers to state witnesses -/

/-- the search space a statement list parses to (empty space if the code raises) -/
def mfOf (ss : List Stmt) : MF :=
  match MF.ofStmts ss with
  | .ok m => m
  | .error _ => ⟨none, none, [], [], none⟩

/-- the two atom lists denote the same set -/
def sameAtoms (a b : List Atom) : Bool := a.all (b.contains ·) && b.all (a.contains ·)

/-- atoms of the PK subset used by modelsearch (no metabolite peripherals) -/
def MF.pkAtoms (a : MF) : List Atom :=
  a.atoms.filter (fun x => match x with | .peri _ m => m != "MET" | _ => true)

end Pharmpy.C18
