import PharmpyModel.C18.Sets
/-
  C18 — LET definitions and @references of COVARIATE statements.

  Model of
  * `statement/definition.py::DefinitionInterpreter` (`Let(children[0].value, tuple(values))`, `value` = `.upper()`),
  * `statement/feature/covariate.py::CovariateInterpreter` (`value` = `.upper()`, `ref` = `Ref(name)` with the
    token exactly as written, wildcards, `fp_option` = `.upper()`, `op_option`, `optional_cov`),
  * `feature/covariate.py`: `_partition_statements` (a dict: the last LET of a name wins), `_interpret_symbol`
    (exact-match lookup, then `_interpret_ref`), `_effect_to_tuple`, `spec`, `parse_spec` (itertools.product),
    `features` (REMOVE before ADD for an optional effect),
  * `parse.py::create_from_mfl_statement_list::_let_subs`.
  The input of the interpreters is the parse tree (tokens as written), not the string: lark is trusted.
-/
namespace Pharmpy.C18

/-- `str.upper()` -/
def upper (s : String) : String := s.map Char.toUpper
/-- `str.lower()` -/
def lower (s : String) : String := s.map Char.toLower

/-- parameter / covariate option of a COVARIATE statement (tokens or values) -/
inductive CSym where
  | vals (l : List String)
  | ref (name : String)
  | wild
  deriving DecidableEq, Repr

/-- a COVARIATE statement; `fp = none` is the effect wildcard -/
structure Cov where
  parameter : CSym
  covariate : CSym
  fp : Option (List String)
  op : String
  optional : Bool
  deriving DecidableEq, Repr

/-- a LET definition or a COVARIATE statement.  Used twice: for the parse tree (strings = tokens as written)
    and for the statement objects (strings = stored values). -/
inductive LStmt where
  | letDef (name : String) (value : List String)
  | cov (c : Cov)
  deriving DecidableEq, Repr

/-! ### the interpreters (parse tree -> statement objects) -/

/-- `CovariateInterpreter.option` over `value` (upper-cased) / `ref` (name as written) / wildcard -/
def interpSym : CSym → CSym
  | .vals l => .vals (l.map upper)
  | .ref name => .ref name
  | .wild => .wild

def interpCov (c : Cov) : Cov :=
  { parameter := interpSym c.parameter, covariate := interpSym c.covariate,
    fp := c.fp.map (·.map upper), op := c.op, optional := c.optional }

/-- `DefinitionInterpreter.interpret`: the variable name as written, the values upper-cased -/
def interpStmt : LStmt → LStmt
  | .letDef name value => .letDef name (value.map upper)
  | .cov c => .cov (interpCov c)

def interpret (ts : List LStmt) : List LStmt := ts.map interpStmt

/-! ### definitions -/

/-- `definitions[name]` of the dict built by `_partition_statements` / the `let` dict of
    `create_from_mfl_statement_list`: exact match, the last definition of a name wins -/
def lookupDef : List LStmt → String → Option (List String)
  | [], _ => none
  | .letDef n v :: rest, x =>
    match lookupDef rest x with
    | some w => some w
    | none => if n = x then some v else none
  | .cov _ :: rest, x => lookupDef rest x

/-- what the model argument contributes: `_interpret_ref` for names without a LET, the two wildcards -/
structure Env where
  builtin : String → List String
  params : List String
  covs : List String

/-- `Model()`: nothing known -/
def Env.empty : Env := ⟨fun _ => [], [], []⟩

/-- `_interpret_symbol` (and the non-symbol branch of `_effect_to_tuple`) -/
def symVals (env : Env) (ss : List LStmt) (wild : List String) : CSym → List String
  | .vals l => l
  | .ref name =>
    match lookupDef ss name with
    | some v => v
    | none => env.builtin name
  | .wild => wild

def allContinuous : List String := ["lin", "piece_lin", "exp", "pow"]

/-- the keys `features` yields for one effect: `product(parameters, covariates, fps, (op,), (optional,))`,
    REMOVE then ADD for an optional effect -/
def covKeysOf (env : Env) (ss : List LStmt) (c : Cov) : List Key :=
  let ps := symVals env ss env.params c.parameter
  let cs := symVals env ss env.covs c.covariate
  let fps := match c.fp with
    | none => allContinuous
    | some l => l.map lower
  ps.flatMap fun p => cs.flatMap fun cv => fps.flatMap fun f =>
    (if c.optional then [["COVARIATE", p, cv, f, c.op, "REMOVE"]] else []) ++ [["COVARIATE", p, cv, f, c.op, "ADD"]]

def covsOf : List LStmt → List Cov
  | [] => []
  | .cov c :: rest => c :: covsOf rest
  | .letDef _ _ :: rest => covsOf rest

/-- keys of `funcs(model, statements, (covariate.features,))` in generation order (before the dict removes repeats) -/
def covKeys (env : Env) (ss : List LStmt) : List Key :=
  (covsOf ss).flatMap (covKeysOf env ss)

/-! ### `_let_subs` of `ModelFeatures.create_from_mfl_statement_list` -/

def letSubsSym (ss : List LStmt) : CSym → CSym
  | .ref name =>
    match lookupDef ss name with
    | some v => .vals v
    | none => .ref name
  | s => s

def letSubs (ss : List LStmt) : List Cov :=
  (covsOf ss).map fun c => { c with parameter := letSubsSym ss c.parameter, covariate := letSubsSym ss c.covariate }

/-! ### spec side: the explicit, reference-free description (substitution on the parse tree) -/

def explicitSym (ts : List LStmt) : CSym → CSym
  | .ref name =>
    match lookupDef ts name with
    | some v => .vals v
    | none => .ref name
  | s => s

/-- every COVARIATE statement with its LET-defined references replaced by the defining tokens; LETs dropped -/
def explicit (ts : List LStmt) : List LStmt :=
  (covsOf ts).map fun c =>
    .cov { c with parameter := explicitSym ts c.parameter, covariate := explicitSym ts c.covariate }

/-- a reference is defined: some LET carries exactly this spelling -/
def defined (ts : List LStmt) (name : String) : Bool := (lookupDef ts name).isSome

end Pharmpy.C18
