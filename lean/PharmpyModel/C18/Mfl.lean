import PharmpyModel.C18.Sets
import PharmpyModel.Generated.C18Tables
/-
  C18 — executable model of the MFL feature algebra (PK fragment):
  tools/mfl/statement/feature/{absorption,elimination,lagtime,transits,peripherals}.py
  and `ModelFeatures` (tools/mfl/parse.py): create, create_from_mfl_statement_list,
  __add__, __sub__, __eq__, contain_subset, least_number_of_transformations (keys), Transits.__eq__,
  convert_to_funcs (keys), _add_helper, _extract_peripherals.

  The model mirrors the code as it is, including the Python exceptions it raises
  (`Except Err`).  Orders that come out of `tuple(set(<names>))` are hash-randomised in
  Python; the model fixes first-occurrence order and the harness compares those
  (and only those) as sorted lists.  `tuple(set(<small ints>))` iterates in ascending
  order for values below 8 (CPython's table layout); the model sorts.

  The spec side is `atoms`: the explicitly expanded feature atoms of a search space.
-/
namespace Pharmpy.C18

/-- The `modes` / `depot` attribute of a statement: `Wildcard()`, a tuple of `Name`s,
    or a bare `Name` (what `Absorption((Name('INST')))` stored before fix f9eda08: the
    parentheses do not make a tuple; the code no longer produces it, the constructor is kept so
    that the wire format can still express it). -/
inductive Modes where
  | wild
  | names (l : List String)
  | bare (s : String)
  deriving DecidableEq, Repr

/-- The three single-attribute statement classes differ only in these data. -/
structure ModeKind where
  name : String
  wildcard : List String
  /-- `__add__` wraps the concatenation in `tuple(set(...))`. -/
  addDedup : Bool
  /-- the last branch of `__sub__` wraps the difference in `tuple(set(...))`. -/
  subDedup : Bool
  /-- mode re-inserted when a difference is empty. -/
  subDefault : String
  deriving Repr

def absorptionKind : ModeKind :=
  { name := "ABSORPTION", wildcard := Gen.absorptionWildcard, addDedup := true, subDedup := true,
    subDefault := "INST" }
def eliminationKind : ModeKind :=
  { name := "ELIMINATION", wildcard := Gen.eliminationWildcard, addDedup := false, subDedup := false,
    subDefault := "FO" }
def lagtimeKind : ModeKind :=
  { name := "LAGTIME", wildcard := Gen.lagtimeWildcard, addDedup := true, subDedup := false,
    subDefault := "OFF" }

/-- First-occurrence de-duplication (`dict.fromkeys` order; stands for `tuple(set(..))`). -/
def dedup {α : Type} [BEq α] : List α → List α
  | [] => []
  | x :: xs => x :: (dedup xs).filter (fun y => !(y == x))

def Modes.isWild : Modes → Bool
  | .wild => true
  | _ => false

/-- Iterating the attribute (`set(m)`, `for a in m`): only a tuple is iterable. -/
def Modes.iter : Modes → Except Err (List String)
  | .names l => .ok l
  | _ => .error .typeError

/-- `[a for a in xs if a not in m]`: the containment test is only evaluated when `xs`
    is non-empty. -/
def filterNotIn (xs : List String) (m : Modes) : Except Err (List String) :=
  if xs.isEmpty then .ok []
  else match m with
    | .names l => .ok (xs.filter (fun a => !l.contains a))
    | _ => .error .typeError

/-- `.eval` -/
def Modes.eval (k : ModeKind) : Modes → Modes
  | .wild => .names k.wildcard
  | m => m

/-- `len(stmt)` = `len(self.eval.modes)` -/
def Modes.len (k : ModeKind) (m : Modes) : Except Err Nat :=
  match m.eval k with
  | .names l => .ok l.length
  | _ => .error .typeError

/-- `Cls.__add__` -/
def modesAdd (k : ModeKind) (a b : Modes) : Except Err Modes :=
  if a.isWild || b.isWild then .ok .wild
  else do
    let bl ← b.iter
    let extra ← filterNotIn bl a
    match a with
    | .names al =>
      let r := al ++ extra
      .ok (.names (if k.addDedup then dedup r else r))
    | _ => .error .typeError

/-- `Cls.__sub__` -/
def modesSub (k : ModeKind) (a b : Modes) : Except Err Modes :=
  -- since f9eda08 a 1-tuple of the class default (before: a bare `Name`, for Elimination even `INST`)
  if b.isWild then .ok (.names [k.subDefault])
  else do
    let all ←
      if a.isWild then filterNotIn k.wildcard b
      else do
        let al ← a.iter
        let d ← filterNotIn al b
        pure (if k.subDedup then dedup d else d)
    .ok (.names (if all.isEmpty then [k.subDefault] else all))

/-- set equality of two lists -/
def setEq {α : Type} [BEq α] (a b : List α) : Bool :=
  a.all (b.contains ·) && b.all (a.contains ·)

/-- `Cls.__eq__` between two instances of the same class. -/
def modesEq (a b : Modes) : Except Err Bool := do
  let al ← a.iter
  let bl ← b.iter
  pure (setEq al bl)

structure Transits where
  counts : List Nat
  depot : Modes
  deriving DecidableEq, Repr

structure Peripherals where
  counts : List Nat
  modes : Modes
  deriving DecidableEq, Repr

/-- A parsed MFL statement of the PK fragment. -/
inductive Stmt where
  | absorption (m : Modes)
  | elimination (m : Modes)
  | lagtime (m : Modes)
  | transits (t : Transits)
  | peripherals (p : Peripherals)
  deriving DecidableEq, Repr

/-- `ModelFeatures`, PK fragment (all other attributes `None` / `()`). -/
structure MF where
  absorption : Option Modes
  elimination : Option Modes
  transits : List Transits
  peripherals : List Peripherals
  lagtime : Option Modes
  deriving DecidableEq, Repr

/-- `bool(x)` of an `Optional[statement]`: `None` is falsy, otherwise `len(x) != 0`. -/
def truthy (k : ModeKind) : Option Modes → Except Err Bool
  | none => .ok false
  | some m => do pure ((← m.len k) != 0)

/-- `ModelFeatures.create` -/
def MF.create (absorption elimination : Option Modes) (transits : List Transits)
    (peripherals : List Peripherals) (lagtime : Option Modes) : Except Err MF := do
  -- any(x for x in [absorption, elimination, transits, peripherals, lagtime, metabolite])
  let pk ←
    (do if (← truthy absorptionKind absorption) then pure true
        else if (← truthy eliminationKind elimination) then pure true
        else if !transits.isEmpty then pure true
        else if !peripherals.isEmpty then pure true
        else truthy lagtimeKind lagtime : Except Err Bool)
  if pk then
    pure {
      absorption := some (absorption.getD (.names Gen.defaultAbsorption)),
      elimination := some (elimination.getD (.names Gen.defaultElimination)),
      transits := if transits.isEmpty then [⟨Gen.defaultTransitsCounts, .names Gen.defaultTransitsDepot⟩] else transits,
      peripherals := if peripherals.isEmpty then [⟨Gen.defaultPeripheralsCounts, .names Gen.defaultPeripheralsModes⟩] else peripherals,
      lagtime := some (lagtime.getD (.names Gen.defaultLagtime)) }
  else
    pure { absorption, elimination, transits, peripherals, lagtime }

/-- `x = x + statement if x else statement` -/
def accumulate (k : ModeKind) (cur : Option Modes) (m : Modes) : Except Err (Option Modes) := do
  if (← truthy k cur) then
    match cur with
    | some c => pure (some (← modesAdd k c m))
    | none => pure (some m)
  else pure (some m)

/-- `ModelFeatures.create_from_mfl_statement_list` -/
def MF.ofStmts (ss : List Stmt) : Except Err MF := do
  let init : MF := ⟨none, none, [], [], none⟩
  let acc ← ss.foldlM (fun (acc : MF) s =>
    match s with
    | .absorption m => do pure { acc with absorption := ← accumulate absorptionKind acc.absorption m }
    | .elimination m => do pure { acc with elimination := ← accumulate eliminationKind acc.elimination m }
    | .lagtime m => do pure { acc with lagtime := ← accumulate lagtimeKind acc.lagtime m }
    | .transits t => pure { acc with transits := acc.transits ++ [t] }
    | .peripherals p => pure { acc with peripherals := acc.peripherals ++ [p] }) init
  MF.create acc.absorption acc.elimination acc.transits acc.peripherals acc.lagtime

/-! ### `_add_helper` (transits) -/

/-- insertion sort, ascending, without duplicates: `tuple(set(<ints below 8>))`. -/
def insertSorted (n : Nat) : List Nat → List Nat
  | [] => [n]
  | m :: ms => if n < m then n :: m :: ms else if n == m then m :: ms else m :: insertSorted n ms

def sortDedup (l : List Nat) : List Nat := l.foldr insertSorted []

/-- insertion-ordered `defaultdict(list)`: `d[a].extend(vs)` -/
def dictExtend (a : String) (vs : List Nat) : List (String × List Nat) → List (String × List Nat)
  | [] => [(a, vs)]
  | (k, w) :: rest => if k == a then (k, w ++ vs) :: rest else (k, w) :: dictExtend a vs rest

def dictGet (d : List (String × List Nat)) (a : String) : List Nat :=
  match d.find? (fun kv => kv.1 == a) with
  | some kv => kv.2
  | none => []

def Transits.evalDepot (t : Transits) : Except Err (List String) :=
  match t.depot with
  | .wild => .ok Gen.transitsDepotWildcard
  | .names l => .ok l
  | .bare _ => .error .typeError

/-- the `s?_join_name_dict` of `_add_helper(…, "counts", "depot")` -/
def joinDict (ts : List Transits) : Except Err (List (String × List Nat)) :=
  ts.foldlM (fun d t => do
    let ds ← t.evalDepot
    pure (ds.foldl (fun d a => dictExtend a t.counts d) d)) []

/-- `(remove_empty(s1_unique), remove_empty(s2_unique), remove_empty(s12_joined))` -/
def addHelper (s1 s2 : List Transits) :
    Except Err (List (String × List Nat) × List (String × List Nat) × List (String × List Nat)) := do
  let d1 ← joinDict s1
  let d2 ← joinDict s2
  let nonEmpty := fun (d : List (String × List Nat)) => d.filter (fun kv => !kv.2.isEmpty)
  let u1 := d1.map (fun kv => (kv.1, (sortDedup kv.2).filter (fun c => !(dictGet d2 kv.1).contains c)))
  let u2 := d2.map (fun kv => (kv.1, (sortDedup kv.2).filter (fun c => !(dictGet d1 kv.1).contains c)))
  let j := d1.map (fun kv => (kv.1, (sortDedup kv.2).filter (fun c => (dictGet d2 kv.1).contains c)))
  pure (nonEmpty u1, nonEmpty u2, nonEmpty j)

def toTransits (d : List (String × List Nat)) : List Transits :=
  d.map (fun kv => ⟨kv.2, .names [kv.1]⟩)

/-- `_add_sub_transits` -/
def addSubTransits (a b : MF) (add : Bool) : Except Err (List Transits) := do
  let (l, r, c) ← addHelper a.transits b.transits
  if add then pure (toTransits l ++ toTransits r ++ toTransits c)
  else pure (toTransits l)

/-! ### peripherals -/

/-- `_extract_peripherals`: `(MET counts, DRUG counts)` as sorted sets. Iterating a
    `Wildcard` is a `TypeError`; an unknown mode name a `KeyError`. -/
def extractPeripherals (ps : List Peripherals) : Except Err (List Nat × List Nat) :=
  ps.foldlM (fun (acc : List Nat × List Nat) p => do
    let ms ← p.modes.iter
    ms.foldlM (fun (acc : List Nat × List Nat) m =>
      if m == "MET" then pure (sortDedup (acc.1 ++ p.counts), acc.2)
      else if m == "DRUG" then pure (acc.1, sortDedup (acc.2 ++ p.counts))
      else .error .keyError) acc) ([], [])

/-- `_add_sub_peripherals` -/
def addSubPeripherals (a b : MF) (add : Bool) : Except Err (List Peripherals) := do
  let (lm, ld) ← extractPeripherals a.peripherals
  let (rm, rd) ← extractPeripherals b.peripherals
  let comb := fun (l r : List Nat) =>
    if add then sortDedup (l ++ r) else l.filter (fun c => !r.contains c)
  let met := comb lm rm
  let drug := comb ld rd
  pure ((if met.isEmpty then [] else [⟨met, .names ["MET"]⟩]) ++
        (if drug.isEmpty then [] else [⟨drug, .names ["DRUG"]⟩]))

/-! ### `__add__`, `__sub__`, `__eq__` -/

/-- the inner `add(lhs, rhs)` -/
def optAdd (k : ModeKind) (l r : Option Modes) : Except Err (Option Modes) := do
  if (← truthy k l) then
    if (← truthy k r) then
      match l, r with
      | some a, some b => pure (some (← modesAdd k a b))
      | _, _ => pure l
    else pure l
  else if (← truthy k r) then pure r
  else pure l

/-- the inner `sub(lhs, rhs)` -/
def optSub (k : ModeKind) (l r : Option Modes) : Except Err (Option Modes) := do
  if (← truthy k l) then
    if (← truthy k r) then
      match l, r with
      | some a, some b =>
        if (← modesEq a b) then pure none else pure (some (← modesSub k a b))
      | _, _ => pure l
    else pure l
  else pure l

/-- `ModelFeatures.__add__` -/
def MF.add (a b : MF) : Except Err MF := do
  let transits ← addSubTransits a b true
  let peripherals ← addSubPeripherals a b true
  let absorption ← optAdd absorptionKind a.absorption b.absorption
  let elimination ← optAdd eliminationKind a.elimination b.elimination
  let lagtime ← optAdd lagtimeKind a.lagtime b.lagtime
  MF.create absorption elimination transits peripherals lagtime

/-- `ModelFeatures.__sub__` -/
def MF.sub (a b : MF) : Except Err MF := do
  let transits ← addSubTransits a b false
  let peripherals ← addSubPeripherals a b false
  let absorption ← optSub absorptionKind a.absorption b.absorption
  let elimination ← optSub eliminationKind a.elimination b.elimination
  let lagtime ← optSub lagtimeKind a.lagtime b.lagtime
  MF.create absorption elimination transits peripherals lagtime

/-- `x == y` for two `Optional[statement]` of one class. -/
def optEq (l r : Option Modes) : Except Err Bool :=
  match l, r with
  | none, none => .ok true
  | some a, some b => modesEq a b
  | _, _ => .ok false

/-- `Peripherals.__eq__` (`and` short-circuits) -/
def Peripherals.eq (p q : Peripherals) : Except Err Bool := do
  if setEq p.counts q.counts then modesEq p.modes q.modes else pure false

/-- `tuple.__eq__` on tuples of `Peripherals`: items are compared up to the first
    difference before the lengths are looked at. -/
def peripheralsTupleEq : List Peripherals → List Peripherals → Except Err Bool
  | [], [] => .ok true
  | [], _ :: _ => .ok false
  | _ :: _, [] => .ok false
  | p :: ps, q :: qs => do
    if (← p.eq q) then peripheralsTupleEq ps qs else pure false

/-- counts of the transits statements whose evaluated depot contains `d` -/
def countsWithDepot (ts : List Transits) (d : String) : Except Err (List Nat) :=
  ts.foldlM (fun acc t => do
    let ds ← t.evalDepot
    pure (if ds.contains d then acc ++ t.counts else acc)) []

/-- `_eq_transits` -/
def eqTransits (a b : MF) : Except Err Bool := do
  let ld ← countsWithDepot a.transits "DEPOT"
  let ln ← countsWithDepot a.transits "NODEPOT"
  let rd ← countsWithDepot b.transits "DEPOT"
  let rn ← countsWithDepot b.transits "NODEPOT"
  pure (setEq ld rd && setEq ln rn)

/-- `ModelFeatures.__eq__` (the `and` chain short-circuits left to right) -/
def MF.eq (a b : MF) : Except Err Bool := do
  let transits ← eqTransits a b
  if !(← optEq a.absorption b.absorption) then pure false
  else if !(← optEq a.elimination b.elimination) then pure false
  else if !transits then pure false
  else if !(← peripheralsTupleEq a.peripherals b.peripherals) then pure false
  else optEq a.lagtime b.lagtime

/-! ### `contain_subset` -/

/-- `stmt.eval.modes` as an iterable, or the error Python raises. -/
def evalModes (k : ModeKind) : Option Modes → Except Err (List String)
  | none => .error .attributeError
  | some m => match m.eval k with
    | .names l => .ok l
    | _ => .error .typeError

/-- `all([s in self.x.eval.modes for s in mfl.x.eval.modes])`: the right operand is
    evaluated first, the left one only when there is something to look up. -/
def subsetModes (k : ModeKind) (l r : Option Modes) : Except Err Bool := do
  let rl ← evalModes k r
  if rl.isEmpty then pure true
  else do
    let ll ← evalModes k l
    pure (rl.all (ll.contains ·))

/-- `_subset_transits` -/
def subsetTransits (a b : MF) : Except Err Bool := do
  let lc := a.transits.flatMap (·.counts)
  let ld ← a.transits.foldlM (fun acc t => do pure (acc ++ (← t.evalDepot))) []
  let rc := b.transits.flatMap (·.counts)
  let rd ← b.transits.foldlM (fun acc t => do pure (acc ++ (← t.evalDepot))) []
  pure (rc.all (lc.contains ·) && rd.all (ld.contains ·))

/-- The three ingredients of `contain_subset`, evaluated in the order of the code:
    `(absorption ⊆ ∧ elimination ⊆ ∧ transits ∧ lagtime ⊆, DRUG peripherals ⊆, MET peripherals ⊆)`;
    the `and` chain short-circuits. -/
def MF.containParts (a b : MF) : Except Err (Bool × Bool × Bool) := do
  let transits ← subsetTransits a b
  let (lm, ld) ← extractPeripherals a.peripherals
  let (rm, rd) ← extractPeripherals b.peripherals
  let s ←
    (do if !(← subsetModes absorptionKind a.absorption b.absorption) then pure false
        else if !(← subsetModes eliminationKind a.elimination b.elimination) then pure false
        else if !transits then pure false
        else subsetModes lagtimeKind a.lagtime b.lagtime : Except Err Bool)
  pure (s, rd.all (ld.contains ·), rm.all (lm.contains ·))

/-- `contain_subset(self, mfl, tool=…)` on spaces without covariates; `modelsearch = true`
    stands for `tool is None or tool == 'modelsearch'`.  Since 87505a7 every path returns a
    `bool` (before, a tool other than modelsearch fell off the last branch: `None`). -/
def MF.containSubset (a b : MF) (modelsearch : Bool) : Except Err Bool := do
  let (s, drug, met) ← a.containParts b
  if !s then pure false
  else if modelsearch then pure drug
  else pure (drug && met)

/-- `Transits.__eq__` (since bfc9c9b a `bool`): equal count sets and equal depots, where a
    wildcard depot only equals a wildcard. -/
def Transits.eq (t u : Transits) : Except Err Bool := do
  let depotEq ←
    (match t.depot, u.depot with
      | .wild, .wild => pure true
      | .wild, .names _ => pure false
      | .names _, .wild => pure false
      | .names l, .names r => pure (setEq l r)
      | _, _ => .error .typeError : Except Err Bool)
  pure (setEq t.counts u.counts && depotEq)

/-! ### `convert_to_funcs` (keys) and `least_number_of_transformations` (keys) -/

def modeKeys (k : ModeKind) (m : Option Modes) : Except Err (List Key) :=
  match m with
  | none => .ok []
  | some m => match m with
    | .bare _ => .error .typeError
    | _ => match m.eval k with
      | .names l =>
        if l.all (k.wildcard.contains ·) then .ok (l.map (fun x => [k.name, x]))
        else .error .valueError
      | _ => .error .typeError

def transitsKeys (ts : List Transits) : Except Err (List Key) := do
  let ks ← ts.mapM (fun t => do
    let ds ← t.evalDepot
    if ds.all (Gen.transitsDepotWildcard.contains ·) || t.counts.isEmpty then
      pure (t.counts.flatMap (fun c => ds.map (fun d => ["TRANSITS", toString c, d])))
    else .error .valueError)
  pure ks.flatten

def peripheralsKeys (ps : List Peripherals) : Except Err (List Key) := do
  let ks ← ps.mapM (fun p => do
    let ms ← (match p.modes with
      | .wild => pure Gen.peripheralsModesWildcard
      | .names l => pure l
      | .bare _ => .error .typeError : Except Err (List String))
    if ms.all (fun m => m == "DRUG" || m == "MET") || p.counts.isEmpty then
      pure (p.counts.flatMap (fun c => ms.map (fun m =>
        if m == "DRUG" then ["PERIPHERALS", toString c] else ["PERIPHERALS", toString c, "METABOLITE"])))
    else .error .valueError)
  pure ks.flatten

/-- keys of `mf.convert_to_funcs()` in dict order (absorption, elimination, transits,
    peripherals, lagtime; a repeated key keeps its first position). -/
def MF.funcKeys (a : MF) : Except Err (List Key) := do
  let k1 ← modeKeys absorptionKind a.absorption
  let k2 ← modeKeys eliminationKind a.elimination
  let k3 ← transitsKeys a.transits
  let k4 ← peripheralsKeys a.peripherals
  let k5 ← modeKeys lagtimeKind a.lagtime
  pure (dedup (k1 ++ k2 ++ k3 ++ k4 ++ k5))

/-- `_lnt_helper`: the key added (if any). -/
def lntHelper (k : ModeKind) (l r : Option Modes) : Except Err (List Key) :=
  match l, r with
  | none, none => .ok []
  | some _, none => .error .valueError
  | none, some _ => .error .valueError
  | some _, some _ => do
    let ll ← evalModes k l
    let rl ← evalModes k r
    if ll.any (rl.contains ·) then pure []
    else
      match dedup (← modeKeys k r) with
      | [] => .error .indexError
      | key :: _ => pure [key]

/-- `_lnt_transits` -/
def lntTransits (a b : MF) : Except Err (List Key) := do
  let (l, r, c) ← addHelper a.transits b.transits
  if c.isEmpty && !r.isEmpty then
    let _ ← transitsKeys b.transits
    match l.find? (fun kv => r.any (fun kv' => kv'.1 == kv.1)) with
    | some kv => pure [["TRANSITS", toString ((dictGet r kv.1).headD 0), kv.1]]
    | none =>
      match r with
      | kv :: _ => pure [["TRANSITS", toString (kv.2.headD 0), kv.1]]
      | [] => pure []
  else pure []

/-- `_lnt_peripherals(other, lnt, subset)` for one key of `keys` (`met = false`: "DRUG",
    the pk subset since e311de7; `met = true`: "MET", the metabolite subset). -/
def lntPeripherals (a b : MF) (met : Bool) : Except Err (List Key) := do
  let (lm, ld) ← extractPeripherals a.peripherals
  let (rm, rd) ← extractPeripherals b.peripherals
  let _ ← peripheralsKeys b.peripherals
  if met then
    pure (if !(lm.any (rm.contains ·)) then
      (match rm with | [] => [] | c :: _ => [["PERIPHERALS", toString c, "METABOLITE"]]) else [])
  else
    pure (if !(ld.any (rd.contains ·)) then
      (match rd with | [] => [] | c :: _ => [["PERIPHERALS", toString c]]) else [])

/-- keys of `self.least_number_of_transformations(other, tool=…)` in dict order;
    `modelsearch = true` is `tool='modelsearch'` (pk features only), `false` is `tool=None`
    (which afterwards also looks at the metabolite peripherals; covariates, PD and metabolite
    attributes are absent in the fragment). -/
def MF.lnt (a b : MF) (modelsearch : Bool) : Except Err (List Key) := do
  let k1 ← lntHelper absorptionKind a.absorption b.absorption
  let k2 ← lntHelper eliminationKind a.elimination b.elimination
  let k3 ← lntTransits a b
  let k4 ← lntPeripherals a b false
  let k5 ← lntHelper lagtimeKind a.lagtime b.lagtime
  if modelsearch then pure (k1 ++ k2 ++ k3 ++ k4 ++ k5)
  else do
    let k6 ← lntPeripherals a b true
    pure (k1 ++ k2 ++ k3 ++ k4 ++ k5 ++ k6)

/-! ## Spec: explicitly expanded feature atoms -/

inductive Atom where
  | abs (m : String)
  | elim (m : String)
  | trans (c : Nat) (d : String)
  | peri (c : Nat) (m : String)
  | lag (m : String)
  deriving DecidableEq, Repr

/-- the modes a (possibly wildcard) attribute stands for -/
def Modes.expand (wc : List String) : Modes → List String
  | .wild => wc
  | .names l => l
  | .bare s => [s]

def optExpand (wc : List String) : Option Modes → List String
  | none => []
  | some m => m.expand wc

def Transits.atoms (t : Transits) : List Atom :=
  t.counts.flatMap (fun c => (t.depot.expand Gen.transitsDepotWildcard).map (fun d => Atom.trans c d))

def Peripherals.atoms (p : Peripherals) : List Atom :=
  p.counts.flatMap (fun c => (p.modes.expand Gen.peripheralsModesWildcard).map (fun m => Atom.peri c m))

/-- the feature atoms of a search space -/
def MF.atoms (a : MF) : List Atom :=
  (optExpand Gen.absorptionWildcard a.absorption).map Atom.abs ++
  (optExpand Gen.eliminationWildcard a.elimination).map Atom.elim ++
  a.transits.flatMap Transits.atoms ++
  a.peripherals.flatMap Peripherals.atoms ++
  (optExpand Gen.lagtimeWildcard a.lagtime).map Atom.lag

end Pharmpy.C18
