/-
  C18 — executable model of pharmpy/internals/set/partitions.py and subsets.py,
  and of `all_combinations` (tools/mfl/helpers.py).

  Python                                   Lean
  ---------------------------------------  -----------------------------------
  _partitions(elements, n)                 partsRev (elements[:n] reversed)
    yield partition + (suffix,)              head of `step`
    yield partition[:i] + (part+suffix,)     `insertEach`
          + partition[i+1:]
  _shortlexsorted / _shortlexkey           mergeSort shortlexLe
  sorted(..., key=_partitionkey)           mergeSort partKeyLe
  itertools.combinations(s, r)             combs r s
  subsets(iterable, min_size, max_size)    subsets
  non_empty_subsets                        nonEmptySubsets
  non_empty_proper_subsets                 nonEmptyProperSubsets
-/
namespace Pharmpy.C18

/-! ## partitions.py -/

/-- `partition[:i] + (part + suffix,) + partition[i+1:]` for `i = 0, 1, …` in order. -/
def insertEach {α : Type} (x : α) : List (List α) → List (List (List α))
  | [] => []
  | b :: bs => ((b ++ [x]) :: bs) :: (insertEach x bs).map (b :: ·)

/-- What one partition of the first `n-1` elements yields for the `n`-th element `x`. -/
def step {α : Type} (x : α) (p : List (List α)) : List (List (List α)) :=
  (p ++ [[x]]) :: insertEach x p

/-- `_partitions(elements, n)`; the argument is `elements[:n]` *reversed*
    (the head is `elements[n-1]`, the `last` of the Python code). -/
def partsRev {α : Type} : List α → List (List (List α))
  | [] => [[]]
  | x :: rest => (partsRev rest).flatMap (step x)

/-- `list(_partitions(elements, len(elements)))`. -/
def rawPartitions {α : Type} (l : List α) : List (List (List α)) := partsRev l.reverse

/-- Python tuple comparison `a <= b` on tuples of ints. -/
def lexLe : List Nat → List Nat → Bool
  | [], _ => true
  | _ :: _, [] => false
  | a :: as, b :: bs => a < b || (a == b && lexLe as bs)

/-- `_shortlexkey(a) <= _shortlexkey(b)`. -/
def shortlexLe (a b : List Nat) : Bool :=
  a.length < b.length || (a.length == b.length && lexLe a b)

/-- Python tuple comparison `x <= y` on tuples of tuples of ints. -/
def lexLe2 : List (List Nat) → List (List Nat) → Bool
  | [], _ => true
  | _ :: _, [] => false
  | a :: as, b :: bs => if a == b then lexLe2 as bs else lexLe a b

/-- `_partitionkey(x) <= _partitionkey(y)`: (len, tuple of part lengths, x). -/
def partKeyLe (x y : List (List Nat)) : Bool :=
  x.length < y.length ||
    (x.length == y.length &&
      (if x.map List.length == y.map List.length then lexLe2 x y
       else lexLe (x.map List.length) (y.map List.length)))

/-- `_shortlexsorted`. -/
def shortlexSorted (p : List (List Nat)) : List (List Nat) := p.mergeSort shortlexLe

/-- `list(partitions(elements))`. -/
def partitions (l : List Nat) : List (List (List Nat)) :=
  ((rawPartitions l).map shortlexSorted).mergeSort partKeyLe

/-! ## subsets.py -/

/-- `itertools.combinations(s, r)` (documented order: lexicographic in positions). -/
def combs {α : Type} : Nat → List α → List (List α)
  | 0, _ => [[]]
  | _ + 1, [] => []
  | r + 1, x :: xs => (combs r xs).map (x :: ·) ++ combs (r + 1) xs

/-- Python exception classes that the modelled code can raise. -/
inductive Err where
  | typeError | valueError | keyError | indexError | attributeError
  deriving DecidableEq, Repr

/-- `range(a, b)` on Python ints, as the list of its values. -/
def intRange (a b : Int) : List Int :=
  (List.range (b - a).toNat).map (fun (i : Nat) => a + Int.ofNat i)

/-- `list(subsets(iterable, min_size, max_size))`.  A negative `r` reaches
    `itertools.combinations` and raises `ValueError`. -/
def subsets {α : Type} (s : List α) (minSize : Int := 0) (maxSize : Int := -1) :
    Except Err (List (List α)) :=
  let mx : Int := if maxSize < 0 then (s.length : Int) + maxSize + 1 else maxSize
  let rs := intRange minSize (mx + 1)
  if rs.any (· < 0) then .error .valueError
  else .ok (rs.flatMap (fun r => combs r.toNat s))

def nonEmptySubsets {α : Type} (s : List α) : Except Err (List (List α)) := subsets s 1 (-1)
def nonEmptyProperSubsets {α : Type} (s : List α) : Except Err (List (List α)) := subsets s 1 (-2)

/-- The value of `non_empty_subsets` without the exception wrapper (it never raises). -/
def nonEmptySubsetsL {α : Type} (s : List α) : List (List α) :=
  (List.range s.length).flatMap (fun i => combs (i + 1) s)


/-! ## iivsearch/algorithms.py: brute-force candidates -/

/-- `_is_rv_block_structure(etas, partition, fixed_etas)`: `current` are the non-empty name
    tuples of the distributions after removing fixed etas. -/
def isRvBlockStructure (current : List (List Nat)) (P : List (List Nat)) : Bool :=
  current.all (P.contains ·)

/-- the block structures of the candidates of `td_exhaustive_block_structure`, in order -/
def blockStructureCandidates (etas : List Nat) (current : List (List Nat)) : List (List (List Nat)) :=
  (partitions etas).filter (fun P => !isRvBlockStructure current P)

/-! ## helpers.all_combinations -/

/-- A feature key `('KIND', arg, …)` with every component printed by `str`. -/
abbrev Key := List String

def Key.kind (k : Key) : String := k.headD ""

/-- `grouped[key[0]].append(key)` on an insertion-ordered `defaultdict(list)`. -/
def insertGroup (k : Key) : List (String × List Key) → List (String × List Key)
  | [] => [(k.kind, [k])]
  | (s, g) :: rest =>
    if s == k.kind then (s, g ++ [k]) :: rest else (s, g) :: insertGroup k rest

/-- `_group_incompatible_features`. -/
def groupByKind (keys : List Key) : List (String × List Key) :=
  keys.foldl (fun acc k => insertGroup k acc) []

/-- `itertools.product(*lists)`. -/
def product {β : Type} : List (List β) → List (List β)
  | [] => [[]]
  | g :: gs => g.flatMap (fun a => (product gs).map (a :: ·))

/-- `list(all_combinations(fns))` on the key list of `fns`. -/
def allCombinations (keys : List Key) : List (List Key) :=
  let feats : List (List (Option Key)) := (groupByKind keys).map (fun g => none :: g.2.map some)
  ((product feats).map (fun t => t.filterMap id)).filter (fun a => !a.isEmpty)

end Pharmpy.C18
