import PharmpyModel.Core.Stmts
/-
  C10 — executable model of the statement dataflow queries of
  `pharmpy.model.statements.Statements`:

    full_expression, find_assignment(_index), reassign,
    _create_dependency_graph, direct_dependencies, dependencies,
    remove_symbol_definitions

  Each definition mirrors the Python line by line; sets are lists (membership
  is all that is observed; the driver sorts and de-duplicates on output).
  The dependency graph has an edge i → j (j < i) whenever statement j defines
  a symbol that statement i reads — *every* earlier definition, not only the
  last one, exactly as `_create_dependency_graph` does.
-/
namespace Pharmpy.C10
open Pharmpy

inductive Err where
  | odeNotSupported   -- ValueError in full_expression
  | keyError          -- KeyError in dependencies
  | indexError        -- statement not in list
  deriving DecidableEq, Repr

/-! ### full_expression -/

/-- One step of the reversed loop: `expression.subs({symbol: expression})`. -/
def fullStep (s : Stmt) (acc : Except Err Expr) : Except Err Expr :=
  match s, acc with
  | _, .error e => .error e
  | .ode _ _, .ok _ => .error .odeNotSupported
  | .assign x t, .ok e => .ok (Expr.subst1 x t e)

/-- `for statement in reversed(self): expression = expression.subs(...)`. -/
def fullExpression (ss : List Stmt) (e : Expr) : Except Err Expr :=
  ss.foldr fullStep (.ok e)

/-! ### find_assignment_index / reassign -/

def definesAssign (x : Sym) : Stmt → Bool
  | .assign y _ => y == x
  | .ode _ _ => false

/-- `_lookup_last_assignment`: index of the last assignment to `x`. -/
def findAssignmentIndex (ss : List Stmt) (x : Sym) : Option Nat :=
  let idx := (List.range ss.length).filter (fun i =>
    match ss[i]? with | some s => definesAssign x s | none => false)
  idx.getLast?

/-- Walk the reversed list: the first hit (= last assignment) is replaced,
    the other hits are deleted. Returns the result still reversed. -/
def reassignRev (x : Sym) (e : Expr) : List Stmt → Bool → List Stmt
  | [], _ => []
  | s :: rest, last =>
    if definesAssign x s then
      if last then .assign x e :: reassignRev x e rest false
      else reassignRev x e rest false
    else s :: reassignRev x e rest last

def reassign (ss : List Stmt) (x : Sym) (e : Expr) : List Stmt :=
  (reassignRev x e ss.reverse true).reverse

/-! ### subs (a single symbol; `Statements.subs({x: t})`) -/

/-- `Assignment.subs`: the left-hand symbol is replaced when it is `x` and `t` is a symbol; the
    right-hand side gets `x := t`.  An ODE system is left to the harness (its rates are C05's). -/
def substStmt (x : Sym) (t : Expr) : Stmt → Stmt
  | .assign y e =>
    .assign (if y = x then (match t with | .sym z => z | _ => y) else y) (Expr.subst1 x t e)
  | .ode a r => .ode a r

def substStmts (x : Sym) (t : Expr) (ss : List Stmt) : List Stmt := ss.map (substStmt x t)

/-! ### renaming a symbol everywhere (`Statements.subs({x: z})` with `z` a symbol or an amount function):
    left-hand sides, right-hand sides and the amounts / rate symbols of an ODE system -/

def renameSym (x z : Sym) (y : Sym) : Sym := if y = x then z else y

def renameStmt (x z : Sym) : Stmt → Stmt
  | .assign y e => .assign (renameSym x z y) (Expr.subst1 x (.sym z) e)
  | .ode a r => .ode (a.map (renameSym x z)) (r.map (renameSym x z))

def renameStmts (x z : Sym) (ss : List Stmt) : List Stmt := ss.map (renameStmt x z)

/-! ### dependency graph -/

/-- Does statement `i` (reading `rhs`) depend directly on earlier statement `t`? -/
def dependsOn (rhs : List Sym) (t : Stmt) : Bool :=
  t.defs.any (fun d => rhs.contains d)

/-- Edge i → j of `_create_dependency_graph` (j < i). -/
def edge (ss : List Stmt) (i j : Nat) : Bool :=
  match ss[i]?, ss[j]? with
  | some si, some sj => j < i && dependsOn si.rhs sj
  | _, _ => false

/-- Successors of `i`, ascending. -/
def succs (ss : List Stmt) (i : Nat) : List Nat :=
  (List.range i).filter (edge ss i)

/-- `direct_dependencies`: sorted successors of the statement's index. -/
def directDependencies (ss : List Stmt) (i : Nat) : List Nat := succs ss i

/-! ### dependencies (backward liveness, as repaired — see DESIGN F2) -/

/-- Visit statement `s` going backwards with live set `live`. -/
def depsStep (live : List Sym) (s : Stmt) : List Sym :=
  if s.defs.any (fun d => live.contains d) then
    live.filter (fun y => !s.defs.contains y) ++ s.rhs
  else live

/-- Process the prefix `pre` from its last statement back to its first. -/
def depsFrom (pre : List Stmt) (live : List Sym) : List Sym :=
  pre.foldr (fun s l => depsStep l s) live

/-- Index of the last statement defining `x` (assignment or ODE amount). -/
def findDefIndex (ss : List Stmt) (x : Sym) : Option Nat :=
  let idx := (List.range ss.length).filter (fun i =>
    match ss[i]? with | some s => s.defs.contains x | none => false)
  idx.getLast?

def dependenciesAt (ss : List Stmt) (i : Nat) : Except Err (List Sym) :=
  match ss[i]? with
  | none => .error .indexError
  | some s => .ok (depsFrom (ss.take i) s.rhs)

def dependencies (ss : List Stmt) (x : Sym) : Except Err (List Sym) :=
  match findDefIndex ss x with
  | none => .error .keyError
  | some i => dependenciesAt ss i

/-- No statement reads a symbol that it or a later statement defines (in particular: every
    symbol is assigned at most once after its first use, and nothing is read before its
    definition).  Decidable side-condition of the exactness theorem. -/
def noUseBeforeDef : List Stmt → Bool
  | [] => true
  | s :: rest =>
    s.rhs.all (fun y => !s.defs.contains y && rest.all (fun t => !t.defs.contains y))
      && noUseBeforeDef rest

/-! ### The pre-repair algorithm (networkx BFS order), kept for the witness -/

/-- BFS from `i` over `succs`, neighbours visited in descending index order
    (`sort_neighbors=lambda x: reversed(sorted(x))`); returns visit order
    without the source.  `fuel` bounds the number of dequeues. -/
def bfsOrder (ss : List Stmt) (i : Nat) : List Nat :=
  let rec go (fuel : Nat) (queue : List Nat) (seen : List Nat) (out : List Nat) : List Nat :=
    match fuel, queue with
    | 0, _ => out
    | _, [] => out
    | fuel + 1, u :: q =>
      let nbrs := (succs ss u).reverse.filter (fun v => !seen.contains v)
      -- networkx marks neighbours seen when enqueued
      let nbrs := nbrs.eraseDups
      go fuel (q ++ nbrs) (seen ++ nbrs) (out ++ nbrs)
  go (ss.length + 1) [i] [i] []

/-- `dependencies` as it was before the repair: process statements in BFS order. -/
def dependenciesBfsAt (ss : List Stmt) (i : Nat) : List Sym :=
  match ss[i]? with
  | none => []
  | some s =>
    (bfsOrder ss i).foldl (fun symbs j =>
      match ss[j]? with
      | none => symbs
      | some t => symbs.filter (fun y => !t.defs.contains y) ++ t.rhs) s.rhs

/-! ### remove_symbol_definitions -/

/-- Successor-closure of `seed`.  Edges only go to smaller indices, so one
    descending pass is a complete closure (equal, as a set, to the union of
    `nx.dfs_preorder_nodes` over the seed). -/
def closure (ss : List Stmt) (seed : List Nat) : List Nat :=
  (List.range ss.length).reverse.foldl
    (fun mark u => if mark.contains u then mark ++ succs ss u else mark) seed

/-- All edges (up, down) of the dependency graph. -/
def edges (ss : List Stmt) : List (Nat × Nat) :=
  (List.range ss.length).flatMap (fun i => (succs ss i).map (fun j => (i, j)))

/-- Indices removed by `remove_symbol_definitions(symbols, self[removedInd])`. -/
def removeSet (ss : List Stmt) (symbols : List Sym) (removedInd : Nat) : List Nat :=
  let cand0 := (List.range removedInd).filter (fun i =>
    match ss[i]? with
    | some (Stmt.assign x _) => symbols.contains x
    | _ => false)
  let candidates := closure ss cand0
  let keep := closure ss (succs ss removedInd)
  let candidates := candidates.filter (fun i => !keep.contains i)
  let additional0 := (edges ss).filterMap (fun (up, down) =>
    if up != removedInd && !candidates.contains up && candidates.contains down
    then some down else none)
  let additional := closure ss additional0
  candidates.filter (fun i => !additional.contains i)

/-- Keep-mask of the result: `true` = statement stays. -/
def removeMask (ss : List Stmt) (symbols : List Sym) (removedInd : Nat) : List Bool :=
  let r := removeSet ss symbols removedInd
  (List.range ss.length).map (fun i => !r.contains i)

def applyMask (ss : List Stmt) (mask : List Bool) : List Stmt :=
  ((ss.zip mask).filter (fun p => p.2)).map (fun p => p.1)

def removeSymbolDefinitions (ss : List Stmt) (symbols : List Sym) (removedInd : Nat) : List Stmt :=
  applyMask ss (removeMask ss symbols removedInd)

/-! ### Certificate for a removal mask (decidable; soundness proved in
      `PharmpyProofs.C10`): no kept statement reads a symbol defined by an
      earlier removed statement. -/

def closedFrom (T : List Sym) : List (Stmt × Bool) → Bool
  | [] => true
  | (s, true) :: ms  => s.rhs.all (fun y => !T.contains y) && closedFrom T ms
  | (s, false) :: ms => closedFrom (s.defs ++ T) ms

def maskSafe (ss : List Stmt) (mask : List Bool) : Bool :=
  closedFrom [] (ss.zip mask)

end Pharmpy.C10
