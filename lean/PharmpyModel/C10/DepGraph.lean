import PharmpyModel.Core.Stmts
/-
  C10 — executable model of the symbol dependency graph of
  `pharmpy.modeling.expressions` (behind depends_on, has_random_effect,
  has_covariate_effect, get_parameter_rv, natural/synthetic classification):

    _dependency_graph(assignments)   -> `depGraph`
    reachable_from({symbol}, graph)  -> `reachFrom`
    _depends_on_any_of               -> `dependsOnAny`

  The graph is a Python dict symbol -> set of symbols; here an association
  list in insertion order, sets are lists (only membership is observed).
  A redefinition of `x` inlines the previous definition of `x` into EVERY
  definition that mentions `x` (the full scan of `dependencies.items()`).
-/
namespace Pharmpy.C10
open Pharmpy

abbrev Graph := List (Sym × List Sym)

/-- `dependencies[x] = v` for an existing key. -/
def gset (G : Graph) (x : Sym) (v : List Sym) : Graph :=
  G.map (fun p => if p.1 = x then (p.1, v) else p)

/-- `(value - {symbol}) | previous_def` when `symbol in value`. -/
def expand (x : Sym) (prev : List Sym) (v : List Sym) : List Sym :=
  if x ∈ v then v.filter (fun y => y ≠ x) ++ prev else v

/-- One iteration of the loop of `_dependency_graph`. -/
def graphStep (G : Graph) : Stmt → Graph
  | .assign x e =>
    match G.lookup x with
    | none => G ++ [(x, e.syms)]
    | some prev => (gset G x e.syms).map (fun p => (p.1, expand x prev p.2))
  | .ode _ _ => G          -- `before_odes` holds assignments only

def depGraph (ss : List Stmt) : Graph := ss.foldl graphStep []

/-- `dependency_graph.get(x, [])`. -/
def succOf (G : Graph) (a : Sym) : List Sym := (G.lookup a).getD []

/-- One round: add the successors of everything reached so far. -/
def reachRound (G : Graph) (S : List Sym) : List Sym :=
  S ++ ((S.flatMap (succOf G)).filter (fun b => !S.contains b)).eraseDups

def reachIter (G : Graph) : Nat → List Sym → List Sym
  | 0, S => S
  | n + 1, S => reachIter G n (reachRound G S)

def allSyms (G : Graph) : List Sym := G.flatMap (fun p => p.1 :: p.2)

/-- `reachable_from({a}, lambda x: graph.get(x, []))`: a simple path visits at most
    every symbol of the graph once, so that many rounds reach the fixpoint (the driver
    checks `closedUnder` on every answer). -/
def reachFrom (G : Graph) (a : Sym) : List Sym :=
  reachIter G ((allSyms G).length + 1) [a]

/-- Decidable certificate: `S` is closed under the successors of `G`. -/
def closedUnder (G : Graph) (S : List Sym) : Bool :=
  S.all (fun a => (succOf G a).all (fun b => S.contains b))

/-- `_depends_on_any_of`: `none` = KeyError (symbol is not assigned). -/
def dependsOnAny (ss : List Stmt) (x : Sym) (syms : List Sym) : Option Bool :=
  let G := depGraph ss
  match G.lookup x with
  | none => none
  | some _ => some ((reachFrom G x).any (fun y => syms.contains y))

/-! ### The variant with a reverse index (`users[symbol]`, filled from the literal
    right-hand side only) — kept for the witness theorem. -/

abbrev Users := List (Sym × List Sym)

def addUsers (U : Users) (x : Sym) (fs : List Sym) : Users :=
  fs.foldl (fun U d =>
    match U.lookup d with
    | none => U ++ [(d, [x])]
    | some _ => U.map (fun p => if p.1 = d then (p.1, p.2 ++ [x]) else p)) U

def graphStepIdx (st : Graph × Users) : Stmt → Graph × Users
  | .assign x e =>
    let (G, U) := st
    match G.lookup x with
    | none => (G ++ [(x, e.syms)], addUsers U x e.syms)
    | some prev =>
      let G1 := gset G x e.syms
      let U1 := addUsers U x e.syms
      let us := (U1.lookup x).getD []
      let U2 := U1.filter (fun p => p.1 ≠ x)
      (G1.map (fun p => if us.contains p.1 then (p.1, expand x prev p.2) else p), U2)
  | .ode _ _ => st

def depGraphIdx (ss : List Stmt) : Graph := (ss.foldl graphStepIdx ([], [])).1

end Pharmpy.C10
