import PharmpyModel.Core.Expr
/-
  C10, last clause — `remove_unused_parameters_and_rvs`
  (src/pharmpy/modeling/common.py, `_get_unused_parameters_and_rvs`) together with the part of
  `RandomVariables.unjoin` (src/pharmpy/model/random_variables.py) it relies on.

      symbols = statements.free_symbols
      to_unjoin = [name_i of every JointNormal | name_i not in symbols and
                                                 symbols.isdisjoint(variance[i, :].free_symbols)]
      rvs = random_variables.unjoin(to_unjoin)
      new_dists = [d for d in rvs if not Normal(d) or not symbols.isdisjoint(d.free_symbols)]
      new_params = [p for p in parameters
                    if p in symbols or p in new_rvs.free_symbols or (p.fix and p.init == 0)]

  A distribution is described by what the function looks at: names and, per covariance entry,
  the list of symbols occurring in it (means are 0 in every model pharmpy builds; a non-zero
  mean is outside the model).
-/
namespace Pharmpy.C10
open Pharmpy

structure Param where
  name : Sym
  zeroFix : Bool        -- p.fix and p.init == 0
  deriving DecidableEq, Repr

inductive Dist where
  | normal (name : Sym) (var : List Sym)
  | joint (names : List Sym) (mat : List (List (List Sym)))   -- mat[i][j] = symbols of Σ[i,j]
  deriving DecidableEq, Repr

def Dist.names : Dist → List Sym
  | .normal n _ => [n]
  | .joint ns _ => ns

/-- `dist.free_symbols`: the variable symbols and every symbol of the covariance -/
def Dist.fs : Dist → List Sym
  | .normal n v => n :: v
  | .joint ns m => ns ++ (m.map List.flatten).flatten

def disjointS (a b : List Sym) : Bool := a.all (fun x => !b.contains x)

/-- names of a joint distribution the statements neither read nor reach through the row -/
def toUnjoin (symbols : List Sym) : Dist → List Sym
  | .normal _ _ => []
  | .joint ns m =>
    (ns.zip m).filterMap (fun p =>
      if !symbols.contains p.1 && disjointS symbols p.2.flatten then some p.1 else none)

def entry (m : List (List (List Sym))) (i j : Nat) : List Sym := (m.getD i []).getD j []

def outIdx (inds ns : List Sym) : List Nat :=
  (List.range ns.length).filter (fun i => inds.contains (ns.getD i ""))

def keepIdx (inds ns : List Sym) : List Nat :=
  (List.range ns.length).filter (fun i => !inds.contains (ns.getD i ""))

/-- what is left of a joint distribution: nothing, a univariate normal, or the sub-block -/
def restOf (ns : List Sym) (m : List (List (List Sym))) : List Nat → List Dist
  | [] => []
  | [i] => [Dist.normal (ns.getD i "") (entry m i i)]
  | j :: k :: rest =>
    [Dist.joint ((j :: k :: rest).map (fun i => ns.getD i ""))
      ((j :: k :: rest).map (fun i => (j :: k :: rest).map (fun j => entry m i j)))]

/-- `RandomVariables.unjoin(inds)` on one distribution: the variables taken out become
    univariate normals (in order), the rest follows as one distribution -/
def unjoinDist (inds : List Sym) : Dist → List Dist
  | .normal n v => [.normal n v]
  | .joint ns m =>
    if ns.any (fun n => inds.contains n) then
      (outIdx inds ns).map (fun i => Dist.normal (ns.getD i "") (entry m i i)) ++ restOf ns m (keepIdx inds ns)
    else [.joint ns m]

def keepDist (symbols : List Sym) : Dist → Bool
  | .normal n v => !disjointS symbols (n :: v)
  | .joint _ _ => true

def keepParam (symbols fsNew : List Sym) (p : Param) : Bool :=
  symbols.contains p.name || fsNew.contains p.name || p.zeroFix

def unjoined (symbols : List Sym) (dists : List Dist) : List Dist :=
  dists.flatMap (unjoinDist (dists.flatMap (toUnjoin symbols)))

def newDists (symbols : List Sym) (dists : List Dist) : List Dist :=
  (unjoined symbols dists).filter (keepDist symbols)

def newParams (symbols : List Sym) (params : List Param) (dists : List Dist) : List Param :=
  params.filter (keepParam symbols ((newDists symbols dists).flatMap Dist.fs))

/-- the variant seeded as a "hoist": symbols of the remaining distributions computed as
    all symbols minus the symbols of the dropped ones -/
def newParamsSubtract (symbols : List Sym) (params : List Param) (dists : List Dist) : List Param :=
  let rvs := unjoined symbols dists
  let dropped := (rvs.filter (fun d => !keepDist symbols d)).flatMap Dist.fs
  let fsSub := (rvs.flatMap Dist.fs).filter (fun s => !dropped.contains s)
  params.filter (keepParam symbols fsSub)

end Pharmpy.C10
