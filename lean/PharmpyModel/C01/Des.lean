/-
  C01 — `$DES` → compartmental system.

  Model of `to_compartmental_system` (src/pharmpy/model/statements.py), the routine
  that turns the equations of `$DES` into flows, output flows and zero-order inputs
  when a model with ADVAN6/8/9/13 is read.  Equations are taken *expanded*: a list
  of terms, one per monomial, each with its numeric coefficient, the identity of
  the rest of the monomial, and the amount functions `A(j)` occurring in it (the
  harness expands the `$DES` text exactly as the code does, with `sympy.expand`).

  The system that is built is read back with the equations of
  `CompartmentalSystem.eqs` (inflows − outflows + input, see C05 `specRhs`), and
  `desVal` is the literal NM-TRAN value of `DADT(c)`.
-/
namespace Pharmpy.C01.Des

structure Term where
  mono : Nat          -- identity of the monomial without its numeric coefficient
  coef : Rat          -- numeric coefficient
  amts : List Nat     -- amount functions occurring in the monomial (0-based equation numbers)
  deriving DecidableEq, Repr

abbrev Eqn := List Term
abbrev Prog := List Eqn

def sumR (l : List Rat) : Rat := l.foldr (fun a b => a + b) 0

/-- `_is_positive(term)` for monomials of positive symbols. -/
def isPos (t : Term) : Bool := decide (0 < t.coef)

def sameTerm (u : Term) (mono : Nat) (coef : Rat) : Bool := u.mono == mono && u.coef == coef

/-- `-term in sympy.Add.make_args(eq.rhs.expand())`. -/
def hasNeg (e : Eqn) (t : Term) : Bool := e.any (fun u => sameTerm u t.mono (-t.coef))

def eqnAt (p : Prog) (j : Nat) : Eqn := p.getD j []

/-- The source compartment the code finds for a term (`from_comp`); `none` = no flow.
    One amount: the *last* equation containing `-term`.  Two or more amounts: the last
    amount of the term whose own equation contains `-term`. -/
def fromOf (p : Prog) (t : Term) : Option Nat :=
  if !isPos t then none
  else if t.amts.length ≥ 2 then (t.amts.filter (fun j => hasNeg (eqnAt p j) t)).getLast?
  else ((List.range p.length).filter (fun j => hasNeg (eqnAt p j) t)).getLast?

def dedupN : List Nat → List Nat
  | [] => []
  | x :: xs => x :: (dedupN xs).filter (fun y => y != x)

/-- amounts occurring in an equation (`concentrations ∩ free_images(rhs)`) -/
def amountsOf (e : Eqn) : List Nat := dedupN (e.flatMap (fun t => t.amts))

/-- The triple loop `for eq … for comp_func … for term …` as a list of visits
    `(equation i, amount a, term)`. -/
def visits (p : Prog) : List (Nat × Nat × Term) :=
  (List.range p.length).flatMap (fun i =>
    (amountsOf (eqnAt p i)).flatMap (fun a =>
      ((eqnAt p i).filter (fun t => t.amts.contains a)).map (fun t => (i, a, t))))

/-- One contribution to a flow: `term / comp_func`. -/
structure Contrib where
  mono : Nat
  coef : Rat
  divisor : Nat
  deriving DecidableEq, Repr

/-- `expand(rhs + c·mono)`: coefficients of the same monomial are added, a zero coefficient disappears. -/
def addTerm : Eqn → Term → Eqn
  | [], t => [t]
  | u :: r, t =>
    if u.mono == t.mono then
      (if u.coef + t.coef == 0 then r else { u with coef := u.coef + t.coef } :: r)
    else u :: addTerm r t

def modifyAt : List Eqn → Nat → (Eqn → Eqn) → List Eqn
  | [], _, _ => []
  | e :: r, 0, f => f e :: r
  | e :: r, i + 1, f => e :: modifyAt r i f

structure St where
  flows : List (Nat × Nat × Contrib)     -- (from, to, term/comp_func), accumulated (`new_flow = … + current_flow`)
  rest : List Eqn                        -- `neweqs`
  deriving Repr

def negT (t : Term) : Term := { t with coef := -t.coef }

def step (p : Prog) (s : St) (v : Nat × Nat × Term) : St :=
  let (i, a, t) := v
  match fromOf p t with
  | none => s
  | some f =>
    let rest1 := modifyAt s.rest i (fun e => addTerm e (negT t))
    -- `elif neweq.lhs … == comp_func.name`: only when the amount is not the equation's own
    let rest2 := if a == i then rest1 else modifyAt rest1 a (fun e => addTerm e t)
    { flows := s.flows ++ [(f, i, ⟨t.mono, t.coef, a⟩)], rest := rest2 }

/-- The system: flows between compartments, and per compartment the left-over terms
    (`neweqs`): the negative ones become the output flow `-o / A_c`, the positive ones
    the zero-order input. -/
structure Sys where
  flows : List (Nat × Nat × Contrib)
  rest : List Eqn
  deriving Repr

def translateDes (p : Prog) : Sys :=
  let s := (visits p).foldl (step p) ⟨[], p⟩
  { flows := s.flows, rest := s.rest }

def outsOf (s : Sys) (c : Nat) : List Term := (eqnAt s.rest c).filter (fun t => !isPos t)
def inputsOf (s : Sys) (c : Nat) : List Term := (eqnAt s.rest c).filter isPos

/-! ### reading the system back, and the NM-TRAN value -/

def termVal (v : Nat → Rat) (t : Term) : Rat := t.coef * v t.mono

/-- NM-TRAN: `DADT(c)` is the value of its right-hand side. -/
def desVal (p : Prog) (v : Nat → Rat) (c : Nat) : Rat := sumR ((eqnAt p c).map (termVal v))

/-- value of the rate `term / comp_func` -/
def rate (v amt : Nat → Rat) (k : Contrib) : Rat := k.coef * v k.mono / amt k.divisor

/-- `CompartmentalSystem.eqs` for compartment `c`: inflows − outflows − output + input. -/
def sysEq (s : Sys) (v amt : Nat → Rat) (c : Nat) : Rat :=
  sumR ((s.flows.filter (fun f => f.2.1 == c)).map (fun f => rate v amt f.2.2 * amt f.1))
  - sumR ((s.flows.filter (fun f => f.1 == c)).map (fun f => rate v amt f.2.2 * amt c))
  - sumR ((outsOf s c).map (fun o => (-(termVal v o) / amt c) * amt c))
  + sumR ((inputsOf s c).map (termVal v))

/-! ### the side-condition -/

/-- Every term the code turns into a flow is divided by the amount of the source
    compartment it found (`comp_func = from_comp`), the flow is not a self-flow, and
    amount numbers are equation numbers. -/
def DesSafe (p : Prog) : Bool :=
  (visits p).all (fun v =>
    match fromOf p v.2.2 with
    | none => true
    | some f => f == v.2.1 && f != v.1 && v.2.1 < p.length)

/-- Why a program is not `DesSafe` (class names of the harness). -/
def desUnsafe (p : Prog) : List String :=
  ((visits p).flatMap (fun v =>
    match fromOf p v.2.2 with
    | none => []
    | some f =>
      if f == v.2.1 && f != v.1 && v.2.1 < p.length then []
      else if v.2.2.amts.length ≥ 2 then ["multi-amount"] else ["foreign-equation"])).eraseDups

end Pharmpy.C01.Des
