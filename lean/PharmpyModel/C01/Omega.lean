/-
  C01 — `$OMEGA` / `$SIGMA` records: initial covariance blocks.

  Model  : `OmegaRecord.parse` (records/omega_record.py) and the SAME handling of
           `parameters_from_blocks` / `rvs_from_blocks` (parsing.py).  numpy's
           `A[np.tril_indices_from(A)] = x` is its documented meaning: position
           `k = T(i) + j` of the flat vector goes to entry `(i, j)`, `j ≤ i`
           (row-major lower triangle, `T` = triangular number).
  Spec   : NM-TRAN's reading — the values of a block are listed *row by row of
           the lower triangle* (row `i` is the next `i+1` values) — and the
           definitions of the scale options as matrix equations.
-/
namespace Pharmpy.C01.Omega

/-! ### flat vectors and triangular numbers -/

def tri : Nat → Nat
  | 0 => 0
  | n + 1 => tri n + (n + 1)

def getR (x : List Rat) (k : Nat) : Rat := x.getD k 0

/-- Largest `m` with `m * m ≤ n` (`math.floor(math.sqrt(n))`). -/
def isqrtAux (n : Nat) : Nat → Nat
  | 0 => 0
  | m + 1 => if (m + 1) * (m + 1) ≤ n then m + 1 else isqrtAux n m

def isqrt (n : Nat) : Nat := isqrtAux n n

/-- `triangular_root`. -/
def triangularRoot (len : Nat) : Nat := isqrt (2 * len)

/-! ### the model -/

structure Form where
  sd : Bool
  corr : Bool
  chol : Bool
  deriving DecidableEq, Repr

abbrev Mat := Nat → Nat → Rat

/-- numpy lower-triangular fill: entry `(i, j)`, `j ≤ i`. -/
def lowerAt (x : List Rat) (i j : Nat) : Rat := getR x (tri i + j)

/-- `flattened_to_symmetric`. -/
def symAt (x : List Rat) : Mat := fun i j => if j ≤ i then lowerAt x i j else lowerAt x j i

/-- `L = zeros; L[tril_indices] = inits`. -/
def lowTri (x : List Rat) : Mat := fun i j => if j ≤ i then lowerAt x i j else 0

def sumRange (n : Nat) (f : Nat → Rat) : Rat := (List.range n).foldl (fun acc k => acc + f k) 0

/-- `L @ L.T` for `n × n` matrices. -/
def mulTranspose (n : Nat) (L : Mat) : Mat := fun i j => sumRange n (fun k => L i k * L j k)

/-- The matrix `A` of `OmegaRecord.parse` for a block (`sqrt` is `math.sqrt`). -/
def blockMatrix (sqrt : Rat → Rat) (f : Form) (n : Nat) (x : List Rat) : Mat :=
  if f.chol then mulTranspose n (lowTri x)
  else fun i j =>
    let A := symAt x
    if i = j then (if f.sd then A i i * A i i else A i i)
    else if f.corr then
      (if f.sd then A i i * A j j * A i j else sqrt (A i i) * sqrt (A j j) * A i j)
    else A i j

/-- `for i in range(size): for j in range(0, i + 1): inits.append(A[i, j])`. -/
def flatten (n : Nat) (M : Mat) : List Rat :=
  (List.range n).flatMap (fun i => (List.range (i + 1)).map (fun j => M i j))

inductive Err where
  | wrongCount      -- 'Wrong number of inits in BLOCK'
  | zeroNotFixed    -- 'If initial estimate … is 0 it must be set to FIX'
  | sdAndVar        -- 'cannot be both on SD and VAR scale'
  | firstSame       -- 'First … block cannot be SAME'
  deriving DecidableEq, Repr

/-- `(v)xn` expansion: `inits += [init] * n`. -/
def expand (items : List (Rat × Nat)) : List Rat :=
  items.flatMap (fun p => List.replicate p.2 p.1)

/-- One parsed block: `(inits, fix, same)`. -/
structure Blk where
  inits : List Rat
  fix : Bool
  same : Bool
  deriving Repr

structure DiagItem where
  init : Rat
  reps : Nat
  sd : Bool
  var : Bool
  fix : Bool
  deriving Repr

inductive Rec where
  | diag  : List DiagItem → Rec
  | block : Nat → Form → Bool → List (Rat × Nat) → Rec      -- size, options, FIX, values with repeats
  | same  : Rec
  deriving Repr

def parseDiagItem (it : DiagItem) : Except Err (List Blk) :=
  if it.sd && it.var then .error .sdAndVar
  else if it.init == 0 && !it.fix then .error .zeroNotFixed
  else
    let v := if it.sd then it.init * it.init else it.init
    .ok (List.replicate it.reps ⟨[v], it.fix, false⟩)

def parseDiag : List DiagItem → Except Err (List Blk)
  | [] => .ok []
  | it :: r =>
    match parseDiagItem it with
    | .error e => .error e
    | .ok bs => (match parseDiag r with
                 | .error e => .error e
                 | .ok cs => .ok (bs ++ cs))

/-- `OmegaRecord.parse`. -/
def parseRec (sqrt : Rat → Rat) : Rec → Except Err (List Blk)
  | .diag items => parseDiag items
  | .same => .ok [⟨[], false, true⟩]
  | .block n f fix items =>
    let x := expand items
    if n != triangularRoot x.length then .error .wrongCount
    else .ok [⟨flatten n (blockMatrix sqrt f n x), fix, false⟩]

def parseRecs (sqrt : Rat → Rat) : List Rec → Except Err (List Blk)
  | [] => .ok []
  | r :: rest =>
    match parseRec sqrt r with
    | .error e => .error e
    | .ok bs => (match parseRecs sqrt rest with
                 | .error e => .error e
                 | .ok cs => .ok (bs ++ cs))

/-- SAME resolution of `rvs_from_blocks` + `parameters_from_blocks`: the list of
    covariance blocks `(size, lower triangle row by row, fix)` of the random
    variables; a SAME block repeats the previous one. -/
def covBlocks : Option (Nat × List Rat × Bool) → List Blk → Except Err (List (Nat × List Rat × Bool))
  | _, [] => .ok []
  | prev, b :: rest =>
    if b.same then
      match prev with
      | none => .error .firstSame
      | some p => (match covBlocks prev rest with
                   | .error e => .error e
                   | .ok cs => .ok (p :: cs))
    else
      let cur := (triangularRoot b.inits.length, b.inits, b.fix)
      match covBlocks (some cur) rest with
      | .error e => .error e
      | .ok cs => .ok (cur :: cs)

/-! ### the specification -/

/-- Row `i` of the lower triangle when rows of lengths `s+1, s+2, …` are read
    one after the other from `x`. -/
def rowAt : Nat → Nat → List Rat → List Rat
  | s, 0, x => x.take (s + 1)
  | s, i + 1, x => rowAt (s + 1) i (x.drop (s + 1))

/-- NM-TRAN: entry `(i, j)`, `j ≤ i`, of a block whose values are `x`. -/
def specLower (x : List Rat) (i j : Nat) : Rat := getR (rowAt 0 i x) j

def specSym (x : List Rat) : Mat := fun i j => if j ≤ i then specLower x i j else specLower x j i

/-- The covariance block NONMEM defines for each form. -/
def specCov (sqrt : Rat → Rat) (f : Form) (x : List Rat) : Mat := fun i j =>
  if f.chol then
    -- Σ = L·Lᵀ, L lower triangular: Σᵢⱼ = Σ_{k ≤ min i j} Lᵢₖ·Lⱼₖ
    sumRange (min i j + 1) (fun k => specLower x i k * specLower x j k)
  else if i = j then
    (if f.sd then specLower x i i * specLower x i i else specLower x i i)   -- STANDARD: sd² on the diagonal
  else if f.corr then
    (if f.sd then specLower x i i * specLower x j j * specSym x i j          -- ρ·sdᵢ·sdⱼ
     else sqrt (specLower x i i) * sqrt (specLower x j j) * specSym x i j)  -- ρ·√vᵢ·√vⱼ
  else specSym x i j

/-- Signed square of an entry for VARIANCE CORRELATION input (so that no square
    root is needed for exact comparison): diagonal `v²`, off-diagonal `ρ·|ρ|·vᵢ·vⱼ`. -/
def varCorrSq (x : List Rat) : Mat := fun i j =>
  if i = j then specLower x i i * specLower x i i
  else
    let r := specSym x i j
    r * (if r < 0 then -r else r) * specLower x i i * specLower x j j

end Pharmpy.C01.Omega
