import PharmpyModel.Core.Stmts
/-
  C01 — executable model of `_parse_tree`
  (src/pharmpy/model/external/nonmem/records/code_record.py): NM-TRAN
  abbreviated code  →  ordered list of pharmpy assignments, with
  `sympy.Piecewise((e1, c1), …, (en, cn))` written as nested
  `ite c1 e1 (ite c2 e2 (… (nan 0)))` and a `True` condition ending the chain.

  The abstract syntax is what `_parse_tree` looks at:

    * top level: assignment, logical IF with an assignment, block IF,
      anything else (`DO WHILE`, `CALL`, `EXIT`, logical IF without
      assignment: `opq`) — the last kind produces no statement at all;
    * inside a block-IF branch `_parse_tree` iterates over
      `branch.subtrees('statement')` and in each over
      `.subtrees('assignment')`, i.e. it sees only the *direct* assignments of
      the branch; a nested logical IF (`Item.lif`) or any other nested
      statement (`Item.opq`: nested block IF, DO WHILE, …) is dropped.

  Every definition mirrors the Python line by line (the code as it is, not as
  it should be); `PharmpyModel/C01/Spec.lean` holds what NM-TRAN does.
-/
namespace Pharmpy.C01
open Pharmpy

/-- A statement inside a block-IF branch. -/
inductive Item where
  | asg : Sym → Expr → Item            -- X = e
  | lif : Expr → Sym → Expr → Item     -- IF (c) X = e      (nested; dropped by `_parse_tree`)
  | opq : Nat → Item                   -- any other nested statement, identified by a number
  deriving DecidableEq, Repr, Inhabited

/-- A top-level statement of a `$PRED`/`$PK`/`$ERROR`/`$DES` record. -/
inductive NMStmt where
  | asg   : Sym → Expr → NMStmt
  | lif   : Expr → Sym → Expr → NMStmt
  | block : List (Expr × List Item) → Option (List Item) → NMStmt   -- IF/ELSEIF branches, ELSE
  | opq   : Nat → NMStmt
  deriving Repr, Inhabited

/-- The undefined value: a `Piecewise` none of whose conditions holds. -/
def nanE : Expr := .f1 "nan" (.lit 0)

/-- `for ifstat in branch.subtrees('statement'): for a in ifstat.subtrees('assignment')`:
    the direct assignments of a branch, in order. -/
def directAsgs : List Item → List (Sym × Expr)
  | [] => []
  | .asg x e :: r => (x, e) :: directAsgs r
  | _ :: r => directAsgs r

/-- pharmpy's `blocks`: `(logic, [(symbol, expr), …])`, logic `none` = Python `True`. -/
abbrev Blocks := List (Option Expr × List (Sym × Expr))

/-- Construction of `blocks`, including the "special case for empty if":
    with exactly one IF branch that has no direct assignment, the ELSE branch
    gets the condition `Not(c)` instead of `True`. -/
def mkBlocks (brs : List (Expr × List Item)) (els : Option (List Item)) : Blocks :=
  let bs : Blocks := brs.map (fun p => (some p.1, directAsgs p.2))
  match els with
  | none => bs
  | some eb =>
    let logic : Option Expr :=
      match bs with
      | [(some c, [])] => some (.f1 "not" c)
      | _ => none
    bs ++ [(logic, directAsgs eb)]

/-- Order-preserving removal of repeats (`OrderedSet`). -/
def dedup : List Sym → List Sym
  | [] => []
  | x :: xs => x :: (dedup xs).filter (fun y => y != x)

/-- `symbols`: every symbol assigned directly in some branch, first occurrence order. -/
def blockSymbols (bl : Blocks) : List Sym :=
  dedup (bl.flatMap (fun b => b.2.map (fun p => p.1)))

/-- `pairs` for one symbol: `(expr, logic)` for every direct assignment to it, block by block. -/
def pairsFor (x : Sym) : Blocks → List (Expr × Option Expr)
  | [] => []
  | (logic, asgs) :: rest =>
    ((asgs.filter (fun p => p.1 == x)).map (fun p => (p.2, logic))) ++ pairsFor x rest

/-- `sympy.Piecewise(*pairs)`: first pair whose condition holds; `True` ends the chain;
    no pair left = undefined. -/
def mkPw : List (Expr × Option Expr) → Expr
  | [] => nanE
  | (e, none) :: _ => e
  | (e, some c) :: rest => .f3 "ite" c e (mkPw rest)

/-- `pairs[-1][1] is not True` negated. -/
def lastIsTrue (pairs : List (Expr × Option Expr)) : Bool :=
  match pairs.getLast? with
  | some (_, none) => true
  | _ => false

/-- The right-hand side generated for symbol `x` of a block IF; `seen` are the
    symbols of the statements emitted before the block
    (`any(map(lambda s_: s_.symbol == symbol, s))`). -/
def blockExpr (seen : List Sym) (bl : Blocks) (x : Sym) : Expr :=
  let pairs := pairsFor x bl
  let pairs := if !lastIsTrue pairs && seen.contains x then pairs ++ [(Expr.sym x, none)] else pairs
  mkPw pairs

def blockStmt (seen : List Sym) (bl : Blocks) (x : Sym) : Stmt :=
  .assign x (blockExpr seen bl x)

/-- `_reorder_block_statements` tests `isinstance(ass.expression, sympy.Piecewise)`
    on a pharmpy `Expr` (a symengine wrapper), which is never true: the list
    `piecewise` is empty and the function returns its argument. -/
def reorderBlockStatements (s : List Stmt) : List Stmt := s

/-- One child of the record's parse tree. -/
def translateStmt (seen : List Sym) : NMStmt → List Stmt
  | .asg x e => [.assign x e]
  | .lif c x e =>
    [.assign x (if seen.contains x then .f3 "ite" c e (.sym x) else .f3 "ite" c e nanE)]
  | .block brs els =>
    let bl := mkBlocks brs els
    reorderBlockStatements ((blockSymbols bl).map (blockStmt seen bl))
  | .opq _ => []

def targets (ss : List Stmt) : List Sym := ss.flatMap Stmt.defs

/-- `_parse_tree`: the loop over the children with the growing statement list `s`
    (only its symbols matter). -/
def translateFrom (seen : List Sym) : List NMStmt → List Stmt
  | [] => []
  | s :: rest =>
    let out := translateStmt seen s
    out ++ translateFrom (seen ++ targets out) rest

def translate (p : List NMStmt) : List Stmt := translateFrom [] p

end Pharmpy.C01
