/-
  C01 — `_find_rates` (advan.py): which `$PK` variables of an ADVAN5/ADVAN7 model
  are rate constants, and which flow each of them denotes.

  The recogniser is `re.match(r'^K(\d+)(T\d+)?$', name)`: an *exact* match of the
  whole name.  NM-TRAN: `Kmn` / `KmTn` are the rate constants of the general linear
  model; every other name is an ordinary variable.
-/
namespace Pharmpy.C01.Rates

def isDigits (cs : List Char) : Bool := !cs.isEmpty && cs.all Char.isDigit

/-- The groups of `^K(\d+)(T\d+)?$` on a name, `none` when the name does not match. -/
def splitRate (name : List Char) : Option (List Char × Option (List Char)) :=
  match name with
  | [] => none
  | c :: rest =>
    if c != 'K' then none
    else
      let d1 := rest.takeWhile Char.isDigit
      if d1.isEmpty then none
      else match rest.dropWhile Char.isDigit with
        | [] => some (d1, none)
        | c2 :: r2 => if c2 == 'T' && isDigits r2 then some (d1, some r2) else none

def isRate (name : String) : Bool := (splitRate name.toList).isSome

def natOf (cs : List Char) : Nat := cs.foldl (fun n c => 10 * n + (c.toNat - 48)) 0

inductive RateOut where
  | flow (src dst : Nat)
  | ambiguous      -- ModelSyntaxError 'Rate parameter … is ambiguous. Use the KiTj notation.'
  | skip           -- three digits, neither reading fits: ignored
  | cannot         -- ValueError 'Cannot handle …' (one digit, five or more digits)
  deriving DecidableEq, Repr

def fin (ncomps f t : Nat) : RateOut := .flow f (if t == 0 then ncomps else t)

/-- The decoding of the digit groups; `ncomps` counts the output compartment. -/
def decode (ncomps : Nat) (d1 : List Char) (d2 : Option (List Char)) : RateOut :=
  match d2 with
  | some d2 => fin ncomps (natOf d1) (natOf d2)
  | none =>
    match d1 with
    | [a, b] => fin ncomps (natOf [a]) (natOf [b])
    | [a, b, c] =>
      let f1 := natOf [a]
      let t1 := natOf [b, c]
      let f2 := natOf [a, b]
      let t2 := natOf [c]
      let q1 := f1 ≤ ncomps && t1 ≤ ncomps && t1 != 0
      let q2 := f2 ≤ ncomps && t2 ≤ ncomps
      if q1 && q2 then .ambiguous
      else if q1 then fin ncomps f1 t1
      else if q2 then fin ncomps f2 t2
      else .skip
    | [a, b, c, d] => fin ncomps (natOf [a, b]) (natOf [c, d])
    | _ => .cannot

def rateOf (ncomps : Nat) (name : String) : Option RateOut :=
  (splitRate name.toList).map (fun g => decode ncomps g.1 g.2)

/-- `_find_rates` over the assigned symbols of `$PK`, in order: `(from, to, name)`;
    `none` when the code raises. -/
def findRates (ncomps : Nat) : List String → Option (List (Nat × Nat × String))
  | [] => some []
  | nme :: rest =>
    match rateOf ncomps nme with
    | none => findRates ncomps rest
    | some (.flow f t) => (findRates ncomps rest).map (fun l => (f, t, nme) :: l)
    | some .skip => findRates ncomps rest
    | some _ => none

end Pharmpy.C01.Rates
