/-
  C01 — `$THETA` records: how many population parameters a record declares and which
  initial value / bounds / fixedness each of them has.

  Code modelled (records/theta_record.py, parsing.py):
  * `ThetaRecord.inits` / `.bounds` / `.fixs`: one pass over the `theta` subtrees each,
    `xs.extend([x] * n)` with `n = _multiple(theta)` (the `(value)xn` form);
  * `ThetaRecord.comment_names`: one pass over `root.tree_walk()` with the state
    (`names`, `intheta`, `n`); only `theta` subtrees and `COMMENT` tokens are looked at;
  * `parse_thetas`: concatenation over the `$THETA` records;
  * `parse_parameters`: `for i, name in enumerate(theta_names)` creating parameter `i` from
    `theta_inits[i]`, `theta_bounds[i]`, `theta_fixs[i]` — the *name list* decides how many
    THETAs the model object has.

  NM-TRAN: an item `(value)xn` declares `n` consecutive THETAs with that value; comments are
  ignored.  (`specThetas`.)
-/
namespace Pharmpy.C01.Theta

/-- What `comment_names` sees of a node of `tree_walk()`: a `theta` subtree with its
multiplicity, or a COMMENT token with group 1 of `;\s*([a-zA-Z_]\w*)` (`none`: no match). -/
inductive Ev where
  | theta (n : Nat)
  | comment (name : Option String)
  deriving Repr, DecidableEq

/-- Loop state of `comment_names` (`n` is a Python int: `n -= 1` is not truncated). -/
structure St where
  names : List (Option String)
  intheta : Bool
  n : Int
  deriving Repr, DecidableEq

def St.init : St := { names := [], intheta := false, n := 0 }

/-- `names.extend([None] * n)` (a non-positive `n` extends by nothing). -/
def pad (names : List (Option String)) (n : Int) : List (Option String) :=
  names ++ List.replicate n.toNat none

/-- One iteration of the loop body. -/
def step (s : St) : Ev → St
  | .theta m =>
    { names := if s.n != 0 then pad s.names s.n else s.names, intheta := true, n := (m : Int) }
  | .comment nm =>
    if s.intheta then
      { names := s.names ++ [nm], intheta := !(s.n - 1 == 0), n := s.n - 1 }
    else s

/-- `ThetaRecord.comment_names`. -/
def commentNames (evs : List Ev) : List (Option String) :=
  let s := evs.foldl step St.init
  if s.n != 0 then pad s.names s.n else s.names

/-- Multiplicities of the `theta` subtrees in document order. -/
def mults : List Ev → List Nat
  | [] => []
  | .theta m :: r => m :: mults r
  | .comment _ :: r => mults r

/-- A `theta` subtree as `inits` / `bounds` / `fixs` read it. -/
structure Item (I B F : Type) where
  init : I
  bound : B
  fix : F
  n : Nat

variable {I B F : Type}

/-- `ThetaRecord.inits`, `.bounds`, `.fixs`. -/
def inits (items : List (Item I B F)) : List I := items.flatMap (fun it => List.replicate it.n it.init)
def bounds (items : List (Item I B F)) : List B := items.flatMap (fun it => List.replicate it.n it.bound)
def fixs (items : List (Item I B F)) : List F := items.flatMap (fun it => List.replicate it.n it.fix)

/-- A `$THETA` record: its `theta` subtrees and what `tree_walk()` shows of it. -/
structure Rec (I B F : Type) where
  items : List (Item I B F)
  evs : List Ev

/-- The parse tree is consistent: the `theta` nodes of the walk are the `theta` subtrees. -/
def Rec.wf (r : Rec I B F) : Prop := mults r.evs = r.items.map (·.n)

/-- `parse_thetas` (the four lists, concatenated over the records). -/
def parseNames (recs : List (Rec I B F)) : List (Option String) := recs.flatMap (fun r => commentNames r.evs)
def parseInits (recs : List (Rec I B F)) : List I := recs.flatMap (fun r => inits r.items)
def parseBounds (recs : List (Rec I B F)) : List B := recs.flatMap (fun r => bounds r.items)
def parseFixs (recs : List (Rec I B F)) : List F := recs.flatMap (fun r => fixs r.items)

/-- `for i, name in enumerate(theta_names): … theta_inits[i], theta_bounds[i], theta_fixs[i]`;
`none` = IndexError. -/
def buildFrom (is : List I) (bs : List B) (fs : List F) : Nat → List (Option String) → Option (List (I × B × F))
  | _, [] => some []
  | i, _ :: rest =>
    match is[i]?, bs[i]?, fs[i]?, buildFrom is bs fs (i + 1) rest with
    | some a, some b, some c, some r => some ((a, b, c) :: r)
    | _, _, _, _ => none

/-- The theta parameters (init, bounds, fixedness) of `parse_parameters`. -/
def readThetas (recs : List (Rec I B F)) : Option (List (I × B × F)) :=
  buildFrom (parseInits recs) (parseBounds recs) (parseFixs recs) 0 (parseNames recs)

/-- NM-TRAN: every item declares `n` consecutive THETAs with its value. -/
def specItems (items : List (Item I B F)) : List (I × B × F) :=
  items.flatMap (fun it => List.replicate it.n (it.init, it.bound, it.fix))

def specThetas (recs : List (Rec I B F)) : List (I × B × F) := recs.flatMap (fun r => specItems r.items)

end Pharmpy.C01.Theta
