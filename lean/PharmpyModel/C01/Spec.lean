import PharmpyModel.C01.Model
/-
  C01 — what NM-TRAN does with abbreviated code (the reference interpreter),
  and the decidable side-condition `Safe` under which pharmpy's translation
  is proved to agree with it.

  Semantics are parametric in a carrier `α`, an interpretation of literals
  and named operations, and a reading of values as truth values.  The only
  law needed is that the operation named `ite` selects by that truth value
  (and, for the "empty IF" rule, that `not` negates it).
-/
namespace Pharmpy.C01
open Pharmpy

/-- An interpretation together with truth values for conditions. -/
structure Sem (α : Type) where
  I : Interp α
  truth : α → Bool
  ite_law : ∀ c a b : α, I.fn "ite" [c, a, b] = if truth c then a else b
  not_law : ∀ c : α, truth (I.fn "not" [c]) = !truth c

/-- Meaning of the statements `_parse_tree` does not look at (nested block IFs,
    DO WHILE, …): an arbitrary state transformer per statement number. -/
abbrev Opaque (α : Type) := Nat → Env α → Env α

variable {α : Type}

def execItem (S : Sem α) (O : Opaque α) (ρ : Env α) : Item → Env α
  | .asg x e => ρ.set x (e.eval S.I ρ)
  | .lif c x e => if S.truth (c.eval S.I ρ) then ρ.set x (e.eval S.I ρ) else ρ
  | .opq n => O n ρ

/-- A branch body is executed statement by statement in the current environment. -/
def execBody (S : Sem α) (O : Opaque α) (b : List Item) (ρ : Env α) : Env α :=
  b.foldl (execItem S O) ρ

/-- Block IF: conditions are evaluated top-down in the environment before the
    block; the first branch whose condition holds is executed; if none holds the
    ELSE branch (if any) is. -/
def execBlock (S : Sem α) (O : Opaque α) (els : Option (List Item)) (ρ : Env α) :
    List (Expr × List Item) → Env α
  | [] => (match els with
           | none => ρ
           | some eb => execBody S O eb ρ)
  | (c, b) :: rest =>
    if S.truth (c.eval S.I ρ) then execBody S O b ρ else execBlock S O els ρ rest

def nmExec (S : Sem α) (O : Opaque α) (ρ : Env α) : NMStmt → Env α
  | .asg x e => ρ.set x (e.eval S.I ρ)
  | .lif c x e => if S.truth (c.eval S.I ρ) then ρ.set x (e.eval S.I ρ) else ρ
  | .block brs els => execBlock S O els ρ brs
  | .opq n => O n ρ

/-- The NM-TRAN reference interpreter: statements in order. -/
def nmRun (S : Sem α) (O : Opaque α) (p : List NMStmt) (ρ : Env α) : Env α :=
  p.foldl (nmExec S O) ρ

/-! ### The side-condition -/

def isPlain : Item → Bool
  | .asg _ _ => true
  | _ => false

def bodySyms (b : List Item) : List Sym := (directAsgs b).map (fun p => p.1)
def bodyReads (b : List Item) : List Sym := (directAsgs b).flatMap (fun p => p.2.syms)

def nodupB : List Sym → Bool
  | [] => true
  | x :: xs => !xs.contains x && nodupB xs

/-- The symbols assigned in a branch are also assigned in every earlier branch. -/
def prefixClosed : List (List Sym) → Bool
  | [] => true
  | b :: rest => rest.all (fun r => r.all (fun x => b.contains x)) && prefixClosed rest

def bodiesOf (brs : List (Expr × List Item)) (els : Option (List Item)) : List (List Item) :=
  brs.map (fun p => p.2) ++ els.toList

def blockAssigned (brs : List (Expr × List Item)) (els : Option (List Item)) : List Sym :=
  (bodiesOf brs els).flatMap bodySyms

def blockReads (brs : List (Expr × List Item)) (els : Option (List Item)) : List Sym :=
  brs.flatMap (fun p => p.1.syms) ++ (bodiesOf brs els).flatMap bodyReads

/-- (a) nothing is dropped: every branch consists of plain assignments. -/
def condPlain (brs : List (Expr × List Item)) (els : Option (List Item)) : Bool :=
  (bodiesOf brs els).all (fun b => b.all isPlain)
/-- (b) no branch assigns a symbol twice. -/
def condOnce (brs : List (Expr × List Item)) (els : Option (List Item)) : Bool :=
  (bodiesOf brs els).all (fun b => nodupB (bodySyms b))
/-- (c) no symbol assigned in the block is read in the block (condition or right-hand side). -/
def condNoRead (brs : List (Expr × List Item)) (els : Option (List Item)) : Bool :=
  (blockAssigned brs els).all (fun x => !(blockReads brs els).contains x)
/-- (d) no branch gap. -/
def condPrefix (brs : List (Expr × List Item)) (els : Option (List Item)) : Bool :=
  prefixClosed ((bodiesOf brs els).map bodySyms)
/-- (e) a symbol that is not assigned by the ELSE branch was assigned before the block. -/
def condInit (seen : List Sym) (brs : List (Expr × List Item)) (els : Option (List Item)) : Bool :=
  (blockAssigned brs els).all (fun x =>
    seen.contains x || (match els with | some eb => (bodySyms eb).contains x | none => false))
/-- (f) not the "empty IF … ELSE" shape (treated by `empty_if_else_rule`). -/
def condNotEmptyIf (brs : List (Expr × List Item)) (els : Option (List Item)) : Bool :=
  match brs, els with
  | [(_, b)], some _ => !(directAsgs b).isEmpty
  | _, _ => true

def blockSafe (seen : List Sym) (brs : List (Expr × List Item)) (els : Option (List Item)) : Bool :=
  condPlain brs els && condOnce brs els && condNoRead brs els && condPrefix brs els
    && condInit seen brs els && condNotEmptyIf brs els

def stmtSafe (seen : List Sym) : NMStmt → Bool
  | .asg _ _ => true
  | .lif _ x _ => seen.contains x
  | .block brs els => blockSafe seen brs els
  | .opq _ => false

/-- `Safe`, threaded through the program exactly like `_parse_tree`'s statement list. -/
def safeFrom (seen : List Sym) : List NMStmt → Bool
  | [] => true
  | s :: rest => stmtSafe seen s && safeFrom (seen ++ targets (translateStmt seen s)) rest

def Safe (p : List NMStmt) : Bool := safeFrom [] p

/-- Names of the components of `Safe` that fail somewhere in the program
    (the known-finding classes of the harness are named after them). -/
def stmtUnsafe (seen : List Sym) : NMStmt → List String
  | .asg _ _ => []
  | .lif _ x _ => if seen.contains x then [] else ["uninit"]
  | .block brs els =>
    (if condPlain brs els then [] else ["nested"]) ++
    (if condOnce brs els then [] else ["twice"]) ++
    (if condNoRead brs els then [] else ["reads"]) ++
    (if condPrefix brs els then [] else ["gap"]) ++
    (if condInit seen brs els then [] else ["uninit"]) ++
    (if condNotEmptyIf brs els then [] else ["emptyif"])
  | .opq _ => ["opaque"]

def unsafeFrom (seen : List Sym) : List NMStmt → List String
  | [] => []
  | s :: rest => stmtUnsafe seen s ++ unsafeFrom (seen ++ targets (translateStmt seen s)) rest

end Pharmpy.C01
