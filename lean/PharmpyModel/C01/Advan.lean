import PharmpyModel.Generated.Advan
/-
  C01 — built-in kinetic libraries.

  `codeFlows` : what advan.py builds (resolved from the generated tables of
                `PharmpyModel/Generated/Advan.lean`, translator T1);
  `specFlows` : the PREDPP table, written from the NONMEM definitions of the
                ADVAN/TRANS parametrisations, with every derived micro-constant
                expanded down to the *basic PK parameters* of the TRANS.

  Compartments are numbered as NONMEM numbers them; the output compartment is
  number n+1.
-/
namespace Pharmpy.C01
open Pharmpy

structure Flow where
  src : Nat
  dst : Nat
  rate : Expr
  deriving DecidableEq, Repr

/-! ### the code side -/

def lookupTrans (fn trans : String) : Option (List Expr) :=
  match Gen.transTable.find? (fun r => r.1 == fn && r.2.1 == trans) with
  | some r => some r.2.2
  | none =>
    -- `else:  # TRANS1 which is also the default`
    match Gen.transTable.find? (fun r => r.1 == fn && r.2.1 == "default") with
    | some r => some r.2.2
    | none => none

def findArm (advan : String) : Option Gen.Arm := Gen.arms.find? (fun a => a.advan == advan)

def compNo (arm : Gen.Arm) (name : String) : Option Nat :=
  (arm.compMap.find? (fun p => p.1 == name)).map (fun p => p.2)

def resolveRate (trans : String) : Gen.RateRef → Option Expr
  | .ex e => some e
  | .fn f i => do (← lookupTrans f trans)[i]?

/-- Flows built by `_compartmental_model(advan, trans)`, in `add_flow` order. -/
def codeFlows (advan trans : String) : Option (List Flow) := do
  let arm ← findArm advan
  arm.flows.mapM (fun f => do
    some { src := ← compNo arm f.1, dst := ← compNo arm f.2.1, rate := ← resolveRate trans f.2.2 })

def codeObs (advan : String) : Option Nat := (findArm advan).map (fun a => a.obs.2)
def codeDose (advan : String) : Option Nat := (findArm advan).map (fun a => a.dose)

/-- ALAGn / Fn index of each compartment equals its number in `comp_map`,
    and compartments are added in numbering order. -/
def armNumberingOk (arm : Gen.Arm) : Bool :=
  arm.comps.all (fun c => compNo arm c.1 == some c.2.1 && c.2.1 == c.2.2.1
                          && (c.2.2.2 == 0 || c.2.2.2 == c.2.1))
  && arm.order == arm.comps.map (fun c => c.1)
  && (arm.comps.map (fun c => c.2.1)) == List.range' 1 arm.comps.length
  && compNo arm "OUTPUT" == some (arm.comps.length + 1)
  && compNo arm arm.obs.1 == some arm.obs.2

/-! ### the PREDPP side -/

private def s (x : String) : Expr := .sym x
private def add (a b : Expr) : Expr := .f2 "add" a b
private def sub (a b : Expr) : Expr := .f2 "sub" a b
private def mul (a b : Expr) : Expr := .f2 "mul" a b
private def dvd (a b : Expr) : Expr := .f2 "div" a b

/-- Basic PK parameters of each (ADVAN, TRANS). -/
def basicParams (advan trans : String) : Option (List Sym) :=
  match advan, trans with
  | "ADVAN1", "TRANS1" => some ["K"]
  | "ADVAN1", "TRANS2" => some ["CL", "V"]
  | "ADVAN2", "TRANS1" => some ["K", "KA"]
  | "ADVAN2", "TRANS2" => some ["CL", "V", "KA"]
  | "ADVAN3", "TRANS1" => some ["K", "K12", "K21"]
  | "ADVAN3", "TRANS3" => some ["CL", "V", "Q", "VSS"]
  | "ADVAN3", "TRANS4" => some ["CL", "V1", "Q", "V2"]
  | "ADVAN3", "TRANS5" => some ["AOB", "ALPHA", "BETA"]
  | "ADVAN3", "TRANS6" => some ["ALPHA", "BETA", "K21"]
  | "ADVAN4", "TRANS1" => some ["K", "K23", "K32", "KA"]
  | "ADVAN4", "TRANS3" => some ["CL", "V", "Q", "VSS", "KA"]
  | "ADVAN4", "TRANS4" => some ["CL", "V2", "Q", "V3", "KA"]
  | "ADVAN4", "TRANS5" => some ["AOB", "ALPHA", "BETA", "KA"]
  | "ADVAN4", "TRANS6" => some ["ALPHA", "BETA", "K32", "KA"]
  | "ADVAN10", "TRANS1" => some ["VM", "KM"]
  | "ADVAN11", "TRANS1" => some ["K", "K12", "K21", "K13", "K31"]
  | "ADVAN11", "TRANS4" => some ["CL", "V1", "Q2", "V2", "Q3", "V3"]
  | "ADVAN11", "TRANS6" => some ["ALPHA", "BETA", "GAMMA", "K21", "K31"]
  | "ADVAN12", "TRANS1" => some ["K", "K23", "K32", "K24", "K42", "KA"]
  | "ADVAN12", "TRANS4" => some ["CL", "V2", "Q3", "V3", "Q4", "V4", "KA"]
  | "ADVAN12", "TRANS6" => some ["ALPHA", "BETA", "GAMMA", "K32", "K42", "KA"]
  | _, _ => none

def specEntries : List (String × String) :=
  [("ADVAN1", "TRANS1"), ("ADVAN1", "TRANS2"), ("ADVAN2", "TRANS1"), ("ADVAN2", "TRANS2"),
   ("ADVAN3", "TRANS1"), ("ADVAN3", "TRANS3"), ("ADVAN3", "TRANS4"), ("ADVAN3", "TRANS5"), ("ADVAN3", "TRANS6"),
   ("ADVAN4", "TRANS1"), ("ADVAN4", "TRANS3"), ("ADVAN4", "TRANS4"), ("ADVAN4", "TRANS5"), ("ADVAN4", "TRANS6"),
   ("ADVAN10", "TRANS1"),
   ("ADVAN11", "TRANS1"), ("ADVAN11", "TRANS4"), ("ADVAN11", "TRANS6"),
   ("ADVAN12", "TRANS1"), ("ADVAN12", "TRANS4"), ("ADVAN12", "TRANS6")]

/-- Derived micro-constants of a TRANS in terms of its basic parameters, *in
    definition order* (a later definition may use an earlier one).  Names are
    those of the two-compartment model without depot (`K`, `K12`, `K21`, `K13`,
    `K31`); `rename` maps them for the models with a depot. -/
def microDefs2 (trans : String) : List (Sym × Expr) :=
  match trans with
  | "TRANS3" => [("K", dvd (s "CL") (s "V")), ("K12", dvd (s "Q") (s "V")),
                 ("K21", dvd (s "Q") (sub (s "VSS") (s "V")))]
  | "TRANS4" => [("K", dvd (s "CL") (s "VC")), ("K12", dvd (s "Q") (s "VC")), ("K21", dvd (s "Q") (s "VP"))]
  | "TRANS5" => [("K21", dvd (add (mul (s "AOB") (s "BETA")) (s "ALPHA")) (add (s "AOB") (.lit 1))),
                 ("K", dvd (mul (s "ALPHA") (s "BETA")) (s "K21")),
                 ("K12", sub (sub (add (s "ALPHA") (s "BETA")) (s "K21")) (s "K"))]
  | "TRANS6" => [("K", dvd (mul (s "ALPHA") (s "BETA")) (s "K21")),
                 ("K12", sub (sub (add (s "ALPHA") (s "BETA")) (s "K21")) (s "K"))]
  | _ => []

private def sumABG : Expr := add (add (s "ALPHA") (s "BETA")) (s "GAMMA")
private def prodPairs : Expr :=
  add (add (mul (s "ALPHA") (s "BETA")) (mul (s "ALPHA") (s "GAMMA"))) (mul (s "BETA") (s "GAMMA"))

def microDefs3 (trans : String) : List (Sym × Expr) :=
  match trans with
  | "TRANS4" => [("K", dvd (s "CL") (s "VC")), ("K12", dvd (s "QA") (s "VC")), ("K21", dvd (s "QA") (s "VA")),
                 ("K13", dvd (s "QB") (s "VC")), ("K31", dvd (s "QB") (s "VB"))]
  | "TRANS6" => [("K", dvd (mul (mul (s "ALPHA") (s "BETA")) (s "GAMMA")) (mul (s "K21") (s "K31"))),
                 ("K13", dvd (sub (sub (add prodPairs (mul (s "K31") (s "K31"))) (mul (s "K31") sumABG))
                                   (mul (s "K") (s "K21")))
                              (sub (s "K21") (s "K31"))),
                 ("K12", sub (sub (sub (sub sumABG (s "K")) (s "K13")) (s "K21")) (s "K31"))]
  | _ => []

/-- Expand derived constants: substitute the definitions from the last one back
    to the first, so the result mentions basic parameters only. -/
def expand (defs : List (Sym × Expr)) (e : Expr) : Expr :=
  defs.foldr (fun d acc => Expr.subst1 d.1 d.2 acc) e

/-- Symbol renaming (`V1 → …`, `K12 → K23`, …). -/
def rename (m : List (Sym × Sym)) (e : Expr) : Expr :=
  Expr.subst (fun y => (m.find? (fun p => p.1 == y)).map (fun p => .sym p.2)) e

def specFlows (advan trans : String) : Option (List Flow) :=
  if !(specEntries.contains (advan, trans)) then none else
  let two (ren : List (Sym × Sym)) (c p out : Nat) : List Flow :=
    let r := fun x => rename ren (expand (microDefs2 trans) (s x))
    [⟨c, out, r "K"⟩, ⟨c, p, r "K12"⟩, ⟨p, c, r "K21"⟩]
  let three (ren : List (Sym × Sym)) (c p1 p2 out : Nat) : List Flow :=
    let r := fun x => rename ren (expand (microDefs3 trans) (s x))
    [⟨c, out, r "K"⟩, ⟨c, p1, r "K12"⟩, ⟨p1, c, r "K21"⟩, ⟨c, p2, r "K13"⟩, ⟨p2, c, r "K31"⟩]
  match advan with
  | "ADVAN1" => some [⟨1, 2, if trans == "TRANS2" then dvd (s "CL") (s "V") else s "K"⟩]
  | "ADVAN2" => some [⟨2, 3, if trans == "TRANS2" then dvd (s "CL") (s "V") else s "K"⟩, ⟨1, 2, s "KA"⟩]
  | "ADVAN3" => some (two [("VC", "V1"), ("VP", "V2")] 1 2 3)
  | "ADVAN4" =>
    some (⟨1, 2, s "KA"⟩ ::
      two [("VC", "V2"), ("VP", "V3"), ("K12", "K23"), ("K21", "K32")] 2 3 4)
  | "ADVAN10" => some [⟨1, 2, dvd (s "VM") (add (s "KM") (s "A_CENTRAL(t)"))⟩]
  | "ADVAN11" =>
    some (three [("VC", "V1"), ("QA", "Q2"), ("VA", "V2"), ("QB", "Q3"), ("VB", "V3")] 1 2 3 4)
  | "ADVAN12" =>
    some (⟨1, 2, s "KA"⟩ ::
      three [("VC", "V2"), ("QA", "Q3"), ("VA", "V3"), ("QB", "Q4"), ("VB", "V4"),
             ("K12", "K23"), ("K21", "K32"), ("K13", "K24"), ("K31", "K42")] 2 3 4 5)
  | _ => none

def specObs (advan : String) : Option Nat :=
  match advan with
  | "ADVAN1" | "ADVAN3" | "ADVAN10" | "ADVAN11" => some 1
  | "ADVAN2" | "ADVAN4" | "ADVAN12" => some 2
  | _ => none

def specDose (advan : String) : Option Nat :=
  if ["ADVAN1", "ADVAN2", "ADVAN3", "ADVAN4", "ADVAN10", "ADVAN11", "ADVAN12"].contains advan then some 1 else none

/-- Amount symbols that may occur in a rate (ADVAN10 only). -/
def amountSyms : List Sym := ["A_CENTRAL(t)"]

def flowSyms (fs : List Flow) : List Sym := fs.flatMap (fun f => f.rate.syms)

/-- Symbols of the code's rate expressions that are neither basic parameters of
    the TRANS nor amounts. -/
def openSyms (advan trans : String) : List Sym :=
  match codeFlows advan trans, basicParams advan trans with
  | some fs, some bp => ((flowSyms fs).filter (fun y => !bp.contains y && !amountSyms.contains y)).eraseDups
  | _, _ => []

/-- Flows sorted by (src, dst) for order-insensitive comparison. -/
def sortFlows (fs : List Flow) : List Flow :=
  (fs.toArray.qsort (fun a b => a.src < b.src || (a.src == b.src && a.dst < b.dst))).toList

/-- The entries on which the code's table is closed over the basic parameters. -/
def closedEntries : List (String × String) :=
  specEntries.filter (fun p => (openSyms p.1 p.2).isEmpty)

end Pharmpy.C01
