/-
  C19 — executable model of the ranking / selection-criteria code:

    pharmpy.tools.run       rank_models, get_rankval, is_strictness_fulfilled, ArrayEvaluator
    pharmpy.modeling.lrt    degrees_of_freedom, cutoff, test, best_of_two, best_of_many
    pharmpy.modeling.results calculate_aic, calculate_bic (formula selection),
                            _categorize_parameters (set algorithm)
    pharmpy.tools.common    best-model selection of create_results (`idxmin` of the rank column)

  Floats are exact rationals with NaN as an explicit constructor (`Val`).
  `chi2.isf`, `math.log` are *data*: the chi-square table is a function
  argument, the two logarithms are fields of `Counts`.
  Each definition mirrors the Python line by line (names in comments).
-/
namespace Pharmpy.C19

/-! ### floats with NaN -/

inductive Val where
  | nan : Val
  | num : Rat → Val
  deriving DecidableEq, Repr, Inhabited

namespace Val

def isNan : Val → Bool
  | nan => true
  | num _ => false

def add : Val → Val → Val
  | num a, num b => num (a + b)
  | _, _ => nan

def sub : Val → Val → Val
  | num a, num b => num (a - b)
  | _, _ => nan

def neg : Val → Val
  | num a => num (-a)
  | nan => nan

/-- IEEE: every ordered comparison with NaN is false. -/
def lt : Val → Val → Bool
  | num a, num b => decide (a < b)
  | _, _ => false

def le : Val → Val → Bool
  | num a, num b => decide (a ≤ b)
  | _, _ => false

def gt (a b : Val) : Bool := lt b a
def ge (a b : Val) : Bool := le b a

/-- IEEE `==`: false if either side is NaN. -/
def feq : Val → Val → Bool
  | num a, num b => decide (a = b)
  | _, _ => false

end Val

/-! ### strictness expressions (`is_strictness_fulfilled`) -/

inductive PClass where
  | theta | omega | sigma | other
  deriving DecidableEq, Repr, Inhabited

/-- Boolean-valued names of the strictness grammar. -/
inductive BAttr where
  | minimizationSuccessful | roundingErrors | maxevalsExceeded
  | finalZeroGradient | fzgTheta | fzgOmega | fzgSigma
  | estimateNearBoundary | enbTheta | enbOmega | enbSigma
  deriving DecidableEq, Repr, Inhabited

/-- Numeric (array-valued, `ArrayEvaluator`) names. -/
inductive NAttr where
  | sigdigs | rse | rseTheta | rseOmega | rseSigma
  deriving DecidableEq, Repr, Inhabited

inductive Cmp where
  | lt | le | eq | ne | ge | gt
  deriving DecidableEq, Repr, Inhabited

/-- The documented grammar (docs/strictness.rst): names, `name op number`,
    `number op name`, `and`, `or`, `not`, parentheses. -/
inductive SExpr where
  | b : BAttr → SExpr
  | cmp : NAttr → Cmp → Rat → SExpr
  | rcmp : Rat → Cmp → NAttr → SExpr
  | and : SExpr → SExpr → SExpr
  | or : SExpr → SExpr → SExpr
  | not : SExpr → SExpr
  deriving Repr, Inhabited

/-- The attributes of a `ModelfitResults` (and of the model's parameter
    classes) that the strictness evaluation reads. -/
structure Res where
  ofv : Val
  minSucc : Bool
  cause : String                        -- termination_cause ("" for None)
  sigdigs : Val
  warnings : List String
  rse : Option (List (PClass × Val))    -- relative_standard_errors, with the class of each index name
  grd : List (PClass × Val)             -- gradients
  near : List (PClass × Bool)           -- check_parameters_near_bounds(model, parameter_estimates)
  deriving Repr, Inhabited

inductive SErr where
  | valueError       -- ValueError (documented refusals, unknown BIC type)
  | attributeError   -- rse_theta/… requested but relative_standard_errors is None
  deriving DecidableEq, Repr, Inhabited

def Cmp.flip : Cmp → Cmp
  | .lt => .gt | .le => .ge | .eq => .eq | .ne => .ne | .ge => .le | .gt => .lt

/-- One element comparison `e op value` on floats. -/
def cmpVal (op : Cmp) (e : Val) (c : Rat) : Bool :=
  match op with
  | .lt => Val.lt e (.num c)
  | .le => Val.le e (.num c)
  | .eq => Val.feq e (.num c)
  | .ne => !Val.feq e (.num c)      -- not used by ArrayEvaluator (no __ne__), kept for completeness
  | .ge => Val.ge e (.num c)
  | .gt => Val.gt e (.num c)

/-- `ArrayEvaluator.__lt__` etc.: `all(e op value for e in self.x)`;
    `!=` is Python's default `__ne__` = `not __eq__`. -/
def cmpAll (op : Cmp) (xs : List Val) (c : Rat) : Bool :=
  match op with
  | .ne => !(xs.all (fun e => cmpVal .eq e c))
  | op => xs.all (fun e => cmpVal op e c)

def ofClass (k : PClass) {α : Type} (xs : List (PClass × α)) : List α :=
  (xs.filter (fun p => p.1 == k)).map (·.2)

/-- The list an `ArrayEvaluator` is built on. -/
def narr (r : Res) : NAttr → List Val
  | .sigdigs => [r.sigdigs]
  | .rse => (r.rse.getD []).map (·.2)
  | .rseTheta => ofClass .theta (r.rse.getD [])
  | .rseOmega => ofClass .omega (r.rse.getD [])
  | .rseSigma => ofClass .sigma (r.rse.getD [])

def isZero (v : Val) : Bool := Val.feq v (.num 0)

/-- Value of a boolean name. -/
def battr (r : Res) : BAttr → Bool
  | .minimizationSuccessful => r.minSucc
  | .roundingErrors => r.cause == "rounding_errors"
  | .maxevalsExceeded => r.cause == "maxevals_exceeded"
  | .finalZeroGradient => r.warnings.contains "final_zero_gradient"
  | .fzgTheta => (ofClass .theta r.grd).any isZero || (ofClass .theta r.grd).any Val.isNan
  | .fzgOmega => (ofClass .omega r.grd).any isZero || (ofClass .omega r.grd).any Val.isNan
  | .fzgSigma => (ofClass .sigma r.grd).any isZero || (ofClass .sigma r.grd).any Val.isNan
  | .estimateNearBoundary => (r.near.map (·.2)).any id
  | .enbTheta => (ofClass .theta r.near).any id
  | .enbOmega => (ofClass .omega r.near).any id
  | .enbSigma => (ofClass .sigma r.near).any id

def SExpr.mentionsN (a : NAttr) : SExpr → Bool
  | .b _ => false
  | .cmp x _ _ => x == a
  | .rcmp _ _ x => x == a
  | .and x y => x.mentionsN a || y.mentionsN a
  | .or x y => x.mentionsN a || y.mentionsN a
  | .not x => x.mentionsN a

def SExpr.mentionsRseClass (e : SExpr) : Bool :=
  e.mentionsN .rseTheta || e.mentionsN .rseOmega || e.mentionsN .rseSigma

/-- Python's `eval` of the expression: every name is bound to a bool or an
    `ArrayEvaluator`, so every sub-expression is a bool; `and`/`or` return an
    operand (short-circuit), `not` negates. -/
def evalS (r : Res) : SExpr → Bool
  | .b a => battr r a
  | .cmp a op c => cmpAll op (narr r a) c
  | .rcmp c op a => cmpAll op.flip (narr r a) c
  | .and x y => if evalS r x then evalS r y else evalS r x
  | .or x y => if evalS r x then evalS r x else evalS r y
  | .not x => !evalS r x

/-- `is_strictness_fulfilled` (strictness `none` = the empty string). -/
def isStrictnessFulfilled (r : Res) (s : Option SExpr) : Except SErr Bool :=
  if r.ofv.isNan then .ok false
  else match s with
    | none => .ok true
    | some e =>
      if e.mentionsN .rse && r.rse.isNone then .error .valueError
      else if e.mentionsRseClass && r.rse.isNone then .error .attributeError
      else .ok (evalS r e)

/-! ### information criteria (`calculate_aic`, `calculate_bic`) -/

/-- What the formulas read off the model. `logSubs`, `logObs` are the values of
    `math.log(len(get_ids(model)))`, `math.log(len(get_observations(model)))`. -/
structure Counts where
  nonfixed : Nat      -- len(model.parameters.nonfixed)
  iivOmegas : Nat     -- non-fixed parameters of model.random_variables.iiv
  thetaF : Nat        -- |fixedpars| of _categorize_parameters
  thetaR : Nat        -- |randpars|
  logSubs : Rat
  logObs : Rat
  deriving Repr, Inhabited

inductive BicType where
  | mixed | fixed | random | iiv
  deriving DecidableEq, Repr, Inhabited

inductive RankType where
  | ofv | lrt | aic
  | bic : Option BicType → RankType     -- `kwargs.get('bic_type', 'mixed')`: none = not given
  deriving DecidableEq, Repr, Inhabited

def aic (c : Counts) (likelihood : Val) : Val :=
  likelihood.add (.num (2 * (c.nonfixed : Rat)))

def bicPenalty (c : Counts) : BicType → Rat
  | .fixed => (c.nonfixed : Rat) * c.logObs
  | .random => (c.nonfixed : Rat) * c.logSubs
  | .iiv => (c.iivOmegas : Rat) * c.logSubs
  | .mixed => (c.thetaR : Rat) * c.logSubs + (c.thetaF : Rat) * c.logObs

def bic (c : Counts) (likelihood : Val) (t : BicType) : Val :=
  likelihood.add (.num (bicPenalty c t))

/-- `get_rankval`. -/
def getRankval (r : Res) (c : Counts) (s : Option SExpr) (rt : RankType) : Except SErr Val :=
  match isStrictnessFulfilled r s with
  | .error e => .error e
  | .ok false => .ok .nan
  | .ok true => match rt with
    | .ofv => .ok r.ofv
    | .lrt => .ok r.ofv
    | .aic => .ok (aic c r.ofv)
    | .bic (some t) => .ok (bic c r.ofv t)
    | .bic none => .ok (bic c r.ofv .mixed)

/-! ### likelihood ratio test (`modeling/lrt.py`) -/

/-- `degrees_of_freedom(parent, child)`. -/
def lrtDf (parentN childN : Nat) : Int := (childN : Int) - (parentN : Int)

/-- `cutoff(parent, child, alpha)`; `isf α df` stands for `chi2.isf(q=α, df=df)`. -/
def lrtCutoff (isf : Rat → Nat → Rat) (df : Int) (alpha : Rat) : Rat :=
  if df = 0 then 0
  else if df > 0 then isf alpha df.toNat
  else -(isf alpha (-df).toNat)

/-- `test(parent, child, parent_ofv, child_ofv, alpha)`. -/
def lrtTest (isf : Rat → Nat → Rat) (parentN childN : Nat) (parentOfv childOfv : Val) (alpha : Rat) : Bool :=
  Val.ge (parentOfv.sub childOfv) (.num (lrtCutoff isf (lrtDf parentN childN) alpha))

/-- `best_of_two`: true = child. -/
def bestOfTwo (isf : Rat → Nat → Rat) (parentN childN : Nat) (parentOfv childOfv : Val) (alpha : Rat) : Bool :=
  lrtTest isf parentN childN parentOfv childOfv alpha

/-- `np.nanargmin`: (index, value) of the first minimal non-NaN entry, `none` = ValueError (all NaN / empty). -/
def nanargminV : List Val → Option (Nat × Rat)
  | [] => none
  | .nan :: xs => (nanargminV xs).map (fun p => (p.1 + 1, p.2))
  | .num v :: xs =>
    match nanargminV xs with
    | none => some (0, v)
    | some (j, b) => if b < v then some (j + 1, b) else some (0, v)

def nanargmin (xs : List Val) : Option Nat := (nanargminV xs).map (·.1)

/-- `best_of_many`: `none` = the parent, `some i` = `models[i]`.
    `models` = (number of parameters, OFV) per candidate. -/
def bestOfMany (isf : Rat → Nat → Rat) (parentN : Nat) (parentOfv : Val) (models : List (Nat × Val)) (alpha : Rat) :
    Option Nat :=
  match nanargmin (models.map (·.2)) with
  | none => none
  | some i =>
    match models[i]? with
    | none => none
    | some (n, ofv) => if bestOfTwo isf parentN n parentOfv ofv alpha then some i else none

/-! ### rank_models -/

/-- One entry of `models_all` (index 0 is the base model). -/
structure Cand where
  rv : Val        -- get_rankval(model, res, strictness, rank_type): NaN when strictness fails
  ofv : Val       -- res.ofv (used by the LRT)
  npar : Nat      -- len(model.parameters)
  parent : Nat    -- index of parent_dict[model.name] in models_all
  pen : Rat       -- penalties[i] (0 when `penalties` is None)
  deriving Repr, Inhabited

inductive Cutoff where
  | none
  | one : Rat → Cutoff
  | two : Rat → Rat → Cutoff
  deriving Repr, Inhabited

structure Cfg where
  lrt : Bool                 -- rank_type == 'lrt'
  cutoff : Cutoff
  isf : Rat → Nat → Rat

/-- The significance level used for a candidate (run.py 828-834). -/
def chooseAlpha (c : Cutoff) (df : Int) : Rat :=
  match c with
  | .none => if df ≥ 0 then 5 / 100 else 1 / 100
  | .two c0 c1 => if df ≥ 0 then c0 else c1
  | .one co => co

/-- `ref_value`. -/
def refValue (all : List Cand) : Val :=
  match all.head? with
  | some b => b.rv.add (.num b.pen)
  | none => .nan

/-- Body of the filtering loop: `some rank_value` when the model is kept. -/
def keep (cfg : Cfg) (all : List Cand) (ref : Val) (i : Nat) (c : Cand) : Option Rat :=
  match c.rv with
  | .nan => none
  | .num v =>
    let rvp := v + c.pen
    if i = 0 then some rvp
    else if cfg.lrt then
      let p := all.getD c.parent default
      let df := lrtDf p.npar c.npar
      if lrtTest cfg.isf p.npar c.npar p.ofv c.ofv (chooseAlpha cfg.cutoff df) then some rvp else none
    else match cfg.cutoff with
      | .one co => if Val.le (ref.sub (.num rvp)) (.num co) then none else some rvp
      | _ => some rvp

/-- `models_to_rank` with their `rank_values`: (index, rank value). -/
def keptOf (cfg : Cfg) (all : List Cand) : List (Nat × Rat) :=
  all.zipIdx.filterMap (fun ci => (keep cfg all (refValue all) ci.2 ci.1).map (fun v => (ci.2, v)))

/-- `_get_delta`: the sort key. -/
def keyOf (ref : Val) (rvp : Rat) : Rat :=
  match ref with
  | .nan => -rvp
  | .num r => r - rvp

/-- Stable descending insertion (Python `sorted(..., reverse=True)` keeps the
    original order of equal keys). -/
def insertDesc {α : Type} (key : α → Rat) (x : α) : List α → List α
  | [] => [x]
  | y :: ys => if key y ≤ key x then x :: y :: ys else y :: insertDesc key x ys

def sortDesc {α : Type} (key : α → Rat) (xs : List α) : List α :=
  xs.foldr (insertDesc key) []

/-- The ranking loop (run.py 857-866) over the sorted keys. -/
def ranksAux (rank count : Nat) (prev : Option Rat) : List Rat → List Nat
  | [] => []
  | x :: xs =>
    if some x ≠ prev then (rank + (count + 1)) :: ranksAux (rank + (count + 1)) 0 (some x) xs
    else rank :: ranksAux rank (count + 1) prev xs

def ranks (keys : List Rat) : List Nat := ranksAux 0 0 none keys

structure Row where
  idx : Nat
  delta : Val
  rv : Val
  rank : Option Nat
  deriving DecidableEq, Repr, Inhabited

/-- Ranked rows in sorted order. -/
def rankedRows (cfg : Cfg) (all : List Cand) : List Row :=
  let ref := refValue all
  let sorted := sortDesc (fun p => keyOf ref p.2) (keptOf cfg all)
  let rk := ranks (sorted.map (fun p => keyOf ref p.2))
  (sorted.zip rk).map (fun pr => { idx := pr.1.1, delta := ref.sub (.num pr.1.2), rv := .num pr.1.2, rank := some pr.2 })

def unrankedRows (cfg : Cfg) (all : List Cand) : List Row :=
  let kept := (keptOf cfg all).map (·.1)
  ((List.range all.length).filter (fun i => !kept.contains i)).map
    (fun i => { idx := i, delta := .nan, rv := .nan, rank := none })

/-- The DataFrame returned by `rank_models`, in row order (`sort_values` puts NaN last). -/
def rankModels (cfg : Cfg) (all : List Cand) : List Row :=
  rankedRows cfg all ++ unrankedRows cfg all

/-- `summary_tool['rank'].idxmin()` (first row holding the smallest rank), `none` when all NaN. -/
def idxminAux : List Row → Option (Nat × Nat) → Option (Nat × Nat)
  | [], best => best
  | r :: rs, best =>
    match r.rank, best with
    | none, _ => idxminAux rs best
    | some k, none => idxminAux rs (some (r.idx, k))
    | some k, some (j, b) => idxminAux rs (if k < b then some (r.idx, k) else some (j, b))

def bestModel (rows : List Row) : Option Nat := (idxminAux rows none).map (·.1)

/-! ### `_categorize_parameters` -/

/-- One expression visited by the two loops: the estimated parameters it
    contains (for a dependent variable: plus the sigmas of its epsilons) and
    whether it contains an eta. -/
structure Vis where
  pars : List String
  hasEta : Bool
  deriving Repr, Inhabited

def addNew (acc : List String) (x : String) : List String := if acc.contains x then acc else acc ++ [x]

/-- set union on duplicate-free lists -/
def unionS (a b : List String) : List String := b.foldl addNew a

def catStep (st : List String × List String) (v : Vis) : List String × List String :=
  if v.hasEta then (st.1.filter (fun x => !v.pars.contains x), unionS st.2 v.pars)
  else (unionS st.1 (v.pars.filter (fun x => !st.2.contains x)), st.2)

/-- (fixedpars, randpars); `omegas` = omegas ∩ nonfixed (duplicate free). -/
def categorize (omegas : List String) (vs : List Vis) : List String × List String :=
  vs.foldl catStep ([], omegas)

/-! ### the whole of `rank_models` from results -/

/-- One model as `rank_models` sees it. -/
structure Entry where
  res : Res
  counts : Counts
  npar : Nat
  parent : Nat
  pen : Rat
  deriving Repr, Inhabited

def rankvals (s : Option SExpr) (rt : RankType) : List Entry → Except SErr (List Val)
  | [] => .ok []
  | e :: es =>
    match getRankval e.res e.counts s rt with
    | .error x => .error x
    | .ok v => match rankvals s rt es with
      | .error x => .error x
      | .ok vs => .ok (v :: vs)

def toCands : List Entry → List Val → List Cand
  | e :: es, v :: vs => { rv := v, ofv := e.res.ofv, npar := e.npar, parent := e.parent, pen := e.pen } :: toCands es vs
  | _, _ => []

/-- `rank_models(base, base_res, models, models_res, parent_dict, strictness, rank_type, cutoff, penalties, bic_type=…)`;
    `entries` = base :: models. -/
def rankModelsFull (s : Option SExpr) (rt : RankType) (cutoff : Cutoff) (isf : Rat → Nat → Rat)
    (entries : List Entry) : Except SErr (List Row) :=
  match rankvals s rt entries with
  | .error x => .error x
  | .ok vs => .ok (rankModels { lrt := rt == .lrt, cutoff := cutoff, isf := isf } (toCands entries vs))

/-! ### `create_results` (tools/common.py): the model reported as best -/

/-- `best_model_name = summary_tool['rank'].idxmin()`; a candidate with that name, else
    the base model; the base model (index 0) when no row has a rank. -/
def finalModel (rows : List Row) : Nat := (bestModel rows).getD 0

/-- `create_results` up to the choice of `final_model`: `summarize_tool` calls
    `rank_models` *without* a parent map (every LRT is against the base model) and
    raises "All models fail the strictness criteria!" when, for a non-LRT rank
    type, no model has a criterion value. -/
def createResults (s : Option SExpr) (rt : RankType) (cutoff : Cutoff) (isf : Rat → Nat → Rat)
    (entries : List Entry) : Except SErr (List Row × Nat) :=
  match rankModelsFull s rt cutoff isf (entries.map (fun e => { e with parent := 0 })) with
  | .error x => .error x
  | .ok rows =>
    if rt != .lrt && rows.all (fun r => r.rv.isNan) then .error .valueError
    else .ok (rows, finalModel rows)

end Pharmpy.C19
