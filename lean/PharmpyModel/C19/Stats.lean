/-
  C19 — post-processing statistics as exact list functions over `Rat`:

    tools/bootstrap/results.py  calculate_results (mean, median, bias, stderr², RSE², covariance),
                                create_distribution (min, quantiles with linear interpolation, max)
    tools/cdd/results.py        compute_jackknife_covariance_matrix, compute_cook_scores (squared),
                                compute_covariance_ratios (squared)
    modeling/results.py         calculate_eta_shrinkage (variance scale; sd scale as (1-s)²),
                                calculate_individual_shrinkage

  A data set is a list of columns (one per parameter), each a list of replicate values.
  Square roots are avoided by reporting the squared quantity.
-/
namespace Pharmpy.C19.Stats

def sum (xs : List Rat) : Rat := xs.foldr (· + ·) 0

def mean (xs : List Rat) : Rat := sum xs / (xs.length : Rat)

/-- deviations from the column mean -/
def dev (xs : List Rat) : List Rat := xs.map (· - mean xs)

def cross (xs ys : List Rat) : Rat := sum (List.zipWith (· * ·) (dev xs) (dev ys))

/-- pandas `DataFrame.cov` / `var` / `std²` (ddof = 1) -/
def cov (xs ys : List Rat) : Rat := cross xs ys / ((xs.length : Rat) - 1)

def var (xs : List Rat) : Rat := cov xs xs

/-- `compute_jackknife_covariance_matrix`: `δᵀ δ (N − 1) / N` -/
def jack (xs ys : List Rat) : Rat := cross xs ys * ((xs.length : Rat) - 1) / (xs.length : Rat)

def insertAsc (x : Rat) : List Rat → List Rat
  | [] => [x]
  | y :: ys => if x ≤ y then x :: y :: ys else y :: insertAsc x ys

def sortAsc (xs : List Rat) : List Rat := xs.foldr insertAsc []

/-- pandas `quantile(q)` (linear interpolation between the order statistics at `q (n−1)`) -/
def quantile (q : Rat) (xs : List Rat) : Rat :=
  let s := sortAsc xs
  let n := s.length
  let pos := q * ((n : Rat) - 1)
  let lo := pos.floor.toNat
  let frac := pos - (lo : Rat)
  let a := s.getD lo 0
  let b := s.getD (min (lo + 1) (n - 1)) 0
  a + frac * (b - a)

def median (xs : List Rat) : Rat := quantile (1 / 2) xs

/-- the columns of `create_distribution` -/
def distQs : List Rat := [0, 5 / 10000, 5 / 1000, 25 / 1000, 5 / 100, 1 / 2, 95 / 100, 975 / 1000, 995 / 1000, 9995 / 10000, 1]

structure ColStats where
  mean : Rat
  median : Rat
  bias : Rat
  var : Rat        -- stderr²
  rse2 : Rat       -- (stderr / mean)²
  dist : List Rat
  deriving Repr

/-- one row of `parameter_statistics` + `parameter_distribution` -/
def colStats (xs : List Rat) (orig : Rat) : ColStats :=
  { mean := mean xs, median := median xs, bias := mean xs - orig, var := var xs,
    rse2 := var xs / (mean xs * mean xs), dist := distQs.map (fun q => quantile q xs) }

def covMatrix (cols : List (List Rat)) : List (List Rat) := cols.map (fun a => cols.map (fun b => cov a b))
def jackMatrix (cols : List (List Rat)) : List (List Rat) := cols.map (fun a => cols.map (fun b => jack a b))

/-! determinant / inverse by cofactors (dimension ≤ 4 in practice) -/

def dropNth {α : Type} (xs : List α) (k : Nat) : List α := xs.take k ++ xs.drop (k + 1)

/-- Laplace expansion along the first row; `fuel` ≥ dimension. -/
def det : Nat → List (List Rat) → Rat
  | 0, _ => 1
  | fuel + 1, m =>
    match m with
    | [] => 1
    | row :: rest =>
      (row.zipIdx.map (fun xj =>
        let sgn : Rat := if xj.2 % 2 == 0 then 1 else -1
        sgn * xj.1 * det fuel (rest.map (fun r => dropNth r xj.2)))).foldr (· + ·) 0

def minor (m : List (List Rat)) (i j : Nat) : List (List Rat) := (dropNth m i).map (fun r => dropNth r j)

/-- `δ Σ⁻¹ δᵀ` (squared Cook score) via the adjugate; `none` when Σ is singular. -/
def quadInv (m : List (List Rat)) (d : List Rat) : Option Rat :=
  let n := m.length
  let dt := det n m
  if dt == 0 then none
  else
    let terms := (List.range n).map (fun i => (List.range n).map (fun j =>
      let sgn : Rat := if (i + j) % 2 == 0 then 1 else -1
      d.getD i 0 * (sgn * det n (minor m j i)) * d.getD j 0))
    some (sum (terms.map sum) / dt)

/-- squared Cook scores: one per replicate (row), columns − base. -/
def cook2 (base : List Rat) (cols : List (List Rat)) (m : List (List Rat)) : List (Option Rat) :=
  let nrep := (cols.head?.map List.length).getD 0
  (List.range nrep).map (fun k =>
    quadInv m ((cols.zip base).map (fun cb => cb.1.getD k 0 - cb.2)))

/-- squared covariance ratio `det(cov_i) / det(cov)` -/
def covRatio2 (ci c : List (List Rat)) : Rat := det ci.length ci / det c.length c

/-- `calculate_eta_shrinkage` on the variance scale: `1 − var(eta) / omega`. -/
def etaShrinkage (etas : List Rat) (omega : Rat) : Rat := 1 - var etas / omega

/-- `calculate_individual_shrinkage`: `var_i(eta) / omega`. -/
def indShrinkage (diag : Rat) (omega : Rat) : Rat := diag / omega

/-! ### labelled data: delta-method standard error (`internals/math.py se_delta_method`) -/

def lookupS {α : Type} : List (String × α) → String → Option α
  | [], _ => none
  | (k, v) :: xs, a => if k = a then some v else lookupS xs a

/-- A labelled covariance matrix (pandas DataFrame): column labels in column
    order, and the rows in index order, each cell carrying its column label. -/
structure LCov where
  cols : List String
  rows : List (String × List (String × Rat))
  deriving Repr, Inhabited

/-- `cov.loc[a, b]` (0 for a missing label; the driver refuses such requests). -/
def LCov.entry (c : LCov) (a b : String) : Rat :=
  match lookupS c.rows a with
  | some r => (lookupS r b).getD 0
  | none => 0

/-- `names = [y for x in cov.columns for y in names_unsorted if y == x]`:
    the expression's symbols in the order of the covariance columns. -/
def deltaNames (syms cols : List String) : List String :=
  cols.flatMap (fun x => syms.filter (fun y => y == x))

/-- `g @ C @ g.T` with gradient and matrix both indexed through `names`. -/
def quadForm (names : List String) (g : String → Rat) (C : String → String → Rat) : Rat :=
  sum (names.map (fun a => sum (names.map (fun b => g a * C a b * g b))))

/-- Squared delta-method standard error: `cov = cov[names].loc[names]`, gradient
    per name, quadratic form.  `g` = numeric gradient of the expression per symbol. -/
def deltaVar (syms : List String) (g : String → Rat) (c : LCov) : Rat :=
  quadForm (deltaNames syms c.cols) g c.entry

/-! ### labelled data: Cook scores as the code computes them -/

def insertStr (x : String) : List String → List String
  | [] => [x]
  | y :: ys => if x ≤ y then x :: y :: ys else y :: insertStr x ys

def sortStr (xs : List String) : List String := xs.foldr insertStr []

/-- `compute_cook_scores` on labelled inputs: `names = cdd_estimates.columns`,
    `base_estimate[names]`, `covariance_matrix.loc[names, names]`, then the
    positional computation. -/
def cook2Labelled (colLabels : List String) (cols : List (List Rat)) (base : List (String × Rat)) (c : LCov) :
    List (Option Rat) :=
  cook2 (colLabels.map (fun l => (lookupS base l).getD 0)) cols
    (colLabels.map (fun a => colLabels.map (fun b => c.entry a b)))

/-- The pre-repair variant (before f1a9548): pandas re-orders the deltas to sorted
    labels when the base estimate is labelled in another order, and the covariance
    values are used positionally. Kept for the witness theorem only. -/
def cook2Positional (colLabels : List String) (cols : List (List Rat)) (base : List (String × Rat))
    (m : List (List Rat)) : List (Option Rat) :=
  let order := if base.map (·.1) == colLabels then colLabels else sortStr colLabels
  let colOf := fun l => (lookupS (colLabels.zip cols) l).getD []
  cook2 (order.map (fun l => (lookupS base l).getD 0)) (order.map colOf) m

/-! ### labelled data: shrinkage -/

/-- `calculate_eta_shrinkage`: the variance estimates are labelled with the model's
    eta names and selected by the column labels of `individual_estimates`. -/
def etaShrinkageL (etaNames : List String) (omegas : List Rat) (ie : List (String × List Rat)) : List (String × Rat) :=
  ie.map (fun nc => (nc.1, etaShrinkage nc.2 ((lookupS (etaNames.zip omegas) nc.1).getD 0)))

/-- pre-repair variant (before 05239f5): omegas paired with the columns by position -/
def etaShrinkagePositional (omegas : List Rat) (ie : List (String × List Rat)) : List (String × Rat) :=
  (ie.zip omegas).map (fun p => (p.1.1, etaShrinkage p.1.2 p.2))

/-- `calculate_individual_shrinkage`, one individual: the diagonal of its matrix
    (labelled) divided by the omega of the eta with that label. -/
def indShrinkageL (etaNames : List String) (omegas : List Rat) (diag : List (String × Rat)) : List (String × Rat) :=
  diag.map (fun nd => (nd.1, indShrinkage nd.2 ((lookupS (etaNames.zip omegas) nd.1).getD 0)))

/-! ### missing values: replicates whose estimation failed (NaN)

  `calculate_results` builds one DataFrame of replicate estimates and takes every statistic of it
  with pandas (`mean`, `median`, `std`, `min`, `max`, `quantile`, `cov`), which all *skip* NaN
  cells: each statistic of a column is evaluated on the valid estimates of that column, and is
  NaN (`none`) when there are none (variance: fewer than two).  `create_distribution` is used
  for the parameter table and for the OFV table (whose columns are partially or entirely NaN). -/

/-- the valid (non-NaN) estimates of a column, in replicate order -/
def valid (xs : List (Option Rat)) : List Rat := xs.filterMap id

/-- a pandas reduction with `skipna`, defined on at least `k` valid values -/
def skipna (k : Nat) (f : List Rat → Rat) (xs : List (Option Rat)) : Option Rat :=
  if (valid xs).length < k then none else some (f (valid xs))

/-- one row of `create_distribution(df)`: min, the eight percentiles, median, max of the valid estimates -/
def distM (xs : List (Option Rat)) : List (Option Rat) := distQs.map (fun q => skipna 1 (quantile q) xs)

/-- pairwise-complete replicates of two columns (`DataFrame.cov`) -/
def completePairs : List (Option Rat) → List (Option Rat) → List (Rat × Rat)
  | some x :: xs, some y :: ys => (x, y) :: completePairs xs ys
  | _ :: xs, _ :: ys => completePairs xs ys
  | _, _ => []

/-- `DataFrame.cov` entry: covariance over the replicates where both parameters are valid -/
def covM (xs ys : List (Option Rat)) : Option Rat :=
  let ps := completePairs xs ys
  if ps.length < 2 then none else some (cov (ps.map (·.1)) (ps.map (·.2)))

structure ColStatsM where
  mean : Option Rat
  median : Option Rat
  bias : Option Rat
  var : Option Rat
  rse2 : Option Rat
  dist : List (Option Rat)
  deriving Repr

/-- one row of `parameter_statistics` + `parameter_distribution` (or of `ofv_statistics` +
    `ofv_distribution`) for a column with missing values -/
def colStatsM (xs : List (Option Rat)) (orig : Rat) : ColStatsM :=
  { mean := skipna 1 mean xs, median := skipna 1 median xs, bias := skipna 1 (fun v => mean v - orig) xs,
    var := skipna 2 var xs, rse2 := skipna 2 (fun v => var v / (mean v * mean v)) xs, dist := distM xs }

def covMatrixM (cols : List (List (Option Rat))) : List (List (Option Rat)) :=
  cols.map (fun a => cols.map (fun b => covM a b))

end Pharmpy.C19.Stats
