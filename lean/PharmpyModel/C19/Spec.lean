import PharmpyModel.C19.Model
/-
  C19 — the declarative side: what the property statement says, written
  without the loops of the implementation.  Theorems in
  PharmpyProofs/C19/Properties.lean relate the model (Model.lean) to these.
-/
namespace Pharmpy.C19

/-- The property's notion of an eligible entry of `models_all`:
    strictness fulfilled (criterion value not NaN) and, unless it is the base
    model, the test of the chosen mode passes —
    LRT against its parent at the significance level chosen by the sign of the
    degrees of freedom, or `reference − value > cutoff` (no test when there is
    no cut-off or no usable reference). -/
def Eligible (cfg : Cfg) (all : List Cand) (i : Nat) (c : Cand) : Prop :=
  ∃ v, c.rv = .num v ∧
    (i = 0 ∨
     (cfg.lrt = true ∧
        lrtTest cfg.isf (all.getD c.parent default).npar c.npar (all.getD c.parent default).ofv c.ofv
          (chooseAlpha cfg.cutoff (lrtDf (all.getD c.parent default).npar c.npar)) = true) ∨
     (cfg.lrt = false ∧ ∀ co r, cfg.cutoff = .one co → refValue all = .num r → co < r - (v + c.pen)))

/-- Is a row's criterion value strictly better (smaller) than `x`? -/
def Row.better (x : Rat) (r : Row) : Bool :=
  match r.rv with
  | .num w => decide (w < x)
  | .nan => false

/-- Plain boolean denotation of a strictness expression (docs/strictness.rst):
    names, ∀-comparisons of the numeric names, `and`, `or`, `not`. -/
def denote (r : Res) : SExpr → Bool
  | .b a => battr r a
  | .cmp a op c => cmpAll op (narr r a) c
  | .rcmp c op a => cmpAll op.flip (narr r a) c
  | .and x y => denote r x && denote r y
  | .or x y => denote r x || denote r y
  | .not x => !denote r x

/-- First index holding the minimum of the non-NaN values. -/
def IsNanArgmin (xs : List Val) (i : Nat) : Prop :=
  ∃ v, xs[i]? = some (Val.num v) ∧ (∀ (j : Nat) (w : Rat), xs[j]? = some (Val.num w) → v ≤ w) ∧
    (∀ (j : Nat) (w : Rat), j < i → xs[j]? = some (Val.num w) → v < w)

/-- A result used by the witnesses below: all fine, one RSE per class. -/
def witnessRes : Res :=
  { ofv := .num 0, minSucc := true, cause := "", sigdigs := .num 5, warnings := [],
    rse := some [(.theta, .num (1/10)), (.omega, .num (1/10)), (.sigma, .num (1/10))],
    grd := [(.theta, .num 1), (.omega, .nan), (.sigma, .num 1)], near := [] }

/-- Documented meaning of `final_zero_gradient_<class>`: some gradient of the class is zero or NaN. -/
def fzgDoc (r : Res) (k : PClass) : Bool := (ofClass k r.grd).any (fun g => isZero g || g.isNan)

end Pharmpy.C19
