import PharmpyModel.Core.Codec
import PharmpyModel.C10.Model
import PharmpyModel.C10.Unused
import PharmpyModel.C10.DepGraph
open Pharmpy Pharmpy.C10

def errS : Err → Sexp
  | .odeNotSupported => .list [.atom "err", .atom "ValueError"]
  | .keyError => .list [.atom "err", .atom "KeyError"]
  | .indexError => .list [.atom "err", .atom "IndexError"]

def bad : Sexp := .list [.atom "err", .atom "bad-op"]


def param? : Sexp → Option Param
  | .list [.atom n, b] => do some ⟨n, ← b.asBool?⟩
  | _ => none

def symLists? (x : Sexp) : Option (List (List Sym)) := do
  let xs ← x.asList?
  xs.mapM symList?

def dist? : Sexp → Option Dist
  | .list [.atom "n", .atom n, v] => do some (.normal n (← symList? v))
  | .list [.atom "j", ns, m] => do
    let rows ← m.asList?
    some (.joint (← symList? ns) (← rows.mapM symLists?))
  | _ => none

def distS : Dist → Sexp
  | .normal n v => .list [.atom "n", .atom n, Sexp.ofStrs v]
  | .joint ns m => .list [.atom "j", Sexp.ofStrs ns, .list (m.map (fun r => .list (r.map Sexp.ofStrs)))]

def handle (req : Sexp) : Sexp :=
  match req with
  | .list [.atom "full", ss, e] =>
    match stmts? ss, Expr.ofSexp? e with
    | some ss, some e => match fullExpression ss e with
      | .ok r => r.toSexp
      | .error k => errS k
    | _, _ => bad
  | .list [.atom "deps", ss, .atom x] =>
    match stmts? ss with
    | some ss => match dependencies ss x with
      | .ok r => Sexp.ofStrs (canonSet r)
      | .error k => errS k
    | _ => bad
  | .list [.atom "depsat", ss, i] =>
    match stmts? ss, i.asNat? with
    | some ss, some i => match dependenciesAt ss i with
      | .ok r => Sexp.ofStrs (canonSet r)
      | .error k => errS k
    | _, _ => bad
  | .list [.atom "depsbfs", ss, i] =>
    match stmts? ss, i.asNat? with
    | some ss, some i => Sexp.ofStrs (canonSet (dependenciesBfsAt ss i))
    | _, _ => bad
  | .list [.atom "direct", ss, i] =>
    match stmts? ss, i.asNat? with
    | some ss, some i => Sexp.ofNats (directDependencies ss i)
    | _, _ => bad
  | .list [.atom "findidx", ss, .atom x] =>
    match stmts? ss with
    | some ss => match findAssignmentIndex ss x with
      | some i => Sexp.ofNat i
      | none => .atom "none"
    | _ => bad
  | .list [.atom "reassign", ss, .atom x, e] =>
    match stmts? ss, Expr.ofSexp? e with
    | some ss, some e => .list ((reassign ss x e).map Stmt.toSexp)
    | _, _ => bad
  | .list [.atom "subs", ss, .atom x, t] =>
    match stmts? ss, Expr.ofSexp? t with
    | some ss, some t => .list ((substStmts x t ss).map Stmt.toSexp)
    | _, _ => bad
  | .list [.atom "rmdefs", ss, syms, i] =>
    match stmts? ss, symList? syms, i.asNat? with
    | some ss, some syms, some i =>
      let mask := removeMask ss syms i
      let kept := (List.range ss.length).filter (fun k => mask.getD k true)
      .list [Sexp.ofNats kept, Sexp.ofBool (maskSafe ss mask)]
    | _, _, _ => bad
  | .list [.atom "masksafe", ss, mask] =>
    match stmts? ss, mask.asList? with
    | some ss, some m => match m.mapM Sexp.asBool? with
      | some m => Sexp.ofBool (maskSafe ss m)
      | none => bad
    | _, _ => bad
  | .list [.atom "rename", ss, .atom x, .atom z] =>
    match stmts? ss with
    | some ss => .list ((renameStmts x z ss).map Stmt.toSexp)
    | _ => bad
  | .list [.atom "mgraph", ss] =>
    match stmts? ss with
    | some ss => .list ((depGraph ss).map (fun p => .list [.atom p.1, Sexp.ofStrs (canonSet p.2)]))
    | _ => bad
  | .list [.atom "mreach", ss, .atom x] =>
    match stmts? ss with
    | some ss =>
      let G := depGraph ss
      match G.lookup x with
      | none => errS .keyError
      | some _ =>
        let S := reachFrom G x
        .list [Sexp.ofStrs (canonSet S), Sexp.ofBool (closedUnder G S && S.contains x)]
    | _ => bad
  | .list [.atom "unused", syms, ps, ds] =>
    match symList? syms, ps.asList?, ds.asList? with
    | some syms, some ps, some ds =>
      match ps.mapM param?, ds.mapM dist? with
      | some ps, some ds =>
        .list [.list ((newDists syms ds).map distS), Sexp.ofStrs ((newParams syms ps ds).map (·.name)),
               Sexp.ofStrs ((newParamsSubtract syms ps ds).map (·.name))]
      | _, _ => bad
    | _, _, _ => bad
  | _ => bad

def main : IO Unit := runDriver (fun (_ : Unit) r => ((), handle r)) ()
