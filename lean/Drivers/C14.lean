import PharmpyModel.Core.Sexp
import PharmpyModel.C14.Model
import PharmpyModel.C14.Admid
import PharmpyModel.C14.Baseline
open Pharmpy Pharmpy.C14

/-
  Line protocol of the C14 driver.
    request  (op cfg rows)
      cfg  = (hasDose hasEvid hasSs hasMdv hasAddl)            each 0/1
      rows = ((id time amt evid ss addl ii mdv) ...)           rationals as n or n/d
    request  (admid|cmt acfg erows)   acfg = (hasCmt hasAdm doseCmt central centralDosing other|none ((cmt admid) ...)),
                                      erows = ((id evid cmt adm) ...)
    requests (base rows) (covbase (j..) rows) (ids rows) (tv (j..) rows) (nobscount rows)
             rows = ((id cell ...) ...), cell = rational or nan; nobscount: rows = ((id dv) ...) of the observation records
    ops: doseid doseidloop walk regular notie tad expand mdv evid obs doses nobs nobsper
-/

def bad : Sexp := .list [.atom "err", .atom "bad-op"]

def rat? (s : String) : Option Rat :=
  match s.splitOn "/" with
  | [n] => n.toInt?.map (fun k => (k : Rat))
  | [n, d] => match n.toInt?, d.toNat? with
    | some k, some m => if m == 0 then none else some (mkRat k m)
    | _, _ => none
  | _ => none

def ratS (q : Rat) : Sexp :=
  if q.den == 1 then .atom (toString q.num) else .atom (toString q.num ++ "/" ++ toString q.den)

def bool01? : Sexp → Option Bool
  | .atom "0" => some false
  | .atom "1" => some true
  | _ => none

def cfg? : Sexp → Option Cfg
  | .list [a, b, c, d, e] => do
    some ⟨← bool01? a, ← bool01? b, ← bool01? c, ← bool01? d, ← bool01? e⟩
  | _ => none

def row? (lab : Nat) : Sexp → Option Rec
  | .list [.atom i, .atom t, .atom a, .atom ev, .atom ss, .atom ad, .atom ii, .atom mdv] => do
    some { lab := lab, id := ← i.toInt?, time := ← rat? t, amt := ← rat? a, evid := ← ev.toNat?,
           ss := ← ss.toNat?, addl := ← ad.toNat?, ii := ← rat? ii, mdv := ← mdv.toNat?,
           expanded := false }
  | _ => none

def rows? (x : Sexp) : Option (List Rec) := do
  let xs ← x.asList?
  (xs.zipIdx).mapM (fun p => row? p.2 p.1)

def ints (xs : List Int) : Sexp := .list (xs.map Sexp.ofInt)

def optNat? : Sexp → Option (Option Nat)
  | .atom "none" => some none
  | .atom s => s.toNat?.map some
  | _ => none

def pair? : Sexp → Option (Nat × Nat)
  | .list [.atom a, .atom b] => do some (← a.toNat?, ← b.toNat?)
  | _ => none

/-- (hasCmt hasAdm doseCmt central centralDosing other ((k v) ...)) -/
def acfg? : Sexp → Option ACfg
  | .list [a, b, .atom dc, .atom ce, cd, ot, .list rm] => do
    some ⟨← bool01? a, ← bool01? b, ← dc.toNat?, ← ce.toNat?, ← bool01? cd, ← optNat? ot, ← rm.mapM pair?⟩
  | _ => none

/-- (id evid cmt adm) -/
def erec? : Sexp → Option ERec
  | .list [.atom i, .atom e, .atom c, .atom a] => do
    some ⟨← i.toInt?, ← e.toNat?, ← c.toNat?, ← a.toNat?⟩
  | _ => none

def handleAdm (op : String) (c rs : Sexp) : Sexp :=
  match acfg? c, rs.asList?.bind (·.mapM erec?) with
  | some cfg, some ds =>
    if op == "admid" then Sexp.ofNats (getAdmid cfg ds) else Sexp.ofNats (getCmt cfg ds)
  | _, _ => bad

def cell? : Sexp → Option (Option Rat)
  | .atom "nan" => some none
  | .atom s => (rat? s).map some
  | _ => none

def cellS : Option Rat → Sexp
  | none => .atom "nan"
  | some q => ratS q

/-- (id cell ...) -/
def crec? (lab : Nat) : Sexp → Option CRec
  | .list (.atom i :: cs) => do some ⟨lab, ← i.toInt?, ← cs.mapM cell?⟩
  | _ => none

def crecs? (x : Sexp) : Option (List CRec) := do
  (← x.asList?).zipIdx.mapM (fun p => crec? p.2 p.1)

def nats? (x : Sexp) : Option (List Nat) := do (← x.asList?).mapM Sexp.asNat?

def handleCov (req : Sexp) : Option Sexp :=
  match req with
  | .list [.atom "base", rs] => do
    let ds ← crecs? rs
    some (.list ((baselines ds).map (fun r => .list (Sexp.ofNat r.lab :: r.cells.map cellS))))
  | .list [.atom "covbase", cols, rs] => do
    let ds ← crecs? rs
    some (.list ((covBaselines (← nats? cols) ds).map (fun p => .list (Sexp.ofInt p.1 :: p.2.map cellS))))
  | .list [.atom "ids", rs] => do some (ints (getIds (← crecs? rs)))
  | .list [.atom "tv", cols, rs] => do some (Sexp.ofNats (listTimeVarying (← nats? cols) (← crecs? rs)))
  | .list [.atom "nobscount", rs] => do
    let ds ← crecs? rs
    let obs := ds.map (fun r => (r.id, cell 0 r))
    some (.list ((nObsPerCount obs).map (fun p => .list [Sexp.ofInt p.1, Sexp.ofNat p.2])))
  | _ => none

def isCovOp (req : Sexp) : Bool :=
  match req with
  | .list (.atom op :: _) => ["base", "covbase", "ids", "tv", "nobscount"].contains op
  | _ => false

def handle (req : Sexp) : Sexp :=
  if isCovOp req then (handleCov req).getD bad else
  match req with
  | .list [.atom "admid", c, rs] => handleAdm "admid" c rs
  | .list [.atom "cmt", c, rs] => handleAdm "cmt" c rs
  | .list [.atom op, c, rs] =>
    match cfg? c, rows? rs with
    | some cfg, some ds =>
      match op with
      | "doseid" => if cfg.hasDose then ints (getDoseid cfg ds) else .list [.atom "err", .atom "DatasetError"]
      | "doseidloop" => if cfg.hasDose then ints (getDoseidLoop cfg ds) else .list [.atom "err", .atom "DatasetError"]
      | "walk" => ints (walkDoseid cfg ds)
      | "regular" => Sexp.ofBool (decide (Regular cfg ds))
      | "notie" => Sexp.ofBool (decide (NoTie ds))
      | "tad" => if cfg.hasDose then
          .list ((addTad cfg ds).map (fun p => .list [Sexp.ofNat p.1.lab, ratS p.2]))
          else .list [.atom "err", .atom "DatasetError"]
      | "expand" => .list ((expand cfg ds).map
          (fun r => .list [Sexp.ofNat r.lab, ratS r.time, Sexp.ofBool r.expanded]))
      | "mdv" => Sexp.ofNats (getMdv cfg ds)
      | "evid" => Sexp.ofNats (getEvid cfg ds)
      | "obs" => Sexp.ofNats ((getObservations cfg ds).map (·.lab))
      | "doses" => if cfg.hasDose then Sexp.ofNats ((getDoses ds).map (·.lab))
          else .list [.atom "err", .atom "DatasetError"]
      | "nobs" => Sexp.ofNat (nObs cfg ds)
      | "nobsper" => .list ((nObsPerInd cfg ds).map (fun p => .list [Sexp.ofInt p.1, Sexp.ofNat p.2]))
      | _ => bad
    | _, _ => bad
  | _ => bad

def main : IO Unit := runDriver (fun (_ : Unit) r => ((), handle r)) ()
