import PharmpyModel.Core.Sexp
import PharmpyModel.C13.Reader
import PharmpyModel.C13.ModelLevel
import PharmpyModel.C13.History
import PharmpyModel.C13.WriteCode
open Pharmpy Pharmpy.C13

def bad : Sexp := .list [.atom "err", .atom "bad-op"]

def strS (s : Str) : Sexp := .atom (String.ofList s)

def decS (d : Dec) : Sexp :=
  .atom ((if d.neg then "-" else "") ++ toString d.mant ++ "e" ++ toString d.exp)

def cellS : Cell → Sexp
  | .num d => .list [.atom "f", decS d]
  | .nan => .atom "nan"
  | .str t => .list [.atom "s", strS t]
  | .none => .atom "none"

def rerrS : RErr → Sexp
  | .spaceTab => .list [.atom "err", .atom "DatasetError:space-tab"]
  | .blankLine => .list [.atom "err", .atom "DatasetError:blank-line"]
  | .emptyData => .list [.atom "err", .atom "EmptyDataError"]
  | .notUnique => .list [.atom "err", .atom "KeyError:not-unique"]
  | .item => .list [.atom "err", .atom "DatasetError:item"]
  | .idNonFinite => .list [.atom "err", .atom "IntCastingNaNError"]
  | .signedOnEmpty => .list [.atom "err", .atom "AttributeError:query"]
  | .bothFilters => .list [.atom "err", .atom "ValueError:both"]
  | .outside => .list [.atom "err", .atom "outside"]

def op? : String → Option Op
  | "seq" => some .seq | "sne" => some .sne | "eq" => some .eq | "ne" => some .ne
  | "lt" => some .lt | "gt" => some .gt | "le" => some .le | "ge" => some .ge
  | _ => none

def filt? : Sexp → Option Filt
  | .list [.atom c, .atom o, .atom v] => do some ⟨c.toList, ← op? o, v.toList⟩
  | _ => none

def strs? (x : Sexp) : Option (List Str) := do
  let xs ← x.asList?
  xs.mapM (fun a => a.asAtom?.map String.toList)

def inopt? : Sexp → Option InOpt
  | .list [.atom k] => some ⟨k.toList, none⟩
  | .list [.atom k, .atom v] => some ⟨k.toList, some v.toList⟩
  | _ => none

def filtS (f : Filt) : Sexp :=
  let o := match f.op with
    | .seq => "seq" | .sne => "sne" | .eq => "eq" | .ne => "ne"
    | .lt => "lt" | .gt => "gt" | .le => "le" | .ge => "ge"
  .list [strS f.col, .atom o, strS f.val]

def pair? : Sexp → Option (Str × Str)
  | .list [.atom a, .atom b] => some (a.toList, b.toList)
  | _ => none

def frame? : Sexp → Option Frame
  | .list [cols, rows] => do
    let c ← strs? cols
    let r ← rows.asList?.bind (·.mapM strs?)
    some ⟨c, r⟩
  | _ => none

def mstate? : Sexp → Option MState
  | .list [fr, .list [], .atom name] => do some ⟨← frame? fr, none, name.toList⟩
  | .list [fr, .list [.atom p], .atom name] => do some ⟨← frame? fr, some p.toList, name.toList⟩
  | _ => none

def fs? (x : Sexp) : Option FS := do
  let xs ← x.asList?
  xs.mapM pair?

def target? : Sexp → Option Target
  | .atom "dir" => some .dir
  | .list [.atom "file", .atom p] => some (.file p.toList)
  | _ => none

def hop? : Sexp → Option HOp
  | .list [.atom "write", t, f] => do some (.write (← target? t) (← f.asBool?))
  | .list [.atom "setdata", fr, k] => do some (.setData (← frame? fr) (← k.asBool?))
  | .list [.atom "writemodel", .atom p, f] => do some (.writeModel p.toList (← f.asBool?))
  | _ => none

def frameS (f : Frame) : Sexp := .list [.list (f.cols.map strS), .list (f.rows.map (fun r => .list (r.map strS)))]

def stateS (s : FS × MState) : Sexp :=
  .list [.list (s.1.map (fun (p, c) => .list [strS p, strS c])),
         .list [frameS s.2.dataset, (match s.2.path with | some p => .list [strS p] | none => .list []), strS s.2.name]]

def handle (req : Sexp) : Sexp :=
  match req with
  | .list [.atom "hstep", fs, st, op] =>
    match fs? fs, mstate? st, hop? op with
    | some fs, some st, some op =>
      let failed : Bool := match op with
        | .write t force => (match writeCsv fs st t force with | .ok _ => false | .error _ => true)
        | .writeModel p force => (match writeModel fs st p force with | .ok _ => false | .error _ => true)
        | .setData _ _ => false
      .list [.atom (if failed then "FileExistsError" else "ok"), stateS (hstep (fs, st) op)]
    | _, _, _ => bad
  | .list [.atom "ignchar", .atom label] =>
    match ignoreCharFromHeader label.toList with
    | some c => .list [.atom "ok", strS [c]]
    | none => .list [.atom "err", .atom "IndexError"]
  | .list [.atom "genignore", fr] =>
    match frame? fr with
    | some f =>
      (match generatedIgnore f with
       | some c => .list [.atom "ok", strS [c], Sexp.ofBool (isComment c (headerLine f))]
       | none => .list [.atom "err", .atom "IndexError"])
    | none => bad
  | .list [.atom "render", fr] =>
    match frame? fr with
    | some f => strS (renderCsv f)
    | none => bad
  | .list [.atom "mread", .atom text, .atom ic, opts, .atom null, .atom missing, mode, filters] =>
    match ic.toList, opts.asList?.bind (·.mapM inopt?), mode.asNat?, filters.asList?.bind (·.mapM filt?) with
    | [c], some opts, some mode, some fs =>
      (match readModelDataset opts text.toList c null.toList missing.toList mode fs with
       | .error e => rerrS e
       | .ok m => .list [.atom "ok", Sexp.ofBool m.res.idInt, .list (m.names.map strS),
                         .list (m.drop.map Sexp.ofBool),
                         .list (m.res.rows.map (fun row => .list (row.map cellS)))])
    | _, _, _, _ => bad
  | .list [.atom "colinfo", opts] =>
    match opts.asList?.bind (·.mapM inopt?) with
    | some opts =>
      (match parseColumnInfo opts 1 with
       | none => .list [.atom "err", .atom "DatasetError:item"]
       | some c => .list [.atom "ok", .list (c.names.map strS), .list (c.drop.map Sexp.ofBool),
                          .list (c.repl.map (fun (r, s) => .list [strS r, strS s]))])
    | none => bad
  | .list [.atom "replsyn", repl, filters] =>
    match repl.asList?.bind (·.mapM pair?), filters.asList?.bind (·.mapM filt?) with
    | some repl, some fs => .list ((replaceSynonyms repl fs).map filtS)
    | _, _ => bad
  | .list [.atom "read", .atom text, .atom ic, names, drops, .atom null, .atom missing, mode, filters] =>
    match ic.toList, strs? names, drops.asList?.bind (·.mapM Sexp.asBool?), mode.asNat?,
          filters.asList?.bind (·.mapM filt?) with
    | [c], some names, some drops, some mode, some fs =>
      (match readDataset text.toList c names drops null.toList missing.toList mode fs with
       | .error e => rerrS e
       | .ok r => .list [.atom "ok", Sexp.ofBool r.idInt, .list (r.rows.map (fun row => .list (row.map cellS)))])
    | _, _, _, _, _ => bad
  | .list [.atom "split", .atom line] =>
    let l := line.toList
    .list [.list ((lineItems l).map strS), .list ((specItems l).map strS),
           Sexp.ofBool (noSpTab l), Sexp.ofBool (edgeOk l)]
  | .list [.atom "num", .atom s] =>
    let m : Sexp := match convertFortran s.toList with
      | .ok d => .list [.atom "ok", decS d]
      | .error _ => .list [.atom "err"]
    let sp : Sexp := match specNumber s.toList with
      | some d => .list [.atom "ok", decS d]
      | none => .list [.atom "err"]
    .list [m, sp]
  | .list [.atom "specrow", n, .atom line] =>
    match n.asNat? with
    | some n => .list ((specRow n (specItems line.toList)).map strS)
    | none => bad
  | _ => bad

def main : IO Unit := runDriver (fun (_ : Unit) r => ((), handle r)) ()
