import PharmpyModel.Core.Codec
import PharmpyModel.C02.Lcs
import PharmpyModel.C02.Advan
import PharmpyModel.C02.PkConv
import PharmpyModel.C02.Record
import PharmpyModel.C02.Dose
import PharmpyModel.C02.ModelRecord
import PharmpyModel.C02.RateName
open Pharmpy Pharmpy.C02

def bad : Sexp := .list [.atom "err", .atom "bad-op"]

def ints? (x : Sexp) : Option (List Int) := do
  let xs ← x.asList?
  xs.mapM Sexp.asInt?

def nats? (x : Sexp) : Option (List Nat) := do
  let xs ← x.asList?
  xs.mapM Sexp.asNat?

def pairs? (x : Sexp) : Option (List (Nat × Nat)) := do
  let xs ← x.asList?
  xs.mapM (fun p => match p with
    | .list [a, b] => do some ((← a.asNat?), (← b.asNat?))
    | _ => none)

def optNat? : Sexp → Option (Option Nat)
  | .atom "none" => some none
  | x => (x.asNat?).map some

def optStr : Sexp → Option (Option String)
  | .atom "none" => some none
  | .atom s => some (some s)
  | _ => none

def graph? : Sexp → Option CGraph
  | .list [n, se, pe, z, d, i, sp, c] => do
    some { n := ← n.asNat?, succE := ← pairs? se, predE := ← pairs? pe, zeroRate := ← pairs? z,
           doses := ← nats? d, inputs := ← nats? i, special := ← nats? sp, centralByName := ← optNat? c }
  | _ => none

def namedMap? (x : Sexp) : Option (List (String × Nat)) := do
  let xs ← x.asList?
  xs.mapM (fun p => match p with
    | .list [.atom a, b] => do some (a, (← b.asNat?))
    | _ => none)

def idx? (x : Sexp) : Option (List Idx) := do
  let xs ← x.asList?
  xs.mapM (fun p => match p with
    | .list [a, b, c, d] => do some ((← a.asNat?), (← b.asNat?), (← c.asNat?), (← d.asNat?))
    | _ => none)

def idxS (ix : List Idx) : Sexp :=
  .list (ix.map (fun e => .list [Sexp.ofNat e.1, Sexp.ofNat e.2.1, Sexp.ofNat e.2.2.1, Sexp.ofNat e.2.2.2]))

def intPairs? (x : Sexp) : Option (List (Int × Nat)) := do
  let xs ← x.asList?
  xs.mapM (fun p => match p with
    | .list [a, b] => do some ((← a.asInt?), (← b.asNat?))
    | _ => none)

/-- generated node `k` of statement `s`: a label no old node carries. -/
def genNodes (lens : List (Int × Nat)) (s : Int) : List Int :=
  (List.range ((lens.lookup s).getD 1)).map (fun (k : Nat) => (1000000 : Int) + s * 100 + (k : Int))

def groupS (g : Group Int) : Sexp :=
  .list [Sexp.ofInt g.op, .list (g.stmts.map Sexp.ofInt), Sexp.ofNat g.ni, Sexp.ofNat g.nj]

def opsS (d : List (Op Int)) : Sexp := .list (d.map (fun o => .list [Sexp.ofInt o.1, Sexp.ofInt o.2]))

def optBoolS : Option Bool → Sexp
  | none => .list [.atom "err", .atom "ValueError"]
  | some b => Sexp.ofBool b

def attr? : Sexp → Option Attr
  | .list [.atom "neutral"] => some .neutral
  | .list [.atom "sym", .atom s] => some (.sym s)
  | .list [.atom "other", .atom s] => some (.other s)
  | _ => none

def attrS : Attr → Sexp
  | .neutral => .list [.atom "neutral"]
  | .sym s => .list [.atom "sym", .atom s]
  | .other s => .list [.atom "other", .atom s]

def pk? (x : Sexp) : Option Pk := do
  let xs ← x.asList?
  xs.mapM (fun p => match p with
    | .list [.atom a, .atom b] => some (a, b)
    | _ => none)

def pkS (pk : Pk) : Sexp := .list (pk.map (fun p => .list [.atom p.1, .atom p.2]))

def rateOutS : Option Pharmpy.C01.Rates.RateOut → Sexp
  | none => .atom "not-a-rate"
  | some (.flow f t) => .list [.atom "flow", Sexp.ofNat f, Sexp.ofNat t]
  | some .ambiguous => .atom "ambiguous"
  | some .skip => .atom "skip"
  | some .cannot => .atom "cannot"

def handle (req : Sexp) : Sexp :=
  match req with
  | .list [.atom "ratename", n, sn, dn] =>
    match n.asNat?, sn.asNat?, dn.asNat? with
    | some n, some sn, some dn =>
      let nm := RateName.rateParam n sn dn
      .list [.atom nm, Sexp.ofStrs (RateName.synonyms n sn dn), rateOutS (Pharmpy.C01.Rates.rateOf n nm)]
    | _, _, _ => bad
  | .list [.atom "modelrec", .atom advan, solver, names, map, mrec] =>
    match solver.asBool?, symList? names, namedMap? map with
    | some sv, some ns, some mp =>
      let old : Option (List String) := match mrec with
        | .atom "none" => none
        | x => symList? x
      let r := updateModelRecord advan sv ns ⟨mp, old⟩
      .list [.list (r.map.map (fun p => .list [.atom p.1, Sexp.ofNat p.2])),
             (match r.modelRec with | some l => Sexp.ofStrs l | none => .atom "none")]
    | _, _, _ => bad
  | .list [.atom "updatebio", n, bio, pk] =>
    match n.asNat?, attr? bio, pk? pk with
    | some n, some bio, some pk =>
      let c : DComp := ⟨n, bio, .neutral⟩
      let r := updateBioOne c pk
      .list [attrS r.1.bio, pkS r.2, Sexp.ofBool (decide (BioConsistent r.1 r.2))]
    | _, _, _ => bad
  | .list [.atom "updatelag", old, lag, pk] =>
    match attr? old, attr? lag, pk? pk with
    | some old, some lag, some pk =>
      let c : DComp := ⟨1, .neutral, lag⟩
      let r := updateLag old c pk
      .list [attrS r.1.lag, pkS r.2, Sexp.ofBool (decide (LagConsistent r.1 r.2))]
    | _, _, _ => bad
  | .list [.atom "consistent", n, bio, lag, pk] =>
    match n.asNat?, attr? bio, attr? lag, pk? pk with
    | some n, some bio, some lag, some pk =>
      let c : DComp := ⟨n, bio, lag⟩
      .list [Sexp.ofBool (decide (BioConsistent c pk)), Sexp.ofBool (decide (LagConsistent c pk))]
    | _, _, _, _ => bad
  | .list [.atom "diff", o, n] =>
    match ints? o, ints? n with
    | some o, some n => opsS (diff o n)
    | _, _ => bad
  | .list [.atom "matrix", o, n] =>
    match ints? o, ints? n with
    | some o, some n => .list ((matrixPy o n).map Sexp.ofNats)
    | _, _ => bad
  | .list [.atom "groups", last, ix, o, n] =>
    match last.asNat?, idx? ix, ints? o, ints? n with
    | some last, some ix, some o, some n =>
      match indexDiff last ix none (diff o n) with
      | some gs => .list (gs.map groupS)
      | none => .list [.atom "err", .atom "generator-fails"]
    | _, _, _, _ => bad
  | .list [.atom "update", ch, ix, fb, o, n, lens] =>
    match ints? ch, idx? ix, fb.asNat?, ints? o, ints? n, intPairs? lens with
    | some ch, some ix, some fb, some o, some n, some lens =>
      match updateStatements (genNodes lens) ch ix fb (diff o n) with
      | some (c, i) => .list [.list (c.map Sexp.ofInt), idxS i]
      | none => .list [.atom "err", .atom "generator-fails"]
    | _, _, _, _, _, _ => bad
  | .list [.atom "reserved", ss, e] =>
    match stmts? ss, Expr.ofSexp? e with
    | some ss, some e => Sexp.ofBool (usesReserved ss e)
    | _, _ => bad
  | .list [.atom "advan", g, nonlin, haszo, res] =>
    match graph? g, nonlin.asBool?, haszo.asBool?, pairs? res with
    | some g, some nl, some hz, some res =>
      let r := fun d c => res.contains (d, c)
      let ord := Sexp.ofNats g.order
      let ms := .list [optBoolS (some (matchAdvan1 g)), optBoolS (matchAdvan2 g r), optBoolS (matchAdvan3 g),
                       optBoolS (matchAdvan4 g r), optBoolS (matchAdvan11 g), optBoolS (matchAdvan12 g r)]
      let cen := match g.central with | some c => Sexp.ofNat c | none => .atom "none"
      let dos := match g.dosingComps with | some d => Sexp.ofNats d | none => .atom "none"
      match chooseAdvan g nl hz r with
      | some a => .list [.atom a.name, ord, ms, cen, dos]
      | none => .list [.list [.atom "err", .atom "ValueError"], ord, ms, cen, dos]
    | _, _, _, _ => bad
  | .list [.atom "trans", old, .atom advan, nonlin, quot] =>
    match optStr old, nonlin.asBool?, quot.asBool? with
    | some o, some nl, some q => match chooseTrans o advan nl q with
      | some t => .atom t
      | none => .atom "none"
    | _, _, _ => bad
  | .list [.atom "rename", .atom f, .atom t, .atom tr] =>
    .list ((renameFor f t tr).map (fun p => .list [.atom p.1, .atom p.2]))
  | .list [.atom "remap", o, n] =>
    match namedMap? o, namedMap? n with
    | some o, some n => .list ((createCompartmentRemap o n).map (fun p => .list [Sexp.ofNat p.1, Sexp.ofNat p.2]))
    | _, _ => bad
  | .list [.atom "newmap", names] =>
    match symList? names with
    | some ns => .list ((newCompartmentalMap ns).map (fun p => .list [.atom p.1, Sexp.ofNat p.2]))
    | none => bad
  | _ => bad

def main : IO Unit := runDriver (fun (_ : Unit) r => ((), handle r)) ()
