import PharmpyModel.C03.Wire
import PharmpyModel.C03.CodeRecord
import PharmpyModel.C03.OptionRecord
open Pharmpy Pharmpy.C03

def bad : Sexp := .list [.atom "err", .atom "bad-op"]

def optName : Option String → Sexp
  | some n => .atom n
  | none => .atom "none"

def leavesS (ls : List (String × Str)) : Sexp :=
  .list (ls.map (fun (k, t) => .list [.atom k, sStr t]))

def natOpt? : Sexp → Option (Option Nat)
  | .atom "none" => some none
  | x => x.asNat?.map some

/-! plumbing for the code-record ops (same wire shapes as the C02 driver) -/
def ints? (x : Sexp) : Option (List Int) := do
  let xs ← x.asList?
  xs.mapM Sexp.asInt?

def idx? (x : Sexp) : Option (List C02.Idx) := do
  let xs ← x.asList?
  xs.mapM (fun p => match p with
    | .list [a, b, c, d] => do some ((← a.asNat?), (← b.asNat?), (← c.asNat?), (← d.asNat?))
    | _ => none)

def idxS (ix : List C02.Idx) : Sexp :=
  .list (ix.map (fun e => .list [Sexp.ofNat e.1, Sexp.ofNat e.2.1, Sexp.ofNat e.2.2.1, Sexp.ofNat e.2.2.2]))

def intPairs? (x : Sexp) : Option (List (Int × Nat)) := do
  let xs ← x.asList?
  xs.mapM (fun p => match p with
    | .list [a, b] => do some ((← a.asInt?), (← b.asNat?))
    | _ => none)

/-- generated node `k` of statement `s`: a label no old node carries. -/
def genNodes (lens : List (Int × Nat)) (s : Int) : List Int :=
  (List.range ((lens.lookup s).getD 1)).map (fun (k : Nat) => (1000000 : Int) + s * 100 + (k : Int))

def handle (req : Sexp) : Sexp :=
  match req with
  | .list [.atom "split", t] =>
    match decStr? t with
    | some t => .list ((splitRecords t).map sStr)
    | none => bad
  | .list [.atom "front", t] =>
    -- whole front end: (ok first ((raw canon content) …)) | (err ModelSyntaxError)
    match decStr? t with
    | some t =>
      match parseFront t with
      | some (first, rs) =>
        .list [.atom "ok", sStr first,
          .list (rs.map (fun (raw, canon, content) => .list [sStr raw, optName canon, sStr content]))]
      | none => .list [.atom "err", .atom "ModelSyntaxError"]
    | none => bad
  | .list [.atom "rawname", c] =>
    match decStr? c with
    | some c => match rawNameSplit c with
      | some (a, b) => .list [sStr a, sStr b]
      | none => .list [.atom "err", .atom "ModelSyntaxError"]
    | none => bad
  | .list [.atom "canon", r] =>
    match decStr? r with
    | some r => optName (canonicalName r)
    | none => bad
  | .list [.atom "tokign", s] =>
    match decStr? s with
    | some s => match tokenizeIgnored s with
      | .ok ts => leavesS (ts.map (fun t => (t.kind.name, t.text)))
      | .error e => errS e
    | none => bad
  | .list [.atom "withignored", s, tree] =>
    match decStr? s, node? tree with
    | some s, some tree =>
      let cov := Sexp.ofBool (coveringRoot s tree)
      match withIgnored s tree with
      | .ok n => .list [.atom "ok", cov, leavesS n.leaves, sStr n.str]
      | .error e => .list [.atom "err", cov, errS e]
    | _, _ => bad
  | .list [.atom "insert", rs, r, ati, active] =>
    match recs? rs, rec? r, natOpt? ati, active.asInt? with
    | some rs, some r, some ati, some active => recsS (insertRecord rs r ati active)
    | _, _, _, _ => bad
  | .list [.atom "recupdate", ch, ix, fb, o, n, lens] =>
    -- one update_statements call: (ok children index nonStmtOld nonStmtNew invOld invNew) | (err generator-fails invOld)
    match ints? ch, idx? ix, fb.asNat?, ints? o, ints? n, intPairs? lens with
    | some ch, some ix, some fb, some o, some n, some lens =>
      let invOld := Sexp.ofBool (recInvB ch ix o.length)
      match C02.updateStatements (genNodes lens) ch ix fb (C02.diff o n) with
      | some (c, i) =>
        .list [.atom "ok", .list (c.map Sexp.ofInt), idxS i, .list ((nonStmtNodes ch ix).map Sexp.ofInt),
               .list ((nonStmtNodes c i).map Sexp.ofInt), invOld, Sexp.ofBool (recInvB c i n.length)]
      | none => .list [.atom "err", .atom "generator-fails", invOld]
    | _, _, _, _, _, _ => bad
  | .list [.atom "appendoption", .list rules] =>
    -- OptionRecord.append_option_node on children given by their rules: (ok i j sepRule (uids…)) | (err IndexError)
    match rules.mapM (fun r => match r with | .atom a => some a | _ => none) with
    | some rs =>
      let cs : List Child := (rs.zip (List.range rs.length)).map (fun (r, i) => ⟨r, i⟩)
      match appendOptionArgs cs, appendOptionNode cs ⟨"option", 1000000⟩ with
      | some (i, j, sep), some out =>
        .list [.atom "ok", Sexp.ofNat i, Sexp.ofNat j, .atom sep.rule, .list (out.map (fun c => Sexp.ofNat c.uid)),
               Sexp.ofBool (commentsOk cs), Sexp.ofBool (commentsOk out)]
      | _, _ => .list [.atom "err", .atom "IndexError"]
    | none => bad
  | .list [.atom "getrecords", rs, name, pno] =>
    match recs? rs, decStr? name, pno.asInt? with
    | some rs, some name, some pno => recsS (getRecords rs (String.ofList name) pno)
    | _, _, _ => bad
  | .list [.atom "remove", rs, rm] =>
    match recs? rs, recs? rm with
    | some rs, some rm => recsS (removeRecords rs rm)
    | _, _ => bad
  | .list [.atom "replace", rs, old, new] =>
    match recs? rs, recs? old, recs? new with
    | some rs, some old, some new => recsS (replaceRecords rs old new)
    | _, _, _ => bad
  | .list [.atom "replaceall", rs, name, new] =>
    match recs? rs, decStr? name, recs? new with
    | some rs, some name, some new =>
      match replaceAll rs (String.ofList name) new with
      | some out => recsS out
      | none => .list [.atom "err", .atom "ValueError"]
    | _, _, _ => bad
  | _ => bad

def main : IO Unit := runDriver (fun (_ : Unit) r => ((), handle r)) ()
