import PharmpyModel.C03.Wire
open Pharmpy Pharmpy.C03

def bad : Sexp := .list [.atom "err", .atom "bad-op"]

def optName : Option String → Sexp
  | some n => .atom n
  | none => .atom "none"

def leavesS (ls : List (String × Str)) : Sexp :=
  .list (ls.map (fun (k, t) => .list [.atom k, sStr t]))

def natOpt? : Sexp → Option (Option Nat)
  | .atom "none" => some none
  | x => x.asNat?.map some

def handle (req : Sexp) : Sexp :=
  match req with
  | .list [.atom "split", t] =>
    match decStr? t with
    | some t => .list ((splitRecords t).map sStr)
    | none => bad
  | .list [.atom "front", t] =>
    -- whole front end: (ok first ((raw canon content) …)) | (err ModelSyntaxError)
    match decStr? t with
    | some t =>
      match parseFront t with
      | some (first, rs) =>
        .list [.atom "ok", sStr first,
          .list (rs.map (fun (raw, canon, content) => .list [sStr raw, optName canon, sStr content]))]
      | none => .list [.atom "err", .atom "ModelSyntaxError"]
    | none => bad
  | .list [.atom "rawname", c] =>
    match decStr? c with
    | some c => match rawNameSplit c with
      | some (a, b) => .list [sStr a, sStr b]
      | none => .list [.atom "err", .atom "ModelSyntaxError"]
    | none => bad
  | .list [.atom "canon", r] =>
    match decStr? r with
    | some r => optName (canonicalName r)
    | none => bad
  | .list [.atom "tokign", s] =>
    match decStr? s with
    | some s => match tokenizeIgnored s with
      | .ok ts => leavesS (ts.map (fun t => (t.kind.name, t.text)))
      | .error e => errS e
    | none => bad
  | .list [.atom "withignored", s, tree] =>
    match decStr? s, node? tree with
    | some s, some tree =>
      let cov := Sexp.ofBool (coveringRoot s tree)
      match withIgnored s tree with
      | .ok n => .list [.atom "ok", cov, leavesS n.leaves, sStr n.str]
      | .error e => .list [.atom "err", cov, errS e]
    | _, _ => bad
  | .list [.atom "insert", rs, r, ati, active] =>
    match recs? rs, rec? r, natOpt? ati, active.asInt? with
    | some rs, some r, some ati, some active => recsS (insertRecord rs r ati active)
    | _, _, _, _ => bad
  | .list [.atom "getrecords", rs, name, pno] =>
    match recs? rs, decStr? name, pno.asInt? with
    | some rs, some name, some pno => recsS (getRecords rs (String.ofList name) pno)
    | _, _, _ => bad
  | .list [.atom "remove", rs, rm] =>
    match recs? rs, recs? rm with
    | some rs, some rm => recsS (removeRecords rs rm)
    | _, _ => bad
  | .list [.atom "replace", rs, old, new] =>
    match recs? rs, recs? old, recs? new with
    | some rs, some old, some new => recsS (replaceRecords rs old new)
    | _, _, _ => bad
  | .list [.atom "replaceall", rs, name, new] =>
    match recs? rs, decStr? name, recs? new with
    | some rs, some name, some new =>
      match replaceAll rs (String.ofList name) new with
      | some out => recsS out
      | none => .list [.atom "err", .atom "ValueError"]
    | _, _, _ => bad
  | _ => bad

def main : IO Unit := runDriver (fun (_ : Unit) r => ((), handle r)) ()
