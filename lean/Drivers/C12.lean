import PharmpyModel.Core.Sexp
import PharmpyModel.C12.Derivs
/-
  C12 driver.  Expressions/matrices travel as their serialised text (E = M = String,
  identity codec); a derivative tuple travels as the singleton list of its `str(..)`.

  Requests
    (todict KIND OBJ)        -> (ok "<json text>")             model `toDict`, rendered like json.dumps
    (roundtrip KIND JSON)    -> (ok "<json text>") | (err none) `toDict (fromDict JSON)`
    (rteq KIND OBJ)          -> true | false                   `fromDict (toDict OBJ) = some OBJ` (decidable kinds)
    (build OPS T)            -> (ok "<json text>")             builder op sequence -> CompartmentalSystem.to_dict
    (canon GRAPH T)          -> (ok "<json text>")             repaired (canonical) to_dict
    (encode DATASET MODEL)   -> ((row n) .. (text s) ..)       ModelHash pre-image
    (canonderivs ((NAME ..) ..)) -> (ok ((NAME ..) ..)) | (err IndexError)   EstimationStep._canonicalize_derivatives
    (leaf REPR)              -> (ok "<text>")                  the numeric leaf encoder of json.dumps on one float
    (infcreate AMOUNT ADMID OPT-RATE OPT-DURATION) -> (ok "<json text>") | (err ValueError)   Infusion.create(..).to_dict()
    (dosesubs DOSE ((FROM TO) ..)) -> (ok "<json text>") | (err none)   dose.subs(f).to_dict(); f = the table of
                                                            (serialised field, serialised field after Expr.subs), identity elsewhere
-/
open Pharmpy Pharmpy.C12

abbrev S := String

def idCodec : Codec S S :=
  { ser := id, de := some, serM := id, deM := some }

/-! ### json.dumps (default separators, ensure_ascii) -/

def hex4 (n : Nat) : String :=
  let d (k : Nat) : Char := "0123456789abcdef".toList.getD k '0'
  String.ofList [d (n / 4096 % 16), d (n / 256 % 16), d (n / 16 % 16), d (n % 16)]

def escChar (ch : Char) : String :=
  if ch == '"' then "\\\""
  else if ch == '\\' then "\\\\"
  else if ch == '\n' then "\\n"
  else if ch == '\r' then "\\r"
  else if ch == '\t' then "\\t"
  else if ch.toNat == 8 then "\\b"
  else if ch.toNat == 12 then "\\f"
  else if ch.toNat < 32 || ch.toNat > 126 then
    if ch.toNat > 65535 then
      let v := ch.toNat - 65536
      "\\u" ++ hex4 (55296 + v / 1024) ++ "\\u" ++ hex4 (56320 + v % 1024)
    else "\\u" ++ hex4 ch.toNat
  else ch.toString

def jstr (s : String) : String := "\"" ++ String.join (s.toList.map escChar) ++ "\""

def jflt (r : String) : String :=
  if r == "inf" then "Infinity" else if r == "-inf" then "-Infinity" else if r == "nan" then "NaN" else r

partial def render : Json → String
  | .null => "null"
  | .bool true => "true"
  | .bool false => "false"
  | .int n => toString n
  | .flt r => jflt r
  | .str s => jstr s
  | .arr xs => "[" ++ ", ".intercalate (xs.map render) ++ "]"
  | .obj kvs => "{" ++ ", ".intercalate (kvs.map (fun kv => jstr kv.1 ++ ": " ++ render kv.2)) ++ "}"

/-! ### wire decoding -/

partial def jsonOf? : Sexp → Option Json
  | .atom "null" => some .null
  | .atom "true" => some (.bool true)
  | .atom "false" => some (.bool false)
  | .list [.atom "i", n] => n.asInt?.map .int
  | .list [.atom "f", .atom r] => some (.flt r)
  | .list [.atom "s", .atom s] => some (.str s)
  | .list (.atom "a" :: xs) => (xs.mapM jsonOf?).map .arr
  | .list (.atom "o" :: kvs) =>
    (kvs.mapM (fun (kv : Sexp) => match kv with
      | Sexp.list [Sexp.atom k, v] => (jsonOf? v).map (fun j => (k, j))
      | _ => none)).map .obj
  | _ => none

def optS? : Sexp → Option (Option S)
  | .atom "none" => some none
  | .list [.atom "some", .atom s] => some (some s)
  | _ => none

def listOf? {α : Type} (f : Sexp → Option α) : Sexp → Option (List α)
  | .list xs => xs.mapM f
  | _ => none

def doseOf? : Sexp → Option (Dose S)
  | .list [.atom "bolus", .atom a, n] => do some (.bolus { amount := a, admid := ← n.asInt? })
  | .list [.atom "infusion", .atom a, n, r, d] => do
    some (.infusion { amount := a, admid := ← n.asInt?, rate := ← optS? r, duration := ← optS? d })
  | _ => none

def compOf? : Sexp → Option (Compartment S)
  | .list [.atom "comp", .atom name, .atom amount, doses, .atom input, .atom lag, .atom bio] => do
    some { name, amount, doses := ← listOf? doseOf? doses, input, lagTime := lag, bioavailability := bio }
  | _ => none

def nodeOf? : Sexp → Option (Node S)
  | .atom "output" => some .output
  | x => (compOf? x).map .comp

def graphOf? : Sexp → Option (Graph S) :=
  listOf? (fun (p : Sexp) => match p with
    | Sexp.list [n, adj] => do
      let n ← nodeOf? n
      let adj ← listOf? (fun (q : Sexp) => match q with
        | Sexp.list [v, Sexp.atom r] => do some (← nodeOf? v, r)
        | _ => none) adj
      some (n, adj)
    | _ => none)

def stmtOf? : Sexp → Option (Stmt S)
  | .list [.atom "assign", .atom s, .atom e] => some (.assign s e)
  | .list [.atom "ode", g, .atom t] => do some (.ode { g := ← graphOf? g, t })
  | _ => none

def boolOf? (x : Sexp) : Option Bool := x.asBool?

def paramOf? : Sexp → Option Parameter
  | .list [.atom "param", .atom name, init, lower, upper, fix] => do
    some { name, init := ← jsonOf? init, lower := ← jsonOf? lower, upper := ← jsonOf? upper, fix := ← boolOf? fix }
  | _ => none

def levelOf? : Sexp → Option VarLevel
  | .list [.atom "level", .atom name, r, g] => do some { name, reference := ← boolOf? r, group := ← optS? g }
  | _ => none

def distOf? : Sexp → Option (Dist S S)
  | .list [.atom "normal", .atom n, .atom l, .atom m, .atom v] => some (.normal n l m v)
  | .list [.atom "joint", ns, .atom l, .atom m, .atom v] => do
    some (.joint (← listOf? Sexp.asAtom? ns) l m v)
  | _ => none

def rvsOf? : Sexp → Option (RandomVariables S S)
  | .list [.atom "rvs", ds, eta, eps] => do
    some { dists := ← listOf? distOf? ds, etaLevels := ← listOf? levelOf? eta, epsLevels := ← listOf? levelOf? eps }
  | _ => none

def derivOf? : Sexp → Option (List String) := listOf? Sexp.asAtom?

def stepOf? : Sexp → Option (Step S)
  | .list [.atom "est", me, ia, pu, ev, mx, la, isa, ni, au, ke, ders, pr, re, ie, so, rt, at_, to] => do
    some (.est { method := ← jsonOf? me, interaction := ← jsonOf? ia, parameterUncertaintyMethod := ← jsonOf? pu,
                 evaluation := ← jsonOf? ev, maximumEvaluations := ← jsonOf? mx, laplace := ← jsonOf? la,
                 isample := ← jsonOf? isa, niter := ← jsonOf? ni, auto := ← jsonOf? au,
                 keepEveryNthIter := ← jsonOf? ke, derivatives := ← listOf? derivOf? ders,
                 predictions := ← jsonOf? pr, residuals := ← jsonOf? re, individualEtaSamples := ← jsonOf? ie,
                 solver := ← jsonOf? so, solverRtol := ← jsonOf? rt, solverAtol := ← jsonOf? at_,
                 toolOptions := ← jsonOf? to })
  | .list [.atom "sim", n, seed, so, rt, at_, to] => do
    some (.sim { n := ← jsonOf? n, seed := ← jsonOf? seed, solver := ← jsonOf? so, solverRtol := ← jsonOf? rt,
                 solverAtol := ← jsonOf? at_, toolOptions := ← jsonOf? to })
  | _ => none

def colOf? : Sexp → Option ColumnInfo
  | .list [.atom "col", name, type, scale, cont, cats, .atom unit, dt, drop, desc] => do
    some { name := ← jsonOf? name, type := ← jsonOf? type, scale := ← jsonOf? scale, continuous := ← jsonOf? cont,
           categories := ← jsonOf? cats, unit, datatype := ← jsonOf? dt, drop := ← jsonOf? drop,
           descriptor := ← jsonOf? desc }
  | _ => none

def diOf? : Sexp → Option DataInfo
  | .list [.atom "di", cols, path, sep, mdt] => do
    some { columns := ← listOf? colOf? cols, path := ← optS? path, separator := ← jsonOf? sep,
           missingDataToken := ← jsonOf? mdt }
  | _ => none

def pairOf? : Sexp → Option (S × S)
  | .list [.atom a, .atom b] => some (a, b)
  | _ => none

def ieOf? : Sexp → Option (Option IE)
  | .atom "none" => some none
  | .list [.atom "ie", idx, cols, rows] => do
    some (some { index := ← listOf? jsonOf? idx, columns := ← listOf? Sexp.asAtom? cols,
                 data := ← listOf? (listOf? jsonOf?) rows })
  | _ => none

def modelOf? : Sexp → Option (Model S S)
  | .list [.atom "model", .atom name, .atom description, ps, rvs, sts, steps, di, vt, dv, ot, ie] => do
    let dvj ← jsonOf? dv
    some { name, description, parameters := ← listOf? paramOf? ps, randomVariables := ← rvsOf? rvs,
           statements := ← listOf? stmtOf? sts, executionSteps := ← listOf? stepOf? steps, datainfo := ← diOf? di,
           valueType := ← jsonOf? vt, dependentVariables := ← dvj.asObj?,
           observationTransformation := ← listOf? pairOf? ot, initialIndividualEstimates := ← ieOf? ie }
  | _ => none

def datasetOf? : Sexp → Option (Dataset Nat)
  | .list [.atom "dataset", rows, .atom columns, .atom index, .atom dtypes] => do
    some { rows := ← listOf? Sexp.asNat? rows, columns, index, dtypes }
  | _ => none

/-! ### requests -/

def okText (j : Json) : Sexp := .list [.atom "ok", .atom (render j)]
def errNone : Sexp := .list [.atom "err", .atom "none"]
def bad : Sexp := .list [.atom "err", .atom "bad-op"]

def answer {α : Type} (x : Option α) (f : α → Sexp) : Sexp :=
  match x with
  | some a => f a
  | none => bad

def toDictOf (kind : String) (x : Sexp) : Sexp :=
  let c := idCodec
  match kind with
  | "dose" => answer (doseOf? x) (fun v => okText (v.toDict c))
  | "compartment" => answer (compOf? x) (fun v => okText (v.toDict c))
  | "statement" => answer (stmtOf? x) (fun v => okText (v.toDict c))
  | "statements" => answer (listOf? stmtOf? x) (fun v => okText (Statements.toDict c v))
  | "parameter" => answer (paramOf? x) (fun v => okText v.toDict)
  | "parameters" => answer (listOf? paramOf? x) (fun v => okText (Parameters.toDict v))
  | "level" => answer (levelOf? x) (fun v => okText v.toDict)
  | "dist" => answer (distOf? x) (fun v => okText (v.toDict c))
  | "rvs" => answer (rvsOf? x) (fun v => okText (v.toDict c))
  | "step" => answer (stepOf? x) (fun v => okText (v.toDict))
  | "steps" => answer (listOf? stepOf? x) (fun v => okText (Steps.toDict v))
  | "datainfo" => answer (diOf? x) (fun v => okText v.toDict)
  | "model" => answer (modelOf? x) (fun v => okText (v.toDict c))
  | _ => bad

def roundtripOf (kind : String) (j : Json) : Sexp :=
  let c := idCodec
  let fin {α : Type} (x : Option α) (f : α → Json) : Sexp :=
    match x with
    | some a => okText (f a)
    | none => errNone
  match kind with
  | "dose" => fin (Dose.fromDict c j) (·.toDict c)
  | "bolus" => fin (Bolus.fromDict c j) (·.toDict c)
  | "infusion" => fin (Infusion.fromDict c j) (·.toDict c)
  | "compartment" => fin (Compartment.fromDict c j) (·.toDict c)
  | "compsys" => fin (CompSys.fromDict c j) (·.toDict c)
  | "statements" => fin (Statements.fromDict c j) (Statements.toDict c)
  | "parameter" => fin (Parameter.fromDict j) (·.toDict)
  | "parameters" => fin (Parameters.fromDict j) Parameters.toDict
  | "level" => fin (VarLevel.fromDict j) (·.toDict)
  | "hierarchy" => fin (Hierarchy.fromDict j) Hierarchy.toDict
  | "rvs" => fin (RandomVariables.fromDict c j) (·.toDict c)
  | "steps" => fin (Steps.fromDict (E := S) j) (Steps.toDict)
  | "datainfo" => fin (DataInfo.fromDict j) (·.toDict)
  | "model" => fin (Model.fromDict c j) (·.toDict c)
  | _ => bad

def rtEqOf (kind : String) (x : Sexp) : Sexp :=
  let c := idCodec
  match kind with
  | "dose" => answer (doseOf? x) (fun v => Sexp.ofBool (decide (Dose.fromDict c (v.toDict c) = some v)))
  | "compartment" => answer (compOf? x) (fun v => Sexp.ofBool (decide (Compartment.fromDict c (v.toDict c) = some v)))
  | "statements" => answer (listOf? stmtOf? x)
      (fun v => Sexp.ofBool (decide (Statements.fromDict c (Statements.toDict c v) = some v)))
  | "rvs" => answer (rvsOf? x) (fun v => Sexp.ofBool (decide (RandomVariables.fromDict c (v.toDict c) = some v)))
  | _ => bad

inductive Op where
  | addc (k : Node S)
  | rmc (k : Node S)
  | addflow (u v : Node S) (r : S)
  | rmflow (u v : Node S)

def opOf? : Sexp → Option Op
  | .list [.atom "addc", k] => (nodeOf? k).map .addc
  | .list [.atom "rmc", k] => (nodeOf? k).map .rmc
  | .list [.atom "addflow", u, v, .atom r] => do some (.addflow (← nodeOf? u) (← nodeOf? v) r)
  | .list [.atom "rmflow", u, v] => do some (.rmflow (← nodeOf? u) (← nodeOf? v))
  | _ => none

def runOps (ops : List Op) : Graph S :=
  ops.foldl (fun g op => match op with
    | .addc k => g.addNode k
    | .rmc k => g.removeNode k
    | .addflow u v r => g.addEdge u v r
    | .rmflow u v => g.removeEdge u v) Graph.builderInit

def chunkS : Chunk → Sexp
  | .row n => .list [.atom "row", Sexp.ofNat n]
  | .text s => .list [.atom "text", .atom s]

def handle (req : Sexp) : Sexp :=
  match req with
  | .list [.atom "todict", .atom kind, x] => toDictOf kind x
  | .list [.atom "roundtrip", .atom kind, j] =>
    match jsonOf? j with
    | some j => roundtripOf kind j
    | none => bad
  | .list [.atom "rteq", .atom kind, x] => rtEqOf kind x
  | .list [.atom "build", ops, .atom t] =>
    answer (listOf? opOf? ops) (fun ops => okText (CompSys.toDict idCodec { g := runOps ops, t }))
  | .list [.atom "canon", g, .atom t] =>
    answer (graphOf? g) (fun g => okText (CompSys.toDict idCodec (CompSys.canon { g, t })))
  | .list [.atom "canonderivs", ds] =>
    match listOf? (listOf? Sexp.asAtom?) ds with
    | some ds => match canonDerivs ds with
      | some r => .list [.atom "ok", .list (r.map Sexp.ofStrs)]
      | none => .list [.atom "err", .atom "IndexError"]
    | none => bad
  | .list [.atom "infcreate", .atom a, n, r, d] =>
    match n.asInt?, optS? r, optS? d with
    | some n, some r, some d =>
      match Infusion.create a n r d with
      | some i => okText (i.toDict idCodec)
      | none => .list [.atom "err", .atom "ValueError"]
    | _, _, _ => bad
  | .list [.atom "dosesubs", x, tbl] =>
    match doseOf? x, listOf? pairOf? tbl with
    | some d, some t =>
      match d.subs (fun e => (t.lookup e).getD e) with
      | some d' => okText (d'.toDict idCodec)
      | none => errNone
    | _, _ => bad
  | .list [.atom "leaf", .atom r] => .list [.atom "ok", .atom (render (.flt r))]
  | .list [.atom "encode", ds, m] =>
    match datasetOf? ds, modelOf? m with
    | some ds, some m => .list ((encode idCodec id render ds m).map chunkS)
    | _, _ => bad
  | _ => bad

def main : IO Unit := runDriver (fun (_ : Unit) r => ((), handle r)) ()
