import PharmpyModel.Core.Codec
import PharmpyModel.C05.Model
import PharmpyModel.C05.Matrix
import PharmpyModel.C05.Collect
/-
  Line-protocol driver for C05.

  request   (collect ((key coeff) ...))      key = atom, coeff = expression
  answer    ((key coeffsum) ...)             the monomials regrouped by key (canonical_ode_rhs)

  request   (substexpr ((atom e') ...) e)    simultaneous substitution of atoms (symbols, applied functions)
  answer    e[atom := e', ...]

  request   (trace (op ...))
  answer    ((status obs) ...)   one entry for the empty builder, then one per operation;
            status = ok | (err ValueError) | (err NetworkXError) | (err unsupported);
            a failed operation leaves the state unchanged (as the real builder does).

  ops       (addc C) (rmc C) (addflow C N e) (rmflow C N) (movedose C C admid)
            (setdose C (D ...)) (adddose C (D ...)) (rmdose C admid)
            (setlag C e) (setbio C e) (setinput C e)
            (subs ((e e') ...) ((N N') ...)) (roundtrip)
            [subs: a table rate ↦ substituted rate and a table compartment ↦ substituted compartment, in any
             order; the model builds the relabel mapping itself, in node order]
  N = output | C;  C = (comp name amount (D ...) input lag bio)
  D = (bolus amount admid) | (inf amount admid (rate)? (duration)?)   with () for None
  admid = integer | none
-/
open Pharmpy Pharmpy.C05

instance : ExprLike Expr := ⟨fun e => e == .lit 0⟩
instance : Zero Expr := ⟨.lit 0⟩
instance : Add Expr := ⟨fun a b => .f2 "add" a b⟩
instance : Mul Expr := ⟨fun a b => .f2 "mul" a b⟩
instance : Sub Expr := ⟨fun a b => .f2 "add" a (.f2 "mul" (.lit (-1)) b)⟩

abbrev G := CGraph Expr

def optExpr? : Sexp → Option (Option Expr)
  | .list [] => some none
  | .list [e] => (Expr.ofSexp? e).map some
  | _ => none

def dose? : Sexp → Option (Dose Expr)
  | .list [.atom "bolus", a, i] => do some (.bolus (← Expr.ofSexp? a) (← i.asInt?))
  | .list [.atom "inf", a, i, r, d] => do
      some (.infusion (← Expr.ofSexp? a) (← i.asInt?) (← optExpr? r) (← optExpr? d))
  | _ => none

def doses? (x : Sexp) : Option (List (Dose Expr)) := do (← x.asList?).mapM dose?

def comp? : Sexp → Option (Comp Expr)
  | .list [.atom "comp", .atom nm, a, ds, i, l, b] => do
      some { name := nm, amount := ← Expr.ofSexp? a, doses := ← doses? ds, input := ← Expr.ofSexp? i,
             lagTime := ← Expr.ofSexp? l, bioavailability := ← Expr.ofSexp? b }
  | _ => none

def node? : Sexp → Option (Node Expr)
  | .atom "output" => some .output
  | x => (comp? x).map .comp

def admid? : Sexp → Option (Option Int)
  | .atom "none" => some none
  | x => x.asInt?.map some

def optExprS : Option Expr → Sexp
  | none => .list []
  | some e => .list [e.toSexp]

def doseS : Dose Expr → Sexp
  | .bolus a i => .list [.atom "bolus", a.toSexp, Sexp.ofInt i]
  | .infusion a i r d => .list [.atom "inf", a.toSexp, Sexp.ofInt i, optExprS r, optExprS d]

def nodeS : Node Expr → Sexp
  | .output => .atom "output"
  | .comp c => .list [.atom "comp", .atom c.name, c.amount.toSexp, .list (c.doses.map doseS), c.input.toSexp,
                      c.lagTime.toSexp, c.bioavailability.toSexp]

def errS : Err → Sexp
  | .valueError => .list [.atom "err", .atom "ValueError"]
  | .networkXError => .list [.atom "err", .atom "NetworkXError"]
  | .unsupported => .list [.atom "err", .atom "unsupported"]

def pairs? {β : Type} (f : Sexp → Option β) (x : Sexp) : Option (List (β × β)) := do
  (← x.asList?).mapM (fun p => match p with
    | .list [a, b] => do some (← f a, ← f b)
    | _ => none)

/-- decode one operation; `none` = malformed request -/
def op? : Sexp → Option (Op Expr)
  | .list [.atom "addc", c] => do some (.addCompartment (← comp? c))
  | .list [.atom "rmc", c] => do some (.removeCompartment (← comp? c))
  | .list [.atom "addflow", s, d, r] => do some (.addFlow (← comp? s) (← node? d) (← Expr.ofSexp? r))
  | .list [.atom "rmflow", s, d] => do some (.removeFlow (← comp? s) (← node? d))
  | .list [.atom "movedose", s, d, a] => do some (.moveDose (← comp? s) (← comp? d) (← admid? a))
  | .list [.atom "setdose", c, ds] => do some (.setDose (← comp? c) (← doses? ds))
  | .list [.atom "adddose", c, ds] => do some (.addDose (← comp? c) (← doses? ds))
  | .list [.atom "rmdose", c, a] => do some (.removeDose (← comp? c) (← admid? a))
  | .list [.atom "setlag", c, e] => do some (.setLagTime (← comp? c) (← Expr.ofSexp? e))
  | .list [.atom "setbio", c, e] => do some (.setBioavailability (← comp? c) (← Expr.ofSexp? e))
  | .list [.atom "setinput", c, e] => do some (.setInput (← comp? c) (← Expr.ofSexp? e))
  | .list [.atom "subs", rs, ms] => do some (.subs (← pairs? Expr.ofSexp? rs) (← pairs? node? ms))
  | .list [.atom "roundtrip"] => some .roundtrip
  | _ => none

def applyOp (g : G) (x : Sexp) : Option (Except Err G) := (op? x).map (fun op => op.apply g)

def flowOf (g : G) (u v : Node Expr) : Expr := (g.getFlow u v).getD 0
def amountOf : Node Expr → Expr
  | .output => 0
  | .comp c => c.amount
def inputOf : Node Expr → Expr
  | .output => 0
  | .comp c => c.input

def observe (g : G) : Sexp :=
  let d := toDict g
  let order := orderCompartments g
  let flow := flowOf g
  let out := fun u => flowOf g u .output
  let m := compartmentalMatrix order flow out
  .list [.atom "obs",
    .list (.atom "nodes" :: d.1.map nodeS),
    .list (.atom "edges" :: d.2.map (fun e => .list [Sexp.ofNat e.1, Sexp.ofNat e.2.1, e.2.2.toSexp])),
    .list (.atom "order" :: order.map nodeS),
    .list (.atom "names" :: (compartmentNames g).map .atom),
    .list (.atom "matrix" :: m.map (fun row => .list (row.map Expr.toSexp))),
    .list (.atom "amounts" :: order.map (fun n => (amountOf n).toSexp)),
    .list (.atom "inputs" :: order.map (fun n => (inputOf n).toSexp)),
    .list (.atom "eqs" :: (odeRhs order flow out amountOf inputOf).map Expr.toSexp),
    .list [.atom "central", match centralCompartment g with | .ok c => .atom c.name | .error e => errS e],
    .list [.atom "dosing", match dosingCompartments g with
      | .ok cs => .list (cs.map (fun c => .atom c.name)) | .error e => errS e]]

def trace (ops : List Sexp) : Option (List Sexp) :=
  let rec go (g : G) : List Sexp → List Sexp → Option (List Sexp)
    | [], acc => some acc.reverse
    | op :: rest, acc =>
      match applyOp g op with
      | none => none
      | some (.ok g') => go g' rest (.list [.atom "ok", observe g'] :: acc)
      | some (.error e) => go g rest (.list [errS e, observe g] :: acc)
  let g0 : G := newBuilder
  go g0 ops [.list [.atom "ok", observe g0]]

def bad : Sexp := .list [.atom "err", .atom "bad-op"]

def monomial? : Sexp → Option (String × Expr)
  | .list [.atom k, c] => do some (k, ← Expr.ofSexp? c)
  | _ => none

def handle : Sexp → Sexp
  | .list [.atom "substexpr", .list tbl, e] =>
    match tbl.mapM (fun p => match p with
        | .list [.atom a, t] => (Expr.ofSexp? t).map (fun t => (a, t))
        | _ => none), Expr.ofSexp? e with
    | some tbl, some e => (Expr.subst (fun x => alGet? tbl x) e).toSexp
    | _, _ => bad
  | .list [.atom "collect", .list ms] =>
    match ms.mapM monomial? with
    | some ms => .list ((collectBy ms).map (fun g => .list [.atom g.1, g.2.toSexp]))
    | none => bad
  | .list [.atom "trace", .list ops] =>
    match trace ops with
    | some r => .list r
    | none => bad
  | _ => bad

def main : IO Unit := runDriver (fun (_ : Unit) r => ((), handle r)) ()
