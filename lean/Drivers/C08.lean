import PharmpyModel.Core.Sexp
import PharmpyModel.C08.FV
import PharmpyModel.Generated.MflFeatures
import PharmpyModel.C08.Ledger
import PharmpyModel.C08.Mfl
open Pharmpy Pharmpy.C08

/-! Line-protocol driver for C08 (plumbing only). -/

def bad : Sexp := .list [.atom "err", .atom "bad-op"]

def nameOfStr (s : String) : Name :=
  if s = "OUT" then .out
  else if s = "CENTRAL" then .central
  else if s = "DEPOT" then .depot
  else
    let tr := "TRANSIT"
    let pe := "PERIPHERAL"
    if s.startsWith tr then
      match (s.drop tr.length).toNat? with
      | some i => if Name.str (.transit i) = s then .transit i else .other s
      | none => .other s
    else if s.startsWith pe then
      match (s.drop pe.length).toNat? with
      | some i => if Name.str (.periph i) = s then .periph i else .other s
      | none => .other s
    else .other s

def nameS (n : Name) : Sexp := .atom n.str

def elimOf? : Sexp → Option Elim
  | .atom "fo" => some .fo | .atom "zo" => some .zo | .atom "mm" => some .mm | .atom "mix" => some .mix
  | _ => none
def elimS : Elim → Sexp
  | .fo => .atom "fo" | .zo => .atom "zo" | .mm => .atom "mm" | .mix => .atom "mix"
def absOf? : Sexp → Option Abs
  | .atom "inst" => some .inst | .atom "fo" => some .fo | .atom "zo" => some .zo | .atom "seq" => some .seq
  | _ => none
def absS : Abs → Sexp
  | .inst => .atom "inst" | .fo => .atom "fo" | .zo => .atom "zo" | .seq => .atom "seq"

def fvOf? : Sexp → Option FV
  | .list [zo, n, d, k, e, l, b] => do
    some { zo := ← zo.asBool?, transits := ← n.asNat?, depot := ← d.asBool?, periph := ← k.asNat?,
           elim := ← elimOf? e, lag := ← l.asBool?, bio := ← b.asBool? }
  | _ => none
def fvS (s : FV) : Sexp :=
  .list [Sexp.ofBool s.zo, Sexp.ofNat s.transits, Sexp.ofBool s.depot, Sexp.ofNat s.periph, elimS s.elim,
         Sexp.ofBool s.lag, Sexp.ofBool s.bio]

def reqOf? : Sexp → Option Req
  | .list [.atom "abs", a] => do some (.abs (← absOf? a))
  | .list [.atom "elim", e] => do some (.elim (← elimOf? e))
  | .list [.atom "periph", k] => do some (.periph (← k.asNat?))
  | .list [.atom "periph+"] => some .periphAdd
  | .list [.atom "periph-"] => some .periphRemove
  | .list [.atom "transits", n, keep] => do some (.transits (← n.asNat?) (← keep.asBool?))
  | .list [.atom "lag", b] => do some (.lag (← b.asBool?))
  | .list [.atom "bio", b] => do some (.bio (← b.asBool?))
  | _ => none

def reqS : Req → Sexp
  | .abs a => .list [.atom "abs", absS a]
  | .elim e => .list [.atom "elim", elimS e]
  | .periph k => .list [.atom "periph", Sexp.ofNat k]
  | .periphAdd => .list [.atom "periph+"]
  | .periphRemove => .list [.atom "periph-"]
  | .transits n keep => .list [.atom "transits", Sexp.ofNat n, Sexp.ofBool keep]
  | .lag b => .list [.atom "lag", Sexp.ofBool b]
  | .bio b => .list [.atom "bio", Sexp.ofBool b]

def outcomeS : Outcome → Sexp
  | .ok s => .list [.atom "ok", fvS s]
  | .refuse => .list [.atom "refuse"]
  | .internal => .list [.atom "internal"]
  | .off => .list [.atom "off"]
  | .internalOrOk s => .list [.atom "internal-or-ok", fvS s]
  | .internalOrOff => .list [.atom "internal-or-off"]

def doseOf? : Sexp → Option DoseKind
  | .atom "bolus" => some .bolus | .atom "infusion" => some .infusion | .atom "datainfusion" => some .dataInfusion
  | _ => none
def doseS : DoseKind → Sexp
  | .bolus => .atom "bolus" | .infusion => .atom "infusion" | .dataInfusion => .atom "datainfusion"

def nodeOf? : Sexp → Option Node
  | .list [.atom n, .list ds, l, b] => do
    some ⟨nameOfStr n, ← ds.mapM doseOf?, ← l.asBool?, ← b.asBool?⟩
  | _ => none
def nodeS (n : Node) : Sexp := .list [nameS n.name, .list (n.doses.map doseS), Sexp.ofBool n.lag, Sexp.ofBool n.bio]

def edgeOf? : Sexp → Option Edge
  | .list [.atom u, .atom v, i, nl, cl] => do
    some ⟨nameOfStr u, nameOfStr v, ⟨← i.asNat?, ← nl.asBool?, ← cl.asBool?⟩⟩
  | _ => none
def edgeS (e : Edge) : Sexp :=
  .list [nameS e.src, nameS e.dst, Sexp.ofNat e.rate.id, Sexp.ofBool e.rate.nonlinear, Sexp.ofBool e.rate.hasCL]

def stateOf? : Sexp → Option State
  | .list [.list ns, .list es, km] => do
    some ⟨⟨← ns.mapM nodeOf?, ← es.mapM edgeOf?⟩, ← km.asBool?⟩
  | _ => none
def stateS (s : State) : Sexp :=
  .list [.list (s.g.nodes.map nodeS), .list (s.g.edges.map edgeS), Sexp.ofBool s.kmFixed]

def optNameS : Option Name → Sexp
  | some n => nameS n
  | none => .atom "none"
def optNamesS : Option (List Name) → Sexp
  | some ns => .list (ns.map nameS)
  | none => .atom "none"

def defectS : Option DefectClass → Sexp
  | none => .atom "none"
  | some c => .atom (match c with
    | .transitsStaleLag => "transits-stale-lagtime"
    | .transitsDropBio => "transits-drop-bioavailability"
    | .nodepotRenameClash => "nodepot-rename-clash"
    | .singleTransitNoDepot => "single-transit-without-depot"
    | .foOnSeqTransits => "fo-on-seq-transits"
    | .foOnSeqDropsLag => "fo-on-seq-drops-lagtime"
    | .zoOnTransits => "zo-on-transits"
    | .seqOnTransits => "seq-on-transits"
    | .seqOnZoDropsBio => "seq-on-zo-drops-bioavailability"
    | .instOnTransits => "inst-on-transits"
    | .instOnSeqDepot => "inst-on-seq-depot"
    | .instDropsBio => "inst-drops-bioavailability")

def mflS (e : MflEntry) : Sexp :=
  .list [.atom e.category, .atom e.mode, .atom e.setter, .list (e.kwargs.map (fun (k, v) => .list [.atom k, .atom v]))]

def natsOf? (x : Sexp) : Option (List Nat) := do
  let xs ← x.asList?
  xs.mapM Sexp.asNat?

def siteOf? : Sexp → Option Site
  | .list [i, rs] => do some ⟨← i.asNat?, ← natsOf? rs⟩
  | _ => none

def pmodelOf? (sites params : Sexp) : Option PModel := do
  let ss ← sites.asList?
  some ⟨← ss.mapM siteOf?, ← natsOf? params⟩

def handle (req : Sexp) : Sexp :=
  match req with
  | .list [.atom "step", r, s, clash, stale] =>
    match reqOf? r, fvOf? s, clash.asBool?, stale.asBool? with
    | some r, some s, some clash, some stale =>
      let o := setFV ⟨clash, stale⟩ r s
      .list [outcomeS o, Sexp.ofBool (Allowed r s o), defectS (defectOf ⟨clash, stale⟩ r s), reqS (undo r s), Sexp.ofBool (additive r s)]
    | _, _, _, _ => bad
  | .list [.atom "canon", s] =>
    match fvOf? s with
    | some s => stateS (canon s)
    | none => bad
  | .list [.atom "detect", st] =>
    match stateOf? st with
    | some st =>
      let g := st.g
      .list [optNameS g.central,
             (match g.dosing with | some ds => .list (ds.map (fun d => nameS d.name)) | none => .atom "none"),
             optNamesS g.peripherals, optNamesS g.transits, optNameS g.depot,
             .list [Sexp.ofBool g.hasInstantaneousAbs, Sexp.ofBool g.hasFirstOrderAbs,
                    Sexp.ofBool g.hasZeroOrderAbs, Sexp.ofBool g.hasSeqAbs],
             .list [Sexp.ofBool st.hasFOElim, Sexp.ofBool st.hasZOElim, Sexp.ofBool st.hasMMElim,
                    Sexp.ofBool st.hasMixElim],
             Sexp.ofBool g.hasLagTime, Sexp.ofBool g.hasBio,
             (match detect st with | some fv => fvS fv | none => .atom "none")]
    | none => bad
  | .list [.atom "pdead", sites, params] =>
    match pmodelOf? sites params with
    | some m => Sexp.ofNats m.dead
    | none => bad
  | .list [.atom "premove", sites, params, toP, fromP] =>
    match pmodelOf? sites params, toP.asNat?, fromP.asNat? with
    | some m, some a, some b =>
      let r := removePeripheral m a b
      .list [Sexp.ofNats r.params, Sexp.ofNats r.dead]
    | _, _, _ => bad
  | .list [.atom "reqofkey", .atom cat, .atom mode, count] =>
    match count.asNat? with
    | some n => (match reqOfKey cat mode n with | some r => reqS r | none => .atom "none")
    | none => bad
  | .list [.atom "mfl"] => .list (mflTable.map mflS)
  | _ => bad

def main : IO Unit := runDriver (fun (_ : Unit) r => ((), handle r)) ()
