import PharmpyModel.Core.Sexp
import PharmpyModel.C16.Workload
open Pharmpy Pharmpy.C16

def bad : Sexp := .list [.atom "err", .atom "bad-op"]

def segStr : Seg → String
  | .s n => n
  | .csv n => s!"data{n}.csv"
  | .dinfo n => s!"data{n}.datainfo"
  | .model e => s!"model.{e}"

def pathStr (p : Path) : String := "/".intercalate (p.map segStr)

def optS : Option String → Sexp
  | some s => .atom s
  | none => .atom "none"

def tokS : Tok → Sexp
  | .csv d => .list [.atom "csv", .atom d]
  | .dinfo d n => .list [.atom "dinfo", .atom d, Sexp.ofNat n]
  | .model c r => .list [.atom "model", .atom c, match r with | some n => Sexp.ofNat n | none => .atom "none"]
  | .results r => .list [.atom "results", .atom r]
  | .mdata m => .list [.atom "mdata", .atom m]

def contentS : Content → Sexp
  | .text cs => .list [.atom "text", .atom (String.ofList cs)]
  | .full t => .list [.atom "full", tokS t]
  | .part t n => .list [.atom "part", tokS t, Sexp.ofNat n]

def opS : Op → Sexp
  | .mkdir p => .list [.atom "mkdir", .atom (pathStr p)]
  | .create p => .list [.atom "create", .atom (pathStr p)]
  | .write p c => .list [.atom "write", .atom (pathStr p), contentS c]
  | .append p c => .list [.atom "append", .atom (pathStr p), .atom (String.ofList c)]
  | .unlink p => .list [.atom "unlink", .atom (pathStr p)]
  | .symlink p t => .list [.atom "symlink", .atom (pathStr p), .atom (pathStr t)]

def errS : Err → Sexp
  | .pending => .atom "PendingTransactionError"
  | .notFound => .atom "KeyError"
  | .stopIteration => .atom "StopIteration"
  | .fileNotFound => .atom "FileNotFoundError"
  | .jsonDecode => .atom "JSONDecodeError"
  | .parse => .atom "ParseError"
  | .fileExists => .atom "FileExistsError"
  | .indexError => .atom "IndexError"
  | .valueError => .atom "ValueError"
  | .parserError => .atom "ParserError"

def entryS (e : Entry) : Sexp := .list [.atom "entry", .atom e.code, optS e.dataset, optS e.di, optS e.res]

def outS : Out → Sexp
  | .unit => .list [.atom "ok"]
  | .entry e => .list [.atom "ok", entryS e]
  | .entryAnn e a => .list [.atom "ok", entryS e, .atom (String.ofList a)]
  | .str s => .list [.atom "ok", .atom s]
  | .text s => .list [.atom "ok", .atom (String.ofList s)]
  | .log ms => .list [.atom "ok", .list (ms.map fun m => match m with
      | some s => .list [.atom (String.ofList s)]
      | none => .list [])]
  | .err e => .list [.atom "err", errS e]

def optAtom? : Sexp → Option (Option String)
  | .atom "none" => some none
  | .atom s => some (some s)
  | _ => none

def mdesc? : Sexp → Option MDesc
  | .list [.atom key, .atom dh, .atom di, .atom code, .atom ext, res] => do
    let r ← optAtom? res
    some { key := key, dh := dh, di := di, code := code, ext := ext, res := r }
  | _ => none

def call? : Sexp → Option Call
  | .list [.atom "init"] => some .init
  | .list [.atom "db-store-entry", m] => do some (.dbStoreEntry (← mdesc? m))
  | .list [.atom "db-store-model", m] => do some (.dbStoreModel (← mdesc? m))
  | .list [.atom "db-store-metadata", .atom k, .atom md] => some (.dbStoreMetadata k md)
  | .list [.atom "db-retrieve", .atom k] => some (.dbRetrieve k)
  | .list [.atom "ctx-store", .atom n, .atom d, m] => do some (.ctxStore n d (← mdesc? m))
  | .list [.atom "ctx-retrieve", .atom n] => some (.ctxRetrieve n)
  | .list [.atom "store-key", .atom n, .atom k] => some (.storeKey n k)
  | .list [.atom "retrieve-key", .atom n] => some (.retrieveKey n)
  | .list [.atom "store-annotation", .atom n, .atom a] => some (.storeAnnotation n a)
  | .list [.atom "retrieve-annotation", .atom n] => some (.retrieveAnnotation n)
  | .list [.atom "store-message", .atom p, .atom d, .atom s, .atom m] => some (.storeMessage p d s m)
  | .list [.atom "retrieve-log"] => some .retrieveLog
  | _ => none

def nodeS : Node → Sexp
  | .dir => .atom "dir"
  | .file c => .list [.atom "file", contentS c]
  | .link t => .list [.atom "link", .atom (pathStr t)]

/-- Listing of the live bindings (first binding of each path). -/
def treeS (fs : FS) : Sexp :=
  let ps := (fs.map (·.1)).eraseDups
  let items := ps.filterMap fun p => (get fs p).map fun n => (pathStr p, n)
  let sorted := (items.toArray.qsort (fun a b => a.1 < b.1)).toList
  .list (sorted.map fun (p, n) => .list [.atom p, nodeS n])

def logEntry? : Sexp → Option LogEntry
  | .list [.atom c, .atom m, .atom t] => some { category := c, message := m, time := t }
  | _ => none

def logEntryS (e : LogEntry) : Sexp := .list [.atom e.category, .atom e.message, .atom e.time]

def jval? : Sexp → Option JVal
  | .list [.atom "entry", e] => (logEntry? e).map JVal.entry
  | .list [.atom "str", .atom s] => some (JVal.str s)
  | _ => none

def jvalS : JVal → Sexp
  | .entry e => .list [.atom "entry", logEntryS e]
  | .str s => .list [.atom "str", .atom s]

def pair? : Sexp → Option (String × JVal)
  | .list [.atom k, v] => (jval? v).map fun v => (k, v)
  | _ => none

structure DState where
  fs : FS := []
  stack : List FS := []

def optNat? : Sexp → Option (Option Nat)
  | .atom "none" => some none
  | x => (x.asNat?).map some

def handle (st : DState) (req : Sexp) : DState × Sexp :=
  match req with
  | .list [.atom "reset"] => ({ fs := [], stack := [] }, .list [.atom "ok"])
  | .list [.atom "push"] => ({ st with stack := st.fs :: st.stack }, .list [.atom "ok"])
  | .list [.atom "pop"] =>
    match st.stack with
    | f :: r => ({ fs := f, stack := r }, .list [.atom "ok"])
    | [] => (st, bad)
  | .list [.atom "tree"] => (st, treeS st.fs)
  | .list [.atom "call", c] =>
    match call? c with
    | some c =>
      let (ops, out) := c.run st.fs
      ({ st with fs := applyAll st.fs ops }, .list [.list (ops.map opS), outS out])
    | none => (st, bad)
  | .list [.atom "crash", c, k, n] =>
    match call? c, k.asNat?, optNat? n with
    | some c, some k, some n =>
      let ops := c.ops st.fs
      if k < ops.length then ({ st with fs := crash st.fs ops k n }, .list [.atom "ok", Sexp.ofNat ops.length])
      else (st, .list [.atom "err", .atom "crash-point-out-of-range", Sexp.ofNat ops.length])
    | _, _, _ => (st, bad)
  | .list [.atom "fault", c, k, n] =>
    match call? c, k.asNat?, optNat? n with
    | some c, some k, some n =>
      let ops := c.ops st.fs
      if k < ops.length then
        ({ st with fs := excFault st.fs c k n }, .list [.atom "ok", Sexp.ofNat ops.length, .list ((c.cleanup st.fs k).map opS)])
      else (st, .list [.atom "err", .atom "fault-point-out-of-range", Sexp.ofNat ops.length])
    | _, _, _ => (st, bad)
  | .list [.atom "log-encode", .list es] =>
    match es.mapM logEntry? with
    | some l => (st, .list ((encodeLog l).map fun p => .list [.atom p.1, jvalS p.2]))
    | none => (st, bad)
  | .list [.atom "log-decode", .list ps] =>
    match ps.mapM pair? with
    | some ps => (st, match decodeLog ps with
      | some l => .list [.atom "ok", .list (l.map logEntryS)]
      | none => .list [.atom "none"])
    | none => (st, bad)
  | .list [.atom "readlog", .atom t] =>
    (st, match readLog t.toList with
      | .ok ms => outS (.log ms)
      | .error .parserError => .list [.atom "err", .atom "ParserError"]
      | .error .emptyData => .list [.atom "err", .atom "EmptyDataError"]
      | .error .badHeader => .list [.atom "err", .atom "BadHeader"])
  | .list [.atom "mangle", .atom t] => (st, .atom (String.ofList (mangle t.toList)))
  | .list [.atom "store-annotation-text", .atom n, .atom a, .atom t] =>
    (st, .atom (String.ofList (storeAnnotationText n.toList a.toList t.toList)))
  | .list [.atom "retrieve-annotation-text", .atom n, .atom t] =>
    (st, match retrieveAnnotationText n.toList t.toList with
      | .ok a => .list [.atom "ok", .atom (String.ofList a)]
      | .error .keyError => .list [.atom "err", .atom "KeyError"]
      | .error .indexError => .list [.atom "err", .atom "IndexError"])
  | _ => (st, bad)

/-- Carriage returns travel as U+E00D: the harness reads answers line by line
    with universal newlines. -/
partial def mapAtoms (f : String → String) : Sexp → Sexp
  | .atom s => .atom (f s)
  | .list xs => .list (xs.map (mapAtoms f))

def decCR (s : String) : String := s.map (fun c => if c = '\uE00D' then '\r' else c)
def encCR (s : String) : String := s.map (fun c => if c = '\r' then '\uE00D' else c)

def main : IO Unit :=
  runDriver (fun st req => let (st', a) := handle st (mapAtoms decCR req); (st', mapAtoms encCR a)) {}
