import PharmpyModel.Core.Sexp
import PharmpyModel.C04.Theta
import PharmpyModel.C04.Omega
import PharmpyModel.C04.OmegaDiag
import PharmpyModel.C04.OmegaBlock
import PharmpyModel.C04.ThetaShape
open Pharmpy Pharmpy.C04

/-! Line-protocol driver of C04 (plumbing only). -/

def bad : Sexp := .list [.atom "err", .atom "bad-op"]

def kOf? : String → Option K
  | "lpar" => some .lpar | "rpar" => some .rpar | "comma" => some .comma | "ws" => some .ws
  | "fix" => some .fix | "low" => some .low | "init" => some .init | "up" => some .up
  | "rep" => some .rep | "other" => some .other | "sd" => some .sd | "var" => some .var
  | "block" => some .block | _ => none

def kStr : K → String
  | .lpar => "lpar" | .rpar => "rpar" | .comma => "comma" | .ws => "ws" | .fix => "fix"
  | .low => "low" | .init => "init" | .up => "up" | .rep => "rep" | .other => "other"
  | .sd => "sd" | .var => "var" | .block => "block"

def val? : Sexp → Option Val
  | .atom "ninf" => some .ninf
  | .atom "pinf" => some .pinf
  | .list [n, d] => do
    let n ← n.asInt?
    let d ← d.asNat?
    if d = 0 then none else some (.fin n d)
  | _ => none

def valS : Val → Sexp
  | .ninf => .atom "ninf"
  | .pinf => .atom "pinf"
  | .fin n d => .list [Sexp.ofInt n, Sexp.ofNat d]

def tnode? : Sexp → Option TNode
  | .list [.atom k, .atom rule, .atom text, v, c] => do
    some { k := ← kOf? k, rule := rule, text := text, val := ← val? v, cnt := ← c.asNat? }
  | _ => none

def tnodeS (t : TNode) : Sexp :=
  .list [.atom (kStr t.k), .atom t.rule, .atom t.text, valS t.val, Sexp.ofNat t.cnt]

def rnode? : Sexp → Option RNode
  | .list [.atom "item", cs] => do
    let xs ← cs.asList?
    some (.item (← xs.mapM tnode?))
  | .list [.atom "tok", t] => do some (.tok (← tnode? t))
  | _ => none

def rnodeS : RNode → Sexp
  | .item cs => .list [.atom "item", .list (cs.map tnodeS)]
  | .tok t => .list [.atom "tok", tnodeS t]

def rec? (x : Sexp) : Option (List RNode) := do
  let xs ← x.asList?
  xs.mapM rnode?

def param? : Sexp → Option Param
  | .list [i, .atom is, l, .atom ls, u, .atom us, f] => do
    some { init := ← val? i, initS := is, lower := ← val? l, lowerS := ls,
           upper := ← val? u, upperS := us, fix := ← f.asBool? }
  | _ => none

def params? (x : Sexp) : Option (List Param) := do
  let xs ← x.asList?
  xs.mapM param?

def perrS : PErr → String
  | .noInit => "noInit" | .initIsBound => "initIsBound" | .fixInParens => "fixInParens"
  | .lowEqInit => "lowEqInit" | .zeroInit => "zeroInit" | .tooLow => "tooLow"
  | .tooHigh => "tooHigh" | .initOutside => "initOutside"

def parsedS (q : Parsed) : Sexp :=
  .list [valS q.init, valS q.lower, valS q.upper, Sexp.ofBool q.fix]

def allHaveInit : List RNode → Bool
  | [] => true
  | .tok _ :: r => allHaveInit r
  | .item cs :: r => hasK .init cs && allHaveInit r

/-! omega side -/

def dnode? : Sexp → Option DNode
  | .list [.atom "item", cs] => do
    let xs ← cs.asList?
    some (.item (← xs.mapM tnode?))
  | .list [.atom "tok", t] => do some (.tok (← tnode? t))
  | .list [.atom "diagonal", t] => do some (.diagonal (← tnode? t))
  | _ => none

def dnodeS : DNode → Sexp
  | .item cs => .list [.atom "item", .list (cs.map tnodeS)]
  | .tok t => .list [.atom "tok", tnodeS t]
  | .diagonal t => .list [.atom "diagonal", tnodeS t]

def drec? (x : Sexp) : Option (List DNode) := do
  let xs ← x.asList?
  xs.mapM dnode?

def oparam? : Sexp → Option OParam
  | .list [v, .atom s, f] => do some { raw := ← val? v, rawS := s, fix := ← f.asBool? }
  | _ => none

def oparams? (x : Sexp) : Option (List OParam) := do
  let xs ← x.asList?
  xs.mapM oparam?

def derrS : DErr → String
  | .noInit => "noInit" | .sdAndVar => "sdAndVar" | .zeroNotFix => "zeroNotFix"

def dparsedS (q : DParsed) : Sexp := .list [valS q.raw, Sexp.ofBool q.sd, Sexp.ofBool q.fix]

def dAllHaveInit : List DNode → Bool
  | [] => true
  | .item cs :: r => hasK .init cs && dAllHaveInit r
  | _ :: r => dAllHaveInit r


def qval? : Sexp → Option Q
  | .list [n, d] => do
    let n ← n.asInt?
    let d ← d.asNat?
    if d = 0 then none else some (Q.mk' n d)
  | _ => none

def qS (q : Q) : Sexp := .list [Sexp.ofInt q.n, Sexp.ofNat q.d]

def qlist? (x : Sexp) : Option (List Q) := do
  let xs ← x.asList?
  xs.mapM qval?

def handle (req : Sexp) : Sexp :=
  match req with
  | .list [.atom "update", r, ps] =>
    match rec? r, params? ps with
    | some r, some ps =>
      if !allHaveInit r then .list [.atom "err", .atom "NoInit"]
      else if updRecIndexError r ps then .list [.atom "err", .atom "IndexError"]
      else .list [.atom "ok", .list ((updRec r ps).map rnodeS)]
    | _, _ => bad
  | .list [.atom "remove", r, inds] =>
    match rec? r, inds.asList? with
    | some r, some is => match is.mapM Sexp.asNat? with
      | some is => .list ((removeRec r is).map rnodeS)
      | none => bad
    | _, _ => bad
  | .list [.atom "parse", r] =>
    match rec? r with
    | some r => match parseRec r with
      | .ok qs => .list [.atom "ok", .list (qs.map parsedS)]
      | .error e => .list [.atom "err", .atom (perrS e)]
    | _ => bad
  | .list [.atom "sidecond", r, ps] =>
    match rec? r, params? ps with
    | some r, some ps =>
      .list [Sexp.ofBool (recShapeOK r), Sexp.ofBool (paramsOK ps), Sexp.ofBool (noRepeatSplit r ps),
             Sexp.ofBool (match parseRec (updRec r ps) with | .ok qs => decide (qs = ps.map Param.toParsed) | .error _ => false)]
    | _, _ => bad
  | .list [.atom "grammar", r] =>
    match rec? r with
    | some r => Sexp.ofBool (recGrammarOK r)
    | _ => bad
  | .list [.atom "len", r] =>
    match rec? r with
    | some r => Sexp.ofNat (recLen r)
    | _ => bad
  | .list [.atom "dupdate", r, ps] =>
    match drec? r, oparams? ps with
    | some r, some ps =>
      if !dAllHaveInit r then .list [.atom "err", .atom "NoInit"]
      else if updDiagIndexError r ps then .list [.atom "err", .atom "IndexError"]
      else .list [.atom "ok", .list ((updDiag r ps).map dnodeS)]
    | _, _ => bad
  | .list [.atom "dremove", r, inds] =>
    match drec? r, inds.asList? with
    | some r, some is => match is.mapM Sexp.asNat? with
      | some is => .list ((removeDiag r is).map dnodeS)
      | none => bad
    | _, _ => bad
  | .list [.atom "bupdate", r, ws, ps, os, b] =>
    match drec? r, ws.asList?, oparams? ps, os.asList?, b.asBool? with
    | some r, some ws, some ps, some os, some b =>
      match ws.mapM Sexp.asAtom?, os.mapM val? with
      | some ws, some os =>
        if !dAllHaveInit r then .list [.atom "err", .atom "NoInit"]
        else if updBlockIndexError r (blockArray r ws ps os) then .list [.atom "err", .atom "IndexError"]
        else match updBlock r ws ps os b with
          | .ok r' => .list [.atom "ok", .list (r'.map dnodeS)]
          | .error _ => .list [.atom "err", .atom "ModelSyntaxError"]
      | _, _ => bad
    | _, _, _, _, _ => bad
  | .list [.atom "bfix", r] =>
    match drec? r with
    | some r => match blockFix r with
      | .ok f => Sexp.ofBool f
      | .error _ => .list [.atom "err", .atom "ModelSyntaxError"]
    | _ => bad
  | .list [.atom "dparse", r] =>
    match drec? r with
    | some r => match parseDiag r with
      | .ok qs => .list [.atom "ok", .list (qs.map dparsedS)]
      | .error e => .list [.atom "err", .atom (derrS e)]
    | _ => bad
  | .list [.atom "dnames", r] =>
    match drec? r with
    | some r => .list ((diagNames r).map (fun o => match o with
        | some n => .list [.atom "some", .atom n]
        | none => .atom "none"))
    | _ => bad
  | .list [.atom "dlen", r] =>
    match drec? r with
    | some r => Sexp.ofNat (diagLen r)
    | _ => bad
  | .list [.atom "tocov", sd, corr, size, xs] =>
    match sd.asBool?, corr.asBool?, size.asNat?, qlist? xs with
    | some sd, some corr, some n, some xs =>
      match blockToCov sd corr n xs with
      | some ys => .list [.atom "ok", .list (ys.map qS)]
      | none => .list [.atom "err", .atom "irrational"]
    | _, _, _, _ => bad
  | .list [.atom "fromcov", sd, corr, size, xs] =>
    match sd.asBool?, corr.asBool?, size.asNat?, qlist? xs with
    | some sd, some corr, some n, some xs =>
      match blockFromCov sd corr n xs with
      | some ys => .list [.atom "ok", .list (ys.map qS)]
      | none => .list [.atom "err", .atom "irrational"]
    | _, _, _, _ => bad
  | _ => bad

def main : IO Unit := runDriver (fun (_ : Unit) r => ((), handle r)) ()
