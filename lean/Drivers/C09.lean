import PharmpyModel.Core.Codec
import PharmpyModel.C09.Model
open Pharmpy Pharmpy.C09

def bad : Sexp := .list [.atom "err", .atom "bad-op"]
def refused : Sexp := .list [.atom "err", .atom "none"]

def stmtsOut (ss : List Stmt) : Sexp := .list (ss.map Stmt.toSexp)

def optStmts : Option (List Stmt) → Sexp
  | some ss => stmtsOut ss
  | none => refused

def cat? : Sexp → Option Cat
  | .list [.atom "nan"] => some none
  | .list [.atom "c", e] => (Expr.ofSexp? e).map some
  | _ => none

def iovEta? : Sexp → Option IovEta
  | .list [.atom eta, .atom iov, .atom etai, occ] => do
    some { eta := eta, iov := iov, etai := etai, occEtas := ← symList? occ }
  | _ => none

def transEta? : Sexp → Option TransEta
  | .list [.atom eta, .atom newEta, .atom theta] => some { eta := eta, newEta := newEta, theta := theta }
  | _ => none

def rate? : Sexp → Option Rate
  | .list [n, .atom d] => do some { numer := ← n.asInt?, denom := d }
  | _ => none

def exprs? (x : Sexp) : Option (List Expr) := do
  let xs ← x.asList?
  xs.mapM Expr.ofSexp?

def handle (req : Sexp) : Sexp :=
  match req with
  | .list [.atom "coveff", ss, .atom param, .atom cov, .atom kind, .atom op, median, ref, others, cols] =>
    match stmts? ss, Expr.ofSexp? median, Expr.ofSexp? ref, others.asList?.bind (·.mapM cat?), symList? cols with
    | some ss, some median, some ref, some others, some cols =>
      optStmts (addCovEffect ss { param := param, cov := cov, kind := kind, op := op, median := median, ref := ref,
                                  others := others, cols := cols })
    | _, _, _, _, _ => bad
  | .list [.atom "iiv", ss, .atom param, .atom form, .atom op, .atom eta, .atom phi] =>
    match stmts? ss with
    | some ss => optStmts (addIiv ss param form op eta phi)
    | _ => bad
  | .list [.atom "iov", ss, .atom occ, cats, es] =>
    match stmts? ss, exprs? cats, es.asList?.bind (·.mapM iovEta?) with
    | some ss, some cats, some es => stmtsOut (addIov ss occ cats es)
    | _, _, _ => bad
  | .list [.atom "etatrans", ss, .atom kind, es] =>
    match stmts? ss, es.asList?.bind (·.mapM transEta?) with
    | some ss, some es => optStmts (transformEtas ss kind es)
    | _, _ => bad
  | .list [.atom "errory", .atom kind, f, ipred, .atom e1, .atom e2] =>
    match Expr.ofSexp? f, Expr.ofSexp? ipred with
    | some f, some ipred => match errorY kind f ipred e1 e2 with
      | some y => y.toSexp
      | none => refused
    | _, _ => bad
  | .list [.atom "guard", f] =>
    match Expr.ofSexp? f with
    | some f => (guardExpr f).toSexp
    | _ => bad
  | .list [.atom "dtbs", f, .atom lam, .atom zeta] =>
    match Expr.ofSexp? f with
    | some f => .list [(dtbsIpred f lam).toSexp, (dtbsW f zeta).toSexp]
    | _ => bad
  | .list [.atom "power", adj, ipred, .atom theta, .atom eps] =>
    match Expr.ofSexp? ipred, adj.asBool? with
    | some ip, some adj => (powerTerm adj ip theta eps).toSexp
    | _, _ => bad
  | .list [.atom "iivonruv", y, ps] =>
    match Expr.ofSexp? y, ps.asList?.bind (·.mapM (fun p => match p with
        | .list [.atom e, .atom h] => some (e, h) | _ => none)) with
    | some y, some ps => (iivOnRuv y ps).toSexp
    | _, _ => bad
  | .list [.atom "timevarying", y, eps, .atom theta, cond] =>
    match Expr.ofSexp? y, symList? eps, Expr.ofSexp? cond with
    | some y, some eps, some cond => (timeVarying y eps theta cond).toSexp
    | _, _, _ => bad
  | .list [.atom "combinedtv", e0, e1, cond, eps, .atom p, .atom a, hasEta, .atom eta, .atom theta] =>
    match Expr.ofSexp? e0, Expr.ofSexp? e1, Expr.ofSexp? cond, symList? eps, hasEta.asBool? with
    | some e0, some e1, some cond, some eps, some hasEta => (combinedOnTimeVarying e0 e1 cond eps p a hasEta eta theta).toSexp
    | _, _, _, _, _ => bad
  | .list [.atom "allometry", ss, .atom p, var, ref, .atom theta] =>
    match stmts? ss, Expr.ofSexp? var, Expr.ofSexp? ref with
    | some ss, some var, some ref => optStmts (addAllometry ss p var ref theta)
    | _, _, _ => bad
  | .list [.atom "transit", rs, n, .atom mdt, depot] =>
    match rs.asList?.bind (·.mapM rate?), n.asNat?, depot.asBool? with
    | some rs, some n, some depot =>
      let out := setTransits rs n mdt depot
      .list (out.map (fun r => .list [Sexp.ofInt r.numer, .atom r.denom, (rateExpr r).toSexp]))
    | _, _, _ => bad
  | .list [.atom "tables"] =>
    .list [.list (Gen.effectDispatch.map (fun (k, m, a) => .list [.atom k, .atom m, Sexp.ofBool a])),
           .list (Gen.covOps.map (fun (k, v) => .list [.atom k, .atom v])),
           .list (Gen.etaDispatch.map (fun (k, v) => .list [.atom k, .atom v])),
           .list (Gen.etaOps.map (fun (k, v) => .list [.atom k, .atom v])),
           Gen.foAbsRate.toSexp, Gen.zoAbsDuration.toSexp]
  | _ => bad

def main : IO Unit := runDriver (fun (_ : Unit) req => ((), handle req)) ()
