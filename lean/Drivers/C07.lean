import PharmpyModel.Core.Codec
import PharmpyModel.C07.Model
open Pharmpy Pharmpy.C07

/-
  Line-protocol driver for C07.
    (= X e)                  assignment
    (ode (A ..) (e ..))      ODE system: amounts, expressions
-/

def stOfSexp? : Sexp → Option St
  | .list [.atom "=", .atom x, e] => do some (.assign x (← Expr.ofSexp? e))
  | .list [.atom "ode", a, es] => do
      let a ← symList? a
      let es ← es.asList?
      some (.ode a (← es.mapM Expr.ofSexp?))
  | _ => none

def stToSexp : St → Sexp
  | .assign x e => .list [.atom "=", .atom x, e.toSexp]
  | .ode a es => .list [.atom "ode", Sexp.ofStrs a, .list (es.map Expr.toSexp)]

def sts? (x : Sexp) : Option (List St) := do
  let xs ← x.asList?
  xs.mapM stOfSexp?

def stsS (ss : List St) : Sexp := .list (ss.map stToSexp)

def pair? : Sexp → Option (Sym × Sym)
  | .list [.atom a, .atom b] => some (a, b)
  | _ => none

def constPair? : Sexp → Option (Sym × Int)
  | .list [.atom a, b] => do some (a, ← b.asInt?)
  | _ => none

def bad : Sexp := .list [.atom "err", .atom "bad-op"]

def initPair? : Sexp → Option (Sym × Expr)
  | .list [.atom a, v] => do some (a, ← Expr.ofSexp? v)
  | _ => none

def keyEntry? : Sexp → Option (Key × Expr)
  | .list [.atom "str", .atom n, v] => do some (Key.str n, ← Expr.ofSexp? v)
  | .list [.atom "symbol", .atom n, v] => do some (Key.symbol n, ← Expr.ofSexp? v)
  | .list [.atom "expr", .atom n, v] => do some (Key.expr n, ← Expr.ofSexp? v)
  | _ => none

/-- `none` or a list of entries. -/
def given? : Sexp → Option (Option PMap)
  | .atom "none" => some none
  | .list xs => do some (some (← xs.mapM keyEntry?))
  | _ => none

def mapping? (inits mode given : Sexp) : Option PMap := do
  let inits ← (← inits.asList?).mapM initPair?
  let given ← given? given
  match mode with
  | .atom "direct" => some (directMapping inits given)
  | .atom "merge" => some (mergedMapping inits given)
  | .atom "merge-old" => some (mergedMappingOld inits given)
  | _ => none

def optE : Option Expr → Sexp
  | some e => .list [.atom "some", e.toSexp]
  | none => .atom "none"

def handle (req : Sexp) : Sexp :=
  match req with
  | .list [.atom "md", ss] =>
    match sts? ss with
    | some ss => .list [stsS (makeDeclarative ss), Sexp.ofBool (noStaleCapture ss), stsS (mdLit ss)]
    | none => bad
  | .list [.atom "inline", ss] =>
    match sts? ss with
    | some ss =>
      .list [stsS (cleanupInline ss), Sexp.ofBool (inlineSafe [] ss),
             .list ((inlineFinal [] ss).map (fun p => .list [.atom p.1, p.2.toSexp]))]
    | none => bad
  | .list [.atom "consts", d, ss] =>
    match d.asList?.bind (·.mapM constPair?), sts? ss with
    | some d, some ss => stsS (substConsts d ss)
    | _, _ => bad
  | .list [.atom "rename", t, ss, univ] =>
    match t.asList?.bind (·.mapM pair?), sts? ss, symList? univ with
    | some t, some ss, some univ =>
      .list [stsS (renameAll (tableFn t) ss), Sexp.ofBool (injectiveOn t univ)]
    | _, _, _ => bad
  | .list [.atom "obs", ss, .atom dv] =>
    match sts? ss with
    | some ss => .list [optE (obsExpr ss dv), Sexp.ofBool (obsSafe ss dv)]
    | none => bad
  | .list [.atom "pred", ss, .atom dv, zero] =>
    match sts? ss, symList? zero with
    | some ss, some zero => .list [optE (predExpr ss dv zero), Sexp.ofBool (obsSafe ss dv)]
    | _, _ => bad
  | .list [.atom "muins", ss, k, .atom mu, m, e'] =>
    match sts? ss, k.asNat?, Expr.ofSexp? m, Expr.ofSexp? e' with
    | some ss, some k, some m, some e' => stsS (muInsert ss k mu m e')
    | _, _, _, _ => bad
  | .list [.atom "nonrandom", zf, dists, ss] =>
    let dist? : Sexp → Option Dist := fun x =>
      match x with
      | .list [rvs, ps] => do some ⟨← symList? rvs, ← symList? ps⟩
      | _ => none
    match symList? zf, dists.asList?.bind (·.mapM dist?), sts? ss with
    | some zf, some dists, some ss =>
      .list [Sexp.ofStrs (nonRandomSyms zf dists),
             .list ((keptDists zf dists).map (fun d => Sexp.ofStrs d.rvs)),
             stsS (replaceNonRandom zf dists ss)]
    | _, _, _ => bad
  | .list [.atom "evalpred", ss, .atom dv, zero, inits, mode, given] =>
    match sts? ss, symList? zero, mapping? inits mode given with
    | some ss, some zero, some m => .list [optE (evaluatePred ss dv zero m), Sexp.ofBool (obsSafe ss dv)]
    | _, _, _ => bad
  | .list [.atom "evalexpr", ss, e, inits, mode, given] =>
    match sts? ss, Expr.ofSexp? e, mapping? inits mode given with
    | some ss, some e, some m => optE (evaluateExpression ss e m)
    | _, _, _ => bad
  | .list [.atom "mapvalue", inits, mode, given, names] =>
    match mapping? inits mode given, symList? names with
    | some m, some names => .list (names.map (fun n => optE (m.value n)))
    | _, _ => bad
  | _ => bad

def main : IO Unit := runDriver (fun (_ : Unit) r => ((), handle r)) ()
