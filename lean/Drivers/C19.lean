import PharmpyModel.Core.Sexp
import PharmpyModel.C19.Model
import PharmpyModel.C19.Stats
open Pharmpy Pharmpy.C19

def bad : Sexp := .list [.atom "err", .atom "bad-op"]

/-- "p", "-p", "p/q". -/
def rat? (s : String) : Option Rat :=
  match s.splitOn "/" with
  | [a] => a.toInt?.map (fun n => (n : Rat))
  | [a, b] => match a.toInt?, b.toNat? with
    | some n, some d => if d == 0 then none else some ((n : Rat) / (d : Rat))
    | _, _ => none
  | _ => none

def ratS? : Sexp → Option Rat
  | .atom s => rat? s
  | _ => none

def val? : Sexp → Option Val
  | .atom "nan" => some .nan
  | .atom s => (rat? s).map .num
  | _ => none

def ratOut (q : Rat) : Sexp := .atom (toString q)
def valOut : Val → Sexp
  | .nan => .atom "nan"
  | .num q => ratOut q

def cls? : Sexp → Option PClass
  | .atom "theta" => some .theta
  | .atom "omega" => some .omega
  | .atom "sigma" => some .sigma
  | .atom "other" => some .other
  | _ => none

def battr? : String → Option BAttr
  | "minimization_successful" => some .minimizationSuccessful
  | "rounding_errors" => some .roundingErrors
  | "maxevals_exceeded" => some .maxevalsExceeded
  | "final_zero_gradient" => some .finalZeroGradient
  | "final_zero_gradient_theta" => some .fzgTheta
  | "final_zero_gradient_omega" => some .fzgOmega
  | "final_zero_gradient_sigma" => some .fzgSigma
  | "estimate_near_boundary" => some .estimateNearBoundary
  | "estimate_near_boundary_theta" => some .enbTheta
  | "estimate_near_boundary_omega" => some .enbOmega
  | "estimate_near_boundary_sigma" => some .enbSigma
  | _ => none

def nattr? : String → Option NAttr
  | "sigdigs" => some .sigdigs
  | "rse" => some .rse
  | "rse_theta" => some .rseTheta
  | "rse_omega" => some .rseOmega
  | "rse_sigma" => some .rseSigma
  | _ => none

def cmp? : String → Option Cmp
  | "<" => some .lt | "<=" => some .le | "==" => some .eq
  | "!=" => some .ne | ">=" => some .ge | ">" => some .gt
  | _ => none

partial def sexpr? : Sexp → Option SExpr
  | .list [.atom "b", .atom n] => (battr? n).map .b
  | .list [.atom "cmp", .atom n, .atom op, q] => do some (.cmp (← nattr? n) (← cmp? op) (← ratS? q))
  | .list [.atom "rcmp", q, .atom op, .atom n] => do some (.rcmp (← ratS? q) (← cmp? op) (← nattr? n))
  | .list [.atom "and", x, y] => do some (.and (← sexpr? x) (← sexpr? y))
  | .list [.atom "or", x, y] => do some (.or (← sexpr? x) (← sexpr? y))
  | .list [.atom "not", x] => do some (.not (← sexpr? x))
  | _ => none

/-- `none` on the wire = empty strictness string. -/
def strict? : Sexp → Option (Option SExpr)
  | .atom "none" => some none
  | x => (sexpr? x).map some

def clsVals? (x : Sexp) : Option (List (PClass × Val)) := do
  let xs ← x.asList?
  xs.mapM (fun p => match p with
    | .list [c, v] => do some ((← cls? c), (← val? v))
    | _ => none)

def clsBools? (x : Sexp) : Option (List (PClass × Bool)) := do
  let xs ← x.asList?
  xs.mapM (fun p => match p with
    | .list [c, v] => do some ((← cls? c), (← v.asBool?))
    | _ => none)

def res? : Sexp → Option Res
  | .list [ofv, ms, .atom cause, sd, warns, rse, grd, near] => do
    let w ← warns.asList?
    let w ← w.mapM Sexp.asAtom?
    let rse ← (match rse with
      | .atom "none" => some none
      | x => (clsVals? x).map some)
    some { ofv := ← val? ofv, minSucc := ← ms.asBool?, cause := cause, sigdigs := ← val? sd,
           warnings := w, rse := rse, grd := ← clsVals? grd, near := ← clsBools? near }
  | _ => none

def counts? : Sexp → Option Counts
  | .list [a, b, c, d, e, f] => do
    some { nonfixed := ← a.asNat?, iivOmegas := ← b.asNat?, thetaF := ← c.asNat?, thetaR := ← d.asNat?,
           logSubs := ← ratS? e, logObs := ← ratS? f }
  | _ => none

def bicType? : String → Option BicType
  | "mixed" => some .mixed | "fixed" => some .fixed | "random" => some .random | "iiv" => some .iiv
  | _ => none

def rankType? : Sexp → Option RankType
  | .atom "ofv" => some .ofv
  | .atom "lrt" => some .lrt
  | .atom "aic" => some .aic
  | .list [.atom "bic", .atom "none"] => some (.bic none)
  | .list [.atom "bic", .atom t] => (bicType? t).map (fun t => .bic (some t))
  | _ => none

def cutoff? : Sexp → Option Cutoff
  | .atom "none" => some .none
  | .list [.atom "one", q] => (ratS? q).map .one
  | .list [.atom "two", a, b] => do some (.two (← ratS? a) (← ratS? b))
  | _ => none

/-- chi-square table: list of (alpha df value). -/
def table? (x : Sexp) : Option (List (Rat × Nat × Rat)) := do
  let xs ← x.asList?
  xs.mapM (fun p => match p with
    | .list [a, d, v] => do some ((← ratS? a), (← d.asNat?), (← ratS? v))
    | _ => none)

def lookup (t : List (Rat × Nat × Rat)) (a : Rat) (d : Nat) : Option Rat :=
  (t.find? (fun e => e.1 == a && e.2.1 == d)).map (·.2.2)

def isfOf (t : List (Rat × Nat × Rat)) : Rat → Nat → Rat := fun a d => (lookup t a d).getD 0

/-- Every (alpha, |df|) the LRT will look up is in the table. -/
def tableCovers (t : List (Rat × Nat × Rat)) (pairs : List (Rat × Int)) : Bool :=
  pairs.all (fun p => p.2 == 0 || (lookup t p.1 p.2.natAbs).isSome)

def entry? : Sexp → Option Entry
  | .list [r, c, n, p, pen] => do
    some { res := ← res? r, counts := ← counts? c, npar := ← n.asNat?, parent := ← p.asNat?, pen := ← ratS? pen }
  | _ => none

def cand? : Sexp → Option Cand
  | .list [rv, ofv, n, p, pen] => do
    some { rv := ← val? rv, ofv := ← val? ofv, npar := ← n.asNat?, parent := ← p.asNat?, pen := ← ratS? pen }
  | _ => none

def errOut : SErr → Sexp
  | .valueError => .list [.atom "err", .atom "ValueError"]
  | .attributeError => .list [.atom "err", .atom "AttributeError"]

def rowOut (r : Row) : Sexp :=
  .list [Sexp.ofNat r.idx, valOut r.delta, valOut r.rv, match r.rank with | some k => Sexp.ofNat k | none => .atom "nan"]

def rowsOut (rows : List Row) : Sexp :=
  .list [.list (rows.map rowOut), match bestModel rows with | some i => Sexp.ofNat i | none => .atom "none"]

def lrtPairs (cutoff : Cutoff) (parents npars : List Nat) : List (Rat × Int) :=
  (parents.zip npars).map (fun pn =>
    let df := lrtDf (npars.getD pn.1 0) pn.2
    (chooseAlpha cutoff df, df))

def strs? (x : Sexp) : Option (List String) := do
  let xs ← x.asList?
  xs.mapM Sexp.asAtom?

def vis? : Sexp → Option Vis
  | .list [h, ps] => do some { hasEta := ← h.asBool?, pars := ← strs? ps }
  | _ => none

def sortStrs (xs : List String) : List String := (xs.toArray.qsort (· < ·)).toList


def rats? (x : Sexp) : Option (List Rat) := do
  let xs ← x.asList?
  xs.mapM ratS?

def mat? (x : Sexp) : Option (List (List Rat)) := do
  let xs ← x.asList?
  xs.mapM rats?

def ratsOut (xs : List Rat) : Sexp := .list (xs.map ratOut)
def matOut (m : List (List Rat)) : Sexp := .list (m.map ratsOut)
def rectangular (m : List (List Rat)) : Bool :=
  match m with
  | [] => true
  | r :: rs => rs.all (fun x => x.length == r.length)
def square (m : List (List Rat)) : Bool := m.all (fun r => r.length == m.length)

def optRat? : Sexp → Option (Option Rat)
  | .atom "nan" => some none
  | .atom s => (rat? s).map some
  | _ => none

def optRats? (x : Sexp) : Option (List (Option Rat)) := do
  let xs ← x.asList?
  xs.mapM optRat?

def optMat? (x : Sexp) : Option (List (List (Option Rat))) := do
  let xs ← x.asList?
  xs.mapM optRats?

def optOut : Option Rat → Sexp
  | some q => ratOut q
  | none => .atom "nan"
def optsOut (xs : List (Option Rat)) : Sexp := .list (xs.map optOut)

def handleStats (req : Sexp) : Option Sexp :=
  match req with
  | .list [.atom "bootstrapm", cols, orig] =>
    match optMat? cols, rats? orig with
    | some cols, some orig =>
      if !(match cols with | [] => true | r :: rs => rs.all (fun x => x.length == r.length)) || cols.length != orig.length then some bad
      else
        let st := (cols.zip orig).map (fun co => Stats.colStatsM co.1 co.2)
        some (.list [.list (st.map (fun s => .list [optOut s.mean, optOut s.median, optOut s.bias, optOut s.var, optOut s.rse2, optsOut s.dist])),
                     .list ((Stats.covMatrixM cols).map optsOut)])
    | _, _ => some bad
  | .list [.atom "bootstrap", cols, orig] =>
    match mat? cols, rats? orig with
    | some cols, some orig =>
      if !rectangular cols || cols.length != orig.length then some bad
      else
        let st := (cols.zip orig).map (fun co => Stats.colStats co.1 co.2)
        some (.list [.list (st.map (fun s => .list [ratOut s.mean, ratOut s.median, ratOut s.bias, ratOut s.var, ratOut s.rse2, ratsOut s.dist])),
                     matOut (Stats.covMatrix cols)])
    | _, _ => some bad
  | .list [.atom "jackknife", cols] =>
    match mat? cols with
    | some cols => if !rectangular cols then some bad else some (matOut (Stats.jackMatrix cols))
    | none => some bad
  | .list [.atom "cook2", base, cols, m] =>
    match rats? base, mat? cols, mat? m with
    | some base, some cols, some m =>
      if !rectangular cols || !square m || m.length != cols.length || base.length != cols.length then some bad
      else some (.list ((Stats.cook2 base cols m).map (fun o => match o with | some q => ratOut q | none => .atom "singular")))
    | _, _, _ => some bad
  | .list [.atom "covratio2", ci, c] =>
    match mat? ci, mat? c with
    | some ci, some c =>
      if !square ci || !square c || ci.length != c.length then some bad
      else if Stats.det c.length c == 0 then some (.atom "singular")
      else some (ratOut (Stats.covRatio2 ci c))
    | _, _ => some bad
  | .list [.atom "shrinkage", cols, omegas] =>
    match mat? cols, rats? omegas with
    | some cols, some om =>
      if cols.length != om.length then some bad
      else some (ratsOut ((cols.zip om).map (fun co => Stats.etaShrinkage co.1 co.2)))
    | _, _ => some bad
  | .list [.atom "ishrinkage", diags, omegas] =>
    match mat? diags, rats? omegas with
    | some ds, some om => some (matOut (ds.map (fun row => (row.zip om).map (fun p => Stats.indShrinkage p.1 p.2))))
    | _, _ => some bad
  | _ => none


def lcov? (cols rows : Sexp) : Option Stats.LCov := do
  let cols ← strs? cols
  let rs ← rows.asList?
  let rs ← rs.mapM (fun r => match r with
    | .list [.atom k, cells] => do
      let cs ← cells.asList?
      let cs ← cs.mapM (fun c => match c with
        | .list [.atom l, v] => do some (l, ← ratS? v)
        | _ => none)
      some (k, cs)
    | _ => none)
  some { cols := cols, rows := rs }

def grad? (x : Sexp) : Option (List (String × Rat)) := do
  let xs ← x.asList?
  xs.mapM (fun p => match p with
    | .list [.atom k, v] => do some (k, ← ratS? v)
    | _ => none)

def handleDelta (req : Sexp) : Option Sexp :=
  match req with
  | .list [.atom "delta", syms, grad, cols, rows] =>
    match strs? syms, grad? grad, lcov? cols rows with
    | some syms, some g, some c =>
      let names := Stats.deltaNames syms c.cols
      if !syms.all (fun s => (Stats.lookupS g s).isSome) then some bad
      -- `.loc[names]` raises KeyError when an index label is missing; cells must exist for every selected pair
      else if !names.all (fun a => match Stats.lookupS c.rows a with
          | some r => names.all (fun b => (Stats.lookupS r b).isSome)
          | none => false) then some (.list [.atom "err", .atom "KeyError"])
      else some (ratOut (Stats.deltaVar syms (fun s => (Stats.lookupS g s).getD 0) c))
    | _, _, _ => some bad
  | .list [.atom "cook2l", cl, cols, base, ccols, crows] =>
    match strs? cl, mat? cols, grad? base, lcov? ccols crows with
    | some cl, some cols, some base, some c =>
      if !rectangular cols || cl.length != cols.length then some bad
      else if !cl.all (fun l => (Stats.lookupS base l).isSome) then some (.list [.atom "err", .atom "KeyError"])
      else if !cl.all (fun a => match Stats.lookupS c.rows a with
          | some r => cl.all (fun b => (Stats.lookupS r b).isSome)
          | none => false) then some (.list [.atom "err", .atom "KeyError"])
      else some (.list ((Stats.cook2Labelled cl cols base c).map (fun o => match o with | some q => ratOut q | none => .atom "singular")))
    | _, _, _, _ => some bad
  | .list [.atom "shrinkagel", en, om, ie] =>
    match strs? en, rats? om, ie.asList? with
    | some en, some om, some ie =>
      match ie.mapM (fun x => match x with
          | .list [.atom k, col] => do some (k, ← rats? col)
          | _ => none) with
      | some ie =>
        if en.length != om.length then some bad
        else if !ie.all (fun nc => en.contains nc.1) then some (.list [.atom "err", .atom "KeyError"])
        else some (.list ((Stats.etaShrinkageL en om ie).map (fun p => .list [.atom p.1, ratOut p.2])))
      | none => some bad
    | _, _, _ => some bad
  | .list [.atom "ishrinkagel", en, om, ds] =>
    match strs? en, rats? om, ds.asList? with
    | some en, some om, some ds =>
      match ds.mapM grad? with
      | some ds =>
        if en.length != om.length then some bad
        else if !ds.all (fun d => d.all (fun nd => en.contains nd.1)) then some (.list [.atom "err", .atom "KeyError"])
        else some (.list (ds.map (fun d => .list ((Stats.indShrinkageL en om d).map (fun p => .list [.atom p.1, ratOut p.2])))))
      | none => some bad
    | _, _, _ => some bad
  | _ => none

def handle (req : Sexp) : Sexp :=
  match handleDelta req with
  | some a => a
  | none =>
  match handleStats req with
  | some a => a
  | none =>
  match req with
  | .list [.atom "strict", r, s] =>
    match res? r, strict? s with
    | some r, some s => match isStrictnessFulfilled r s with
      | .ok b => Sexp.ofBool b
      | .error e => errOut e
    | _, _ => bad
  | .list [.atom "rankval", r, c, s, rt] =>
    match res? r, counts? c, strict? s, rankType? rt with
    | some r, some c, some s, some rt => match getRankval r c s rt with
      | .ok v => valOut v
      | .error e => errOut e
    | _, _, _, _ => bad
  | .list [.atom "rank", .atom mode, co, tab, cands] =>
    match cutoff? co, table? tab, cands.asList? with
    | some co, some tab, some cs => match cs.mapM cand? with
      | some cs =>
        let lrt := mode == "lrt"
        if mode != "lrt" && mode != "plain" then bad
        else if !cs.all (fun c => c.parent < cs.length) then bad
        else if lrt && !tableCovers tab (lrtPairs co (cs.map (·.parent)) (cs.map (·.npar))) then
          .list [.atom "err", .atom "missing-chi2"]
        else if !lrt && (match co with | .two _ _ => true | _ => false) then bad
        else rowsOut (rankModels { lrt := lrt, cutoff := co, isf := isfOf tab } cs)
      | none => bad
    | _, _, _ => bad
  | .list [.atom "rankfull", s, rt, co, tab, es] =>
    match strict? s, rankType? rt, cutoff? co, table? tab, es.asList? with
    | some s, some rt, some co, some tab, some es => match es.mapM entry? with
      | some es =>
        let lrt := rt == .lrt
        if !es.all (fun c => c.parent < es.length) then bad
        else if lrt && !tableCovers tab (lrtPairs co (es.map (·.parent)) (es.map (·.npar))) then
          .list [.atom "err", .atom "missing-chi2"]
        else if !lrt && (match co with | .two _ _ => true | _ => false) then bad
        else match rankModelsFull s rt co (isfOf tab) es with
          | .ok rows => rowsOut rows
          | .error e => errOut e
      | none => bad
    | _, _, _, _, _ => bad
  | .list [.atom "createresults", s, rt, co, tab, es] =>
    match strict? s, rankType? rt, cutoff? co, table? tab, es.asList? with
    | some s, some rt, some co, some tab, some es => match es.mapM entry? with
      | some es =>
        let lrt := rt == .lrt
        if es.isEmpty then bad
        else if lrt && !tableCovers tab (lrtPairs co (es.map (fun _ => 0)) (es.map (·.npar))) then
          .list [.atom "err", .atom "missing-chi2"]
        else if !lrt && (match co with | .two _ _ => true | _ => false) then bad
        else match createResults s rt co (isfOf tab) es with
          | .ok (rows, fin) => .list [.list (rows.map rowOut), Sexp.ofNat fin]
          | .error e => errOut e
      | none => bad
    | _, _, _, _, _ => bad
  | .list [.atom "lrt-cutoff", tab, df, alpha] =>
    match table? tab, df.asInt?, ratS? alpha with
    | some tab, some df, some alpha =>
      if !tableCovers tab [(alpha, df)] then .list [.atom "err", .atom "missing-chi2"]
      else ratOut (lrtCutoff (isfOf tab) df alpha)
    | _, _, _ => bad
  | .list [.atom "lrt-test", tab, pn, cn, po, co, alpha] =>
    match table? tab, pn.asNat?, cn.asNat?, val? po, val? co, ratS? alpha with
    | some tab, some pn, some cn, some po, some co, some alpha =>
      if !tableCovers tab [(alpha, lrtDf pn cn)] then .list [.atom "err", .atom "missing-chi2"]
      else Sexp.ofBool (lrtTest (isfOf tab) pn cn po co alpha)
    | _, _, _, _, _, _ => bad
  | .list [.atom "best-of-many", tab, pn, po, ms, alpha] =>
    match table? tab, pn.asNat?, val? po, ms.asList?, ratS? alpha with
    | some tab, some pn, some po, some ms, some alpha =>
      match ms.mapM (fun m => match m with
          | .list [n, o] => do some ((← n.asNat?), (← val? o))
          | _ => none) with
      | some ms =>
        if !tableCovers tab (ms.map (fun m => (alpha, lrtDf pn m.1))) then .list [.atom "err", .atom "missing-chi2"]
        else match bestOfMany (isfOf tab) pn po ms alpha with
          | some i => Sexp.ofNat i
          | none => .atom "parent"
      | none => bad
    | _, _, _, _, _ => bad
  | .list [.atom "categorize", om, vs] =>
    match strs? om, vs.asList? with
    | some om, some vs => match vs.mapM vis? with
      | some vs =>
        let r := categorize om vs
        .list [Sexp.ofStrs (sortStrs r.1), Sexp.ofStrs (sortStrs r.2)]
      | none => bad
    | _, _ => bad
  | _ => bad

def main : IO Unit := runDriver (fun (_ : Unit) r => ((), handle r)) ()
