import PharmpyModel.Core.Sexp
import PharmpyModel.C18.Search
import PharmpyModel.C18.Let
open Pharmpy Pharmpy.C18

def bad : Sexp := .list [.atom "err", .atom "bad-op"]

def errS : Err → Sexp
  | .typeError => .list [.atom "err", .atom "TypeError"]
  | .valueError => .list [.atom "err", .atom "ValueError"]
  | .keyError => .list [.atom "err", .atom "KeyError"]
  | .indexError => .list [.atom "err", .atom "IndexError"]
  | .attributeError => .list [.atom "err", .atom "AttributeError"]

def nats? (s : Sexp) : Option (List Nat) := do
  let xs ← s.asList?
  xs.mapM Sexp.asNat?

def strs? (s : Sexp) : Option (List String) := do
  let xs ← s.asList?
  xs.mapM Sexp.asAtom?

def keys? (s : Sexp) : Option (List Key) := do
  let xs ← s.asList?
  xs.mapM strs?

def natss (xs : List (List Nat)) : Sexp := .list (xs.map Sexp.ofNats)
def keyS (k : Key) : Sexp := Sexp.ofStrs k
def keysS (ks : List Key) : Sexp := .list (ks.map keyS)

def modes? : Sexp → Option Modes
  | .atom "wild" => some .wild
  | .list (.atom "names" :: xs) => do some (.names (← xs.mapM Sexp.asAtom?))
  | .list [.atom "bare", .atom s] => some (.bare s)
  | _ => none

def modesS : Modes → Sexp
  | .wild => .atom "wild"
  | .names l => .list (.atom "names" :: l.map .atom)
  | .bare s => .list [.atom "bare", .atom s]

def stmt? : Sexp → Option Stmt
  | .list [.atom "abs", m] => do some (.absorption (← modes? m))
  | .list [.atom "elim", m] => do some (.elimination (← modes? m))
  | .list [.atom "lag", m] => do some (.lagtime (← modes? m))
  | .list [.atom "trans", cs, m] => do some (.transits ⟨← nats? cs, ← modes? m⟩)
  | .list [.atom "peri", cs, m] => do some (.peripherals ⟨← nats? cs, ← modes? m⟩)
  | _ => none

def optModesS : Option Modes → Sexp
  | none => .atom "none"
  | some m => modesS m

def mfS (a : MF) : Sexp :=
  .list [.atom "mf", optModesS a.absorption, optModesS a.elimination,
    .list (a.transits.map (fun t => .list [Sexp.ofNats t.counts, modesS t.depot])),
    .list (a.peripherals.map (fun p => .list [Sexp.ofNats p.counts, modesS p.modes])),
    optModesS a.lagtime]

/-- expression over search spaces: `(lit stmt…)`, `(add E E)`, `(sub E E)` -/
partial def evalE : Sexp → Option (Except Err MF)
  | .list (.atom "lit" :: ss) => do
    let ss ← ss.mapM stmt?
    some (MF.ofStmts ss)
  | .list [.atom "add", a, b] => do
    let a ← evalE a
    let b ← evalE b
    some (do MF.add (← a) (← b))
  | .list [.atom "sub", a, b] => do
    let a ← evalE a
    let b ← evalE b
    some (do MF.sub (← a) (← b))
  | _ => none

def kind? : Sexp → Option ModeKind
  | .atom "abs" => some absorptionKind
  | .atom "elim" => some eliminationKind
  | .atom "lag" => some lagtimeKind
  | _ => none

def exc {α : Type} (f : α → Sexp) : Except Err α → Sexp
  | .ok a => f a
  | .error e => errS e

def atomS : Atom → Sexp
  | .abs m => .list [.atom "ABSORPTION", .atom m]
  | .elim m => .list [.atom "ELIMINATION", .atom m]
  | .trans c d => .list [.atom "TRANSITS", Sexp.ofNat c, .atom d]
  | .peri c m => .list [.atom "PERIPHERALS", Sexp.ofNat c, .atom m]
  | .lag m => .list [.atom "LAGTIME", .atom m]

def csym? : Sexp → Option CSym
  | .atom "wild" => some .wild
  | .list [.atom "ref", .atom n] => some (.ref n)
  | .list (.atom "vals" :: xs) => do some (.vals (← xs.mapM Sexp.asAtom?))
  | _ => none

def fp? : Sexp → Option (Option (List String))
  | .atom "wild" => some none
  | .list (.atom "fps" :: xs) => do some (some (← xs.mapM Sexp.asAtom?))
  | _ => none

def lstmt? : Sexp → Option LStmt
  | .list [.atom "let", .atom n, vs] => do some (.letDef n (← strs? vs))
  | .list [.atom "cov", p, c, f, .atom op, o] => do
    some (.cov ⟨← csym? p, ← csym? c, ← fp? f, op, ← o.asBool?⟩)
  | _ => none

def csymS : CSym → Sexp
  | .wild => .atom "wild"
  | .ref n => .list [.atom "ref", .atom n]
  | .vals l => .list (.atom "vals" :: l.map .atom)

def covS (c : Cov) : Sexp :=
  .list [.atom "cov", csymS c.parameter, csymS c.covariate,
    (match c.fp with | none => .atom "wild" | some l => .list (.atom "fps" :: l.map .atom)),
    .atom c.op, Sexp.ofBool c.optional]

def lstmtS : LStmt → Sexp
  | .letDef n v => .list [.atom "let", .atom n, Sexp.ofStrs v]
  | .cov c => covS c

def handle (req : Sexp) : Sexp :=
  match req with
  | .list [.atom "letkeys", ts] =>
    match (do let xs ← ts.asList?; xs.mapM lstmt?) with
    | some ts =>
      let ss := interpret ts
      .list [.list (ss.map lstmtS), keysS (covKeys Env.empty ss), .list ((letSubs ss).map covS),
             keysS (covKeys Env.empty (interpret (explicit ts)))]
    | none => bad
  | .list [.atom "partitions", xs] =>
    match nats? xs with
    | some l => .list ((partitions l).map natss)
    | none => bad
  | .list [.atom "blockcands", xs, cur] =>
    match nats? xs, (do let cs ← cur.asList?; cs.mapM nats?) with
    | some l, some cur => .list ((blockStructureCandidates l cur).map natss)
    | _, _ => bad
  | .list [.atom "rawpartitions", xs] =>
    match nats? xs with
    | some l => .list ((rawPartitions l).map natss)
    | none => bad
  | .list [.atom "subsets", xs, mn, mx] =>
    match nats? xs, mn.asInt?, mx.asInt? with
    | some l, some mn, some mx => exc natss (subsets l mn mx)
    | _, _, _ => bad
  | .list [.atom "nonempty", xs] =>
    match nats? xs with
    | some l => exc natss (nonEmptySubsets l)
    | none => bad
  | .list [.atom "nonemptyproper", xs] =>
    match nats? xs with
    | some l => exc natss (nonEmptyProperSubsets l)
    | none => bad
  | .list [.atom "groups", ks] =>
    match keys? ks with
    | some ks => .list ((groupByKind ks).map (fun g => keysS g.2))
    | none => bad
  | .list [.atom "allcomb", ks] =>
    match keys? ks with
    | some ks => .list ((allCombinations ks).map keysS)
    | none => bad
  | .list [.atom "stepwise", ks] =>
    match keys? ks with
    | some ks => .list ((exhaustiveStepwise ks).map keysS)
    | none => bad
  | .list [.atom "reduced", ks] =>
    match keys? ks with
    | some ks =>
      let (cands, n) := reducedStepwise ks
      .list [.list (cands.map (fun c => .list [keyS c.key, keysS c.upstream])), Sexp.ofNat n]
    | none => bad
  | .list [.atom "allowed", ks, cur, prev] =>
    match keys? ks, strs? cur, keys? prev with
    | some ks, some cur, some prev => Sexp.ofBool (isAllowed ks cur prev)
    | _, _, _ => bad
  | .list [.atom "eval", e] =>
    match evalE e with
    | some r => exc mfS r
    | none => bad
  | .list [.atom "atoms", e] =>
    match evalE e with
    | some r => exc (fun a => .list (a.atoms.map atomS)) r
    | none => bad
  | .list [.atom "funcs", e] =>
    match evalE e with
    | some r => exc keysS (do (← r).funcKeys)
    | none => bad
  | .list [.atom "eq", a, b] =>
    match evalE a, evalE b with
    | some a, some b => exc Sexp.ofBool (do MF.eq (← a) (← b))
    | _, _ => bad
  | .list [.atom "contains", a, b, .atom tool] =>
    match evalE a, evalE b with
    | some a, some b =>
      if tool == "modelsearch" || tool == "other" then
        exc Sexp.ofBool (do MF.containSubset (← a) (← b) (tool == "modelsearch"))
      else bad
    | _, _ => bad
  | .list [.atom "lnt", a, b, .atom tool] =>
    match evalE a, evalE b with
    | some a, some b =>
      if tool == "modelsearch" || tool == "none" then
        exc keysS (do MF.lnt (← a) (← b) (tool == "modelsearch"))
      else bad
    | _, _ => bad
  | .list [.atom "teq", .list [c1, d1], .list [c2, d2]] =>
    match nats? c1, modes? d1, nats? c2, modes? d2 with
    | some c1, some d1, some c2, some d2 => exc Sexp.ofBool (Transits.eq ⟨c1, d1⟩ ⟨c2, d2⟩)
    | _, _, _, _ => bad
  | .list [.atom "sadd", k, a, b] =>
    match kind? k, modes? a, modes? b with
    | some k, some a, some b => exc modesS (modesAdd k a b)
    | _, _, _ => bad
  | .list [.atom "ssub", k, a, b] =>
    match kind? k, modes? a, modes? b with
    | some k, some a, some b => exc modesS (modesSub k a b)
    | _, _, _ => bad
  | .list [.atom "seq", a, b] =>
    match modes? a, modes? b with
    | some a, some b => exc Sexp.ofBool (modesEq a b)
    | _, _ => bad
  | .list [.atom "slen", k, a] =>
    match kind? k, modes? a with
    | some k, some a => exc Sexp.ofNat (a.len k)
    | _, _ => bad
  | _ => bad

def main : IO Unit := runDriver (fun (_ : Unit) r => ((), handle r)) ()
