import PharmpyModel.Core.Codec
import PharmpyModel.C01.Spec
import PharmpyModel.C01.Advan
import PharmpyModel.C01.Omega
import PharmpyModel.C01.Des
import PharmpyModel.C01.Rates
import PharmpyModel.C01.Theta
open Pharmpy Pharmpy.C01

/-
  Line-protocol driver for C01.

    (translate prog)            → ((= X e) …)            model of `_parse_tree`
    (unsafe prog)               → (safe|unsafe comp …)    failing components of `Safe`
    (nmrun prog env syms)       → ((X v) …)               Lean `nmRun` over exact rationals
    (irrun prog env syms)       → ((X v) …)               `run (translate prog)` over exact rationals
    (codeflows ADVANn TRANSm)   → ((from to rate) …) | none      generated from advan.py (T1)
    (specflows ADVANn TRANSm)   → ((from to rate) …) | none      PREDPP table (spec)
    (basic ADVANn TRANSm)       → (sym …) | none                 basic PK parameters (spec)
    (entries)                   → ((ADVANn TRANSm) …)            entries of the spec table
    (wiring ADVANn)             → (codeObs specObs codeDose specDose)
    (omegaparse rec …)          → per record (ok (exact|sq fix same (inits…)) …) | (err kind)     model of OmegaRecord.parse
    (omegacov rec …)            → ((exact|sq n fix (lower triangle…)) …) | (err kind)            covariance blocks after SAME
    (thetas ((id n) …) (ev …)) …)   → ((names (name|~ …) …) (params id …|err))   model of comment_names / parse_thetas / parse_parameters;  ev := (t n) | (c name) | (c)
    (findrates ncomps (name …))   → ((from to name) …) | (err raises)      model of _find_rates (exact-match recogniser)
    (des ((mono coef (amt …)) …) …)   → ((flows (from to mono coef divisor) …) (rest ((mono coef) …) …) (safe|unsafe class …))   model of to_compartmental_system
      rec := (diag (v reps sd var fix) …) | (block n sd corr chol fix (v reps) …) | (same);  v := p/q

  prog  := (stmt …)
  stmt  := (= X e) | (if c X e) | (block ((c (item …)) …) (else item …)|(noelse)) | (opq n)
  item  := (= X e) | (if c X e) | (opq n)
  env   := ((X e) …) with closed e;  v := p/q | undef
-/

def bad : Sexp := .list [.atom "err", .atom "bad-op"]

def thEv? : Sexp → Option Theta.Ev
  | .list [.atom "t", n] => do some (.theta (← n.asNat?))
  | .list [.atom "c", .atom nm] => some (.comment (some nm))
  | .list [.atom "c"] => some (.comment none)
  | _ => none

def thItem? : Sexp → Option (Theta.Item Nat Unit Unit)
  | .list [i, n] => do some { init := ← i.asNat?, bound := (), fix := (), n := ← n.asNat? }
  | _ => none

def thRec? : Sexp → Option (Theta.Rec Nat Unit Unit)
  | .list [.list items, .list evs] => do some { items := ← items.mapM thItem?, evs := ← evs.mapM thEv? }
  | _ => none

def thetasS (recs : List (Theta.Rec Nat Unit Unit)) : Sexp :=
  let nameS : Option String → Sexp := fun o => match o with | some s => .atom s | none => .atom "~"
  let names := recs.map (fun r => Sexp.list ((Theta.commentNames r.evs).map nameS))
  let params := match Theta.readThetas recs with
    | some ps => Sexp.ofNats (ps.map (·.1))
    | none => .atom "err"
  .list [.list (.atom "names" :: names), .list [.atom "params", params]]

def item? : Sexp → Option Item
  | .list [.atom "=", .atom x, e] => do some (.asg x (← Expr.ofSexp? e))
  | .list [.atom "if", c, .atom x, e] => do some (.lif (← Expr.ofSexp? c) x (← Expr.ofSexp? e))
  | .list [.atom "opq", n] => do some (.opq (← n.asNat?))
  | _ => none

def branch? : Sexp → Option (Expr × List Item)
  | .list [c, .list items] => do some (← Expr.ofSexp? c, ← items.mapM item?)
  | _ => none

def stmt? : Sexp → Option NMStmt
  | .list [.atom "=", .atom x, e] => do some (.asg x (← Expr.ofSexp? e))
  | .list [.atom "if", c, .atom x, e] => do some (.lif (← Expr.ofSexp? c) x (← Expr.ofSexp? e))
  | .list [.atom "opq", n] => do some (.opq (← n.asNat?))
  | .list [.atom "block", .list brs, .list (.atom "else" :: items)] => do
      some (.block (← brs.mapM branch?) (some (← items.mapM item?)))
  | .list [.atom "block", .list brs, .list [.atom "noelse"]] => do
      some (.block (← brs.mapM branch?) none)
  | _ => none

def prog? : Sexp → Option (List NMStmt)
  | .list xs => xs.mapM stmt?
  | _ => none

/-! Exact rational evaluation; `none` = undefined. -/

def rpow (a : Rat) : Nat → Rat
  | 0 => 1
  | n + 1 => a * rpow a n

def b2r (b : Bool) : Option Rat := some (if b then 1 else 0)

def ratFn (f : String) (args : List (Option Rat)) : Option Rat :=
  match f, args with
  | "ite", [some c, a, b] => if c != 0 then a else b
  | "ite", [none, _, b] => b
  | "nan", _ => none
  | "add", [some a, some b] => some (a + b)
  | "sub", [some a, some b] => some (a - b)
  | "mul", [some a, some b] => some (a * b)
  | "div", [some a, some b] => if b == 0 then none else some (a / b)
  | "neg", [some a] => some (-a)
  | "pos", [some a] => some a
  | "pow", [some a, some b] =>
    if b.den != 1 then none
    else if b.num ≥ 0 then some (rpow a b.num.toNat)
    else if a == 0 then none else some (1 / rpow a (-b.num).toNat)
  | "gt", [some a, some b] => b2r (a > b)
  | "ge", [some a, some b] => b2r (a ≥ b)
  | "lt", [some a, some b] => b2r (a < b)
  | "le", [some a, some b] => b2r (a ≤ b)
  | "eq", [some a, some b] => b2r (a == b)
  | "ne", [some a, some b] => b2r (a != b)
  | "and", [some a, some b] => b2r (a != 0 && b != 0)
  | "and", [some a, none] => if a == 0 then some 0 else none      -- three-valued: a decided operand decides
  | "and", [none, some b] => if b == 0 then some 0 else none
  | "or", [some a, some b] => b2r (a != 0 || b != 0)
  | "or", [some a, none] => if a != 0 then some 1 else none
  | "or", [none, some b] => if b != 0 then some 1 else none
  | "not", [some a] => b2r (a == 0)
  | "not", [none] => some 1
  | _, _ => none

def ratI : Interp (Option Rat) := { lit := fun n => some (n : Rat), fn := ratFn }

def ratTruth : Option Rat → Bool
  | some c => c != 0
  | none => false

def ratSem : Sem (Option Rat) where
  I := ratI
  truth := ratTruth
  ite_law := by
    intro c a b
    cases c with
    | none => rfl
    | some c => simp [ratI, ratFn, ratTruth]
  not_law := by
    intro c
    cases c with
    | none => rfl
    | some c =>
      by_cases h : c = 0
      · subst h; rfl
      · simp [ratI, ratFn, ratTruth, b2r, h]

def env? (x : Sexp) : Option (Env (Option Rat)) := do
  let xs ← x.asList?
  let ps ← xs.mapM (fun p => match p with
    | .list [.atom s, e] => do some (s, (← Expr.ofSexp? e).eval ratI (fun _ => none))
    | _ => none)
  some (fun y => match ps.find? (fun p => p.1 == y) with
                 | some p => p.2
                 | none => none)

def ratS : Option Rat → Sexp
  | none => .atom "undef"
  | some r => .atom (if r.den == 1 then toString r.num else toString r.num ++ "/" ++ toString r.den)

def showEnv (ρ : Env (Option Rat)) (syms : List Sym) : Sexp :=
  .list (syms.map (fun s => .list [.atom s, ratS (ρ s)]))

def flowsS : Option (List Flow) → Sexp
  | none => .atom "none"
  | some fs => .list (fs.map (fun f => .list [Sexp.ofNat f.src, Sexp.ofNat f.dst, f.rate.toSexp]))

/-! $OMEGA / $SIGMA -/
open Pharmpy.C01.Omega

def rat? : Sexp → Option Rat
  | .atom s =>
    match s.splitOn "/" with
    | [p] => p.toInt?.map (fun a => (a : Rat))
    | [p, q] => do
      let a ← p.toInt?
      let b ← q.toNat?
      if b == 0 then none else some ((a : Rat) / (b : Rat))
    | _ => none
  | _ => none

def vrep? : Sexp → Option (Rat × Nat)
  | .list [v, n] => do some (← rat? v, ← n.asNat?)
  | _ => none

def orec? : Sexp → Option Rec
  | .list (.atom "diag" :: items) => do
    let its ← items.mapM (fun it => match it with
      | .list [v, n, sd, var, fix] => do
        some (⟨← rat? v, ← n.asNat?, ← sd.asBool?, ← var.asBool?, ← fix.asBool?⟩ : DiagItem)
      | _ => none)
    some (.diag its)
  | .list (.atom "block" :: n :: sd :: corr :: chol :: fix :: vals) => do
    some (.block (← n.asNat?) ⟨← sd.asBool?, ← corr.asBool?, ← chol.asBool?⟩ (← fix.asBool?) (← vals.mapM vrep?))
  | .list [.atom "same"] => some .same
  | _ => none

def ratAtom (r : Rat) : Sexp :=
  .atom (if r.den == 1 then toString r.num else toString r.num ++ "/" ++ toString r.den)

def oerr : Err → Sexp
  | .wrongCount => .list [.atom "err", .atom "wrong-count"]
  | .zeroNotFixed => .list [.atom "err", .atom "zero-not-fixed"]
  | .sdAndVar => .list [.atom "err", .atom "sd-and-var"]
  | .firstSame => .list [.atom "err", .atom "first-same"]

/-- Is this a VARIANCE CORRELATION block (the only form that needs a square root)? -/
def isVarCorr : Rec → Bool
  | .block _ f _ _ => f.corr && !f.sd && !f.chol
  | _ => false

/-- Parse one record; for VARIANCE CORRELATION blocks the entries are replaced by
    their signed squares (`varCorrSq`) and the block is tagged `sq`. -/
def parseRecD (r : Rec) : Except Err (List (Bool × Blk)) :=
  match parseRec (fun v => v) r with
  | .error e => .error e
  | .ok bs =>
    match r with
    | .block n _ fix items =>
      if isVarCorr r then .ok [(true, ⟨flatten n (varCorrSq (expand items)), fix, false⟩)]
      else .ok (bs.map (fun b => (false, b)))
    | _ => .ok (bs.map (fun b => (false, b)))

def blkS (p : Bool × Blk) : Sexp :=
  .list [.atom (if p.1 then "sq" else "exact"), Sexp.ofBool p.2.fix, Sexp.ofBool p.2.same,
         .list (p.2.inits.map ratAtom)]

def omegaParse (recs : List Rec) : Sexp :=
  .list (recs.map (fun r => match parseRecD r with
    | .error e => oerr e
    | .ok bs => .list (.atom "ok" :: bs.map blkS)))

/-- SAME resolution on the tagged blocks (mirrors `covBlocks`). -/
def omegaCov (recs : List Rec) : Sexp :=
  let rec go (prev : Option Sexp) (bs : List (Bool × Blk)) (acc : Array Sexp) : Sexp :=
    match bs with
    | [] => .list acc.toList
    | b :: rest =>
      if b.2.same then
        match prev with
        | none => oerr .firstSame
        | some p => go prev rest (acc.push p)
      else
        let cur : Sexp := .list [.atom (if b.1 then "sq" else "exact"), Sexp.ofNat (triangularRoot b.2.inits.length),
                                 Sexp.ofBool b.2.fix, .list (b.2.inits.map ratAtom)]
        go (some cur) rest (acc.push cur)
  let rec all (rs : List Rec) (acc : List (Bool × Blk)) : Except Err (List (Bool × Blk)) :=
    match rs with
    | [] => .ok acc
    | r :: rest => match parseRecD r with
      | .error e => .error e
      | .ok bs => all rest (acc ++ bs)
  match all recs [] with
  | .error e => oerr e
  | .ok bs => go none bs #[]

/-! $DES -/

def dterm? : Sexp → Option Des.Term
  | .list [m, c, .list amts] => do
    some ⟨← m.asNat?, ← rat? c, ← amts.mapM Sexp.asNat?⟩
  | _ => none

def dprog? : Sexp → Option Des.Prog
  | .list eqs => eqs.mapM (fun e => match e with
    | .list ts => ts.mapM dterm?
    | _ => none)
  | _ => none

def desS (p : Des.Prog) : Sexp :=
  let s := Des.translateDes p
  .list [
    .list (.atom "flows" :: s.flows.map (fun f =>
      .list [Sexp.ofNat f.1, Sexp.ofNat f.2.1, Sexp.ofNat f.2.2.mono, ratAtom f.2.2.coef, Sexp.ofNat f.2.2.divisor])),
    .list (.atom "rest" :: s.rest.map (fun e => .list (e.map (fun t => .list [Sexp.ofNat t.mono, ratAtom t.coef])))),
    .list (.atom (if Des.DesSafe p then "safe" else "unsafe") :: (Des.desUnsafe p).map .atom)]

def handle (req : Sexp) : Sexp :=
  match req with
  | .list [.atom "translate", p] =>
    match prog? p with
    | some p => .list ((translate p).map Stmt.toSexp)
    | none => bad
  | .list [.atom "unsafe", p] =>
    match prog? p with
    | some p => .list (.atom (if Safe p then "safe" else "unsafe") :: (unsafeFrom [] p).map .atom)
    | none => bad
  | .list [.atom "nmrun", p, env, syms] =>
    match prog? p, env? env, symList? syms with
    | some p, some ρ, some syms => showEnv (nmRun ratSem (fun _ ρ => ρ) p ρ) syms
    | _, _, _ => bad
  | .list [.atom "irrun", p, env, syms] =>
    match prog? p, env? env, symList? syms with
    | some p, some ρ, some syms => showEnv (run ratI (translate p) ρ) syms
    | _, _, _ => bad
  | .list [.atom "codeflows", .atom a, .atom t] => flowsS (codeFlows a t)
  | .list [.atom "specflows", .atom a, .atom t] => flowsS (specFlows a t)
  | .list [.atom "basic", .atom a, .atom t] =>
    match basicParams a t with
    | some ps => Sexp.ofStrs ps
    | none => .atom "none"
  | .list [.atom "wiring", .atom a] =>
    let o : Option Nat → Sexp := fun x => match x with | some n => Sexp.ofNat n | none => .atom "none"
    .list [o (codeObs a), o (specObs a), o (codeDose a), o (specDose a)]
  | .list (.atom "omegaparse" :: recs) =>
    match recs.mapM orec? with
    | some rs => omegaParse rs
    | none => bad
  | .list (.atom "omegacov" :: recs) =>
    match recs.mapM orec? with
    | some rs => omegaCov rs
    | none => bad
  | .list [.atom "des", p] =>
    match dprog? p with
    | some p => desS p
    | none => bad
  | .list (.atom "thetas" :: recs) =>
    match recs.mapM thRec? with
    | some recs => thetasS recs
    | none => bad
  | .list [.atom "findrates", n, names] =>
    match n.asNat?, symList? names with
    | some n, some names =>
      match Rates.findRates n names with
      | some l => .list (l.map (fun r => .list [Sexp.ofNat r.1, Sexp.ofNat r.2.1, .atom r.2.2]))
      | none => .list [.atom "err", .atom "raises"]
    | _, _ => bad
  | .list [.atom "entries"] =>
    .list (specEntries.map (fun p => .list [.atom p.1, .atom p.2]))
  | _ => bad

def main : IO Unit := runDriver (fun (_ : Unit) r => ((), handle r)) ()
