import PharmpyModel.Core.Sexp
import PharmpyModel.C20.Spec
import PharmpyModel.C20.Cov
import PharmpyModel.C20.Results
import PharmpyModel.C20.Json
import PharmpyModel.C20.Lst
import PharmpyModel.C20.IterDf
open Pharmpy Pharmpy.C20 Pharmpy.C20.Spec

def bad : Sexp := .list [.atom "err", .atom "bad-op"]

def sStr (s : Str) : Sexp := .atom (String.ofList s)
def sOpt (o : Option Str) : Sexp := match o with | some s => sStr s | none => .atom ""
def sOptS (o : Option Str) : Sexp := match o with | some s => .list [.atom "some", sStr s] | none => .atom "none"

def errName : Err → String
  | .illegalFile => "illegalFile" | .emptyData => "emptyData" | .parserError => "parserError"
  | .brokenExt => "brokenExt" | .keyError => "keyError" | .noIterations => "noIterations"
  | .shapeError => "shapeError" | .unmodelled => "unmodelled"

def sErr (e : Err) : Sexp := .list [.atom "err", .atom (errName e)]

def sRows (rows : List (List (Option Str))) : Sexp := .list (rows.map (fun r => .list (r.map sOpt)))
def sStrs (xs : List Str) : Sexp := .list (xs.map sStr)
def sFrame (f : Frame) : Sexp := .list [.atom "frame", sStrs f.cols, sRows f.rows]
def sDec (d : Dec) : Sexp := .list [Sexp.ofInt d.m, Sexp.ofInt d.e]

def str? : Sexp → Option Str
  | .atom s => some s.toList
  | _ => none

def optStr? : Sexp → Option (Option Str)
  | .atom "none" => some none
  | .list [.atom "some", .atom s] => some (some s.toList)
  | _ => none

def bool? (s : Sexp) : Option Bool := s.asBool?

def cell? : Sexp → Option Cell
  | .list [.atom "i", i] => i.asInt?.map .int
  | .list [.atom "s", n, d, m, e] => do pure (.sci (← bool? n) (← d.asNat?) (← m.asNat?) (← e.asInt?))
  | .list [.atom "f", n, ip, k, fp] => do pure (.fix (← bool? n) (← ip.asNat?) (← k.asNat?) (← fp.asNat?))
  | .list [.atom "l", .atom s] => some (.label s.toList)
  | _ => none

def col? : Sexp → Option Col
  | .list [w, .atom "r"] => w.asNat?.map (⟨·, .right⟩)
  | .list [w, .atom "l"] => w.asNat?.map (⟨·, .left⟩)
  | _ => none

def kind? : Sexp → Option Kind
  | .atom "ext" => some .ext | .atom "phi" => some .phi | .atom "cov" => some .cov
  | .atom "generic" => some .generic | _ => none

def sTitle (t : Title) : Sexp :=
  .list [sStr t.method, sOptS t.design, sOptS t.goal, Sexp.ofNats t.nums]

def sMeta : Option Meta → Sexp
  | none => .atom "none"
  | some m => .list [Sexp.ofNat m.number, Sexp.ofBool m.isEvaluation,
      match m.title with | some t => sTitle t | none => .atom "none"]

def sExtValue : Except Err ExtValue → Sexp
  | .error e => sErr e
  | .ok (.params l r) => .list [.atom "params", sStrs l, sRows r]
  | .ok (.ofv c) => .list [.atom "ofv", .list (c.map sOpt)]

def sMatrix (m : Matrix) : Sexp := .list [.atom "m", sStrs m.index, sStrs m.cols, sRows m.rows]

def views (t : Table) : Sexp :=
  if t.raw.mixed && t.kind != .generic then .list [.atom "mixed"] else
  match t.kind with
  | .generic => .list [.atom "generic"]
  | .ext =>
    .list [.atom "ext",
      (match extDataFrame t.raw with | .ok f => sFrame f | .error e => sErr e),
      .list (Generated.extProps.map (fun p => .list [.atom p.name, sExtValue (extProperty t.raw p)])),
      (match iterations t.raw with | .ok ds => .list (ds.map sDec) | .error e => sErr e)]
  | .cov => .list [.atom "cov", match covDataFrame t.raw with | .ok m => sMatrix m | .error e => sErr e]
  | .phi =>
    .list [.atom "phi",
      (match phiIofv t.raw with
        | .ok xs => .list (xs.map (fun p => .list [sOpt p.1, sOpt p.2]))
        | .error e => sErr e),
      (match phiEtas t.raw with
        | .ok (ns, rs) => .list [sStrs ns, .list (rs.map (fun p => .list [sOpt p.1, .list (p.2.map sOpt)]))]
        | .error e => sErr e),
      (match phiEtcData t.raw with
        | .ok (ids, ns, ms) => .list [.list (ids.map sOpt), sStrs ns, .list (ms.map sRows)]
        | .error e => sErr e)]

def rat? : Sexp → Option Rat
  | .atom s =>
    match s.splitOn "/" with
    | [n] => n.toInt?.map (fun i => (i : Rat))
    | [n, d] => do
      let n ← n.toInt?
      let d ← d.toNat?
      if d == 0 then none else pure (mkRat n d)
    | _ => none
  | _ => none

def sRat (r : Rat) : Sexp := .atom (toString r.num ++ "/" ++ toString r.den)

def ratRows? (s : Sexp) : Option (List (List Rat)) :=
  s.asList?.bind (·.mapM (fun r => r.asList?.bind (·.mapM rat?)))

def ratPairs? (s : Sexp) : Option (List (Rat × Rat)) :=
  s.asList?.bind (·.mapM (fun p => match p with
    | .list [a, b] => do pure ((← rat? a), (← rat? b))
    | _ => none))

def sRow (r : Row) : Sexp := .list (r.map (fun p => .list [sStr p.1, sOpt p.2]))

def fixMap? (s : Sexp) : Option FixMap :=
  s.asList?.bind (·.mapM (fun p => match p with
    | .list [.atom l, b] => b.asBool?.map (fun b => (l.toList, b))
    | _ => none))

def sRun (r : RunResult) : Sexp :=
  .list [sRow r.estimates,
    sRow r.sdcorr,
    (match r.se with
      | .noSE => .atom "noSE"
      | .aborted => .atom "aborted"
      | .ok a b => .list [.atom "ok", sRow a, sRow b])]

def inRow? : Sexp → Option Pharmpy.C20.IterDf.InRow
  | .list [i, .atom "nan"] => do some ⟨← i.asInt?, none⟩
  | .list [i, o] => do some ⟨← i.asInt?, some (← o.asInt?)⟩
  | _ => none

def objS : Pharmpy.C20.IterDf.Obj → Sexp
  | none => .atom "nan"
  | some v => Sexp.ofInt v

def handle (req : Sexp) : Sexp :=
  match req with
  | .list [.atom "iterdf", .list rs] =>
    match rs.mapM inRow? with
    | some rows =>
      let out : Sexp := match Pharmpy.C20.IterDf.getIterDf rows with
        | .indexError => .atom "IndexError"
        | .ok o => .list (o.map (fun r => .list [Sexp.ofInt r.iter, (match r.src with | some k => Sexp.ofNat k | none => .atom "nan")]))
      let fin : Sexp := match Pharmpy.C20.IterDf.reportedFinalOfv rows with
        | none => .atom "IndexError"
        | some o => objS o
      .list [out, fin]
    | none => bad
  | .list [.atom "file", k, nt, nl, .list ls] =>
    match kind? k, bool? nt, bool? nl, ls.mapM str? with
    | some k, some nt, some nl, some ls =>
      match parseFile k nt nl ls with
      | .error e => sErr e
      | .ok ts => .list (ts.map (fun t => .list [.atom "tbl", sMeta t.info, sFrame t.raw, views t]))
    | _, _, _, _ => bad
  | .list [.atom "renderbody", hw, .list ns, .list cs, .list rs] =>
    match hw.asNat?, ns.mapM str?, cs.mapM col?, rs.mapM (fun r => r.asList?.bind (·.mapM cell?)) with
    | some hw, some ns, some cs, some rs =>
      let t : RefTable := ⟨hw, ns, cs, rs⟩
      .list [sStrs (renderBody t), Sexp.ofBool t.fits, Sexp.ofBool t.fitsRecords]
    | _, _, _, _ => bad
  | .list [.atom "rendertitle", w, n, .atom m, d, g, .list nums] =>
    match w.asNat?, n.asNat?, optStr? d, optStr? g, nums.mapM Sexp.asNat? with
    | some w, some n, some d, some g, some nums =>
      sStr (renderTitleNo w n ++ renderTitleRest ⟨m.toList, d, g, nums⟩)
    | _, _, _, _, _ => bad
  | .list [.atom "rendertitleno", w, n] =>
    match w.asNat?, n.asNat? with
    | some w, some n => sStr (renderTitleNo w n)
    | _, _ => bad
  | .list [.atom "cell", c] =>
    match cell? c with
    | some c => .list [sStr (renderCell c),
        match cellDec c with | some d => sDec d | none => .atom "none",
        match parseNum (renderCell c) with | some d => sDec d | none => .atom "none"]
    | none => bad
  | .list [.atom "parsenum", .atom t] =>
    match parseNum t.toList with | some d => sDec d | none => .atom "none"
  | .list [.atom "subobj", .atom t] => sStr (subOBJ t.toList)
  | .list [.atom "rename", .atom t] => sStr (renameTheta t.toList)
  | .list [.atom "split", .atom t] => sStrs (splitWs t.toList)
  | .list [.atom "run", .list ls, mf] =>
    match ls.mapM str?, fixMap? mf with
    | some ls, some mf =>
      match parseFile .ext false false ls with
      | .error e => sErr e
      | .ok ts => match ts.getLast? with
        | none => sErr .illegalFile
        | some t => if t.raw.mixed then .list [.atom "mixed"] else
          match parseRun t.raw mf with
          | .ok r => sRun r
          | .error e => sErr e
    | _, _ => bad
  | .list [.atom "jsontable", .list names, .list index, .list cols, .list cells] =>
    match names.mapM optStr?, index.mapM (fun r => r.asList?.bind (·.mapM str?)), cols.mapM str?,
        cells.mapM (fun r => r.asList?.bind (·.mapM str?)) with
    | some names, some index, some cols, some cells =>
      let t : LTable Str := ⟨names, index, cols, cells⟩
      let j := encodeTable t
      let d := decodeTable j
      .list [sStrs j.fields, sStrs j.primaryKey,
        .list (j.data.map (fun r => .list (r.map (fun p => .list [sStr p.1, sStr p.2])))),
        .list [.list (d.indexNames.map sOptS), .list (d.index.map (fun r => .list (r.map sOpt))),
               sStrs d.cols, .list (d.cells.map (fun r => .list (r.map sOpt)))]]
    | _, _, _, _ => bad
  | .list [.atom "lsttable", .list blocks] =>
    match blocks.mapM (fun b => match b with
        | .list [n, .atom v] => n.asNat?.map (fun n => (n, v))
        | _ => none) with
    | some bs => .list ((lstTable bs).map (fun p => .list [Sexp.ofNat p.1, .atom p.2]))
    | none => bad
  | .list [.atom "cov2corr", rows, table] =>
    match ratRows? rows, ratPairs? table with
    | some rows, some table => .list ((cov2corr (ratOps table) rows).map (fun r => .list (r.map sRat)))
    | _, _ => bad
  | .list [.atom "corr2cov", rows, sd] =>
    match ratRows? rows, sd.asList?.bind (·.mapM rat?) with
    | some rows, some sd => .list ((corr2cov (ratOps []) rows sd).map (fun r => .list (r.map sRat)))
    | _, _ => bad
  | .list [.atom "fts", .list xs] =>
    match xs.mapM str? with
    | some xs => match flattenedToSymmetric (['0']) xs with
      | .ok m => .list (m.map sStrs)
      | .error e => sErr e
    | none => bad
  | _ => bad

def main : IO Unit := runDriver (fun (_ : Unit) r => ((), handle r)) ()
