import PharmpyModel.Core.Sexp
import PharmpyModel.C11.Model
open Pharmpy Pharmpy.C11

/-
  Line protocol of the C11 driver.
    entry   : (q NUM DEN) | symbol-atom
    dist    : ((names…) LEVEL true|false (mean…) ((row…)…))
    rvs     : (dist…)
-/

def bad : Sexp := .list [.atom "err", .atom "bad-op"]

def errS : Err → Sexp
  | .keyError => .list [.atom "err", .atom "KeyError"]
  | .valueError => .list [.atom "err", .atom "ValueError"]
  | .indexError => .list [.atom "err", .atom "IndexError"]
  | .attributeError => .list [.atom "err", .atom "AttributeError"]
  | .typeError => .list [.atom "err", .atom "TypeError"]
  | .notImplementedError => .list [.atom "err", .atom "NotImplementedError"]

def ratS (q : Rat) : Sexp := .list [.atom "q", Sexp.ofInt q.num, Sexp.ofNat q.den]

def rat? : Sexp → Option Rat
  | .list [.atom "q", n, d] => do
    let n ← n.asInt?
    let d ← d.asNat?
    if d = 0 then none else some (mkRat n d)
  | _ => none

def entryS : Entry → Sexp
  | .num q => ratS q
  | .sym s => .atom s

def entry? : Sexp → Option Entry
  | .atom s => some (.sym s)
  | x => (rat? x).map .num

def strs? (x : Sexp) : Option (List String) := do (← x.asList?).mapM Sexp.asAtom?
def entries? (x : Sexp) : Option (List Entry) := do (← x.asList?).mapM entry?
def matrix? (x : Sexp) : Option (List (List Entry)) := do (← x.asList?).mapM entries?
def rats? (x : Sexp) : Option (List Rat) := do (← x.asList?).mapM rat?
def ratMatrix? (x : Sexp) : Option (List (List Rat)) := do (← x.asList?).mapM rats?

def dist? : Sexp → Option (Dist Entry)
  | .list [ns, .atom lv, j, m, v] => do
    some ⟨← strs? ns, lv, ← j.asBool?, ← entries? m, ← matrix? v⟩
  | _ => none

def rvs? (x : Sexp) : Option (RVs Entry) := do (← x.asList?).mapM dist?

def matS (M : List (List Entry)) : Sexp := .list (M.map fun r => .list (r.map entryS))
def ratMatS (M : List (List Rat)) : Sexp := .list (M.map fun r => .list (r.map ratS))

def distS (d : Dist Entry) : Sexp :=
  .list [Sexp.ofStrs d.names, .atom d.level, Sexp.ofBool d.joint, .list (d.mean.map entryS), matS d.var]

def rvsS (r : RVs Entry) : Sexp := .list (r.map distS)

def exS {β : Type} (f : β → Sexp) : Except Err β → Sexp
  | .ok x => .list [.atom "ok", f x]
  | .error k => errS k

def levels : List String := ["IIV", "IOV", "RUV"]

def fill? : Sexp → Option (Fill Entry)
  | .list [.atom "fill", e] => do some (.value (← entry? e))
  | .list [.atom "template", .atom pre, .atom mid, .atom post, pn] => do
    let pn ← strs? pn
    some (.template fun a b =>
      match pn[a]?, pn[b]? with
      | some x, some y => some (.sym (pre ++ x ++ mid ++ y ++ post))
      | _, _ => none)
  | _ => none

def pairS (p : String × Entry) : Sexp := .list [.atom p.1, entryS p.2]

def subst? (x : Sexp) : Option (List (String × Entry)) := do
  (← x.asList?).mapM fun
    | .list [.atom a, e] => do some (a, ← entry? e)
    | _ => none

/-- oracle tables keyed by the symbolic matrix -/
def psdTable? (x : Sexp) : Option (List (List (List Entry) × Bool)) := do
  (← x.asList?).mapM fun
    | .list [m, b] => do some (← matrix? m, ← b.asBool?)
    | _ => none

def nearTable? (x : Sexp) : Option (List (List (List Entry) × Option (List (List String)))) := do
  (← x.asList?).mapM fun
    | .list [m, .atom "same"] => do some (← matrix? m, none)
    | .list [m, .list rows] => do
      let rows ← rows.mapM strs?
      some (← matrix? m, some rows)
    | _ => none

def pathS : NearPath → Sexp
  | .same => .atom "same"
  | .higham => .atom "higham"
  | .bumped k => .list [.atom "bumped", Sexp.ofNat k]

def handle (req : Sexp) : Sexp :=
  match req with
  | .list [.atom "names", r] =>
    match rvs? r with
    | some r => Sexp.ofStrs (names r)
    | none => bad
  | .list [.atom "create", r] =>
    match rvs? r with
    | some r => exS rvsS (create r)
    | none => bad
  | .list [.atom "add", r, d] =>
    match rvs? r, dist? d with
    | some r, some d => exS rvsS (addDist levels r d)
    | _, _ => bad
  | .list [.atom "addrvs", r, o] =>
    match rvs? r, rvs? o with
    | some r, some o => rvsS (addRvs r o)
    | _, _ => bad
  | .list [.atom "unjoin", r, inds] =>
    match rvs? r, strs? inds with
    | some r, some inds => rvsS (unjoin r inds)
    | _, _ => bad
  | .list [.atom "getitem", r, inds] =>
    match rvs? r, strs? inds with
    | some r, some inds => rvsS (getitem r inds)
    | _, _ => bad
  | .list [.atom "cov", r] =>
    match rvs? r with
    | some r =>
      let c := calcCov r
      .list [.list (c.1.map entryS), matS c.2.1, Sexp.ofStrs c.2.2]
    | none => bad
  | .list [.atom "getcov", r, .atom a, .atom b] =>
    match rvs? r with
    | some r => exS entryS (getCov r a b)
    | none => bad
  | .list [.atom "join", r, inds, f] =>
    match rvs? r, strs? inds, fill? f with
    | some r, some inds, some f =>
      exS (fun (j : JoinResult Entry) =>
        .list [rvsS j.rvs, .list (j.named.map fun t => .list [entryS t.1, entryS t.2.1, entryS t.2.2])])
        (join r inds f)
    | _, _, _ => bad
  | .list [.atom "subs", r, s] =>
    match rvs? r, subst? s with
    | some r, some s => exS rvsS (subsE s r)
    | _, _ => bad
  | .list [.atom "varparams", r] =>
    match rvs? r with
    | some r => exS Sexp.ofStrs (varianceParameterNames r)
    | none => bad
  | .list [.atom "distget", d, idx] =>
    match dist? d, strs? idx with
    | some d, some idx => exS distS (distGetitem d idx)
    | _, _ => bad
  | .list [.atom "validate", r, tbl] =>
    match rvs? r, psdTable? tbl with
    | some r, some tbl =>
      Sexp.ofBool (validate (fun m => m) (fun m => (tbl.lookup m).getD true) r)
    | _, _ => bad
  | .list [.atom "nearestvalid", r, tbl, vals] =>
    match rvs? r, nearTable? tbl, vals.asList? with
    | some r, some tbl, some vals =>
      match vals.mapM (fun | .list [.atom k, .atom v] => some (k, v) | _ => none) with
      | some vals =>
        let near := fun (m : List (List Entry)) =>
          match tbl.lookup m with
          | some (some rows) => some (fun i j => (rows.getD i []).getD j "?")
          | _ => none
        let asg := nearestAssignments (fun m => m) near r
        exS (fun (l : List (String × String)) => .list (l.map fun p => .list [.atom p.1, .atom p.2]))
          (applyAssignments vals asg)
      | none => bad
    | _, _, _ => bad
  | .list [.atom "nearblocks", r, tbl] =>
    -- every joint block read back after the write-back of nearest_valid_parameters
    -- (`dist.variance.subs(nearest)`); "-" where no assignment wrote the parameter at that position
    match rvs? r, nearTable? tbl with
    | some r, some tbl =>
      let near := fun (m : List (List Entry)) =>
        match tbl.lookup m with
        | some (some rows) => some (fun i j => (rows.getD i []).getD j "?")
        | _ => none
      let asg := nearestAssignments (fun m => m) near r
      .list ((r.filter (·.joint)).map fun d =>
        .list ((blockAfter asg d).map fun row => .list (row.map fun v => .atom (v.getD "-"))))
    | _, _ => bad
  | .list [.atom "nearpath", answers] =>
    match answers.asList? with
    | some xs => match xs.mapM Sexp.asBool? with
      | some ans =>
        -- matrices are numbered in order of creation: A = 0, A3 = 1, each bump adds one
        let ops : NearOps Nat := ⟨fun i => ans.getD i true, fun _ => 1, fun _ a3 _ => a3 + 1⟩
        match nearest ops (ans.length + 2) 0 with
        | some (_, p) => pathS p
        | none => .list [.atom "err", .atom "fuel"]
      | none => bad
    | none => bad
  | .list [.atom "replace", hp, hr, v] =>
    -- parameters are numbered: 0 = the candidate (passed or kept), 1 = the repaired ones
    match hp.asBool?, hr.asBool?, v.asBool? with
    | some hp, some hr, some v =>
      let m : MState Nat Nat := ⟨0, 0⟩
      let res := modelReplace (fun _ _ => v) (fun _ _ => 1) m (if hp then some 0 else none) (if hr then some 0 else none)
      .atom (if res.params = 0 then "keep" else "repair")
    | _, _, _ => bad
  | .list [.atom "mcreate", v] =>
    match v.asBool? with
    | some v =>
      let res := modelCreate (fun (_ _ : Nat) => v) (fun _ _ => 1) 0 0
      .atom (if res.params = 0 then "keep" else "repair")
    | none => bad
  | .list [.atom "sdcorr", r, vals] =>
    match rvs? r, vals.asList? with
    | some r, some vs =>
      match vs.mapM (fun | .list [.atom k, q] => (rat? q).map (k, ·) | _ => none) with
      | some kv =>
        let vd : Dict := fun s => kv.lookup s
        -- exact square root of a rational whose numerator and denominator are perfect squares
        let sq : Rat → Rat := fun q => mkRat (Int.ofNat (Nat.sqrt q.num.toNat)) (Nat.sqrt q.den)
        match sdcorr sq vd r with
        | .error k => errS k
        | .ok F =>
          let inv := sdcorrInv F r
          .list [.atom "ok", .list (kv.map fun p => .list [.atom p.1, ratS ((F p.1).getD 0)]),
                 Sexp.ofBool (agree (r.flatMap (sdcorrAsg sq vd))),
                 Sexp.ofBool (kv.all fun p => inv p.1 == some p.2)]
      | none => bad
    | _, _ => bad
  | .list [.atom "triroot", n] =>
    match n.asNat? with
    | some n => Sexp.ofNat (triangularRoot n)
    | none => bad
  | .list [.atom "flat2sym", x] =>
    match rats? x with
    | some x => ratMatS (flattenedToSymmetric x)
    | none => bad
  | .list [.atom "cov2corr", v, c] =>
    match rats? v, ratMatrix? c with
    | some v, some c => ratMatS (cov2corrWith v c)
    | _, _ => bad
  | .list [.atom "corr2cov", c, sd] =>
    match ratMatrix? c, rats? sd with
    | some c, some sd => ratMatS (corr2cov c sd)
    | _, _ => bad
  | _ => bad

def main : IO Unit := runDriver (fun (_ : Unit) r => ((), handle r)) ()
