import PharmpyModel.Core.Sexp
import PharmpyModel.C06.EqHash
import PharmpyModel.Generated.EqHash
import PharmpyModel.C06.Effects
import PharmpyModel.Generated.Effects
open Pharmpy Pharmpy.C06

/-- `(a s)`, `(i id content)`, `(f id content)`, `(d (k v)…)`, `(t v…)`, `(o Cls v…)` -/
partial def valOf? : Sexp → Option Val
  | .list [.atom "a", .atom s] => some (.atom s)
  | .list [.atom "i", n, .atom c] => n.asNat?.map (fun i => .ident i c)
  | .list [.atom "f", n, .atom c] => n.asNat?.map (fun i => .frame i c)
  | .list (.atom "d" :: kvs) =>
    (kvs.mapM (fun (kv : Sexp) => match kv with
      | Sexp.list [Sexp.atom k, Sexp.atom v] => some (k, v)
      | _ => none)).map Val.dict
  | .list (.atom "t" :: xs) => (xs.mapM valOf?).map (fun vs => .tup (vs.foldr Val.cons .nil))
  | .list (.atom "o" :: .atom c :: xs) => (xs.mapM valOf?).map (fun vs => .obj c (vs.foldr Val.cons .nil))
  | _ => none

def bad : Sexp := .list [.atom "err", .atom "bad-op"]

def T := Generated.eqHashTable

def handle (req : Sexp) : Sexp :=
  match req with
  | .list [.atom "eqhash", a, b] =>
    match valOf? a, valOf? b with
    | some a, some b =>
      let ka := hashKey T a
      let kb := hashKey T b
      .list [Sexp.ofBool (eqV T a b), Sexp.ofBool (keyEqv ka kb), Sexp.ofBool (lawful T a),
             Sexp.ofBool (hashable ka), Sexp.ofBool (hashable kb)]
    | _, _ => bad
  | .list [.atom "classes"] =>
    .list (T.map (fun sp => .list [.atom sp.name, Sexp.ofBool (classOK T sp.name), Sexp.ofStrs (directBad sp),
                                   Sexp.ofStrs (sp.fields.map (·.name))]))
  | .list [.atom "effects"] =>
    .list (Generated.effects.map (fun f => .list [.atom f.name, Sexp.ofBool (Eff.check f), Sexp.ofStrs (Eff.taintedWrites f)]))
  | .list [.atom "unanalysed"] => Sexp.ofStrs Generated.unanalysed
  | _ => bad

def main : IO Unit := runDriver (fun (_ : Unit) r => ((), handle r)) ()
