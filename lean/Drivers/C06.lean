import PharmpyModel.Core.Sexp
import PharmpyModel.C06.EqHash
import PharmpyModel.Generated.EqHash
import PharmpyModel.C06.Effects
import PharmpyModel.Generated.Effects
import PharmpyModel.C06.Names
import PharmpyModel.Generated.Containers
import PharmpyModel.C06.Cache
import PharmpyModel.C06.CovInit
open Pharmpy Pharmpy.C06

/-- `(a s)`, `(i id content)`, `(f id content)`, `(d (k v)…)`, `(t v…)`, `(o Cls v…)` -/
partial def valOf? : Sexp → Option Val
  | .list [.atom "a", .atom s] => some (.atom s)
  | .list [.atom "i", n, .atom c] => n.asNat?.map (fun i => .ident i c)
  | .list [.atom "f", n, .atom c] => n.asNat?.map (fun i => .frame i c)
  | .list (.atom "d" :: kvs) =>
    (kvs.mapM (fun (kv : Sexp) => match kv with
      | Sexp.list [Sexp.atom k, Sexp.atom v] => some (k, v)
      | _ => none)).map Val.dict
  | .list (.atom "t" :: xs) => (xs.mapM valOf?).map (fun vs => .tup (vs.foldr Val.cons .nil))
  | .list (.atom "o" :: .atom c :: xs) => (xs.mapM valOf?).map (fun vs => .obj c (vs.foldr Val.cons .nil))
  | _ => none

/-- `((n1 n2 …) attrs)` -/
def itemOf? : Sexp → Option Names.Item
  | .list [.list ns, .atom a] => (ns.mapM Sexp.asAtom?).map (fun ns => ⟨ns, a⟩)
  | _ => none

def cacheOp? : Sexp → Option Cache.Op
  | .list [.atom "h"] => some .hashIt
  | .list [.atom "r", .atom k, .atom v] => some (.replaceFresh k v)
  | .list [.atom "c"] => some .copyCtor
  | _ => none

/-- an order-free stand-in for `hash(frozenset(items))` -/
def cacheH (c : Cache.Content) : Nat := c.foldl (fun acc kv => acc + (kv.1.hash.toNat % 1000003) * 31 + kv.2.hash.toNat % 1000003) 7

def rat? : Sexp → Option Rat
  | .atom s =>
    match s.splitOn "/" with
    | [n] => n.toInt?.map (fun i => (i : Rat))
    | [n, d] => do
      let n ← n.toInt?
      let d ← d.toNat?
      if d == 0 then none else pure (mkRat n d)
    | _ => none
  | _ => none

def effect? : String → Option CovInit.Effect
  | "exp" => some .exp | "lin" => some .lin | "piece_lin" => some .pieceLin | "pow" => some .pow
  | "cat" => some .cat | "cat2" => some .cat2 | "other" => some .other | _ => none

def index? : Sexp → Option (Option Nat)
  | .atom "none" => some none
  | s => s.asNat?.map some

def bad : Sexp := .list [.atom "err", .atom "bad-op"]

def T := Generated.eqHashTable

def handle (req : Sexp) : Sexp :=
  match req with
  | .list [.atom "eqhash", a, b] =>
    match valOf? a, valOf? b with
    | some a, some b =>
      let ka := hashKey T a
      let kb := hashKey T b
      .list [Sexp.ofBool (eqV T a b), Sexp.ofBool (keyEqv ka kb), Sexp.ofBool (lawful T a),
             Sexp.ofBool (hashable ka), Sexp.ofBool (hashable kb)]
    | _, _ => bad
  | .list [.atom "classes"] =>
    .list (T.map (fun sp => .list [.atom sp.name, Sexp.ofBool (classOK T sp.name), Sexp.ofStrs (directBad sp),
                                   Sexp.ofStrs (sp.fields.map (·.name))]))
  | .list [.atom "combine", .atom c, .atom m, .atom o, refl, .list self, .list other] =>
    match refl.asBool?, self.mapM itemOf?, other.mapM itemOf?,
          Generated.containerOps.find? (fun op => op.cls == c && op.method == m && op.operand == o) with
    | some r, some self, some other, some op =>
      match Names.combine op.policy r self other with
      | .ok res => .list [.atom "ok", Sexp.ofStrs (Names.namesOf res), Sexp.ofBool (Names.uniqueNames res),
                          .atom (match op.policy with | .checked => "checked" | .raw => "raw" | .byValue => "byValue")]
      | .error n => .list [.atom "err", .atom n]
    | _, _, _, none => .list [.atom "err", .atom "no-such-op"]
    | _, _, _, _ => bad
  | .list [.atom "cacheops", .list ops] =>
    match ops.mapM cacheOp? with
    | some ops =>
      let (_, out) := ops.foldl (fun (st : Cache.Obj × List Sexp) op =>
        let o := Cache.step cacheH op st.1
        (o, st.2 ++ [Sexp.list [Sexp.ofBool o.cache.isSome, Sexp.ofBool (Cache.hashOf cacheH o == cacheH o.content),
                                 Sexp.ofStrs (o.content.map (·.1))]])) (⟨[], none⟩, [])
      .list out
    | none => bad
  | .list [.atom "effects"] =>
    .list (Generated.effects.map (fun f => .list [.atom f.name, Sexp.ofBool (Eff.check f), Sexp.ofStrs (Eff.taintedWrites f)]))
  | .list [.atom "covinit", .atom e, md, mn, mx, idx] =>
    match effect? e, rat? md, rat? mn, rat? mx, index? idx with
    | some e, some md, some mn, some mx, some idx =>
      match CovInit.chooseInits e md mn mx idx with
      | .ok r => .list [.atom "ok", .atom (toString r.init10), .atom (toString r.lower4), .atom (toString r.upper4),
                        Sexp.ofBool (CovInit.initOk e md mn mx idx), Sexp.ofBool (CovInit.upperAdmitsDefault e md mn idx)]
      | .error .pieceLinMedianAtExtreme => .list [.atom "err", .atom "piece-lin-median-at-extreme"]
    | _, _, _, _, _ => bad
  | .list [.atom "unanalysed"] => Sexp.ofStrs Generated.unanalysed
  | _ => bad

def main : IO Unit := runDriver (fun (_ : Unit) r => ((), handle r)) ()
