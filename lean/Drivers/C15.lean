import PharmpyModel.Core.Sexp
import PharmpyModel.C15.Thread
import PharmpyModel.C15.Proc
import PharmpyModel.C15.Pool
import PharmpyModel.C15.Path
open Pharmpy Pharmpy.C15

def bad : Sexp := .list [.atom "err", .atom "bad-op"]

def outS : Out → String
  | .entered => "entered" | .exited => "exited" | .waitingNow => "waiting"
  | .raisedRecursive => "RecursiveDeadlockError" | .raisedWouldBlock => "WouldBlock"

def stateS (s : TL) : Sexp :=
  .list [ (match s.owner with | none => .atom "none" | some t => Sexp.ofNat t),
          Sexp.ofNat s.depth,
          .list (s.frames.map (fun f => .list [Sexp.ofNat f.1, Sexp.ofBool f.2])),
          .list (s.waiting.map (fun w => .list [Sexp.ofNat w.1, Sexp.ofNat w.2])),
          .list (s.notified.map Sexp.ofNat) ]

def ev? : Sexp → Option Ev
  | .list [.atom "shEnter", t, b, r] => do some (.shEnter (← t.asNat?) (← b.asBool?) (← r.asBool?))
  | .list [.atom "shExit", t] => do some (.shExit (← t.asNat?))
  | .list [.atom "exEnter", t, b, r] => do some (.exEnter (← t.asNat?) (← b.asBool?) (← r.asBool?))
  | .list [.atom "exWake", t, r] => do some (.exWake (← t.asNat?) (← r.asBool?))
  | .list [.atom "exExit", t] => do some (.exExit (← t.asNat?))
  | _ => none

def poutS : POut → String
  | .entered => "entered" | .exited => "exited" | .inLockf => "inLockf"
  | .raisedRecursive => "RecursiveDeadlockError" | .raisedWouldBlock => "WouldBlock"

def pev? : Sexp → Option PEv
  | .list [.atom "enter", p, t, sh, b, r] =>
    do some (.enter (← p.asNat?) (← t.asNat?) (← sh.asBool?) (← b.asBool?) (← r.asBool?))
  | .list [.atom "lockf", p, t] => do some (.lockf (← p.asNat?) (← t.asNat?))
  | .list [.atom "exit", p, t, sh] => do some (.exit (← p.asNat?) (← t.asNat?) (← sh.asBool?))
  | _ => none

def sortNats (xs : List Nat) : List Nat := (xs.toArray.qsort (· < ·)).toList

def kstateS (s : KS) (pids : List Nat) : Sexp :=
  .list [ .list (s.kernel.map (fun e => .list [Sexp.ofNat e.1, Sexp.ofBool e.2])),
          .list (pids.map (fun p =>
            let l := s.procs p
            .list [Sexp.ofNat p, Sexp.ofNats (sortNats l.sharedBy), Sexp.ofNats (sortNats l.exclBy),
                   (match l.pend with | none => .atom "none" | some pd => Sexp.ofNat pd.tid)])) ]

def poolS (s : PoolSt) : Sexp :=
  .list [ .list (s.pool.refs.map (fun e => .list [Sexp.ofNat e.1, Sexp.ofNat e.2.1, Sexp.ofNat e.2.2])),
          Sexp.ofNats s.pool.destroyed ]

structure St where
  fixed : Bool := true
  tls : List (Nat × TL) := []
  kss : List (Nat × KS) := []
  pools : List (Nat × PoolSt) := []

def St.getP (st : St) (k : Nat) : PoolSt :=
  match st.pools.find? (fun p => p.1 == k) with
  | some p => p.2
  | none => {}

def St.setP (st : St) (k : Nat) (s : PoolSt) : St :=
  { st with pools := (k, s) :: st.pools.filter (fun p => p.1 != k) }

def St.getK (st : St) (k : Nat) : KS :=
  match st.kss.find? (fun p => p.1 == k) with
  | some p => p.2
  | none => {}

def St.setK (st : St) (k : Nat) (s : KS) : St :=
  { st with kss := (k, s) :: st.kss.filter (fun p => p.1 != k) }

def St.get (st : St) (k : Nat) : TL :=
  match st.tls.find? (fun p => p.1 == k) with
  | some p => p.2
  | none => {}

def St.set (st : St) (k : Nat) (s : TL) : St :=
  { st with tls := (k, s) :: st.tls.filter (fun p => p.1 != k) }

def handle (st : St) (req : Sexp) : St × Sexp :=
  match req with
  | .list [.atom "reset", f] =>
    match f.asBool? with
    | some f => ({ fixed := f, tls := [], kss := [], pools := [] }, .atom "ok")
    | none => (st, bad)
  | .list [.atom "step", k, e] =>
    match k.asNat?, ev? e with
    | some k, some e => match step st.fixed (st.get k) e with
      | none => (st, .list [.atom "disabled"])
      | some (s', o) => (st.set k s', .list [.atom "ok", .atom (outS o), stateS s'])
    | _, _ => (st, bad)
  | .list [.atom "enabled", k, e] =>
    match k.asNat?, ev? e with
    | some k, some e => (st, Sexp.ofBool (step st.fixed (st.get k) e).isSome)
    | _, _ => (st, bad)
  | .list [.atom "pstep", k, e, pids] =>
    match k.asNat?, pev? e, pids.asList? with
    | some k, some e, some pids => match pstep (st.getK k) e with
      | none => (st, .list [.atom "disabled"])
      | some (s', o) => (st.setK k s', .list [.atom "ok", .atom (poutS o), kstateS s' (pids.filterMap Sexp.asNat?)])
    | _, _, _ => (st, bad)
  | .list [.atom "pool", pid, .atom op, t, k] =>
    match pid.asNat?, t.asNat?, k.asNat? with
    | some pid, some t, some k =>
      let ev? : Option PoolEv := if op == "enter" then some (.enter t k) else if op == "exit" then some (.exit t k) else none
      match ev? with
      | none => (st, bad)
      | some ev => match poolStep (st.getP pid) ev with
        | none => (st, .list [.atom "disabled"])
        | some s' => (st.setP pid s', .list [.atom "ok", poolS s'])
    | _, _, _ => (st, bad)
  | .list [.atom "penabled", k, e] =>
    match k.asNat?, pev? e with
    | some k, some e => (st, Sexp.ofBool (pstep (st.getK k) e).isSome)
    | _, _ => (st, bad)
  | .list [.atom "keys", .atom p] =>
    let k := pathLockKeys p
    (st, .list [.atom "ok", .atom k.threadKey, .atom k.fdKey])
  | .list [.atom "normpath", .atom p] => (st, .list [.atom "ok", .atom (normpath p)])
  | .list [.atom "state", k] =>
    match k.asNat? with
    | some k => (st, stateS (st.get k))
    | none => (st, bad)
  | _ => (st, bad)

def main : IO Unit := runDriver handle {}
