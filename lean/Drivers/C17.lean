import PharmpyModel.Core.Sexp
import PharmpyModel.C17.Sched
import PharmpyModel.C17.Scatter
open Pharmpy Pharmpy.C17 Pharmpy.C17.DiGraph

/-
  Line protocol of the C17 driver.  Every request is self-contained:

    (build  TASKS OPS)                 -> (DUMP-or-ERR per op)
    (exec   TASKS OPS b)               -> executed workflow, dask dict, result, spec value
    (call   TASKS OPS b)               -> dict of the workflow call_workflow submits
    (callexec TASKS OPS b)             -> value of the workflow call_workflow submits
    (replay TASKS OPS b (name ...))    -> value at 'results' along the given firing order
    (scatter ((key COMP) ...))         -> (((key COMP) ...) (COMP ...)) : the rewritten graph and the scattered data
                                          COMP = (keep r) | (fut n) | (obj o) | (tuple COMP ...) | (list COMP ...)

  TASKS = ((id takesCtx (SARG ...) [name]) ...)       SARG = (s "x") | ctx | (call j "a" ...) | (list ATOM ...)
  OPS   = (new b) | (newtasks b (t ...)) | (add b t none|(p ...)) | (replace b old new)
        | (insert b b2 none|(p ...)) | (freeze b2 b1) | (plus b3 b1 b2)
-/

def bad : Sexp := .list [.atom "err", .atom "bad-op"]

def nats? (x : Sexp) : Option (List Nat) :=
  match x.asList? with
  | some xs => xs.mapM Sexp.asNat?
  | none => none

def optNats? (x : Sexp) : Option (Option (List Nat)) :=
  match x with
  | .atom "none" => some none
  | _ => (nats? x).map some

def atom? : Sexp → Option Atom
  | .atom "ctx" => some .ctx
  | .list [.atom "s", .atom x] => some (.s x)
  | .list (.atom "call" :: j :: args) =>
    match j.asNat?, args.mapM Sexp.asAtom? with
    | some j, some as => some (.call j as)
    | _, _ => none
  | _ => none

def sarg? : Sexp → Option SArg
  | .list (.atom "list" :: xs) => (xs.mapM atom?).map SArg.list
  | x => (atom? x).map SArg.atom

def task? : Sexp → Option (Nat × Task)
  | .list [i, c, .list st] =>
    match i.asNat?, c.asBool?, st.mapM sarg? with
    | some i, some c, some st => some (i, ⟨i, c, st⟩)
    | _, _, _ => none
  | .list [i, c, .list st, nm] =>
    match i.asNat?, c.asBool?, st.mapM sarg?, nm.asNat? with
    | some i, some c, some st, some nm => some (i, ⟨nm, c, st⟩)
    | _, _, _, _ => none
  | _ => none

def tasks? (x : Sexp) : Option Table :=
  match x.asList? with
  | some xs => xs.mapM task?
  | none => none

abbrev Builders := List (Nat × DiGraph)

def Builders.get (bs : Builders) (b : Nat) : DiGraph :=
  match bs.find? (fun p => p.1 == b) with
  | some p => p.2
  | none => DiGraph.empty

def Builders.set (bs : Builders) (b : Nat) (g : DiGraph) : Builders :=
  (b, g) :: bs.filter (fun p => p.1 != b)

def dump (g : DiGraph) : Sexp :=
  .list [Sexp.ofNats g.nodes,
         .list (g.nodes.map (fun u => .list [Sexp.ofNat u, Sexp.ofNats (g.succOf u)])),
         .list (g.nodes.map (fun v => .list [Sexp.ofNat v, Sexp.ofNats (g.predOf v)])),
         Sexp.ofNats g.inputNodes, Sexp.ofNats g.outputNodes,
         Sexp.ofBool (decide (WF g))]

/-- One builder operation that does not touch the task table. -/
def stepOp' (bs : Builders) (op : Sexp) : Option (Builders × Sexp) :=
  match op with
  | .list [.atom "read", b] => do
    let b ← b.asNat?
    pure (bs, dump (bs.get b))
  | .list [.atom "addouts", b, t] => do
    let b ← b.asNat?
    let t ← t.asNat?
    let g := addTaskToOutputs (bs.get b) t
    pure (bs.set b g, dump g)
  | .list [.atom "new", b] => do
    let b ← b.asNat?
    pure (bs.set b DiGraph.empty, dump DiGraph.empty)
  | .list [.atom "newtasks", b, ts] => do
    let b ← b.asNat?
    let ts ← nats? ts
    let g := ts.foldl (fun g t => addTask g t none) DiGraph.empty
    pure (bs.set b g, dump g)
  | .list [.atom "add", b, t, ps] => do
    let b ← b.asNat?
    let t ← t.asNat?
    let ps ← optNats? ps
    let g := addTask (bs.get b) t ps
    pure (bs.set b g, dump g)
  | .list [.atom "replace", b, o, n] => do
    let b ← b.asNat?
    let o ← o.asNat?
    let n ← n.asNat?
    let g := replaceTask (bs.get b) o n
    pure (bs.set b g, dump g)
  | .list [.atom "insert", b, b2, ps] => do
    let b ← b.asNat?
    let b2 ← b2.asNat?
    let ps ← optNats? ps
    let (g, e) := insertWorkflow (bs.get b) (bs.get b2) ps
    match e with
    | none => pure (bs.set b g, dump g)
    | some _ => pure (bs.set b g, .list [.atom "err", .atom "ValueError", dump g])
  | .list [.atom "freeze", b2, b1] => do
    let b2 ← b2.asNat?
    let b1 ← b1.asNat?
    let g := (bs.get b1).copy
    let lit := (bs.get b1).copyLiteral
    if lit == g then pure (bs.set b2 g, dump g)
    else pure (bs.set b2 lit, .list [.atom "copy-literal-differs", dump lit])
  | .list [.atom "plus", b3, b1, b2] => do
    let b3 ← b3.asNat?
    let b1 ← b1.asNat?
    let b2 ← b2.asNat?
    let g := plus (bs.get b1) (bs.get b2)
    pure (bs.set b3 g, dump g)
  | _ => none

/-- One builder operation: new builders and the answer line item.  The task
    table only changes with `(ctx b base)` (`insert_context` on a builder creates tasks). -/
def stepOp (tb : Table) (bs : Builders) (op : Sexp) : Option (Table × Builders × Sexp) :=
  match op with
  | .list [.atom "ctx", b, base] => do
    let b ← b.asNat?
    let base ← base.asNat?
    let (st, g) := insertContext ⟨tb, base⟩ (bs.get b)
    pure (st.tb, bs.set b g, dump g)
  | _ => (stepOp' bs op).map (fun r => (tb, r.1, r.2))

def runOps (tb : Table) (ops : List Sexp) : Option (Table × Builders × List Sexp) :=
  ops.foldlM (fun (acc : Table × Builders × List Sexp) op => do
    let (tb', bs, a) ← stepOp acc.1 acc.2.1 op
    pure (tb', bs, acc.2.2 ++ [a])) (tb, [], [])

def atomS : Atom → Sexp
  | .s x => .list [.atom "s", .atom x]
  | .ctx => .atom "ctx"
  | .call j as => .list (.atom "call" :: Sexp.ofNat j :: as.map Sexp.atom)

def sargS : SArg → Sexp
  | .atom a => atomS a
  | .list xs => .list (.atom "list" :: xs.map atomS)

def keyS (d : List Entry) : Key → Sexp
  | .results => .atom "results"
  | .task i => match Entry.find d (.task i) with
    | some e => Sexp.ofNat e.task.name
    | none => .atom "?"

def entryS (d : List Entry) (e : Entry) : Sexp :=
  .list [match e.key with | .results => .atom "results" | .task _ => Sexp.ofNat e.task.name,
         Sexp.ofNat e.task.name, .list (e.task.static.map sargS), .list (e.preds.map (keyS d))]

def dictS : Except Err (List Entry) → Sexp
  | .ok d => .list (.atom "ok" :: d.map (entryS d))
  | .error _ => .list [.atom "err", .atom "ValueError"]

def nextId (tb : Table) : Nat := (tb.map (·.1)).foldl max 0 + 1000

def nameToKey (d : List Entry) (n : Nat) : Option Key :=
  (d.find? (fun e => e.task.name == n)).map (·.key)

/-- Task table and builders after the operations of a request. -/
def prep (ts : Sexp) (ops : List Sexp) : Option (Table × Builders) :=
  match tasks? ts with
  | some tb => (runOps tb ops).map (fun r => (r.1, r.2.1))
  | none => none

partial def comp? : Sexp → Option Comp
  | .list [.atom "keep", .atom r] => some (.keep r)
  | .list [.atom "fut", n] => n.asNat?.map Comp.fut
  | .list [.atom "obj", .atom o] => some (.obj o)
  | .list (.atom "tuple" :: xs) => (xs.mapM comp?).map Comp.tuple
  | .list (.atom "list" :: xs) => (xs.mapM comp?).map Comp.list
  | _ => none

partial def compS : Comp → Sexp
  | .keep r => .list [.atom "keep", .atom r]
  | .fut n => .list [.atom "fut", Sexp.ofNat n]
  | .obj o => .list [.atom "obj", .atom o]
  | .tuple xs => .list (.atom "tuple" :: xs.map compS)
  | .list xs => .list (.atom "list" :: xs.map compS)

def entry? : Sexp → Option (String × Comp)
  | .list [.atom k, c] => (comp? c).map (fun c => (k, c))
  | _ => none

def handle (req : Sexp) : Sexp :=
  match req with
  | .list [.atom "scatter", .list es] =>
    match es.mapM entry? with
    | some g =>
      let r := scatterGraph g []
      .list [.list (r.1.map (fun p => .list [.atom p.1, compS p.2])), .list (r.2.map (fun o => .list [.atom "obj", .atom o]))]
    | none => bad
  | .list [.atom "build", ts, .list ops] =>
    match tasks? ts with
    | some tb => match runOps tb ops with
      | some (_, _, out) => .list out
      | none => bad
    | none => bad
  | .list [.atom "exec", ts, .list ops, b] =>
    match prep ts ops, b.asNat? with
    | some (tb, bs), some b =>
      let g := bs.get b
      let (st, g') := executedWorkflow ⟨tb, nextId tb⟩ g
      let names := g'.nodes.map (fun t => (st.tb.get t).name)
      let predsS := g'.nodes.map (fun t =>
        Sexp.list [Sexp.ofNat (st.tb.get t).name, Sexp.ofNats ((g'.predOf t).map (fun p => (st.tb.get p).name))])
      let dd := asDaskDict st.tb g'
      let (res, order, spec, haz) : Sexp × Sexp × Sexp × Bool := match dd with
        | .ok d =>
          let (r, ord) := daskGet d
          ((match r with
            | .ok v => .list [.atom "ok", .atom v]
            | .error _ => .list [.atom "err", .atom "RuntimeError"]),
           .list (ord.map (keyS d)),
           (match specDict tb g with
            | .ok sd => (match topoEval sd with | some v => .list [.atom "ok", .atom v] | none => .atom "none")
            | .error _ => .atom "none"),
           d.any (fun e => e.task.static.any SArg.hazard))
        | .error _ => (.list [.atom "err", .atom "ValueError"], .list [], .atom "none", false)
      .list [Sexp.ofNats names, .list predsS, dictS dd, res, order, spec, Sexp.ofBool haz]
    | _, _ => bad
  | .list [.atom "call", ts, .list ops, b] =>
    match prep ts ops, b.asNat? with
    | some (tb, bs), some b =>
      let (st, g') := calledWorkflow ⟨tb, nextId tb⟩ (bs.get b)
      dictS (asDaskDict st.tb g')
    | _, _ => bad
  | .list [.atom "callexec", ts, .list ops, b] =>
    match prep ts ops, b.asNat? with
    | some (tb, bs), some b =>
      let (st, g') := calledWorkflow ⟨tb, nextId tb⟩ (bs.get b)
      match asDaskDict st.tb g' with
      | .ok d => match (daskGet d).1 with
        | .ok v => .list [.atom "ok", .atom v]
        | .error _ => .list [.atom "err", .atom "RuntimeError"]
      | .error _ => .list [.atom "err", .atom "ValueError"]
    | _, _ => bad
  | .list [.atom "replay", ts, .list ops, b, ord] =>
    match prep ts ops, b.asNat?, nats? ord with
    | some (tb, bs), some b, some ord =>
      let (st, g') := executedWorkflow ⟨tb, nextId tb⟩ (bs.get b)
      match asDaskDict st.tb g' with
      | .ok d =>
        match replayNames d ord with
        | some v => .list [.atom "ok", .atom v]
        | none => .atom "inadmissible"
      | .error _ => .list [.atom "err", .atom "ValueError"]
    | _, _, _ => bad
  | _ => bad

def main : IO Unit := runDriver (fun (_ : Unit) r => ((), handle r)) ()
