import PharmpyModel.Core.Sexp
import PharmpyModel.C17.Sched
open Pharmpy Pharmpy.C17 Pharmpy.C17.DiGraph

/-
  Line protocol of the C17 driver.  Every request is self-contained:

    (build  TASKS OPS)                 -> (DUMP-or-ERR per op)
    (exec   TASKS OPS b)               -> executed workflow, dask dict, result, spec value
    (call   TASKS OPS b)               -> dict of the workflow call_workflow submits
    (replay TASKS OPS b (name ...))    -> value at 'results' along the given firing order

  TASKS = ((id takesCtx (SARG ...)) ...)       SARG = (s "x") | ctx | (call j "a" ...) | (list ATOM ...)
  OPS   = (new b) | (newtasks b (t ...)) | (add b t none|(p ...)) | (replace b old new)
        | (insert b b2 none|(p ...)) | (freeze b2 b1) | (plus b3 b1 b2)
-/

def bad : Sexp := .list [.atom "err", .atom "bad-op"]

def nats? (x : Sexp) : Option (List Nat) :=
  match x.asList? with
  | some xs => xs.mapM Sexp.asNat?
  | none => none

def optNats? (x : Sexp) : Option (Option (List Nat)) :=
  match x with
  | .atom "none" => some none
  | _ => (nats? x).map some

def atom? : Sexp → Option Atom
  | .atom "ctx" => some .ctx
  | .list [.atom "s", .atom x] => some (.s x)
  | .list (.atom "call" :: j :: args) =>
    match j.asNat?, args.mapM Sexp.asAtom? with
    | some j, some as => some (.call j as)
    | _, _ => none
  | _ => none

def sarg? : Sexp → Option SArg
  | .list (.atom "list" :: xs) => (xs.mapM atom?).map SArg.list
  | x => (atom? x).map SArg.atom

def task? : Sexp → Option (Nat × Task)
  | .list [i, c, .list st] =>
    match i.asNat?, c.asBool?, st.mapM sarg? with
    | some i, some c, some st => some (i, ⟨i, c, st⟩)
    | _, _, _ => none
  | _ => none

def tasks? (x : Sexp) : Option Table :=
  match x.asList? with
  | some xs => xs.mapM task?
  | none => none

abbrev Builders := List (Nat × DiGraph)

def Builders.get (bs : Builders) (b : Nat) : DiGraph :=
  match bs.find? (fun p => p.1 == b) with
  | some p => p.2
  | none => DiGraph.empty

def Builders.set (bs : Builders) (b : Nat) (g : DiGraph) : Builders :=
  (b, g) :: bs.filter (fun p => p.1 != b)

def dump (g : DiGraph) : Sexp :=
  .list [Sexp.ofNats g.nodes,
         .list (g.nodes.map (fun u => .list [Sexp.ofNat u, Sexp.ofNats (g.succOf u)])),
         .list (g.nodes.map (fun v => .list [Sexp.ofNat v, Sexp.ofNats (g.predOf v)])),
         Sexp.ofNats g.inputNodes, Sexp.ofNats g.outputNodes,
         Sexp.ofBool (decide (WF g))]

/-- One builder operation: new builders and the answer line item. -/
def stepOp (bs : Builders) (op : Sexp) : Option (Builders × Sexp) :=
  match op with
  | .list [.atom "new", b] => do
    let b ← b.asNat?
    pure (bs.set b DiGraph.empty, dump DiGraph.empty)
  | .list [.atom "newtasks", b, ts] => do
    let b ← b.asNat?
    let ts ← nats? ts
    let g := ts.foldl (fun g t => addTask g t none) DiGraph.empty
    pure (bs.set b g, dump g)
  | .list [.atom "add", b, t, ps] => do
    let b ← b.asNat?
    let t ← t.asNat?
    let ps ← optNats? ps
    let g := addTask (bs.get b) t ps
    pure (bs.set b g, dump g)
  | .list [.atom "replace", b, o, n] => do
    let b ← b.asNat?
    let o ← o.asNat?
    let n ← n.asNat?
    let g := replaceTask (bs.get b) o n
    pure (bs.set b g, dump g)
  | .list [.atom "insert", b, b2, ps] => do
    let b ← b.asNat?
    let b2 ← b2.asNat?
    let ps ← optNats? ps
    let (g, e) := insertWorkflow (bs.get b) (bs.get b2) ps
    match e with
    | none => pure (bs.set b g, dump g)
    | some _ => pure (bs.set b g, .list [.atom "err", .atom "ValueError", dump g])
  | .list [.atom "freeze", b2, b1] => do
    let b2 ← b2.asNat?
    let b1 ← b1.asNat?
    let g := (bs.get b1).copy
    let lit := (bs.get b1).copyLiteral
    if lit == g then pure (bs.set b2 g, dump g)
    else pure (bs.set b2 lit, .list [.atom "copy-literal-differs", dump lit])
  | .list [.atom "plus", b3, b1, b2] => do
    let b3 ← b3.asNat?
    let b1 ← b1.asNat?
    let b2 ← b2.asNat?
    let g := plus (bs.get b1) (bs.get b2)
    pure (bs.set b3 g, dump g)
  | _ => none

def runOps (ops : List Sexp) : Option (Builders × List Sexp) :=
  ops.foldlM (fun (acc : Builders × List Sexp) op => do
    let (bs, a) ← stepOp acc.1 op
    pure (bs, acc.2 ++ [a])) ([], [])

def atomS : Atom → Sexp
  | .s x => .list [.atom "s", .atom x]
  | .ctx => .atom "ctx"
  | .call j as => .list (.atom "call" :: Sexp.ofNat j :: as.map Sexp.atom)

def sargS : SArg → Sexp
  | .atom a => atomS a
  | .list xs => .list (.atom "list" :: xs.map atomS)

def keyS (d : List Entry) : Key → Sexp
  | .results => .atom "results"
  | .task i => match Entry.find d (.task i) with
    | some e => Sexp.ofNat e.task.name
    | none => .atom "?"

def entryS (d : List Entry) (e : Entry) : Sexp :=
  .list [match e.key with | .results => .atom "results" | .task _ => Sexp.ofNat e.task.name,
         Sexp.ofNat e.task.name, .list (e.task.static.map sargS), .list (e.preds.map (keyS d))]

def dictS : Except Err (List Entry) → Sexp
  | .ok d => .list (.atom "ok" :: d.map (entryS d))
  | .error _ => .list [.atom "err", .atom "ValueError"]

def nextId (tb : Table) : Nat := (tb.map (·.1)).foldl max 0 + 1000

def nameToKey (d : List Entry) (n : Nat) : Option Key :=
  (d.find? (fun e => e.task.name == n)).map (·.key)

def handle (req : Sexp) : Sexp :=
  match req with
  | .list [.atom "build", ts, .list ops] =>
    match tasks? ts, runOps ops with
    | some _, some (_, out) => .list out
    | _, _ => bad
  | .list [.atom "exec", ts, .list ops, b] =>
    match tasks? ts, runOps ops, b.asNat? with
    | some tb, some (bs, _), some b =>
      let g := bs.get b
      let (st, g') := executedWorkflow ⟨tb, nextId tb⟩ g
      let names := g'.nodes.map (fun t => (st.tb.get t).name)
      let predsS := g'.nodes.map (fun t =>
        Sexp.list [Sexp.ofNat (st.tb.get t).name, Sexp.ofNats ((g'.predOf t).map (fun p => (st.tb.get p).name))])
      let dd := asDaskDict st.tb g'
      let (res, order, spec, haz) : Sexp × Sexp × Sexp × Bool := match dd with
        | .ok d =>
          let (r, ord) := daskGet d
          ((match r with
            | .ok v => .list [.atom "ok", .atom v]
            | .error _ => .list [.atom "err", .atom "RuntimeError"]),
           .list (ord.map (keyS d)),
           (match specDict tb g with
            | .ok sd => (match topoEval sd with | some v => .list [.atom "ok", .atom v] | none => .atom "none")
            | .error _ => .atom "none"),
           d.any (fun e => e.task.static.any SArg.hazard))
        | .error _ => (.list [.atom "err", .atom "ValueError"], .list [], .atom "none", false)
      .list [Sexp.ofNats names, .list predsS, dictS dd, res, order, spec, Sexp.ofBool haz]
    | _, _, _ => bad
  | .list [.atom "call", ts, .list ops, b] =>
    match tasks? ts, runOps ops, b.asNat? with
    | some tb, some (bs, _), some b =>
      let (st, g') := calledWorkflow ⟨tb, nextId tb⟩ (bs.get b)
      dictS (asDaskDict st.tb g')
    | _, _, _ => bad
  | .list [.atom "replay", ts, .list ops, b, ord] =>
    match tasks? ts, runOps ops, b.asNat?, nats? ord with
    | some tb, some (bs, _), some b, some ord =>
      let (st, g') := executedWorkflow ⟨tb, nextId tb⟩ (bs.get b)
      match asDaskDict st.tb g' with
      | .ok d =>
        match ord.mapM (nameToKey d) with
        | some ks => match replay d ks with
          | some v => .list [.atom "ok", .atom v]
          | none => .atom "inadmissible"
        | none => .atom "unknown-task"
      | .error _ => .list [.atom "err", .atom "ValueError"]
    | _, _, _, _ => bad
  | _ => bad

def main : IO Unit := runDriver (fun (_ : Unit) r => ((), handle r)) ()
