import PharmpyProofs.C03.RecordLemmas
/-
  C03 — "after a modification every comment or verbatim line that does not express the modified
  component is preserved exactly and in order", for `CodeRecord.update_statements` over edit
  chains.  Property theorems only; the record model is C02's (`PharmpyModel/C02/Record.lean`).
-/
set_option linter.unusedSectionVars false
namespace Pharmpy.C03
open Pharmpy.C02

section
variable {σ ν : Type}

/-- **One update keeps every non-statement node** (standalone comment lines, verbatim lines,
    blank lines), exactly and in order, and re-establishes the representation invariant:
    for every record satisfying `RecInv`, every printer `gen`, every old / new statement list
    (the diff is the LCS diff `update_statements` computes). -/
theorem update_statements_preserves_nonstatement_nodes [DecidableEq σ] (gen : σ → List ν)
    (old : List ν) (index : List Idx) (fallback : Nat) (oldS newS : List σ) (ch : List ν) (ix : List Idx)
    (hinv : RecInv old index oldS.length)
    (hu : updateStatements gen old index fallback (diff oldS newS) = some (ch, ix)) :
    nonStmtNodes ch ix = nonStmtNodes old index ∧ RecInv ch ix newS.length := by
  obtain ⟨hwf, hneed⟩ := hinv
  cases hg : indexDiff (firstStatementIndex index fallback) index none (diff oldS newS) with
  | none => simp [updateStatements, hg] at hu
  | some gs =>
    obtain ⟨hs, hwf', _⟩ := update_statements_frame (fun _ _ => True) gen old index fallback oldS newS
      oldS.length gs ch ix hwf hg hu (fun _ => trivial) (fun _ _ _ => trivial)
    have hb : GroupsInBounds old gs := by
      intro g hgm h0
      rcases index_diff_spans _ _ _ _ _ hg g hgm h0 with ⟨e, hem, _, h2⟩ | ⟨p, hp, _⟩
      · rw [h2]; exact indexWF_bound index 0 0 _ _ hwf e hem
      · cases hp
    rw [update_statements_eq_pieces gen old index fallback _ gs hg hb] at hu
    cases hu
    refine ⟨?_, hwf', ?_⟩
    · -- gaps
      have h1 := gapsFrom_pieces (piecesOfGroups gen old 0 gs) ([] : List ν) 0
      simp only [List.nil_append, List.length_nil] at h1
      unfold nonStmtNodes
      rw [h1, gapNodes_piecesOfGroups]
      have hord : Ord (firstStatementIndex index fallback) index := by
        cases index with
        | nil => trivial
        | cons e es =>
          obtain ⟨ni, nj, s0, s1⟩ := e
          obtain ⟨_, h2, _, _, h5⟩ := hwf
          exact ⟨Nat.le_refl _, h2, ord_of_wf es nj s1 _ _ h5⟩
      exact (indexDiff_gaps old (diff oldS newS)).1 _ index gs 0 hg (Nat.zero_le _) hord
        (by rw [lcs_diff_old]; exact hneed.symm)
    · -- the new index accounts for exactly the new statements
      rw [need_indexFrom, stmtsOf_piecesOfGroups, hs]
      intro ns ss hm
      rcases block_mem_piecesOfGroups gen old gs 0 ns ss hm with ⟨s, _, rfl⟩ | ⟨g, hgm, h0, _, rfl⟩
      · simp
      · exact indexDiff_kept_nonempty _ _ _ _ _ hg g hgm h0

/-- **Edit chains**: over any number of `update_statements` calls, each working on the record the
    previous call produced, the non-statement nodes of the record are exactly preserved, in order
    (induction over the chain, carried by the representation invariant). -/
theorem update_chain_preserves_nonstatement_nodes [DecidableEq σ] (gen : σ → List ν) :
    ∀ (chain : List (Nat × List σ)) (ch : List ν) (ix : List Idx) (ss : List σ)
      (ch' : List ν) (ix' : List Idx) (ss' : List σ),
      RecInv ch ix ss.length → runChain gen ch ix ss chain = some (ch', ix', ss') →
      nonStmtNodes ch' ix' = nonStmtNodes ch ix ∧ RecInv ch' ix' ss'.length := by
  intro chain
  induction chain with
  | nil =>
    intro ch ix ss ch' ix' ss' hinv h
    simp only [runChain, Option.some.injEq, Prod.mk.injEq] at h
    obtain ⟨rfl, rfl, rfl⟩ := h
    exact ⟨rfl, hinv⟩
  | cons st rest ih =>
    intro ch ix ss ch' ix' ss' hinv h
    obtain ⟨fb, newS⟩ := st
    simp only [runChain] at h
    cases hu : updateStatements gen ch ix fb (diff ss newS) with
    | none => simp [hu] at h
    | some r =>
      obtain ⟨c1, i1⟩ := r
      simp only [hu] at h
      obtain ⟨hg1, hinv1⟩ := update_statements_preserves_nonstatement_nodes gen ch ix fb ss newS c1 i1 hinv hu
      obtain ⟨hg2, hinv2⟩ := ih c1 i1 newS ch' ix' ss' hinv1 h
      exact ⟨hg2.trans hg1, hinv2⟩

/-- The decidable check the driver evaluates on every observed record implies the invariant. -/
theorem recInvB_sound (ch : List ν) (index : List Idx) (nS : Nat) (h : recInvB ch index nS = true) :
    RecInv ch index nS := by
  unfold recInvB at h
  simp only [Bool.and_eq_true, decide_eq_true_eq, beq_iff_eq] at h
  obtain ⟨⟨⟨h1, h2⟩, h3⟩, h4⟩ := h
  refine ⟨?_, h4⟩
  have key : ∀ (ix : List Idx) (off si : Nat), indexOrdered off si ix = true →
      (lastOf off si ix).1 ≤ ch.length → (lastOf off si ix).2 = nS → IndexWF off si ch.length nS ix := by
    intro ix
    induction ix with
    | nil => intro off si _ h2 h3; exact ⟨h2, h3⟩
    | cons e es ih =>
      intro off si ho h2 h3
      obtain ⟨ni, nj, s0, s1⟩ := e
      simp only [indexOrdered, Bool.and_eq_true, decide_eq_true_eq, beq_iff_eq] at ho
      obtain ⟨⟨⟨⟨a, b⟩, c⟩, d⟩, e'⟩ := ho
      exact ⟨a, b, c, d, ih nj s1 e' h2 h3⟩
  exact key index 0 0 h1 h2 h3

end

-- non-vacuity: a record with a comment node (100) before and a verbatim node (200) between statements;
-- two consecutive edits; the non-statement nodes stay [100, 200, 300]
example : recInvB [100, 1, 200, 2, 300] [(1, 2, 0, 1), (3, 4, 1, 2)] 2 = true := by decide
example : (runChain exGen [100, 1, 200, 2, 300] [(1, 2, 0, 1), (3, 4, 1, 2)] [1, 2] [(5, [1, 3]), (6, [4, 3])]).map
      (fun r => (r.1, r.2.1)) =
    some (([100, 40, 41, 42, 43, 200, 30, 31, 32, 300] : List Nat), ([(1, 5, 0, 1), (6, 9, 1, 2)] : List Idx)) := by
  decide +kernel
example : nonStmtNodes [100, 40, 41, 42, 43, 200, 30, 31, 32, 300] [(1, 5, 0, 1), (6, 9, 1, 2)] = [100, 200, 300] := by decide
/-- With the index shifted onto the node in front of the statement (what taking `insert_pos`
    before the interleaved nodes are copied produces) the next edit deletes the verbatim node 200
    and leaves the stale statement nodes: the invariant is what excludes it. -/
theorem shifted_index_loses_node_witness :
    recInvB [100, 1, 200, 30, 31, 32, 300] [(1, 2, 0, 1), (2, 5, 1, 2)] 2 = true ∧
    (updateStatements exGen [100, 1, 200, 30, 31, 32, 300] [(1, 2, 0, 1), (2, 5, 1, 2)] 7 (diff [1, 3] [1, 2])).map
        (fun r => nonStmtNodes r.1 r.2) = some [100, 32, 300] := by
  decide +kernel

end Pharmpy.C03
