import PharmpyModel.C03.OptionRecord
import PharmpyProofs.C03.OptionLemmas
/-
  C03 — `OptionRecord.append_option_node`: the appended option is placed directly after the
  last significant item, nothing else is touched, and every comment stays terminated by its
  line break (so the comment text read back is unchanged and the option is not swallowed).
-/
namespace Pharmpy.C03

/-- **Frame of `append_option_node`**: the old children are kept exactly and in order, except that a
    trailing `WS` token may be dropped; the separator and the new node are inserted at one place,
    directly after the last item that is not a blank / line break (or in front when there is none);
    the separator is a `NEWLINE` exactly when that item is not an option (e.g. a comment). -/
theorem append_option_frame (cs : List Child) (node : Child) (out : List Child)
    (h : appendOptionNode cs node = some out) :
    ∃ a b t sep, cs = a ++ b ++ t ∧ out = a ++ sep :: node :: b ∧
      (∀ c ∈ b ++ t, c.isBlank = true) ∧ (t = [] ∨ ∃ w, t = [w] ∧ w.rule = "WS") ∧
      ((a = [] ∧ sep = sepWS) ∨
        ∃ a' x, a = a' ++ [x] ∧ x.isBlank = false ∧ sep = if x.rule == "option" then sepWS else sepNL) := by
  unfold appendOptionNode appendOptionArgs at h
  cases hl : cs.getLast? with
  | none => simp [hl] at h
  | some l =>
    simp only [hl, Option.map_some, Option.some.injEq] at h
    obtain ⟨bl, rest, e, hb, hlen, hs⟩ := scanRev_spec cs.reverse
    have ecs : cs = rest.reverse ++ bl.reverse := by
      have := congrArg List.reverse e
      simpa using this
    have hsep : (rest.reverse = [] ∧ (scanRev cs.reverse).2 = sepWS) ∨
        ∃ a' x, rest.reverse = a' ++ [x] ∧ x.isBlank = false ∧
          (scanRev cs.reverse).2 = if x.rule == "option" then sepWS else sepNL := by
      rcases hs with ⟨hr, hs⟩ | ⟨x, xs, hr, hx, hs⟩
      · exact Or.inl ⟨by simp [hr], hs⟩
      · exact Or.inr ⟨xs.reverse, x, by simp [hr], hx, hs⟩
    have hB : ∀ c ∈ bl.reverse, c.isBlank = true := fun c hc => hb c (List.mem_reverse.mp hc)
    have htake : cs.take (scanRev cs.reverse).1 = rest.reverse := by
      rw [hlen, ecs]; simp
    have hdrop : cs.drop (scanRev cs.reverse).1 = bl.reverse := by
      rw [hlen, ecs]; simp
    have hn : cs.length = rest.length + bl.length := by rw [ecs]; simp
    rw [htake, hdrop] at h
    by_cases hw : (l.rule == "WS") = true
    · -- the last child is a WS token: it is dropped
      rcases List.eq_nil_or_concat bl.reverse with hnil | ⟨B', w, hB'⟩
      · -- impossible: the last child would be the non-blank item (or the list empty)
        exfalso
        rw [hnil, List.append_nil] at ecs
        rcases hsep with ⟨hr, _⟩ | ⟨a', x, hr, hx, _⟩
        · rw [hr] at ecs; simp [ecs] at hl
        · rw [hr] at ecs
          have : l = x := by rw [ecs] at hl; simpa using hl.symm
          have hw' : l.rule = "WS" := by simpa using hw
          rw [this] at hw'
          simp [Child.isBlank, hw'] at hx
      · have hlw : l = w := by
          rw [ecs, hB'] at hl
          simpa [List.getLast?_append, List.getLast?_concat] using hl.symm
        refine ⟨rest.reverse, B', [w], (scanRev cs.reverse).2, ?_, ?_, ?_, Or.inr ⟨w, rfl, ?_⟩, hsep⟩
        · rw [ecs, hB']; simp
        · rw [← h, hB']
          have : (if (l.rule == "WS") = true then cs.length - 1 else cs.length) - (scanRev cs.reverse).1 = B'.length := by
            have hbl : bl.length = B'.length + 1 := by
              have := congrArg List.length hB'; simpa using this
            rw [if_pos hw, hlen, hn, hbl]; omega
          rw [this]; simp
        · intro c hc
          apply hB; rw [hB']; simpa using hc
        · rw [← hlw]; simpa using hw
    · refine ⟨rest.reverse, bl.reverse, [], (scanRev cs.reverse).2, by rw [ecs]; simp, ?_, by simpa using hB, Or.inl rfl, hsep⟩
      rw [← h]
      have : (if (l.rule == "WS") = true then cs.length - 1 else cs.length) - (scanRev cs.reverse).1 = bl.reverse.length := by
        rw [if_neg hw, hlen, hn]; simp
      rw [this, List.take_length]; simp


/-- **Comments stay terminated**: if every `COMMENT` token of the record is the last child or is
    directly followed by a `NEWLINE` token (what the parser delivers: a comment runs to the end of its
    line), the same holds after `append_option_node` of an option node — the option never lands on
    the line of a comment, so no comment text is altered and the option is not swallowed by one. -/
theorem append_option_comments_terminated (cs : List Child) (node : Child) (out : List Child)
    (hnode : node.rule = "option") (hc : commentsOk cs = true)
    (h : appendOptionNode cs node = some out) : commentsOk out = true := by
  obtain ⟨a, b, t, sep, ecs, eout, hbl, _, hsep⟩ := append_option_frame cs node out h
  -- blanks carry no comment
  have hblank : ∀ l : List Child, (∀ c ∈ l, c.isBlank = true) → ∀ y : Child, y.rule ≠ "COMMENT" → commentsOk (y :: l) = true := by
    intro l
    induction l with
    | nil => intro _ y _; simp [commentsOk]
    | cons d l ih =>
      intro hl y hy
      have hd : d.isBlank = true := hl d (by simp)
      have hd' : d.rule ≠ "COMMENT" := by
        intro hd2; simp [Child.isBlank, hd2] at hd
      simp only [commentsOk, Bool.and_eq_true, Bool.or_eq_true, bne_iff_ne, ne_eq]
      exact ⟨Or.inl hy, ih (fun c hc => hl c (List.mem_cons_of_mem _ hc)) d hd'⟩
  have hb : ∀ c ∈ b, c.isBlank = true := fun c hc => hbl c (List.mem_append_left _ hc)
  have hnb : commentsOk (node :: b) = true := hblank b hb node (by rw [hnode]; decide)
  subst eout
  rcases hsep with ⟨ha, hs⟩ | ⟨a', x, ha, hx, hs⟩
  · subst ha; subst hs
    have : commentsOk (sepWS :: node :: b) = true := by
      simp only [commentsOk, Bool.and_eq_true, Bool.or_eq_true]
      exact ⟨Or.inl (by decide), hnb⟩
    simpa using this
  · subst ha
    -- the old prefix a' ++ [x] is fine
    have hax : commentsOk (a' ++ [x]) = true := by
      rw [ecs, List.append_assoc, List.append_assoc] at hc
      change commentsOk (a' ++ x :: ([] ++ (b ++ t))) = true at hc
      rw [commentsOk_append] at hc
      exact (Bool.and_eq_true _ _ ▸ hc).1
    have hgoal : commentsOk (a' ++ x :: sep :: node :: b) = true := by
      rw [commentsOk_append, hax, Bool.true_and]
      have hsn : commentsOk (sep :: node :: b) = true := by
        have : sep.rule ≠ "COMMENT" := by
          rw [hs]; split <;> decide
        simp only [commentsOk, Bool.and_eq_true, Bool.or_eq_true, bne_iff_ne, ne_eq]
        exact ⟨Or.inl this, hnb⟩
      by_cases hxo : (x.rule == "option") = true
      · have hxr : x.rule = "option" := by simpa using hxo
        simp only [commentsOk, Bool.and_eq_true, Bool.or_eq_true, bne_iff_ne, ne_eq]
        exact ⟨Or.inl (by rw [hxr]; decide), by simpa [commentsOk] using hsn⟩
      · have hsnl : sep = sepNL := by rw [hs, if_neg hxo]
        simp only [commentsOk, Bool.and_eq_true, Bool.or_eq_true]
        exact ⟨Or.inr (by rw [hsnl]; decide), by simpa [commentsOk] using hsn⟩
    simpa using hgoal

/-- Why the separator after a comment must be a line break: a blank there (the option on the
    comment's own line) breaks the termination of the comment although the old children are all kept. -/
theorem blank_after_comment_witness :
    commentsOk [⟨"option", 0⟩, ⟨"WS", 1⟩, ⟨"COMMENT", 2⟩, ⟨"NEWLINE", 3⟩] = true ∧
    commentsOk [⟨"option", 0⟩, ⟨"WS", 1⟩, ⟨"COMMENT", 2⟩, sepWS, ⟨"option", 1000000⟩, ⟨"NEWLINE", 3⟩] = false ∧
    appendOptionNode [⟨"option", 0⟩, ⟨"WS", 1⟩, ⟨"COMMENT", 2⟩, ⟨"NEWLINE", 3⟩] ⟨"option", 1000000⟩ =
      some [⟨"option", 0⟩, ⟨"WS", 1⟩, ⟨"COMMENT", 2⟩, sepNL, ⟨"option", 1000000⟩, ⟨"NEWLINE", 3⟩] := by
  decide

-- non-vacuity: a record ending in comment lines and a trailing blank; an empty root is refused
example : appendOptionNode [⟨"WS", 0⟩, ⟨"option", 1⟩, ⟨"WS", 2⟩, ⟨"COMMENT", 3⟩, ⟨"NEWLINE", 4⟩, ⟨"WS", 5⟩] ⟨"option", 9⟩ =
    some [⟨"WS", 0⟩, ⟨"option", 1⟩, ⟨"WS", 2⟩, ⟨"COMMENT", 3⟩, sepNL, ⟨"option", 9⟩, ⟨"NEWLINE", 4⟩] := by decide
example : appendOptionNode [⟨"WS", 0⟩, ⟨"option", 1⟩, ⟨"NEWLINE", 2⟩] ⟨"option", 9⟩ =
    some [⟨"WS", 0⟩, ⟨"option", 1⟩, sepWS, ⟨"option", 9⟩, ⟨"NEWLINE", 2⟩] := by decide
example : appendOptionNode [] ⟨"option", 9⟩ = none := by decide

end Pharmpy.C03
