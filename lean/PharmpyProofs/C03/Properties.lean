import PharmpyProofs.C03.Lemmas
/-
  C03 — Control streams round-trip losslessly; edits touch only what changed.
  Property theorems only.  Strings are `List Char`; every theorem quantifies
  over all strings / all trees / all record lists (no length or depth bound).
-/
namespace Pharmpy.C03

/-! ## NMTranParser.parse: the record splitter -/

/-- Joining the pieces of `re.split(r'^([ \t]*\$)', T, MULTILINE)` gives back `T`. -/
theorem split_join (t : Str) : (splitRecords t).flatten = t := by
  have := splitGo_join t (some [])
  simpa [splitRecords] using this

/-- The pieces after the first alternate separator, chunk, separator, chunk …;
    every separator is blanks/tabs followed by `$` and begins at a line start of `T`. -/
theorem split_shape (t : Str) :
    ∃ first rest, splitRecords t = first :: rest ∧ sepChunks rest = true ∧
      sepsAtLineStart first rest = true := by
  refine ⟨_, _, rfl, splitGo_shape t (some []) (by intro b hb; cases hb; rfl), ?_⟩
  have := splitGo_lineStart t (some []) [] (by intro _; rfl)
  simpa using this

/-- **No record start is missed**: wherever the text has a line start followed by
    blanks/tabs and `$`, the split has a separator exactly there. -/
theorem split_complete (t u b v : Str) (h : t = u ++ b ++ '$' :: v)
    (hu : atLineStart u = true) (hb : b.all isBlank = true) :
    ∃ before after, splitRecords t = before ++ (b ++ ['$']) :: after ∧
      before.length % 2 = 1 ∧ before.flatten = u := by
  subst h
  rcases List.eq_nil_or_concat u with rfl | ⟨u0, c, rfl⟩
  · refine ⟨[[]], (splitGo none v).1 :: (splitGo none v).2, ?_, rfl, rfl⟩
    have := splitGo_blank_run b [] v hb
    simp [splitRecords, this]
  · have hc : c = '\n' := by
      simp [atLineStart] at hu
      exact hu
    subst hc
    obtain ⟨before, after, hp, hlen, hfl⟩ := pieces_complete u0 (some []) b v hb
    refine ⟨before, after, ?_, hlen, by simpa using hfl⟩
    simp only [pieces] at hp
    simpa [splitRecords] using hp

/-- `split_raw_record_name`: `raw_name + content == chunk` whenever the chunk is accepted. -/
theorem raw_name_split (chunk n c : Str) (h : rawNameSplit chunk = some (n, c)) : n ++ c = chunk :=
  rawNameSplit_join chunk n c h

/-- … and the raw name is white space, `$`, a non-empty maximal run of `[A-z]`. -/
theorem raw_name_shape (chunk n c : Str) (h : rawNameSplit chunk = some (n, c)) :
    ∃ ws nm, n = ws ++ '$' :: nm ∧ ws.all isPySpace = true ∧ nm ≠ [] ∧ nm.all isAz = true ∧
      (c.head?.map isAz).getD false = false :=
  rawNameSplit_shape chunk n c h

/-- The front end of `NMTranParser.parse` is lossless: the text before the first
    record followed by `raw_name + content` of every record is the input — whatever
    the record kinds are (known, abbreviated, unknown). -/
theorem parse_front_lossless (t first : Str) (rs : List (Str × Option String × Str))
    (h : parseFront t = some (first, rs)) :
    first ++ (rs.map (fun x => x.1 ++ x.2.2)).flatten = t :=
  parseFront_join t first rs h

/-! ## get_canonical_record_name -/

/-- A resolved name is a key of `known_records`. -/
theorem canonical_name_known (raw : Str) (n : String) (h : canonicalName raw = some n) :
    n ∈ knownRecords := by
  unfold canonicalName at h
  have hk : ∀ (bare : Str) (l : List String) (n : String), firstKnown bare l = some n → n ∈ l := by
    intro bare l
    induction l with
    | nil => intro n h; simp [firstKnown] at h
    | cons m ms ih =>
      intro n h
      simp only [firstKnown] at h
      split at h
      · cases h; simp
      · exact List.mem_cons_of_mem _ (ih n h)
  dsimp only at h
  split at h
  · split at h
    · rename_i m hm; cases h; exact hk _ _ _ hm
    · repeat' split at h
      all_goals first | (cases h; decide) | cases h
  · split at h
    · cases h; decide
    · cases h

/-- The name found is the first key (dictionary order) that the upper-cased
    abbreviation prefixes. -/
theorem canonical_name_prefix (bare : Str) (l : List String) (n : String)
    (h : firstKnown bare l = some n) :
    ∃ a b, l = a ++ n :: b ∧ startsWith n.toList bare = true ∧
      ∀ m ∈ a, startsWith m.toList bare = false := by
  induction l with
  | nil => simp [firstKnown] at h
  | cons m ms ih =>
    simp only [firstKnown] at h
    split at h
    · rename_i hm; cases h; exact ⟨[], ms, rfl, hm, by simp⟩
    · rename_i hm
      obtain ⟨a, b, hl, hs, ha⟩ := ih h
      refine ⟨m :: a, b, by simp [hl], hs, ?_⟩
      intro m' hm'
      rcases List.mem_cons.mp hm' with rfl | hm'
      · simpa using hm
      · exact ha m' hm'

/-- Abbreviations of at least three letters are unambiguous on the table as it
    is: every prefix of length ≥ 3 of every known name (in either case) resolves to that name. -/
theorem canonical_name_table :
    knownRecords.all (fun n => (List.range (n.length + 1)).all (fun k =>
      k < 3 || (canonicalName ('$' :: n.toList.take k) == some n &&
                canonicalName (' ' :: '$' :: (n.toList.take k).map Char.toLower) == some n))) = true := by
  decide

example : canonicalName "  $est".toList = some "ESTIMATION" := by decide
example : canonicalName "$INFILE".toList = some "DATA" := by decide
example : canonicalName "$TH".toList = none := by decide
example : canonicalName "$FOO".toList = none := by decide

/-! ## _tokenize_ignored_characters -/

/-- Re-tokenising ignored text loses nothing: the token texts concatenate to the input. -/
theorem ignored_tokenize_lossless (s : Str) (ts : List IgnTok) (h : tokenizeIgnored s = .ok ts) :
    textsOf ts = s :=
  tokenize_lossless s ts h

/-- Every token produced is a well-formed WS / COMMENT / NEWLINE / CONT token. -/
theorem ignored_tokens_wellformed (s : Str) (ts : List IgnTok) (h : tokenizeIgnored s = .ok ts) :
    ∀ t ∈ ts, t.wf = true :=
  tokenize_wf s ts h

example : tokenizeIgnored [' ', '\t', ';', 'c', '\r', '\n', '&', 'x', '\n'] =
    .ok [⟨.ws, [' ', '\t']⟩, ⟨.comment, [';', 'c']⟩, ⟨.newline, ['\r', '\n']⟩, ⟨.cont, ['&', 'x']⟩,
         ⟨.newline, ['\n']⟩] := by
  simp [tokenizeIgnored, isWS, isLF, notLF, Except.map]
example : tokenizeIgnored ['\r', 'x'] = .error .assertion := by simp [tokenizeIgnored, isWS]

/-! ## with_ignored_tokens -/

/-- One level, kept tokens only: for ordered, positioned tokens whose texts are the source
    slices of their ranges (decidable `Covering`), the interleaved list concatenates to the
    source slice from the start of the first to the end of the last child. -/
theorem interleave_lossless (s : Str) (xs r : List Node) (a d : Nat)
    (htok : ∀ y ∈ xs, ∃ k t p, y = .tok k t p)
    (hcov : coveringList s xs = true) (hspan : spanOk xs = some (a, d))
    (h : interleave s xs = .ok r) : strList r = slice s a d := by
  cases xs with
  | nil => simp [spanOk] at hspan
  | cons x rest =>
    have hgood : ∀ y ∈ x :: rest, Good s y := by
      intro y hy
      obtain ⟨k, t, p, rfl⟩ := htok y hy
      exact covering_good_tok s k t p (coveringList_mem s _ hcov _ hy)
    obtain ⟨b, hxr, hab, hxs, hch, _⟩ := chain_of_spanOk s rest x a d hspan hgood
    exact interleave_str s x rest r a b d hxr hab hxs hch h

/-- Whole tree (any depth, any branching): if the transform returns, every node's
    string is the source slice of its range. -/
theorem interleave_tree_lossless (s : Str) (n n' : Node) (hcov : covering s n = true)
    (h : interleaveTree s n = .ok n') :
    n'.range = n.range ∧ ∃ a b, n.range = some (a, b) ∧ n'.str = slice s a b := by
  obtain ⟨hr, a, b, hab, _, _, hs⟩ := interleaveTree_good s n n' hcov h
  exact ⟨hr, a, b, hr ▸ hab, hs⟩

/-- **Lossless CST.** For every source and every lark tree satisfying `Covering`
    (what a `propagate_positions` parse with `%ignore` is trusted to deliver; checked
    on every case by the driver), if `with_ignored_tokens` returns then
    `str(tree) == source`. -/
theorem with_ignored_lossless (s : Str) (r : String) (cs : List Node) (p : Option (Nat × Nat))
    (n : Node) (hc : coveringRoot s (.tree r cs p) = true)
    (h : withIgnored s (.tree r cs p) = .ok n) : n.str = s :=
  withIgnored_str s r cs p n hc h

-- non-vacuity of `with_ignored_lossless`: a nested tree with gaps of every kind
def exSrc : Str := ['A', ' ', '=', '\t', '1', ';', 'c', '\n']
def exTree : Node :=
  .tree "root" [.tree "stmt" [.tok "NAME" ['A'] (some (0, 1)), .tok "EQ" ['='] (some (2, 3)),
    .tok "INT" ['1'] (some (4, 5))] (some (0, 5))] (some (0, 5))
example : coveringRoot exSrc exTree = true := by decide
example : (withIgnored exSrc exTree).toOption.map Node.leaves =
    some [("NAME", ['A']), ("WS", [' ']), ("EQ", ['=']), ("WS", ['\t']), ("INT", ['1']),
          ("COMMENT", [';', 'c']), ("NEWLINE", ['\n'])] := by
  simp [withIgnored, exSrc, exTree, interleaveTree, interleaveChildren, interleave, interleaveGo, gapToks, slice,
    tokenizeIgnored, Node.range, isWS, isLF, notLF, Except.map, toNodes, IgnTok.toNode, Node.leaves, leavesList,
    IgnKind.name, Except.toOption]

/-! ## NMTranControlStream.get_records: problem numbering -/

/-- `get_records` returns records of the requested name only, in stream order. -/
theorem get_records_sublist (recs : List Rec) (name : String) (p : Int) :
    (getRecords recs name p).Sublist recs ∧ ∀ r ∈ getRecords recs name p, r.name = name :=
  getRecordsGo_filter name p recs (-1)

/-- Records standing before the first `$PROBLEM` (e.g. `$SIZES`) belong to no problem:
    for every problem number ≥ 0 `get_records` behaves as if they were absent. -/
theorem get_records_ignores_pre_problem (a b : List Rec) (name : String) (p : Int) (hp : 0 ≤ p)
    (ha : ∀ r ∈ a, (r.name == "PROBLEM") = false) :
    getRecords (a ++ b) name p = getRecords b name p :=
  getRecordsGo_pre name p hp a ha b

example : getRecords [⟨"SIZES", 0⟩, ⟨"PROBLEM", 1⟩, ⟨"SIZES", 2⟩, ⟨"THETA", 3⟩, ⟨"PROBLEM", 4⟩, ⟨"THETA", 5⟩] "SIZES" 0
    = [⟨"SIZES", 2⟩] := by decide
example : getRecords [⟨"SIZES", 0⟩, ⟨"PROBLEM", 1⟩, ⟨"THETA", 3⟩, ⟨"PROBLEM", 4⟩, ⟨"THETA", 5⟩] "THETA" 1
    = [⟨"THETA", 5⟩] := by decide

/-! ## NMTranControlStream record operations: frame -/

/-- `insert_record` only adds: the result is the old tuple with the new record at one index. -/
theorem insert_record_only_adds (recs : List Rec) (r : Rec) (at_ : Option Nat) (active : Int) :
    (∃ k, insertRecord recs r at_ active = recs.take k ++ r :: recs.drop k) ∧
    recs.Sublist (insertRecord recs r at_ active) := by
  obtain ⟨k, hk⟩ := insertRecord_eq_insertAt recs r at_ active
  exact ⟨⟨k, hk⟩, hk ▸ insertAt_sublist recs k r⟩

/-- **Position of `insert_record`.** If `x` is the last record of the new record's name
    inside the active problem, the new record is put directly after `x`. -/
theorem insert_record_after_last (a b : List Rec) (x r : Rec) (active : Int)
    (hname : x.name = r.name)
    (hx : nProblems (a ++ [x]) - 1 = active)
    (hlast : ∀ (a' : List Rec) (y : Rec) (b' : List Rec), b = a' ++ y :: b' →
      ¬(nProblems (a ++ [x]) - 1 + nProblems (a' ++ [y]) = active ∧ y.name = r.name)) :
    insertRecord (a ++ x :: b) r none active = a ++ x :: r :: b := by
  unfold insertRecord
  have hsplit : a ++ x :: b = (a ++ [x]) ++ b := by simp
  have h1 : scanLast active (fun c => c.name == r.name) (a ++ x :: b) 0 (-1) none = some a.length := by
    rw [hsplit, scanLast_append, scanLast_append]
    simp only [scanLast]
    have hcur : (if x.name == "PROBLEM" then -1 + nProblems a + 1 else -1 + nProblems a)
        = nProblems (a ++ [x]) - 1 := by
      by_cases hp : (x.name == "PROBLEM") = true
      · simp [nProblems, hp, List.countP_append]; omega
      · simp [nProblems, hp, List.countP_append]; omega
    rw [hcur]
    have hhit : ((nProblems (a ++ [x]) - 1 == active) && (x.name == r.name)) = true := by
      simp [hx, hname]
    rw [hhit]
    simp only [↓reduceIte, Nat.zero_add]
    rw [scanLast_none]
    intro a' y b' hb hy
    apply hlast a' y b' hb
    refine ⟨?_, by simpa using hy.2⟩
    have := hy.1
    have h2 : -1 + nProblems (a ++ [x]) = nProblems (a ++ [x]) - 1 := by omega
    omega
  simp only [h1, Option.getD_some, insertAt]
  have hlen : a.length + 1 = (a ++ [x]).length := by simp
  rw [hsplit, hlen, List.take_left, List.drop_left]
  simp

/-- `remove_records` keeps every other record, unchanged, in order. -/
theorem remove_records_frame (recs rm : List Rec) :
    removeRecords recs rm = recs.filter (fun r => !rm.contains r) ∧
    (removeRecords recs rm).Sublist recs :=
  ⟨rfl, List.filter_sublist⟩

/-- `replace_all(name, new)`: the result is the records of the other names,
    unchanged and in order, with `new` spliced in at one place. -/
theorem replace_all_frame (recs : List Rec) (name : String) (new out : List Rec)
    (h : replaceAll recs name new = some out) :
    ∃ a b, out = a ++ new ++ b ∧ a ++ b = recs.filter (fun r => r.name != name) :=
  replaceAll_splice recs name new out h

/-- `replace_records(old, new)`: the records not in `old`, unchanged and in order,
    with `new` spliced in at one place (or nowhere if no record of `old` is present). -/
theorem replace_records_frame (recs old new : List Rec) :
    ∃ a b, (replaceRecords recs old new = a ++ new ++ b ∨ replaceRecords recs old new = a ++ b) ∧
      a ++ b = recs.filter (fun r => !old.contains r) :=
  replaceRecords_splice recs old new

-- non-vacuity
example : splitRecords "a\n $P x\n$Q".toList =
    ["a\n".toList, " $".toList, "P x\n".toList, "$".toList, "Q".toList] := by decide
example : insertRecord [⟨"PROBLEM", 0⟩, ⟨"THETA", 1⟩, ⟨"OMEGA", 2⟩] ⟨"THETA", 9⟩ none 0
    = [⟨"PROBLEM", 0⟩, ⟨"THETA", 1⟩, ⟨"THETA", 9⟩, ⟨"OMEGA", 2⟩] := by decide
example : insertRecord [⟨"PROBLEM", 0⟩, ⟨"INPUT", 1⟩, ⟨"THETA", 2⟩] ⟨"PK", 9⟩ none 0
    = [⟨"PROBLEM", 0⟩, ⟨"INPUT", 1⟩, ⟨"PK", 9⟩, ⟨"THETA", 2⟩] := by decide
example : replaceAll [⟨"PROBLEM", 0⟩, ⟨"THETA", 1⟩, ⟨"X", 2⟩, ⟨"THETA", 3⟩] "THETA" [⟨"THETA", 7⟩, ⟨"THETA", 8⟩]
    = some [⟨"PROBLEM", 0⟩, ⟨"THETA", 7⟩, ⟨"THETA", 8⟩, ⟨"X", 2⟩] := by decide

end Pharmpy.C03
