import PharmpyModel.C03.Model
/-
  Helper lemmas for C03: slices, the record splitter's invariant, the ignored
  tokenizer, chains of positioned nodes.
-/
namespace Pharmpy.C03

/-! ### slices -/

theorem slice_append (s : Str) (i j k : Nat) (hij : i ≤ j) (hjk : j ≤ k) :
    slice s i j ++ slice s j k = slice s i k := by
  unfold slice
  have h1 : s.drop j = (s.drop i).drop (j - i) := by
    rw [List.drop_drop]; congr 1; omega
  have h2 : k - i = (j - i) + (k - j) := by omega
  rw [h1, h2, List.take_add]

theorem slice_self (s : Str) (i : Nat) : slice s i i = [] := by
  simp [slice]

theorem slice_of_le (s : Str) (i j : Nat) (h : j ≤ i) : slice s i j = [] := by
  have : j - i = 0 := by omega
  simp [slice, this]

theorem slice_full (s : Str) : slice s 0 s.length = s := by
  simp [slice]

/-! ### splitter -/

theorem splitGo_join (l : Str) : ∀ pend : Option Str,
    (splitGo pend l).1 ++ (splitGo pend l).2.flatten = pend.getD [] ++ l := by
  induction l with
  | nil => intro pend; simp [splitGo]
  | cons c cs ih =>
    intro pend
    cases pend with
    | none =>
      simp only [splitGo]
      split
      · have := ih (some []); simp at this; simp [this]
      · have := ih none; simp at this; simp [this]
    | some b =>
      simp only [splitGo]
      split
      · rename_i h
        have hc : c = '$' := by simpa using h
        have := ih none; simp at this; simp [this, hc]
      · split
        · have := ih (some (b ++ [c])); simp at this; simp [this]
        · split
          · have := ih (some []); simp at this; simp [this]
          · have := ih none; simp at this; simp [this]

/-- Pieces alternate `sep, chunk, sep, chunk, …` with well-formed separators. -/
def sepChunks : List Str → Bool
  | [] => true
  | [_] => false
  | s :: _ :: rest => isSep s && sepChunks rest

theorem isSep_blanks (b : Str) (hb : b.all isBlank = true) : isSep (b ++ ['$']) = true := by
  induction b with
  | nil => simp [isSep]
  | cons c cs ih =>
    simp only [List.all_cons, Bool.and_eq_true] at hb
    cases hcs : cs ++ ['$'] with
    | nil => simp at hcs
    | cons d ds =>
      have := ih hb.2
      rw [hcs] at this
      simp [isSep, hcs, hb.1, this]

theorem splitGo_shape (l : Str) : ∀ pend : Option Str,
    (∀ b, pend = some b → b.all isBlank = true) → sepChunks (splitGo pend l).2 = true := by
  induction l with
  | nil => intro pend _; simp [splitGo, sepChunks]
  | cons c cs ih =>
    intro pend hp
    cases pend with
    | none =>
      simp only [splitGo]
      split
      · exact ih (some []) (by intro b hb; cases hb; rfl)
      · exact ih none (by intro b hb; cases hb)
    | some b =>
      have hb := hp b rfl
      simp only [splitGo]
      split
      · simp only [sepChunks, Bool.and_eq_true]
        exact ⟨isSep_blanks b hb, ih none (by intro b hb; cases hb)⟩
      · split
        · rename_i h
          exact ih (some (b ++ [c])) (by intro b' hb'; cases hb'; simp [hb, h])
        · split
          · exact ih (some []) (by intro b hb; cases hb; rfl)
          · exact ih none (by intro b hb; cases hb)

/-- The text before a position is empty or ends with a line feed (`^` under MULTILINE). -/
def atLineStart (pre : Str) : Bool := pre.getLast? == none || pre.getLast? == some '\n'

/-- Every separator of `sep :: chunk :: …` begins at a line start of the whole text
    (`pre` = text before the list). -/
def sepsAtLineStart : Str → List Str → Bool
  | _, [] => true
  | _, [_] => true
  | pre, sep :: chunk :: rest => atLineStart pre && sepsAtLineStart (pre ++ sep ++ chunk) rest

theorem atLineStart_snoc_lf (p : Str) : atLineStart (p ++ ['\n']) = true := by
  simp [atLineStart]

theorem splitGo_lineStart (l : Str) : ∀ (pend : Option Str) (pre : Str),
    (pend.isSome = true → atLineStart pre = true) →
    sepsAtLineStart (pre ++ (splitGo pend l).1) (splitGo pend l).2 = true := by
  induction l with
  | nil => intro pend pre _; simp [splitGo, sepsAtLineStart]
  | cons c cs ih =>
    intro pend pre hp
    cases pend with
    | none =>
      simp only [splitGo]
      split
      · rename_i h
        have hc : c = '\n' := by simpa using h
        have := ih (some []) (pre ++ [c]) (by intro _; rw [hc]; exact atLineStart_snoc_lf pre)
        simpa using this
      · have := ih none (pre ++ [c]) (by intro h; cases h)
        simpa using this
    | some b =>
      have hpre := hp rfl
      simp only [splitGo]
      split
      · simp only [sepsAtLineStart, List.append_nil, Bool.and_eq_true]
        refine ⟨hpre, ?_⟩
        have := ih none (pre ++ (b ++ ['$'])) (by intro h; cases h)
        simpa using this
      · split
        · exact ih (some (b ++ [c])) pre (by intro _; exact hpre)
        · split
          · rename_i h
            have hc : c = '\n' := by simpa using h
            have := ih (some []) (pre ++ b ++ [c]) (by intro _; rw [hc]; exact atLineStart_snoc_lf _)
            simpa using this
          · have := ih none (pre ++ b ++ [c]) (by intro h; cases h)
            simpa using this

/-! ### ignored tokenizer -/

def textsOf (ts : List IgnTok) : Str := (ts.map (·.text)).flatten

/-- A token is well-formed for its kind. -/
def IgnTok.wf (t : IgnTok) : Bool :=
  match t.kind, t.text with
  | .ws, c :: cs => isWS c && cs.all isWS
  | .comment, c :: cs => c == ';' && cs.all notLF
  | .cont, c :: cs => c == '&' && cs.all notLF
  | .newline, txt => txt == ['\r', '\n'] || txt == ['\n']
  | _, [] => false

theorem all_takeWhile (p : Char → Bool) (l : Str) : (l.takeWhile p).all p = true := by
  induction l with
  | nil => simp
  | cons c cs ih =>
    by_cases h : p c = true
    · simp [h, ih]
    · simp [h]

/-! ### nodes -/

theorem strList_append (a b : List Node) : strList (a ++ b) = strList a ++ strList b := by
  induction a with
  | nil => simp [strList]
  | cons x xs ih => simp [strList, ih]

theorem strList_toNodes (ts : List IgnTok) : ∀ i, strList (toNodes i ts) = textsOf ts := by
  induction ts with
  | nil => intro i; simp [toNodes, strList, textsOf]
  | cons t ts ih =>
    intro i
    simp only [toNodes, strList, IgnTok.toNode, Node.str]
    rw [ih]; simp [textsOf]

/-- A positioned node whose text is the source slice of its range. -/
def Good (s : Str) (n : Node) : Prop :=
  ∃ a b, n.range = some (a, b) ∧ a ≤ b ∧ b ≤ s.length ∧ n.str = slice s a b

/-- Consecutive good nodes from offset `i`, ending at `e`. -/
inductive Chain (s : Str) : Nat → List Node → Nat → Prop where
  | nil (i : Nat) : Chain s i [] i
  | cons {i a b e : Nat} {x : Node} {rest : List Node} :
      x.range = some (a, b) → i ≤ a → a ≤ b → x.str = slice s a b →
      Chain s b rest e → Chain s i (x :: rest) e

theorem Chain.le {s : Str} {i e : Nat} {xs : List Node} (h : Chain s i xs e) : i ≤ e := by
  induction h with
  | nil => exact Nat.le_refl _
  | cons _ h1 h2 _ _ ih => omega

/-! ### tokenizer, interleaving, trees -/

theorem map_ok {α β ε : Type} {f : α → β} {x : Except ε α} {y : β}
    (h : Except.map f x = .ok y) : ∃ r, x = .ok r ∧ y = f r := by
  cases x with
  | error e => simp [Except.map] at h
  | ok r => simp [Except.map] at h; exact ⟨r, rfl, h.symm⟩

theorem tokenize_lossless (s : Str) : ∀ ts, tokenizeIgnored s = .ok ts → textsOf ts = s := by
  fun_induction tokenizeIgnored s <;> intro ts h
  all_goals first
    | (cases h; rfl)
    | (cases h; done)
    | (obtain ⟨r, hr, rfl⟩ := map_ok h
       rename_i ih
       have := ih r hr
       simp [textsOf] at this ⊢
       simp [this, List.takeWhile_append_dropWhile]
       try simp_all)

theorem tokenize_wf (s : Str) : ∀ ts, tokenizeIgnored s = .ok ts → ∀ t ∈ ts, t.wf = true := by
  fun_induction tokenizeIgnored s <;> intro ts h
  all_goals first
    | (cases h; simp; done)
    | (cases h; done)
    | (obtain ⟨r, hr, rfl⟩ := map_ok h
       rename_i ih
       intro t ht
       rcases List.mem_cons.mp ht with rfl | ht
       · simp_all [IgnTok.wf]
       · exact ih r hr t ht)

theorem gapToks_str (s : Str) (i j : Nat) (g : List Node) (h : gapToks s i j = .ok g) :
    strList g = slice s i j := by
  unfold gapToks at h
  split at h
  · cases h; rename_i hji; rw [slice_of_le s i j hji]; rfl
  · split at h
    · cases h
    · obtain ⟨r, hr, rfl⟩ := map_ok h
      rw [strList_toNodes, tokenize_lossless _ _ hr]

theorem interleaveGo_str (s : Str) (xs : List Node) : ∀ (i e : Nat) (r : List Node),
    Chain s i xs e → interleaveGo s i xs = .ok r → strList r = slice s i e := by
  induction xs with
  | nil =>
    intro i e r hc h
    cases hc
    simp [interleaveGo] at h; subst h
    simp [strList, slice_self]
  | cons x rest ih =>
    intro i e r hc h
    cases hc with
    | cons hr hia hab hstr hrest =>
      rename_i a b
      simp only [interleaveGo, hr] at h
      split at h
      · cases h
      · rename_i g hg
        split at h
        · cases h
        · rename_i r' hr'
          cases h
          rw [strList_append, strList, gapToks_str s i a g hg, hstr, ih b e r' hrest hr']
          have := hrest.le
          rw [← List.append_assoc, slice_append s i a b hia hab, slice_append s i b e (by omega) this]

theorem interleave_str (s : Str) (x : Node) (rest r : List Node) (a b e : Nat)
    (hx : x.range = some (a, b)) (hab : a ≤ b) (hstr : x.str = slice s a b)
    (hc : Chain s b rest e) (h : interleave s (x :: rest) = .ok r) :
    strList r = slice s a e := by
  cases rest with
  | nil =>
    cases hc
    simp [interleave] at h; subst h
    simp [strList, hstr]
  | cons y rest =>
    simp only [interleave, hx] at h
    split at h
    · cases h
    · rename_i r' hr'
      cases h
      rw [strList, hstr, interleaveGo_str s _ b e r' hc hr', slice_append s a b e hab hc.le]

/-- Ordered children, all good: a chain from the end of the first child. -/
theorem chain_of_spanOk (s : Str) (rest : List Node) : ∀ (x : Node) (a d : Nat),
    spanOk (x :: rest) = some (a, d) → (∀ y ∈ x :: rest, Good s y) →
    ∃ b, x.range = some (a, b) ∧ a ≤ b ∧ x.str = slice s a b ∧ Chain s b rest d ∧ d ≤ s.length := by
  induction rest with
  | nil =>
    intro x a d h hg
    simp only [spanOk] at h
    obtain ⟨a', b', hr, hab, hb, hs⟩ := hg x (by simp)
    rw [hr] at h; cases h
    exact ⟨d, hr, hab, hs, Chain.nil d, hb⟩
  | cons y rest ih =>
    intro x a d h hg
    obtain ⟨a', b', hr, hab, hb, hs⟩ := hg x (by simp)
    simp only [spanOk, hr] at h
    cases hsp : spanOk (y :: rest) with
    | none => simp [hsp] at h
    | some cd =>
      obtain ⟨c, d'⟩ := cd
      simp only [hsp] at h
      split at h
      · rename_i hbc
        cases h
        obtain ⟨b2, hyr, hcb2, hys, hch, hd⟩ := ih y c d hsp (fun z hz => hg z (List.mem_cons_of_mem _ hz))
        exact ⟨b', hr, hab, hs, Chain.cons hyr hbc hcb2 hys hch, hd⟩
      · cases h

theorem spanOk_congr : ∀ (cs cs' : List Node), cs'.map Node.range = cs.map Node.range →
    spanOk cs' = spanOk cs := by
  intro cs
  induction cs with
  | nil => intro cs' h; simp at h; subst h; rfl
  | cons x rest ih =>
    intro cs' h
    cases cs' with
    | nil => simp at h
    | cons x' rest' =>
      simp only [List.map_cons, List.cons.injEq] at h
      obtain ⟨hx, hrest⟩ := h
      cases rest with
      | nil =>
        simp at hrest; subst hrest
        simp [spanOk, hx]
      | cons y rest =>
        cases rest' with
        | nil => simp at hrest
        | cons y' rest'' =>
          have := ih (y' :: rest'') hrest
          simp only [spanOk, hx, this]

mutual
theorem interleaveTree_good (s : Str) : ∀ (n n' : Node), covering s n = true →
    interleaveTree s n = .ok n' → n'.range = n.range ∧ Good s n'
  | .tok k t p, n', hc, h => by
    simp only [interleaveTree] at h; cases h
    refine ⟨rfl, ?_⟩
    simp only [covering] at hc
    cases p with
    | none => simp [rangeOk] at hc
    | some ij =>
      obtain ⟨i, j⟩ := ij
      simp only [rangeOk, Bool.and_eq_true, decide_eq_true_eq, beq_iff_eq] at hc
      exact ⟨i, j, rfl, hc.1.1, hc.1.2, hc.2⟩
  | .tree r cs p, n', hc, h => by
    simp only [covering, Bool.and_eq_true, Bool.not_eq_true', beq_iff_eq] at hc
    obtain ⟨⟨hne, hcl⟩, hp, hspan⟩ := hc
    simp only [interleaveTree] at h
    split at h
    · cases h
    · rename_i cs' hcs'
      split at h
      · cases h
      · rename_i cs'' hcs''
        cases h
        refine ⟨rfl, ?_⟩
        obtain ⟨hmap, hgood⟩ := interleaveChildren_good s cs cs' hcl hcs'
        cases p with
        | none => simp at hp
        | some ad =>
          obtain ⟨a, d⟩ := ad
          have hsp' : spanOk cs' = some (a, d) := by rw [spanOk_congr cs cs' hmap]; exact hspan
          cases cs' with
          | nil => simp [spanOk] at hsp'
          | cons x rest =>
            obtain ⟨b, hxr, hab, hxs, hch, hd⟩ := chain_of_spanOk s rest x a d hsp' hgood
            have := interleave_str s x rest cs'' a b d hxr hab hxs hch hcs''
            have hbd := hch.le
            exact ⟨a, d, rfl, by omega, hd, by simpa [Node.str] using this⟩
theorem interleaveChildren_good (s : Str) : ∀ (cs cs' : List Node), coveringList s cs = true →
    interleaveChildren s cs = .ok cs' →
    cs'.map Node.range = cs.map Node.range ∧ ∀ y ∈ cs', Good s y
  | [], cs', _, h => by
    simp only [interleaveChildren] at h; cases h; simp
  | c :: cs, cs', hc, h => by
    simp only [coveringList, Bool.and_eq_true] at hc
    simp only [interleaveChildren] at h
    split at h
    · cases h
    · rename_i c' hc'
      split at h
      · cases h
      · rename_i cs2 hcs2
        cases h
        obtain ⟨hr, hg⟩ := interleaveTree_good s c c' hc.1 hc'
        obtain ⟨hm, hgs⟩ := interleaveChildren_good s cs cs2 hc.2 hcs2
        refine ⟨by simp [hr, hm], ?_⟩
        intro y hy
        rcases List.mem_cons.mp hy with rfl | hy
        · exact hg
        · exact hgs y hy
end

theorem covering_good_tok (s : Str) (k : String) (t : Str) (p : Option (Nat × Nat))
    (h : covering s (.tok k t p) = true) : Good s (.tok k t p) :=
  (interleaveTree_good s (.tok k t p) (.tok k t p) h rfl).2

theorem coveringList_mem (s : Str) (xs : List Node) (h : coveringList s xs = true) :
    ∀ y ∈ xs, covering s y = true := by
  induction xs with
  | nil => intro y hy; cases hy
  | cons x rest ih =>
    simp only [coveringList, Bool.and_eq_true] at h
    intro y hy
    rcases List.mem_cons.mp hy with rfl | hy
    · exact h.1
    · exact ih h.2 y hy

theorem withIgnored_str (s : Str) (r : String) (cs : List Node) (p : Option (Nat × Nat)) (n : Node)
    (hc : coveringRoot s (.tree r cs p) = true) (h : withIgnored s (.tree r cs p) = .ok n) :
    n.str = s := by
  unfold withIgnored at h
  split at h
  · cases h
  · rename_i k t p' heq
    -- the transform of a tree is a tree
    simp only [interleaveTree] at heq
    split at heq
    · cases heq
    · split at heq <;> cases heq
  · rename_i r' cs' p' heq
    split at h
    · -- no children: everything is ignorable text
      split at h
      · cases h
      · rename_i g hg
        cases h
        simp only [Node.str]
        rw [gapToks_str s 0 s.length g hg, slice_full]
    · rename_i c0 crest
      cases p' with
      | none => simp at h
      | some ab =>
        obtain ⟨a, b⟩ := ab
        simp only at h
        split at h
        · rename_i hh tt hhead htail
          cases h
          -- the root had children (otherwise the transform has none)
          cases cs with
          | nil =>
            simp [interleaveTree, interleaveChildren, interleave] at heq
          | cons c1 crest1 =>
            have hcov : covering s (.tree r (c1 :: crest1) p) = true := by
              simpa [coveringRoot] using hc
            obtain ⟨hrange, a', b', hr', hab, hb, hstr⟩ := interleaveTree_good s _ _ hcov heq
            simp only [Node.range] at hr'
            cases hr'
            simp only [Node.str] at hstr ⊢
            rw [strList_append, strList_append, hstr, gapToks_str s 0 a hh hhead,
              gapToks_str s b s.length tt htail,
              slice_append s 0 a b (Nat.zero_le _) hab, slice_append s 0 b s.length (Nat.zero_le _) hb,
              slice_full]
        · cases h
        · cases h

/-! ### raw names and the parser front end -/

theorem rawNameSplit_join (chunk n c : Str) (h : rawNameSplit chunk = some (n, c)) : n ++ c = chunk := by
  unfold rawNameSplit at h
  split at h
  · rename_i r hr
    split at h
    · cases h
    · cases h
      have h1 := List.takeWhile_append_dropWhile (p := isPySpace) (l := chunk)
      have h2 := List.takeWhile_append_dropWhile (p := isAz) (l := r)
      rw [hr] at h1
      conv => rhs; rw [← h1, ← h2]
      simp
  · cases h

/-- Shape of an accepted raw name: white space, `$`, at least one character of `[A-z]`;
    the content does not continue the name. -/
theorem rawNameSplit_shape (chunk n c : Str) (h : rawNameSplit chunk = some (n, c)) :
    ∃ ws nm, n = ws ++ '$' :: nm ∧ ws.all isPySpace = true ∧ nm ≠ [] ∧ nm.all isAz = true ∧
      (c.head?.map isAz).getD false = false := by
  unfold rawNameSplit at h
  split at h
  · rename_i r hr
    split at h
    · cases h
    · rename_i hne
      cases h
      refine ⟨_, _, rfl, all_takeWhile _ _, ?_, all_takeWhile _ _, ?_⟩
      · intro h0; apply hne; simp [h0]
      · cases hd : r.dropWhile isAz with
        | nil => simp
        | cons d ds =>
          have := List.head_dropWhile_not isAz (l := r) (by simp [hd])
          simp [hd] at this
          simp [this]
  · cases h

theorem createRecord_join (chunk : Str) (x : Str × Option String × Str)
    (h : createRecord chunk = some x) : x.1 ++ x.2.2 = chunk := by
  unfold createRecord at h
  split at h
  · cases h
  · rename_i raw content hs
    cases h
    exact rawNameSplit_join chunk raw content hs

theorem mapM_createRecord_join (chunks : List Str) : ∀ rs, chunks.mapM createRecord = some rs →
    rs.map (fun x => x.1 ++ x.2.2) = chunks := by
  induction chunks with
  | nil => intro rs h; simp at h; subst h; rfl
  | cons c cs ih =>
    intro rs h
    simp only [List.mapM_cons, Option.bind_eq_bind, Option.bind_eq_some_iff, Option.pure_def, Option.some.injEq] at h
    obtain ⟨x, hx, xs, hxs, rfl⟩ := h
    simp [createRecord_join c x hx, ih xs hxs]

theorem pairUp_flatten : ∀ (rest : List Str), sepChunks rest = true → (pairUp rest).flatten = rest.flatten
  | [], _ => rfl
  | [_], h => by simp [sepChunks] at h
  | s :: c :: rest, h => by
    simp only [sepChunks, Bool.and_eq_true] at h
    simp [pairUp, pairUp_flatten rest h.2]

theorem parseFront_join (t first : Str) (rs : List (Str × Option String × Str))
    (h : parseFront t = some (first, rs)) :
    first ++ (rs.map (fun x => x.1 ++ x.2.2)).flatten = t := by
  unfold parseFront at h
  have hj := splitGo_join t (some [])
  have hs := splitGo_shape t (some []) (by intro b hb; cases hb; rfl)
  simp only [splitRecords] at h
  cases hm : (pairUp (splitGo (some []) t).2).mapM createRecord with
  | none => simp [hm] at h
  | some rs' =>
    simp [hm] at h
    obtain ⟨rfl, rfl⟩ := h
    rw [mapM_createRecord_join _ _ hm, pairUp_flatten _ hs]
    simpa using hj

/-! ### record operations -/

def other (name : String) (r : Rec) : Bool := r.name != name

theorem insertRecord_eq_insertAt (recs : List Rec) (r : Rec) (at_ : Option Nat) (active : Int) :
    ∃ k, insertRecord recs r at_ active = insertAt recs k r := by
  unfold insertRecord
  split
  · exact ⟨_, rfl⟩
  · exact ⟨_, rfl⟩

theorem insertAt_sublist (recs : List Rec) (k : Nat) (r : Rec) : recs.Sublist (insertAt recs k r) := by
  unfold insertAt
  conv => lhs; rw [← List.take_append_drop k recs]
  exact List.Sublist.append (List.Sublist.refl _) (List.sublist_cons_self _ _)

theorem insertAt_filter (recs : List Rec) (k : Nat) (r : Rec) (q : Rec → Bool) (hq : q r = false) :
    (insertAt recs k r).filter q = recs.filter q := by
  unfold insertAt
  rw [List.filter_append, List.filter_cons, hq]
  simp only [Bool.false_eq_true, ↓reduceIte]
  rw [← List.filter_append, List.take_append_drop]

theorem replaceAllGo_false (name : String) (new : List Rec) (l : List Rec) :
    replaceAllGo name new l false = (l.filter (other name), false) := by
  induction l with
  | nil => rfl
  | cons r rs ih =>
    simp only [replaceAllGo]
    by_cases h : (r.name == name) = true
    · have ho : other name r = false := by simp [other, bne, h]
      simp [h, ih, ho]
    · have ho : other name r = true := by simp [other, bne, h]
      simp [h, ih, ho]

theorem replaceAllGo_true (name : String) (new : List Rec) (l : List Rec) :
    ((replaceAllGo name new l true).2 = true ∧ (replaceAllGo name new l true).1 = l ∧ l.filter (other name) = l) ∨
    ((replaceAllGo name new l true).2 = false ∧
      ∃ a b, (replaceAllGo name new l true).1 = a ++ new ++ b ∧ a ++ b = l.filter (other name)) := by
  induction l with
  | nil => left; simp [replaceAllGo]
  | cons r rs ih =>
    by_cases h : (r.name == name) = true
    · right
      simp only [replaceAllGo, h, ↓reduceIte, replaceAllGo_false]
      have ho : other name r = false := by simp [other, bne, h]
      refine ⟨trivial, [], rs.filter (other name), by simp, ?_⟩
      simp [ho]
    · have ho : other name r = true := by simp [other, bne, h]
      rcases ih with ⟨h2, h1, hf⟩ | ⟨h2, a, b, h1, hab⟩
      · left
        simp only [replaceAllGo, h]
        simp [h2, h1, ho, hf]
      · right
        simp only [replaceAllGo, h]
        refine ⟨by simpa using h2, r :: a, b, by simp [h1], ?_⟩
        simp [ho, hab]

theorem replaceAll_splice (recs : List Rec) (name : String) (new out : List Rec)
    (h : replaceAll recs name new = some out) :
    ∃ a b, out = a ++ new ++ b ∧ a ++ b = recs.filter (other name) := by
  unfold replaceAll at h
  rcases replaceAllGo_true name new recs with ⟨h2, h1, hf⟩ | ⟨h2, a, b, h1, hab⟩
  · simp only [h2, ↓reduceIte] at h
    split at h
    · cases h
    · cases h
      rw [h1]
      exact ⟨_, _, rfl, by rw [List.take_append_drop, hf]⟩
  · simp only [h2] at h
    cases h
    exact ⟨a, b, h1, hab⟩

/-- `replaceRecordsGo` for an abstract membership test. -/
def replGo (q : Rec → Bool) (new : List Rec) : List Rec → Bool → List Rec
  | [], _ => []
  | r :: rs, first =>
    if !q r then r :: replGo q new rs first
    else if first then new ++ replGo q new rs false
    else replGo q new rs false

theorem replaceRecordsGo_eq (old new : List Rec) (l : List Rec) (f : Bool) :
    replaceRecordsGo old new l f = replGo (fun r => old.contains r) new l f := by
  induction l generalizing f with
  | nil => rfl
  | cons r rs ih => simp only [replaceRecordsGo, replGo, ih]

theorem replGo_false (q : Rec → Bool) (new : List Rec) (l : List Rec) :
    replGo q new l false = l.filter (fun r => !q r) := by
  induction l with
  | nil => rfl
  | cons r rs ih =>
    cases h : q r <;> simp [replGo, h, ih]

theorem replGo_splice (q : Rec → Bool) (new : List Rec) (l : List Rec) :
    ∃ a b, (replGo q new l true = a ++ new ++ b ∨ replGo q new l true = a ++ b) ∧
      a ++ b = l.filter (fun r => !q r) := by
  induction l with
  | nil => exact ⟨[], [], Or.inr rfl, rfl⟩
  | cons r rs ih =>
    cases h : q r
    · obtain ⟨a, b, hor, hab⟩ := ih
      refine ⟨r :: a, b, ?_, ?_⟩
      · rcases hor with h1 | h1
        · left; simp [replGo, h, h1]
        · right; simp [replGo, h, h1]
      · simp [h, hab]
    · refine ⟨[], rs.filter (fun r => !q r), Or.inl ?_, ?_⟩
      · simp [replGo, h, replGo_false]
      · simp [h]

theorem replaceRecords_splice (recs old new : List Rec) :
    ∃ a b, (replaceRecords recs old new = a ++ new ++ b ∨ replaceRecords recs old new = a ++ b) ∧
      a ++ b = recs.filter (fun r => !old.contains r) := by
  unfold replaceRecords
  rw [replaceRecordsGo_eq]
  exact replGo_splice (fun r => old.contains r) new recs

/-! ### completeness of the record split -/

theorem blank_ne_dollar (c : Char) (h : isBlank c = true) : (c == '$') = false := by
  simp only [isBlank, Bool.or_eq_true, beq_iff_eq] at h
  rcases h with rfl | rfl <;> decide

/-- A run of blanks followed by `$` at a line start is a separator. -/
theorem splitGo_blank_run (b : Str) : ∀ (b0 v : Str), b.all isBlank = true →
    splitGo (some b0) (b ++ '$' :: v) =
      ([], (b0 ++ b ++ ['$']) :: (splitGo none v).1 :: (splitGo none v).2) := by
  induction b with
  | nil => intro b0 v _; simp [splitGo]
  | cons c cs ih =>
    intro b0 v hb
    simp only [List.all_cons, Bool.and_eq_true] at hb
    have h1 := blank_ne_dollar c hb.1
    simp only [List.cons_append, splitGo, h1, hb.1, Bool.false_eq_true, ↓reduceIte]
    rw [ih (b0 ++ [c]) v hb.2]
    simp

/-- Pieces of the scanner as one list. -/
def pieces (pend : Option Str) (l : Str) : List Str := (splitGo pend l).1 :: (splitGo pend l).2

theorem pieces_complete (u0 : Str) : ∀ (pend : Option Str) (b v : Str), b.all isBlank = true →
    ∃ before after, pieces pend (u0 ++ '\n' :: (b ++ '$' :: v)) = before ++ (b ++ ['$']) :: after ∧
      before.length % 2 = 1 ∧ before.flatten = pend.getD [] ++ u0 ++ ['\n'] := by
  induction u0 with
  | nil =>
    intro pend b v hb
    have hA := splitGo_blank_run b [] v hb
    cases pend with
    | none =>
      refine ⟨[['\n']], (splitGo none v).1 :: (splitGo none v).2, ?_, rfl, by simp⟩
      simp [pieces, splitGo, hA]
    | some b0 =>
      refine ⟨[b0 ++ ['\n']], (splitGo none v).1 :: (splitGo none v).2, ?_, rfl, by simp⟩
      have h1 : ('\n' == '$') = false := by decide
      have h2 : isBlank '\n' = false := by decide
      simp [pieces, splitGo, hA, h1, h2]
  | cons c u ih =>
    intro pend b v hb
    cases pend with
    | none =>
      by_cases hc : (c == '\n') = true
      · obtain ⟨before, after, hp, hlen, hfl⟩ := ih (some []) b v hb
        cases before with
        | nil => simp at hlen
        | cons p ps =>
          simp only [pieces, List.cons_append, List.cons.injEq] at hp
          refine ⟨(c :: p) :: ps, after, ?_, by simpa using hlen, by simpa using hfl⟩
          simp [pieces, splitGo, hc, hp.1, hp.2]
      · obtain ⟨before, after, hp, hlen, hfl⟩ := ih none b v hb
        cases before with
        | nil => simp at hlen
        | cons p ps =>
          simp only [pieces, List.cons_append, List.cons.injEq] at hp
          refine ⟨(c :: p) :: ps, after, ?_, by simpa using hlen, by simpa using hfl⟩
          simp [pieces, splitGo, hc, hp.1, hp.2]
    | some b0 =>
      by_cases h1 : (c == '$') = true
      · obtain ⟨before, after, hp, hlen, hfl⟩ := ih none b v hb
        have hc : c = '$' := by simpa using h1
        refine ⟨[] :: (b0 ++ ['$']) :: before, after, ?_, by simp; omega, by simp [hfl, hc]⟩
        simp only [pieces] at hp
        simp [pieces, splitGo, h1, hp]
      · by_cases h2 : isBlank c = true
        · obtain ⟨before, after, hp, hlen, hfl⟩ := ih (some (b0 ++ [c])) b v hb
          refine ⟨before, after, ?_, hlen, by simpa using hfl⟩
          simp only [pieces] at hp
          simp [pieces, splitGo, h1, h2, hp]
        · by_cases h3 : (c == '\n') = true
          · obtain ⟨before, after, hp, hlen, hfl⟩ := ih (some []) b v hb
            cases before with
            | nil => simp at hlen
            | cons p ps =>
              simp only [pieces, List.cons_append, List.cons.injEq] at hp
              refine ⟨(b0 ++ c :: p) :: ps, after, ?_, by simpa using hlen, by simpa using hfl⟩
              simp [pieces, splitGo, h1, h2, h3, hp.1, hp.2]
          · obtain ⟨before, after, hp, hlen, hfl⟩ := ih none b v hb
            cases before with
            | nil => simp at hlen
            | cons p ps =>
              simp only [pieces, List.cons_append, List.cons.injEq] at hp
              refine ⟨(b0 ++ c :: p) :: ps, after, ?_, by simpa using hlen, by simpa using hfl⟩
              simp [pieces, splitGo, h1, h2, h3, hp.1, hp.2]

/-! ### position of insert_record -/

/-- Number of `$PROBLEM` records in a list (as an `Int` offset of the problem counter). -/
def nProblems (l : List Rec) : Int := (l.countP (fun r => r.name == "PROBLEM") : Nat)

theorem scanLast_append (active : Int) (pred : Rec → Bool) (l1 : List Rec) :
    ∀ (l2 : List Rec) (i : Nat) (cur : Int) (acc : Option Nat),
      scanLast active pred (l1 ++ l2) i cur acc =
        scanLast active pred l2 (i + l1.length) (cur + nProblems l1) (scanLast active pred l1 i cur acc) := by
  induction l1 with
  | nil => intro l2 i cur acc; simp [scanLast, nProblems]
  | cons r rs ih =>
    intro l2 i cur acc
    simp only [List.cons_append, scanLast]
    rw [ih]
    have h1 : i + 1 + rs.length = i + (r :: rs).length := by simp; omega
    rw [h1]
    congr 1
    by_cases hp : (r.name == "PROBLEM") = true
    · simp [nProblems, hp]; omega
    · simp [nProblems, hp]

/-- No later hit: the accumulator survives. -/
theorem scanLast_none (active : Int) (pred : Rec → Bool) (l : List Rec) :
    ∀ (i : Nat) (cur : Int) (acc : Option Nat),
      (∀ (a : List Rec) (x : Rec) (b : List Rec), l = a ++ x :: b →
        ¬(cur + nProblems (a ++ [x]) = active ∧ pred x = true)) →
      scanLast active pred l i cur acc = acc := by
  induction l with
  | nil => intro i cur acc _; rfl
  | cons r rs ih =>
    intro i cur acc h
    simp only [scanLast]
    have h0 := h [] r rs rfl
    have hcur : (if r.name == "PROBLEM" then cur + 1 else cur) = cur + nProblems [r] := by
      by_cases hp : (r.name == "PROBLEM") = true <;> simp [nProblems, hp]
    rw [hcur]
    have hno : ((cur + nProblems [r] == active) && pred r) = false := by
      cases hb : ((cur + nProblems [r] == active) && pred r)
      · rfl
      · exfalso; apply h0
        simp only [Bool.and_eq_true, beq_iff_eq] at hb
        simpa using hb
    rw [hno]
    simp only [Bool.false_eq_true, ↓reduceIte]
    apply ih
    intro a x b hl hx
    apply h (r :: a) x b (by simp [hl])
    have : nProblems (r :: a ++ [x]) = nProblems [r] + nProblems (a ++ [x]) := by
      simp [nProblems, List.countP_cons]; omega
    rw [this]
    constructor
    · have := hx.1; omega
    · exact hx.2

/-! ### get_records -/

theorem getRecordsGo_filter (name : String) (p : Int) (l : List Rec) : ∀ cur,
    (getRecordsGo name p l cur).Sublist l ∧ ∀ r ∈ getRecordsGo name p l cur, r.name = name := by
  induction l with
  | nil => intro cur; simp [getRecordsGo]
  | cons r rs ih =>
    intro cur
    have key := ih (if r.name == "PROBLEM" then cur + 1 else cur)
    simp only [getRecordsGo]
    generalize (if (r.name == "PROBLEM") = true then cur + 1 else cur) = c at key ⊢
    obtain ⟨h1, h2⟩ := key
    by_cases h : (c == p && r.name == name) = true
    · simp only [h, ↓reduceIte]
      simp only [Bool.and_eq_true, beq_iff_eq] at h
      refine ⟨List.Sublist.cons_cons _ h1, ?_⟩
      intro x hx
      rcases List.mem_cons.mp hx with rfl | hx
      · exact h.2
      · exact h2 x hx
    · simp only [h, Bool.false_eq_true, ↓reduceIte]
      exact ⟨List.Sublist.cons _ h1, h2⟩

/-- Records standing before the first `$PROBLEM` are invisible to `get_records` for every
    problem number ≥ 0 (in particular for the default 0). -/
theorem getRecordsGo_pre (name : String) (p : Int) (hp : 0 ≤ p) (a : List Rec)
    (ha : ∀ r ∈ a, (r.name == "PROBLEM") = false) : ∀ b,
    getRecordsGo name p (a ++ b) (-1) = getRecordsGo name p b (-1) := by
  induction a with
  | nil => intro b; rfl
  | cons r rs ih =>
    intro b
    have hr := ha r (by simp)
    simp only [List.cons_append, getRecordsGo, hr, Bool.false_eq_true, ↓reduceIte]
    have hne : ((-1 : Int) == p) = false := by
      simp only [beq_eq_false_iff_ne, ne_eq]; omega
    simp only [hne, Bool.false_and, Bool.false_eq_true, ↓reduceIte]
    exact ih (fun x hx => ha x (List.mem_cons_of_mem _ hx)) b

end Pharmpy.C03
