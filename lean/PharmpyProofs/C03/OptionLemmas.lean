import PharmpyModel.C03.OptionRecord
/- helper lemmas for OptionProperties.lean -/
namespace Pharmpy.C03

theorem scanRev_spec (r : List Child) :
    ∃ bl rest, r = bl ++ rest ∧ (∀ c ∈ bl, c.isBlank = true) ∧ (scanRev r).1 = rest.length ∧
      ((rest = [] ∧ (scanRev r).2 = sepWS) ∨
       ∃ x xs, rest = x :: xs ∧ x.isBlank = false ∧
         (scanRev r).2 = if x.rule == "option" then sepWS else sepNL) := by
  induction r with
  | nil => exact ⟨[], [], rfl, by simp, rfl, Or.inl ⟨rfl, rfl⟩⟩
  | cons c rest ih =>
    by_cases h1 : (c.rule == "option") = true
    · refine ⟨[], c :: rest, rfl, by simp, by simp [scanRev, h1], Or.inr ⟨c, rest, rfl, ?_, by simp [scanRev, h1]⟩⟩
      have : c.rule = "option" := by simpa using h1
      simp [Child.isBlank, this]
    · by_cases h2 : c.isBlank = true
      · obtain ⟨bl, rs, e, hb, hl, hs⟩ := ih
        refine ⟨c :: bl, rs, by simp [e], ?_, by simpa [scanRev, h1, h2] using hl, ?_⟩
        · intro d hd
          rcases List.mem_cons.mp hd with rfl | hd
          · exact h2
          · exact hb d hd
        · simpa [scanRev, h1, h2] using hs
      · have h2' : c.isBlank = false := by simpa using h2
        refine ⟨[], c :: rest, rfl, by simp, by simp [scanRev, h1, h2'], Or.inr ⟨c, rest, rfl, h2', ?_⟩⟩
        simp [scanRev, h1, h2']

theorem commentsOk_append (a : List Child) (x : Child) (b : List Child) :
    commentsOk (a ++ x :: b) = (commentsOk (a ++ [x]) && commentsOk (x :: b)) := by
  induction a with
  | nil => cases b <;> simp [commentsOk]
  | cons c a ih =>
    cases a with
    | nil => simp [commentsOk]
    | cons d a => simp only [List.cons_append, commentsOk] at ih ⊢; rw [ih]; simp [Bool.and_assoc]

end Pharmpy.C03
