import PharmpyModel.C03.CodeRecord
import PharmpyProofs.C02.RecordProperties
/-
  Helper lemmas for the C03 frame clause of `update_statements` (non-statement nodes are
  preserved over edit chains).  Everything about `indexDiff` / `updateStatements` /
  pieces comes from C02.
-/
set_option linter.unusedSectionVars false
namespace Pharmpy.C03
open Pharmpy.C02

section
variable {σ ν : Type}

theorem cslice_append {α : Type} (l : List α) (i j k : Nat) (hij : i ≤ j) (hjk : j ≤ k) :
    C02.slice l i j ++ C02.slice l j k = C02.slice l i k := by
  unfold C02.slice
  have h1 : l.drop j = (l.drop i).drop (j - i) := by
    rw [List.drop_drop]; congr 1; omega
  have h2 : k - i = (j - i) + (k - j) := by omega
  rw [h1, h2, List.take_add]

theorem cslice_self {α : Type} (l : List α) (i : Nat) : C02.slice l i i = [] := by
  simp [C02.slice]

theorem cslice_drop {α : Type} (l : List α) (i j : Nat) (hij : i ≤ j) :
    C02.slice l i j ++ l.drop j = l.drop i := by
  unfold C02.slice
  have h1 : l.drop j = (l.drop i).drop (j - i) := by
    rw [List.drop_drop]; congr 1; omega
  rw [h1, List.take_append_drop]

/-- Spans in order from `last` (the part of `IndexWF` the gap lemmas need). -/
def Ord : Nat → List Idx → Prop
  | _, [] => True
  | last, (ni, nj, _, _) :: es => last ≤ ni ∧ ni ≤ nj ∧ Ord nj es

theorem ord_of_wf : ∀ (ix : List Idx) (off si nN nS : Nat), IndexWF off si nN nS ix → Ord off ix := by
  intro ix
  induction ix with
  | nil => intro _ _ _ _ _; trivial
  | cons e es ih =>
    intro off si nN nS h
    obtain ⟨ni, nj, s0, s1⟩ := e
    obtain ⟨h1, h2, _, _, h5⟩ := h
    exact ⟨h1, h2, ih nj s1 nN nS h5⟩

theorem gapsFrom_shift (old : List ν) (a last : Nat) (idx : List Idx) (ha : a ≤ last) (ho : Ord last idx) :
    C02.slice old a last ++ gapsFrom old last idx = gapsFrom old a idx := by
  cases idx with
  | nil => simp only [gapsFrom]; exact cslice_drop old a last ha
  | cons e es =>
    obtain ⟨ni, nj, s0, s1⟩ := e
    simp only [gapsFrom]
    rw [← List.append_assoc, cslice_append old a last ni ha ho.1]

/-- Non-statement nodes the groups of `_index_statements_diff` make `update_statements` copy. -/
def gapsG (old : List ν) : Nat → List (Group σ) → List ν
  | last, [] => old.drop last
  | last, g :: gs => C02.slice old last g.ni ++ gapsG old g.nj gs

theorem gapsG_flush (old : List ν) (a ni nj : Nat) (ops : List (Op σ)) (gs : List (Group σ)) :
    gapsG old a (flushGroup ni nj ops ++ gs) = C02.slice old a ni ++ gapsG old nj gs := by
  unfold flushGroup
  split
  · simp [gapsG]
  · simp only []
    split
    · simp [gapsG]
    · simp [gapsG, cslice_self]

theorem dropIns_cons_ins (s : σ) (rest : List (Op σ)) : dropIns (((1 : Int), s) :: rest) = dropIns rest := by
  simp [dropIns]

theorem dropIns_cons_other (op : Int) (s : σ) (rest : List (Op σ)) (h : op ≠ 1) :
    dropIns ((op, s) :: rest) = s :: dropIns rest := by
  simp [dropIns, h]

/-- The gaps copied by `update_statements` are exactly the gaps of the old index — provided the
    diff has as many non-insert ops as the index accounts for. -/
theorem indexDiff_gaps (old : List ν) : ∀ (ops : List (Op σ)),
    (∀ (last : Nat) (idx : List Idx) (gs : List (Group σ)) (a : Nat),
      indexDiff last idx none ops = some gs → a ≤ last → Ord last idx →
      (dropIns ops).length = need idx → gapsG old a gs = gapsFrom old a idx) ∧
    (∀ (last : Nat) (idx : List Idx) (ni nj e : Nat) (acc : List (Op σ)) (gs : List (Group σ)) (a : Nat),
      indexDiff last idx (some (ni, nj, e, acc)) ops = some gs → 0 < e → a ≤ ni → ni ≤ nj → Ord nj idx →
      (dropIns ops).length = e + need idx →
      gapsG old a gs = C02.slice old a ni ++ gapsFrom old nj idx) := by
  intro ops
  induction ops with
  | nil =>
    constructor
    · intro last idx gs a h _ _ hc
      simp only [indexDiff] at h; cases h
      cases idx with
      | nil => simp [gapsG, gapsFrom]
      | cons e es =>
        obtain ⟨ni, nj, s0, s1⟩ := e
        simp [dropIns, need] at hc
        omega
    · intro last idx ni nj e acc gs a h
      simp [indexDiff] at h
  | cons o rest ih =>
    obtain ⟨op, s⟩ := o
    obtain ⟨ihN, ihS⟩ := ih
    constructor
    · intro last idx gs a h ha ho hc
      by_cases h1 : op = 1
      · subst h1
        simp only [indexDiff, ↓reduceIte] at h
        cases hr : indexDiff last idx none rest with
        | none => simp [hr] at h
        | some gs' =>
          simp only [hr, Option.map_some, Option.some.injEq] at h
          subst h
          rw [dropIns_cons_ins] at hc
          have := ihN last idx gs' last hr (Nat.le_refl _) ho hc
          simp only [gapsG]
          rw [this]
          exact gapsFrom_shift old a last idx ha ho
      · rw [dropIns_cons_other op s rest h1] at hc
        simp only [indexDiff, h1, ↓reduceIte] at h
        cases idx with
        | nil => simp at h
        | cons e es =>
          obtain ⟨ni, nj, s0, s1⟩ := e
          simp only at h
          simp only [need, List.length_cons] at hc
          obtain ⟨ho1, ho2, ho3⟩ := ho
          by_cases hz : s1 - s0 - 1 = 0
          · simp only [hz, ↓reduceIte] at h
            cases hr : indexDiff nj es none rest with
            | none => simp [hr] at h
            | some gs' =>
              simp only [hr, Option.map_some, Option.some.injEq] at h
              subst h
              have hc' : (dropIns rest).length = need es := by omega
              have := ihN nj es gs' nj hr (Nat.le_refl _) ho3 hc'
              rw [gapsG_flush, this]
              simp only [gapsFrom]
          · simp only [hz, ↓reduceIte] at h
            have hc' : (dropIns rest).length = (s1 - s0 - 1) + need es := by omega
            have := ihS last es ni nj (s1 - s0 - 1) [(op, s)] gs a h (by omega) (by omega) ho2 ho3 hc'
            rw [this]
            simp only [gapsFrom]
    · intro last idx ni nj e acc gs a h he ha hn ho hc
      simp only [indexDiff] at h
      by_cases h1 : op = 1
      · subst h1
        rw [dropIns_cons_ins] at hc
        have hne : ¬ e = 0 := by omega
        simp only [ne_eq, not_true_eq_false, ↓reduceIte, hne] at h
        exact ihS last idx ni nj e _ gs a h he ha hn ho hc
      · rw [dropIns_cons_other op s rest h1] at hc
        simp only [List.length_cons] at hc
        simp only [ne_eq, h1, not_false_eq_true, ↓reduceIte] at h
        by_cases hz : e - 1 = 0
        · simp only [hz, ↓reduceIte] at h
          cases hr : indexDiff nj idx none rest with
          | none => simp [hr] at h
          | some gs' =>
            simp only [hr, Option.map_some, Option.some.injEq] at h
            subst h
            have hc' : (dropIns rest).length = need idx := by omega
            have := ihN nj idx gs' nj hr (Nat.le_refl _) ho hc'
            rw [gapsG_flush, this]
        · simp only [hz, ↓reduceIte] at h
          exact ihS last idx ni nj (e - 1) _ gs a h (by omega) ha hn ho (by omega)

/-- Kept groups carry at least one statement. -/
theorem indexDiff_kept_nonempty : ∀ (ops : List (Op σ)) (last : Nat) (idx : List Idx) (pend : Option (Pending σ))
    (gs : List (Group σ)), indexDiff last idx pend ops = some gs → ∀ g ∈ gs, g.op = 0 → g.stmts ≠ [] := by
  have hflush : ∀ (ni nj : Nat) (ops : List (Op σ)), ops ≠ [] →
      ∀ g ∈ flushGroup ni nj ops, g.op = 0 → g.stmts ≠ [] := by
    intro ni nj ops hne g hg h0
    unfold flushGroup at hg
    split at hg
    · simp only [List.mem_singleton] at hg; subst hg; simpa using hne
    · simp only [List.mem_cons] at hg
      rcases hg with rfl | hg
      · simp at h0
      · split at hg
        · cases hg
        · simp only [List.mem_singleton] at hg; subst hg; simp at h0
  intro ops
  induction ops with
  | nil =>
    intro last idx pend gs h g hg
    cases pend with
    | none => simp only [indexDiff] at h; cases h; cases hg
    | some p => simp [indexDiff] at h
  | cons o rest ih =>
    obtain ⟨op, s⟩ := o
    intro last idx pend gs h g hg h0
    cases pend with
    | none =>
      simp only [indexDiff] at h
      by_cases h1 : op = 1
      · simp only [h1, ↓reduceIte] at h
        cases hr : indexDiff last idx none rest with
        | none => simp [hr] at h
        | some gs' =>
          simp only [hr, Option.map_some, Option.some.injEq] at h
          subst h
          simp only [List.mem_cons] at hg
          rcases hg with rfl | hg
          · simp at h0
          · exact ih last idx none gs' hr g hg h0
      · simp only [h1, ↓reduceIte] at h
        cases idx with
        | nil => simp at h
        | cons e es =>
          obtain ⟨ni, nj, s0, s1⟩ := e
          simp only at h
          by_cases hz : s1 - s0 - 1 = 0
          · simp only [hz, ↓reduceIte] at h
            cases hr : indexDiff nj es none rest with
            | none => simp [hr] at h
            | some gs' =>
              simp only [hr, Option.map_some, Option.some.injEq] at h
              subst h
              rcases List.mem_append.mp hg with hg | hg
              · exact hflush ni nj _ (by simp) g hg h0
              · exact ih nj es none gs' hr g hg h0
          · simp only [hz, ↓reduceIte] at h
            exact ih last es _ gs h g hg h0
    | some p =>
      obtain ⟨ni, nj, e, acc⟩ := p
      simp only [indexDiff] at h
      generalize (if op ≠ 1 then e - 1 else e) = e' at h
      by_cases hz : e' = 0
      · simp only [hz, ↓reduceIte] at h
        cases hr : indexDiff nj idx none rest with
        | none => simp [hr] at h
        | some gs' =>
          simp only [hr, Option.map_some, Option.some.injEq] at h
          subst h
          rcases List.mem_append.mp hg with hg | hg
          · exact hflush ni nj _ (by simp) g hg h0
          · exact ih nj idx none gs' hr g hg h0
      · simp only [hz, ↓reduceIte] at h
        exact ih last idx _ gs h g hg h0

/-- Non-statement nodes of a piece list. -/
def gapNodes : List (Piece ν σ) → List ν
  | [] => []
  | .gap ns :: ps => ns ++ gapNodes ps
  | .block _ _ :: ps => gapNodes ps

theorem gapNodes_append (a b : List (Piece ν σ)) : gapNodes (a ++ b) = gapNodes a ++ gapNodes b := by
  induction a with
  | nil => rfl
  | cons p ps ih => cases p <;> simp [gapNodes, ih]

theorem gapNodes_genBlocks (gen : σ → List ν) (ss : List σ) :
    gapNodes (ss.map (fun s => (Piece.block (gen s) [s] : Piece ν σ))) = [] := by
  induction ss with
  | nil => rfl
  | cons s ss ih => simp [gapNodes, ih]

theorem gapNodes_piecesOfGroups (gen : σ → List ν) (old : List ν) : ∀ (gs : List (Group σ)) (last : Nat),
    gapNodes (piecesOfGroups gen old last gs) = gapsG old last gs := by
  intro gs
  induction gs with
  | nil => intro last; simp [piecesOfGroups, gapNodes, gapsG]
  | cons g gs ih =>
    intro last
    simp only [piecesOfGroups, piecesOfGroup, gapsG, List.cons_append, gapNodes, gapNodes_append, ih]
    congr 1
    split
    · simp [gapNodes_genBlocks]
    · split <;> simp [gapNodes]

theorem ord_indexFrom : ∀ (ps : List (Piece ν σ)) (off si : Nat), Ord off (indexFrom off si ps) := by
  intro ps
  induction ps with
  | nil => intro _ _; trivial
  | cons p ps ih =>
    intro off si
    cases p with
    | gap ns =>
      simp only [indexFrom]
      have := ih (off + ns.length) si
      cases hx : indexFrom (off + ns.length) si ps with
      | nil => trivial
      | cons e es =>
        rw [hx] at this
        obtain ⟨ni, nj, s0, s1⟩ := e
        exact ⟨by have := this.1; omega, this.2.1, this.2.2⟩
    | block ns ss =>
      simp only [indexFrom]
      exact ⟨Nat.le_refl _, by omega, ih _ _⟩

theorem gapsFrom_pieces : ∀ (ps : List (Piece ν σ)) (pre : List ν) (si : Nat),
    gapsFrom (pre ++ nodesOf ps) pre.length (indexFrom pre.length si ps) = gapNodes ps := by
  intro ps
  induction ps with
  | nil => intro pre si; simp [indexFrom, gapsFrom, gapNodes, nodesOf]
  | cons p ps ih =>
    intro pre si
    cases p with
    | gap ns =>
      have h := ih (pre ++ ns) si
      simp only [List.length_append, List.append_assoc] at h
      simp only [indexFrom, gapNodes, nodesOf_gap_cons]
      rw [← gapsFrom_shift _ pre.length (pre.length + ns.length) _ (by omega) (ord_indexFrom ps _ si), h]
      congr 1
      simp [C02.slice]
    | block ns ss =>
      have h := ih (pre ++ ns) (si + ss.length)
      simp only [List.length_append, List.append_assoc] at h
      simp only [indexFrom, gapNodes, nodesOf_block_cons, gapsFrom, cslice_self, List.nil_append]
      exact h

theorem need_indexFrom : ∀ (ps : List (Piece ν σ)) (off si : Nat),
    (∀ ns ss, Piece.block ns ss ∈ ps → ss ≠ []) → need (indexFrom off si ps) = (stmtsOf ps).length := by
  intro ps
  induction ps with
  | nil => intro _ _ _; rfl
  | cons p ps ih =>
    intro off si h
    have ht : ∀ ns ss, Piece.block ns ss ∈ ps → ss ≠ [] := fun ns ss hm => h ns ss (List.mem_cons_of_mem _ hm)
    cases p with
    | gap ns => simp only [indexFrom, stmtsOf_gap_cons]; exact ih _ _ ht
    | block ns ss =>
      have hne := h ns ss (by simp)
      have hl : 0 < ss.length := List.length_pos_iff.mpr hne
      simp only [indexFrom, need, stmtsOf_block_cons, List.length_append, ih _ _ ht]
      omega

end
end Pharmpy.C03
