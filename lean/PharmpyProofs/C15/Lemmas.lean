import PharmpyModel.C15.Thread
/-
  Frame-list lemmas for the thread-level lock: how `cnt`, `exc`, `oldSh`
  change under push and LIFO pop, and what `others` means.
-/
namespace Pharmpy.C15
open TL

theorem exc_le_cnt (fs : List (Tid × Bool)) (t : Tid) : exc fs t ≤ cnt fs t := by
  induction fs with
  | nil => simp [exc, cnt]
  | cons f fs ih =>
    simp only [exc, cnt]
    by_cases h : f.1 = t <;> by_cases h2 : f.2 = true <;> simp [h, h2] <;> omega

theorem oldSh_pos (fs : List (Tid × Bool)) (t : Tid) (h : oldSh fs t = true) : cnt fs t > 0 := by
  induction fs with
  | nil => simp [oldSh] at h
  | cons f fs ih =>
    simp only [oldSh] at h
    simp only [cnt]
    by_cases h1 : f.1 = t
    · simp [h1]; omega
    · simp [h1] at h ⊢; exact ih h

/-- All frames of `t` shared and at least one ⇒ the oldest is shared. -/
theorem oldSh_of_noex (fs : List (Tid × Bool)) (t : Tid) (h0 : exc fs t = 0) (h1 : cnt fs t > 0) :
    oldSh fs t = true := by
  induction fs with
  | nil => simp [cnt] at h1
  | cons f fs ih =>
    simp only [exc, cnt, oldSh] at *
    by_cases hf : f.1 = t
    · by_cases h2 : f.2 = true
      · simp [hf, h2] at h0
      · simp [hf, h2] at h0 ⊢
        by_cases hc : cnt fs t = 0
        · simp [hc]
        · simp [hc]; exact ih h0 (by omega)
    · simp [hf] at h0 h1 ⊢; exact ih h0 h1

theorem others_iff (fs : List (Tid × Bool)) (t : Tid) :
    (fs.any (fun f => f.1 != t)) = true ↔ ∃ t', t' ≠ t ∧ cnt fs t' > 0 := by
  induction fs with
  | nil => simp [cnt]
  | cons f fs ih =>
    simp only [List.any_cons, Bool.or_eq_true, ih, cnt]
    constructor
    · rintro (h | ⟨t', h1, h2⟩)
      · exact ⟨f.1, by simpa using h, by simp; omega⟩
      · exact ⟨t', h1, by omega⟩
    · rintro ⟨t', h1, h2⟩
      by_cases hf : f.1 = t'
      · left; simp [hf, h1]
      · right; exact ⟨t', h1, by simpa [hf] using h2⟩

theorem others_false_iff (fs : List (Tid × Bool)) (t : Tid) :
    (fs.any (fun f => f.1 != t)) = false ↔ ∀ t', t' ≠ t → cnt fs t' = 0 := by
  constructor
  · intro h t' ht
    by_cases hc : cnt fs t' = 0
    · exact hc
    · exfalso
      have := (others_iff fs t).mpr ⟨t', ht, by omega⟩
      simp [h] at this
  · intro h
    by_cases ha : (fs.any (fun f => f.1 != t)) = true
    · obtain ⟨t', h1, h2⟩ := (others_iff fs t).mp ha
      have := h t' h1; omega
    · exact Bool.eq_false_iff.mpr ha

/-- Specification of the LIFO pop. -/
theorem popFrame_spec (fs fs' : List (Tid × Bool)) (t : Tid) (m : Bool)
    (h : popFrame fs t m = some fs') :
    cnt fs t ≥ 1 ∧ (m = true → exc fs t ≥ 1) ∧
    (∀ x, cnt fs' x = if x = t then cnt fs t - 1 else cnt fs x) ∧
    (∀ x, exc fs' x = if x = t ∧ m = true then exc fs t - 1 else exc fs x) ∧
    (∀ x, cnt fs' x > 0 → oldSh fs' x = oldSh fs x) ∧
    (cnt fs t = 1 → oldSh fs t = !m) := by
  induction fs generalizing fs' with
  | nil => simp [popFrame] at h
  | cons f fs ih =>
    simp only [popFrame] at h
    by_cases hf : f.1 = t
    · simp [hf] at h
      obtain ⟨hm, rfl⟩ := h
      refine ⟨by simp [cnt, hf], ?_, ?_, ?_, ?_, ?_⟩
      · intro hm'; simp [exc, hf, hm, hm']
      · intro x; by_cases hx : x = t
        · simp [hx, cnt, hf]
        · have : f.1 ≠ x := fun h => hx (h ▸ hf ▸ rfl)
          simp [hx, cnt, this]
      · intro x; by_cases hx : x = t
        · subst hx
          by_cases hm' : m = true
          · simp [exc, hf, hm, hm']
          · simp [exc, hf, hm, hm']
        · have : f.1 ≠ x := fun h => hx (h ▸ hf ▸ rfl)
          simp [hx, exc, this]
      · intro x hx
        simp only [oldSh]
        by_cases hxt : f.1 = x
        · have : cnt fs x ≠ 0 := by omega
          simp [hxt, this]
        · simp [hxt]
      · intro h1
        have : cnt fs t = 0 := by simp [cnt, hf] at h1; omega
        simp [oldSh, hf, this, hm]
    · simp [hf] at h
      obtain ⟨fs'', h1, rfl⟩ := h
      obtain ⟨i1, i2, i3, i4, i5, i6⟩ := ih fs'' h1
      have hft : ¬ (f.1 = t ∧ f.2 = true) := fun hh => hf hh.1
      refine ⟨by simp [cnt, hf]; exact i1, ?_, ?_, ?_, ?_, ?_⟩
      · intro hm'; simp [exc, hft]; exact i2 hm'
      · intro x
        simp only [cnt, i3 x]
        by_cases hx : x = t
        · subst hx; simp [hf]
        · simp [hx]
      · intro x
        simp only [exc, i4 x]
        by_cases hx : x = t ∧ m = true
        · obtain ⟨rfl, hm'⟩ := hx; simp [hm', hft]
        · simp [hx]
      · intro x hx
        simp only [oldSh, cnt] at hx ⊢
        by_cases hfx : f.1 = x
        · have hxt : x ≠ t := fun h => hf (hfx ▸ h)
          have hc : cnt fs'' x = cnt fs x := by rw [i3 x]; simp [hxt]
          simp only [hfx, if_true, hc]
          by_cases hz : cnt fs x = 0
          · simp [hz]
          · simp [hz]; exact i5 x (by omega)
        · simp [hfx] at hx ⊢; exact i5 x hx
      · intro h1
        simp only [cnt, hf, if_false, Nat.zero_add] at h1
        simp only [oldSh, hf, if_false]
        exact i6 h1

end Pharmpy.C15
