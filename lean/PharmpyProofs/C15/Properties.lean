import PharmpyProofs.C15.ThreadInv
import PharmpyProofs.C15.ProcInv
import PharmpyProofs.C15.PoolInv
/-
  C15 — Path locks give reader–writer exclusion without deadlock in every
  schedule.  Property theorems (thread level).  All statements quantify over
  an unbounded set of thread ids and over every finite sequence of
  transitions (= every schedule of every program), by induction over the
  sequence with the invariant `Inv` of `ThreadInv.lean`.
-/
namespace Pharmpy.C15
open TL

/-- States reachable from the initial lock by any schedule of any program
    (repaired code). -/
def Reachable (s : TL) : Prop := ∃ evs, runEvs true {} evs = some s

theorem inExBody_iff {s : TL} {t : Tid} : inExBody s t = true ↔ 0 < exc s.frames t := by
  simp [inExBody, TL.exCount]
theorem inBody_iff {s : TL} {t : Tid} : inBody s t = true ↔ 0 < cnt s.frames t := by
  simp [inBody, TL.count]
theorem inExBody_false_iff {s : TL} {t : Tid} : inExBody s t = false ↔ exc s.frames t = 0 := by
  simp [inExBody, TL.exCount]
theorem inBody_false_iff {s : TL} {t : Tid} : inBody s t = false ↔ cnt s.frames t = 0 := by
  simp [inBody, TL.count]

theorem some_pair_inj {a a' : TL} {o o' : Out} (h : some (a, o) = some (a', o')) : a = a' := by
  cases h; rfl

theorem reachable_inv {s : TL} (h : Reachable s) : Inv s := by
  obtain ⟨evs, h⟩ := h
  exact runEvs_inv evs inv_init h

/-- **Exclusion.** While a thread is inside an exclusive body no other thread
    is inside any body (shared or exclusive) of the same lock. -/
theorem thread_exclusion {s : TL} (h : Reachable s) (t t' : Tid)
    (hex : inExBody s t = true) (hne : t' ≠ t) : inBody s t' = false := by
  have hi := reachable_inv h
  exact inBody_false_iff.mpr (hi.excl t (inExBody_iff.mp hex) t' hne)

/-- An exclusive holder keeps the condition's RLock for its whole critical
    section, so every other thread's request blocks (or is refused). -/
theorem exclusive_holds_rlock {s : TL} (h : Reachable s) (t : Tid)
    (hex : inExBody s t = true) : s.owner = some t := by
  have hi := reachable_inv h
  exact hi.exOwner t (inExBody_iff.mp hex)

/-- **Shared holders are compatible.** When no thread is in an exclusive body,
    a (reentrant or first) shared request by any non-waiting thread is granted
    at once, however many threads already hold the lock shared. -/
theorem shared_compatible {s : TL} (h : Reachable s) (t : Tid) (b : Bool)
    (hnoex : ∀ x, inExBody s x = false) (hw : isWaiting s t = false) :
    ∃ s', step true s (.shEnter t b true) = some (s', .entered) ∧ inBody s' t = true ∧
      ∀ x, s'.count x ≥ s.count x := by
  have hi := reachable_inv h
  have hown : s.owner = none := by
    cases ho : s.owner with
    | none => rfl
    | some o =>
      have := hi.own o ho
      have h0 := inExBody_false_iff.mp (hnoex o)
      omega
  refine ⟨{ s with frames := (t, false) :: s.frames }, ?_, ?_, ?_⟩
  · simp [step, hw, TL.shEnter, rlockAvail, hown]
  · apply inBody_iff.mpr; simp [cnt_cons]; omega
  · intro x; simp [TL.count, cnt_cons]

@[simp] theorem release_frames (u : TL) : u.release.frames = u.frames := by
  simp only [TL.release]; split <;> rfl
@[simp] theorem acquire_frames (u : TL) (t : Tid) : (u.acquire t).frames = u.frames := rfl
@[simp] theorem notifyAll_frames (u : TL) : u.notifyAll.frames = u.frames := rfl

theorem shEnter_other {s s' : TL} {o : Out} {t x : Tid} {b r : Bool}
    (h : s.shEnter t b r = some (s', o)) (hx : x ≠ t) : s'.count x = s.count x := by
  have hne : ¬ (t = x) := fun hh => hx hh.symm
  unfold TL.shEnter at h
  repeat' split at h
  all_goals first
    | (have hs := some_pair_inj h; subst hs; simp [TL.count, cnt_cons, hne])
    | cases h

theorem exProceed_other {s s' : TL} {o : Out} {t x : Tid} {r : Bool}
    (h : s.exProceed t r = (s', o)) (hx : x ≠ t) : s'.count x = s.count x := by
  have hne : ¬ (t = x) := fun hh => hx hh.symm
  unfold TL.exProceed at h
  split at h
  all_goals (have hs := (Prod.mk.inj h).1; subst hs; simp [TL.count, cnt_cons, hne])

theorem exEnter_other {s s' : TL} {o : Out} {t x : Tid} {b r : Bool}
    (h : s.exEnter t b r = some (s', o)) (hx : x ≠ t) : s'.count x = s.count x := by
  unfold TL.exEnter at h
  simp only [] at h
  split at h
  · split at h
    · split at h
      · have hs := some_pair_inj h; subst hs; simp [TL.count]
      · have hs := some_pair_inj h; subst hs; simp [TL.count]
    · have := exProceed_other (Option.some.inj h) hx
      simpa [TL.count] using this
  · split at h
    · cases h
    · have hs := some_pair_inj h; subst hs; rfl

theorem shExit_other {s s' : TL} {o : Out} {t x : Tid} {fixed : Bool}
    (h : s.shExit fixed t = some (s', o)) (hx : x ≠ t) : s'.count x = s.count x := by
  unfold TL.shExit at h
  split at h
  · cases hp : popFrame s.frames t false with
    | none => simp [hp] at h
    | some fs =>
      simp only [hp] at h
      obtain ⟨_, _, p3, _, _, _⟩ := popFrame_spec s.frames fs t false hp
      have hs := some_pair_inj h; subst hs
      split <;> simp [TL.count, p3 x, hx]
  · cases h

theorem exExit_other {s s' : TL} {o : Out} {t x : Tid}
    (h : s.exExit t = some (s', o)) (hx : x ≠ t) : s'.count x = s.count x := by
  unfold TL.exExit at h
  cases hp : popFrame s.frames t true with
  | none => simp [hp] at h
  | some fs =>
    simp only [hp] at h
    obtain ⟨_, _, p3, _, _, _⟩ := popFrame_spec s.frames fs t true hp
    have hs := some_pair_inj h; subst hs
    simp [TL.count, p3 x, hx]

theorem exWake_other {s s' : TL} {o : Out} {t x : Tid} {r : Bool}
    (h : s.exWake t r = some (s', o)) (hx : x ≠ t) : s'.count x = s.count x := by
  unfold TL.exWake at h
  cases hf : s.waiting.find? (fun w => w.1 == t) with
  | none => simp [hf] at h
  | some p =>
    obtain ⟨a, d⟩ := p
    simp only [hf] at h
    split at h
    · split at h
      · have hs := some_pair_inj h; subst hs; simp [TL.count]
      · have := exProceed_other (Option.some.inj h) hx
        simpa [TL.count] using this
    · cases h

/-- **A step of one thread never changes another thread's holdings**
    (a held lock is not released by unrelated activity). -/
theorem no_foreign_release {s s' : TL} {o : Out} (e : Ev) (fixed : Bool)
    (h : step fixed s e = some (s', o)) (x : Tid) (hx : x ≠ e.tid) :
    s'.count x = s.count x := by
  cases e with
  | shEnter t b r =>
    simp only [step, Ev.tid] at h hx
    split at h
    · cases h
    · exact shEnter_other h hx
  | shExit t =>
    simp only [step, Ev.tid] at h hx
    split at h
    · cases h
    · exact shExit_other h hx
  | exEnter t b r =>
    simp only [step, Ev.tid] at h hx
    split at h
    · cases h
    · exact exEnter_other h hx
  | exWake t r => exact exWake_other h hx
  | exExit t =>
    simp only [step, Ev.tid] at h hx
    split at h
    · cases h
    · exact exExit_other h hx

/-- **No lost wake-up.**  In every reachable state, a thread blocked in the
    condition's `wait()` whose conflicting holders have all released has been
    notified, the RLock is free, and its wake-up transition is enabled and does
    not put it back to sleep: the blocking request is granted (or raises the
    documented recursion error). -/
theorem no_lost_wakeup {s : TL} (h : Reachable s) (w : Tid) (r : Bool)
    (hw : isWaiting s w = true) (hfree : ∀ t', t' ≠ w → s.count t' = 0) :
    w ∈ s.notified ∧ s.owner = none ∧
    ∃ s' o, step true s (.exWake w r) = some (s', o) ∧ o ≠ .waitingNow := by
  have hi := reachable_inv h
  have hn : w ∈ s.notified := by
    by_cases hn : w ∈ s.notified
    · exact hn
    · exfalso
      obtain ⟨t', h1, h2⟩ := hi.wake w hw hn
      have := oldSh_pos _ _ h2
      have := hfree t' h1
      simp only [TL.count] at this; omega
  have hown : s.owner = none := by
    cases ho : s.owner with
    | none => rfl
    | some o =>
      exfalso
      obtain ⟨hd, hpos⟩ := hi.own o ho
      have hexo : 0 < exc s.frames o := by omega
      by_cases how : o = w
      · subst how; have := hi.waitNoEx o hw; omega
      · have := hfree o how
        have := exc_le_cnt s.frames o
        simp only [TL.count] at *; omega
  refine ⟨hn, hown, ?_⟩
  -- the wake transition
  have hfind : ∃ d, s.waiting.find? (fun p => p.1 == w) = some (w, d) := by
    simp only [isWaiting, List.any_eq_true] at hw
    obtain ⟨p, hp, hpw⟩ := hw
    cases hf : s.waiting.find? (fun p => p.1 == w) with
    | none =>
      have := List.find?_eq_none.mp hf p hp
      simp at this hpw; exact absurd hpw this
    | some q =>
      have := List.find?_some hf
      simp at this
      exact ⟨q.2, by rw [← this]⟩
  obtain ⟨d, hfind⟩ := hfind
  have hoth : ∀ (s1 : TL), s1.frames = s.frames → s1.others w = false := by
    intro s1 hfr
    simp only [TL.others, hfr]
    exact (others_false_iff s.frames w).mpr (fun t' ht' => hfree t' ht')
  have hc : (s.notified.contains w && s.owner == none) = true := by simp [hn, hown]
  simp only [step, TL.exWake, hfind, hc, if_true]
  split
  · rename_i hcontra
    have hf := (others_false_iff s.frames w).mpr (fun t' ht' => hfree t' ht')
    simp only [TL.others] at hcontra
    rw [hf] at hcontra; simp at hcontra
  · unfold TL.exProceed
    split
    · exact ⟨_, _, rfl, by simp⟩
    · exact ⟨_, _, rfl, by simp⟩

/-- The code before the repair **loses a wake-up** (finding F1): T1 holds
    shared, T2 holds shared, T1 requests exclusive (blocking, reentrant) and
    waits for T2; T2 releases — and T1 is neither notified nor ever will be,
    although no other thread holds the lock any more. -/
theorem lost_wakeup_witness :
    ∃ s, runEvs false {} [.shEnter 1 true true, .shEnter 2 true true, .exEnter 1 true true, .shExit 2]
          = some s ∧
      isWaiting s 1 = true ∧ (1 ∉ s.notified) ∧ s.count 2 = 0 ∧ s.frames = [(1, false)] ∧
      step false s (.exWake 1 true) = none := by
  refine ⟨_, rfl, ?_⟩
  decide

/-- … and on the same schedule the repaired code notifies T1, which then enters. -/
example :
    ∃ s, runEvs true {} [.shEnter 1 true true, .shEnter 2 true true, .exEnter 1 true true, .shExit 2,
                         .exWake 1 true] = some s ∧ inExBody s 1 = true := by
  refine ⟨_, rfl, ?_⟩
  decide

/-- **A non-blocking request never waits**: it is always enabled and its
    outcome is never `waitingNow`. -/
theorem nonblocking_never_waits (fixed : Bool) (s : TL) (t : Tid) (r : Bool)
    (hw : isWaiting s t = false) :
    (∃ s' o, step fixed s (.shEnter t false r) = some (s', o) ∧ o ≠ .waitingNow) ∧
    (∃ s' o, step fixed s (.exEnter t false r) = some (s', o) ∧ o ≠ .waitingNow) := by
  constructor
  · simp only [step, hw, TL.shEnter]
    by_cases ha : s.rlockAvail t = true
    · simp only [ha, if_true, Bool.false_eq_true, if_false]
      split
      · exact ⟨_, _, rfl, by simp⟩
      · exact ⟨_, _, rfl, by simp⟩
    · simp only [ha, Bool.false_eq_true, if_false]
      exact ⟨_, _, rfl, by simp⟩
  · simp only [step, hw, TL.exEnter]
    by_cases ha : s.rlockAvail t = true
    · simp only [ha, if_true, Bool.false_eq_true, if_false]
      by_cases hoth : (s.acquire t).others t = true
      · simp only [hoth, if_true]
        exact ⟨_, _, rfl, by simp⟩
      · simp only [hoth, Bool.false_eq_true, if_false]
        unfold TL.exProceed
        split
        · exact ⟨_, _, rfl, by simp⟩
        · exact ⟨_, _, rfl, by simp⟩
    · simp only [ha, Bool.false_eq_true, if_false]
      exact ⟨_, _, rfl, by simp⟩

/-- A non-blocking request that would have to wait is refused. -/
theorem nonblocking_refuses {s : TL} (t t' : Tid) (r : Bool)
    (hw : isWaiting s t = false) (hne : t' ≠ t) (hb : inBody s t' = true) :
    ∃ s', step true s (.exEnter t false r) = some (s', .raisedWouldBlock) ∧ s'.frames = s.frames := by
  simp only [step, hw, TL.exEnter]
  have hoth : (s.acquire t).others t = true :=
    (others_iff s.frames t).mpr ⟨t', hne, inBody_iff.mp hb⟩
  by_cases ha : s.rlockAvail t = true
  · simp only [ha, if_true, hoth, Bool.false_eq_true, if_false]
    refine ⟨_, rfl, ?_⟩
    simp only [TL.release]; split <;> rfl
  · simp only [ha, Bool.false_eq_true, if_false]
    exact ⟨_, rfl, rfl⟩

/-- **A non-reentrant recursive request raises rather than hangs.** -/
theorem nonreentrant_recursion_raises {s : TL} (h : Reachable s) (t : Tid) (b : Bool)
    (hw : isWaiting s t = false) (hb : inBody s t = true) :
    (∃ s', step true s (.shEnter t b false) = some (s', .raisedRecursive) ∧ s' = s) ∧
    ((∀ t', t' ≠ t → s.count t' = 0) →
      ∃ s', step true s (.exEnter t b false) = some (s', .raisedRecursive) ∧ s' = s) := by
  have hi := reachable_inv h
  have hc : 0 < cnt s.frames t := inBody_iff.mp hb
  -- the RLock is available to t: an owner other than t would exclude t's frames
  have hav : s.rlockAvail t = true := by
    cases ho : s.owner with
    | none => simp [rlockAvail, ho]
    | some o =>
      by_cases hot : o = t
      · simp [rlockAvail, ho, hot]
      · exfalso
        obtain ⟨hd, hpos⟩ := hi.own o ho
        have := hi.excl o (by omega) t (fun h => hot h.symm)
        omega
  constructor
  · simp only [step, hw, TL.shEnter, hav, if_true]
    have : (!false && decide (s.count t > 0)) = true := by simp [TL.count, hc]
    simp only [Bool.false_eq_true, if_false, this, if_true]
    exact ⟨s, rfl, rfl⟩
  · intro hfree
    have hoth : (s.acquire t).others t = false := by
      simp only [TL.others, TL.acquire]
      exact (others_false_iff s.frames t).mpr hfree
    simp only [step, hw, TL.exEnter, hav, if_true, hoth, Bool.false_eq_true, if_false]
    unfold TL.exProceed
    have : (decide ((s.acquire t).count t > 0) && !false) = true := by
      simp [TL.count, TL.acquire, hc]
    simp only [this, if_true]
    exact ⟨_, rfl, release_acquire hi hav⟩

/-- **Clean quiescence.** When every thread has left, the RLock is free. -/
theorem quiescent_clean {s : TL} (h : Reachable s) (hq : s.frames = []) :
    s.owner = none ∧ s.depth = 0 := by
  have hi := reachable_inv h
  have hown : s.owner = none := by
    cases ho : s.owner with
    | none => rfl
    | some o =>
      obtain ⟨hd, hpos⟩ := hi.own o ho
      simp [hq, exc] at hd; omega
  exact ⟨hown, hi.free hown⟩

-- non-vacuity: a reachable state with an exclusive holder and a blocked reader, and one with
-- three simultaneous readers
example : ∃ s, runEvs true {} [.exEnter 7 true false] = some s ∧ inExBody s 7 = true ∧
    step true s (.shEnter 8 true false) = none := ⟨_, rfl, by decide⟩
example : ∃ s, runEvs true {} [.shEnter 1 true false, .shEnter 2 true false, .shEnter 3 false true]
    = some s ∧ inBody s 1 = true ∧ inBody s 2 = true ∧ inBody s 3 = true := ⟨_, rfl, by decide⟩


/-! ## Process level: `ShareableProcessLock` of every process + the kernel's record-lock table

  Any number of processes and threads; every finite sequence of entry / `lockf`-return /
  exit transitions. -/

open KS

def PReachable (s : KS) : Prop := ∃ evs, prun {} evs = some s

theorem preachable_kinv {s : KS} (h : PReachable s) : KInv s := by
  obtain ⟨evs, h⟩ := h
  exact prun_inv evs kinv_init h

theorem pIn_held {s : KS} {p : Pid} {t : Nat} (h : pIn s p t = true) : isHeld (s.procs p) = true := by
  simp only [pIn, Bool.or_eq_true] at h
  apply (isHeld_iff _).mpr
  rcases h with h | h
  · left; intro hn; simp [hn] at h
  · right; intro hn; simp [hn] at h

/-- **Cross-process exclusion.** While a thread of process `p` holds the file exclusively,
    no thread of any other process holds it in any mode. -/
theorem process_exclusion {s : KS} (h : PReachable s) (p q : Pid) (t t' : Nat)
    (hex : pInEx s p t = true) (hne : q ≠ p) : pIn s q t' = false := by
  have hi := preachable_kinv h
  have hpe : (s.procs p).exclBy ≠ [] := by
    intro hn; simp [pInEx, hn] at hex
  have hk := hi.exEntry p hpe
  by_cases hq : pIn s q t' = true
  · exfalso
    have hheld := pIn_held hq
    rcases (isHeld_iff _).mp hheld with h1 | h1
    · obtain ⟨m, hm⟩ := hi.shEntry q h1
      exact hne (hi.exOnly p hk (q, m) hm)
    · exact hne (hi.exOnly p hk (q, true) (hi.exEntry q h1))
  · simpa using hq

/-- **Kernel agreement / no foreign release.** Whatever other threads and processes do, a
    thread inside a body has its process holding the file in the kernel table, exclusively
    if the thread holds exclusively; the entry of a process is unique. -/
theorem kernel_agreement {s : KS} (h : PReachable s) (p : Pid) (t : Nat) (hin : pIn s p t = true) :
    (∃ m, (p, m) ∈ s.kernel ∧ (pInEx s p t = true → m = true)) ∧
    (s.kernel.map (·.1)).Nodup := by
  have hi := preachable_kinv h
  refine ⟨?_, hi.nodup⟩
  by_cases hex : pInEx s p t = true
  · have hpe : (s.procs p).exclBy ≠ [] := by
      intro hn; simp [pInEx, hn] at hex
    exact ⟨true, hi.exEntry p hpe, fun _ => rfl⟩
  · have hsh : (s.procs p).sharedBy ≠ [] := by
      intro hn
      simp only [pIn, hn, Bool.or_eq_true] at hin
      rcases hin with h1 | h1
      · simp at h1
      · exact hex h1
    obtain ⟨m, hm⟩ := hi.shEntry p hsh
    exact ⟨m, hm, fun h' => absurd h' hex⟩

/-- **No leaked kernel lock.** When no thread of any process holds the file, the kernel
    table is empty. -/
theorem no_kernel_leak {s : KS} (h : PReachable s) (hq : ∀ p, isHeld (s.procs p) = false) :
    s.kernel = [] := by
  have hi := preachable_kinv h
  cases hk : s.kernel with
  | nil => rfl
  | cons e es =>
    exfalso
    have := hi.noLeak e.1 e.2 (by rw [hk]; simp)
    rw [hq e.1] at this; cases this

/-- **A pending `lockf` returns once no other process holds the file**: the blocked entry
    (or upgrade, or downgrade) is granted as soon as all conflicting holders have released. -/
theorem lockf_granted_when_free {s : KS} (h : PReachable s) (p : Pid) (pd : Pend)
    (hp : (s.procs p).pend = some pd) (hfree : ∀ q, q ≠ p → isHeld (s.procs q) = false) :
    ∃ s' o, s.pLockf p pd.tid = some (s', o) ∧ o ≠ .raisedWouldBlock := by
  have hi := preachable_kinv h
  have hg : ∀ ex, s.grantable p ex = true := by
    intro ex
    simp only [grantable, List.all_eq_true]
    intro e he
    have hep : e.1 = p := by
      by_cases hep : e.1 = p
      · exact hep
      · have := hi.noLeak e.1 e.2 he
        rw [hfree e.1 hep] at this; cases this
    simp [hep]
  simp only [pLockf, hp, bne_self_eq_false, Bool.false_eq_true, if_false, hg, if_true]
  split
  · exact ⟨_, _, rfl, by simp⟩
  · exact ⟨_, _, rfl, by simp⟩

/-! ## The keyed reference pools (thread locks by path, process locks by fd, fds by path) -/

def PoolReachable (s : PoolSt) : Prop := ∃ evs, poolRun {} evs = some s

theorem poolreachable_pinv {s : PoolSt} (h : PoolReachable s) : PInv s := by
  obtain ⟨evs, h⟩ := h
  exact poolRun_inv evs pinv_init h

/-- **One object per key while anybody uses it** (the single-fd rule; all users of a path
    share one thread lock and one process lock): two outstanding references to the same key
    were handed the same object. -/
theorem pool_single_object {s : PoolSt} (h : PoolReachable s) (t1 t2 k o1 o2 : Nat)
    (h1 : (t1, k, o1) ∈ s.holders) (h2 : (t2, k, o2) ∈ s.holders) : o1 = o2 := by
  have hi := poolreachable_pinv h
  have e1 := hi.held _ h1
  have e2 := hi.held _ h2
  have := nodup_key_unique hi.nodup e1 e2 rfl
  have := congrArg (fun e => e.2.1) this
  simpa using this

/-- The reference count of an entry is the number of outstanding references to its key. -/
theorem pool_refcount {s : PoolSt} (h : PoolReachable s) (k o n : Nat) (he : (k, o, n) ∈ s.pool.refs) :
    n = hcount s.holders k ∧ 0 < n := by
  have := (poolreachable_pinv h).count _ he
  simpa using this

/-- **The destructor (closing the fd) never runs on an object somebody still uses.** -/
theorem pool_live_not_destroyed {s : PoolSt} (h : PoolReachable s) (t k o : Nat)
    (hh : (t, k, o) ∈ s.holders) : o ∉ s.pool.destroyed := by
  have hi := poolreachable_pinv h
  intro hd
  have := (hi.dead o hd).2 _ (hi.held _ hh)
  simp at this

/-- **When the last user has left, the bookkeeping is empty** (and every created object has
    been destroyed or never existed: nothing is left in the pool). -/
theorem pool_quiescent_clean {s : PoolSt} (h : PoolReachable s) (hq : s.holders = []) :
    s.pool.refs = [] := by
  have hi := poolreachable_pinv h
  cases hr : s.pool.refs with
  | nil => rfl
  | cons e es =>
    exfalso
    have := hi.count e (by rw [hr]; simp)
    rw [hq] at this
    simp [hcount] at this
    omega

-- non-vacuity: two users of one key share object 0; after both leave it is destroyed once
example : ∃ s, poolRun {} [.enter 1 7, .enter 2 7, .exit 1 7] = some s ∧
    s.holders = [(2, 7, 0)] ∧ s.pool.refs = [(7, 0, 1)] ∧ s.pool.destroyed = [] := ⟨_, rfl, by decide⟩
example : ∃ s, poolRun {} [.enter 1 7, .enter 2 7, .exit 1 7, .exit 2 7, .enter 3 7] = some s ∧
    s.pool.refs = [(7, 1, 1)] ∧ s.pool.destroyed = [0] := ⟨_, rfl, by decide⟩

/-! ## `path_lock` = thread level (outside) + process level (inside) -/

/-- **Reader–writer exclusion of `path_lock`, every schedule.**  If a thread `t` of process
    `p` is in an exclusive body (it holds both levels exclusively), no other thread of any
    process is in a body for that path: same process by the thread level, other processes by
    the kernel table. -/
theorem path_exclusion (tl : Pid → TL) (ks : KS)
    (h1 : ∀ p, Reachable (tl p)) (h2 : PReachable ks)
    (p q : Pid) (t t' : Nat)
    (hex1 : inExBody (tl p) t = true) (hex2 : pInEx ks p t = true)
    (hne : q ≠ p ∨ t' ≠ t) :
    ¬ (inBody (tl q) t' = true ∧ pIn ks q t' = true) := by
  rintro ⟨hb1, hb2⟩
  by_cases hq : q = p
  · subst hq
    have ht : t' ≠ t := by
      rcases hne with h | h
      · exact absurd rfl h
      · exact h
    have := thread_exclusion (h1 q) t t' hex1 ht
    rw [this] at hb1; cases hb1
  · have := process_exclusion h2 p q t t' hex2 hq
    rw [this] at hb2; cases hb2

-- non-vacuity: two processes share; an upgrade blocks until the other process leaves
example : ∃ s, prun {} [.enter 0 1 true true true, .lockf 0 1, .enter 1 2 true true true, .lockf 1 2,
    .enter 0 1 false true true] = some s ∧ pIn s 0 1 = true ∧ pIn s 1 2 = true ∧
    pstep s (.lockf 0 1) = none := ⟨_, rfl, by decide⟩
example : ∃ s, prun {} [.enter 0 1 true true true, .lockf 0 1, .enter 1 2 true true true, .lockf 1 2,
    .enter 0 1 false true true, .exit 1 2 true, .lockf 0 1] = some s ∧ pInEx s 0 1 = true ∧
    s.kernel = [(0, true)] := ⟨_, rfl, by decide⟩

end Pharmpy.C15
