import PharmpyModel.C15.Proc
/-
  Invariant of the process-level lock + kernel table and its preservation.
-/
namespace Pharmpy.C15
open KS

structure KInv (s : KS) : Prop where
  nodup   : (s.kernel.map (·.1)).Nodup
  exOnly  : ∀ p, (p, true) ∈ s.kernel → ∀ e ∈ s.kernel, e.1 = p
  exEntry : ∀ p, (s.procs p).exclBy ≠ [] → (p, true) ∈ s.kernel
  shEntry : ∀ p, (s.procs p).sharedBy ≠ [] → ∃ m, (p, m) ∈ s.kernel
  noLeak  : ∀ p m, (p, m) ∈ s.kernel → isHeld (s.procs p) = true
  pendSh  : ∀ p pd, (s.procs p).pend = some pd → pd.addAfter = true → pd.shared = true →
              isHeld (s.procs p) = false
  pendDown : ∀ p pd, (s.procs p).pend = some pd → pd.addAfter = false →
              pd.shared = true ∧ (s.procs p).exclBy = [] ∧ (s.procs p).sharedBy ≠ [] ∧ (p, true) ∈ s.kernel

theorem kinv_init : KInv {} := by
  constructor <;> simp [isHeld]

theorem setProc_same (s : KS) (p : Pid) (l : PL) : (s.setProc p l).procs p = l := by
  simp [setProc]
theorem setProc_other (s : KS) (p q : Pid) (l : PL) (h : q ≠ p) : (s.setProc p l).procs q = s.procs q := by
  simp [setProc, h]
@[simp] theorem setProc_kernel (s : KS) (p : Pid) (l : PL) : (s.setProc p l).kernel = s.kernel := rfl

theorem isHeld_add (l : PL) (t : Nat) (sh : Bool) : isHeld (addHolder l t sh) = true := by
  cases sh <;> simp [isHeld, addHolder]

theorem erase_ne_nil {l : List Nat} {t : Nat} (h : l.erase t ≠ []) : l ≠ [] := by
  intro hl; subst hl; simp at h

/-- The invariant restricted to what changes when only process `p`'s bookkeeping changes
    and the kernel stays the same. -/
theorem kinv_setProc {s : KS} (hi : KInv s) (p : Pid) (l : PL)
    (hex : l.exclBy ≠ [] → (p, true) ∈ s.kernel)
    (hsh : l.sharedBy ≠ [] → ∃ m, (p, m) ∈ s.kernel)
    (hleak : ∀ m, (p, m) ∈ s.kernel → isHeld l = true)
    (hps : ∀ pd, l.pend = some pd → pd.addAfter = true → pd.shared = true → isHeld l = false)
    (hpd : ∀ pd, l.pend = some pd → pd.addAfter = false →
              pd.shared = true ∧ l.exclBy = [] ∧ l.sharedBy ≠ [] ∧ (p, true) ∈ s.kernel) :
    KInv (s.setProc p l) := by
  refine ⟨hi.nodup, hi.exOnly, ?_, ?_, ?_, ?_, ?_⟩
  · intro q hq
    by_cases h : q = p
    · subst h; rw [setProc_same] at hq; exact hex hq
    · rw [setProc_other _ _ _ _ h] at hq; exact hi.exEntry q hq
  · intro q hq
    by_cases h : q = p
    · subst h; rw [setProc_same] at hq; exact hsh hq
    · rw [setProc_other _ _ _ _ h] at hq; exact hi.shEntry q hq
  · intro q m hq
    by_cases h : q = p
    · subst h; rw [setProc_same]; exact hleak m hq
    · rw [setProc_other _ _ _ _ h]; exact hi.noLeak q m hq
  · intro q pd h1 h2 h3
    by_cases h : q = p
    · subst h; rw [setProc_same] at h1 ⊢; exact hps pd h1 h2 h3
    · rw [setProc_other _ _ _ _ h] at h1 ⊢; exact hi.pendSh q pd h1 h2 h3
  · intro q pd h1 h2
    by_cases h : q = p
    · subst h; rw [setProc_same] at h1 ⊢; exact hpd pd h1 h2
    · rw [setProc_other _ _ _ _ h] at h1 ⊢; exact hi.pendDown q pd h1 h2

theorem mem_filter_ne {k : List (Pid × Bool)} {p : Pid} {e : Pid × Bool} :
    e ∈ k.filter (fun e => e.1 != p) ↔ e ∈ k ∧ e.1 ≠ p := by
  simp [List.mem_filter]

/-- Granting `lockf` to process `p` (mode `ex`) and updating its bookkeeping to `l`. -/
theorem kinv_kset {s : KS} (hi : KInv s) (p : Pid) (ex : Bool) (l : PL)
    (hg : s.grantable p ex = true)
    (hex : l.exclBy ≠ [] → ex = true)
    (hheld : isHeld l = true)
    (hpend : l.pend = none) :
    KInv ((s.kset p ex).setProc p l) := by
  have hgr : ∀ e ∈ s.kernel, e.1 = p ∨ (ex = false ∧ e.2 = false) := by
    intro e he
    have := (List.all_eq_true.mp hg) e he
    simp at this
    rcases this with h | ⟨h1, h2⟩
    · exact Or.inl h
    · exact Or.inr ⟨h1, h2⟩
  have hk : ((s.kset p ex).setProc p l).kernel = (p, ex) :: s.kernel.filter (fun e => e.1 != p) := rfl
  refine ⟨?_, ?_, ?_, ?_, ?_, ?_, ?_⟩
  · rw [hk]; simp only [List.map_cons, List.nodup_cons]
    constructor
    · intro hm
      obtain ⟨e, he, hep⟩ := List.mem_map.mp hm
      exact (mem_filter_ne.mp he).2 hep
    · have := hi.nodup
      exact List.Nodup.sublist (List.Sublist.map _ List.filter_sublist) this
  · intro q hq e he
    rw [hk] at hq he
    simp only [List.mem_cons] at hq he
    rcases hq with hq | hq
    · -- the new entry is exclusive: nothing else can remain
      obtain ⟨rfl, rfl⟩ := Prod.mk.inj hq
      rcases he with rfl | he
      · rfl
      · obtain ⟨he1, he2⟩ := mem_filter_ne.mp he
        rcases hgr e he1 with h | ⟨h, _⟩
        · exact absurd h he2
        · cases h
    · obtain ⟨hq1, hq2⟩ := mem_filter_ne.mp hq
      -- an exclusive entry of another process contradicts grantability
      rcases hgr (q, true) hq1 with h | ⟨_, h⟩
      · exact absurd h hq2
      · cases h
  · intro q hq
    by_cases h : q = p
    · subst h; rw [setProc_same] at hq
      rw [hk]; simp [hex hq]
    · rw [setProc_other _ _ _ _ h] at hq
      rw [hk]; simp only [List.mem_cons]
      right; exact mem_filter_ne.mpr ⟨hi.exEntry q hq, h⟩
  · intro q hq
    by_cases h : q = p
    · subst h; exact ⟨ex, by rw [hk]; simp⟩
    · rw [setProc_other _ _ _ _ h] at hq
      obtain ⟨m, hm⟩ := hi.shEntry q hq
      exact ⟨m, by rw [hk]; simp only [List.mem_cons]; right; exact mem_filter_ne.mpr ⟨hm, h⟩⟩
  · intro q m hq
    rw [hk] at hq; simp only [List.mem_cons] at hq
    by_cases h : q = p
    · subst h; rw [setProc_same]; exact hheld
    · rw [setProc_other _ _ _ _ h]
      rcases hq with hq | hq
      · exact absurd (Prod.mk.inj hq).1 h
      · exact hi.noLeak q m (mem_filter_ne.mp hq).1
  · intro q pd h1 h2 h3
    by_cases h : q = p
    · subst h; rw [setProc_same] at h1; rw [hpend] at h1; cases h1
    · rw [setProc_other _ _ _ _ h] at h1 ⊢; exact hi.pendSh q pd h1 h2 h3
  · intro q pd h1 h2
    by_cases h : q = p
    · subst h; rw [setProc_same] at h1; rw [hpend] at h1; cases h1
    · rw [setProc_other _ _ _ _ h] at h1 ⊢
      obtain ⟨a, b, c, d⟩ := hi.pendDown q pd h1 h2
      refine ⟨a, b, c, ?_⟩
      -- q holds exclusively in the kernel, so p's request was not grantable unless p = q
      rcases hgr (q, true) d with hh | ⟨_, hh⟩
      · exact absurd hh h
      · cases hh

/-- Last holder of process `p` leaves: its kernel entry is removed. -/
theorem kinv_kerase {s : KS} (hi : KInv s) (p : Pid) (l : PL)
    (hnot : isHeld l = false) (hpend : l.pend = none) :
    KInv ((s.kerase p).setProc p l) := by
  have hk : ((s.kerase p).setProc p l).kernel = s.kernel.filter (fun e => e.1 != p) := rfl
  have hl : l.sharedBy = [] ∧ l.exclBy = [] := by
    simp [isHeld] at hnot; exact hnot
  refine ⟨?_, ?_, ?_, ?_, ?_, ?_, ?_⟩
  · rw [hk]; exact List.Nodup.sublist (List.Sublist.map _ List.filter_sublist) hi.nodup
  · intro q hq e he
    rw [hk] at hq he
    exact hi.exOnly q (mem_filter_ne.mp hq).1 e (mem_filter_ne.mp he).1
  · intro q hq
    by_cases h : q = p
    · subst h; rw [setProc_same] at hq; exact absurd hl.2 hq
    · rw [setProc_other _ _ _ _ h] at hq
      rw [hk]; exact mem_filter_ne.mpr ⟨hi.exEntry q hq, h⟩
  · intro q hq
    by_cases h : q = p
    · subst h; rw [setProc_same] at hq; exact absurd hl.1 hq
    · rw [setProc_other _ _ _ _ h] at hq
      obtain ⟨m, hm⟩ := hi.shEntry q hq
      exact ⟨m, by rw [hk]; exact mem_filter_ne.mpr ⟨hm, h⟩⟩
  · intro q m hq
    rw [hk] at hq
    obtain ⟨h1, h2⟩ := mem_filter_ne.mp hq
    rw [setProc_other _ _ _ _ h2]; exact hi.noLeak q m h1
  · intro q pd h1 h2 h3
    by_cases h : q = p
    · subst h; rw [setProc_same] at h1; rw [hpend] at h1; cases h1
    · rw [setProc_other _ _ _ _ h] at h1 ⊢; exact hi.pendSh q pd h1 h2 h3
  · intro q pd h1 h2
    by_cases h : q = p
    · subst h; rw [setProc_same] at h1; rw [hpend] at h1; cases h1
    · rw [setProc_other _ _ _ _ h] at h1 ⊢
      obtain ⟨a, b, c, d⟩ := hi.pendDown q pd h1 h2
      exact ⟨a, b, c, by rw [hk]; exact mem_filter_ne.mpr ⟨d, h⟩⟩

theorem some_ppair_inj {a a' : KS} {o o' : POut} (h : some (a, o) = some (a', o')) : a = a' := by
  cases h; rfl

theorem isHeld_iff (l : PL) : isHeld l = true ↔ l.sharedBy ≠ [] ∨ l.exclBy ≠ [] := by
  simp [isHeld]
theorem isHeld_false_iff (l : PL) : isHeld l = false ↔ l.sharedBy = [] ∧ l.exclBy = [] := by
  simp [isHeld]

theorem pEnter_inv {s s' : KS} {o : POut} {p : Pid} {t : Nat} {sh b r : Bool} (hi : KInv s)
    (h : s.pEnter p t sh b r = some (s', o)) : KInv s' := by
  unfold KS.pEnter at h
  simp only [] at h
  cases hp : (s.procs p).pend with
  | some pd =>
    simp only [hp] at h
    split at h
    · cases h
    · have := some_ppair_inj h; subst this; exact hi
  | none =>
    simp only [hp] at h
    split at h
    · have := some_ppair_inj h; subst this; exact hi
    · split at h
      · rename_i hneed
        have := some_ppair_inj h; subst this
        apply kinv_setProc hi
        · exact hi.exEntry p
        · exact hi.shEntry p
        · intro m hm; simpa [isHeld] using hi.noLeak p m hm
        · intro pd hpd _ hshd
          simp at hpd; subst hpd
          simp at hshd; subst hshd
          simpa [isHeld] using hneed
        · intro pd hpd hf
          simp at hpd; subst hpd; simp at hf
      · rename_i hneed
        have := some_ppair_inj h; subst this
        have hheld : isHeld (s.procs p) = true := by
          by_cases hh : isHeld (s.procs p) = true
          · exact hh
          · simp [hh] at hneed
        apply kinv_setProc hi
        · intro hex
          cases sh with
          | true => exact hi.exEntry p (by simpa [addHolder] using hex)
          | false =>
            have hns : (s.procs p).sharedBy = [] := by
              by_cases hs : (s.procs p).sharedBy = []
              · exact hs
              · simp [hheld, hs] at hneed
            have : (s.procs p).exclBy ≠ [] := by
              rcases (isHeld_iff _).mp hheld with h1 | h1
              · exact absurd hns h1
              · exact h1
            exact hi.exEntry p this
        · intro hsh'
          rcases (isHeld_iff _).mp hheld with h1 | h1
          · exact hi.shEntry p h1
          · exact ⟨true, hi.exEntry p h1⟩
        · intro m _; exact isHeld_add _ _ _
        · intro pd hpd; cases sh <;> simp [addHolder, hp] at hpd
        · intro pd hpd; cases sh <;> simp [addHolder, hp] at hpd

theorem exit_core {s : KS} (hi : KInv s) (p : Pid) (t : Nat) (sh : Bool) (l1 : PL)
    (hpend1 : l1.pend = none)
    (hsub_ex : l1.exclBy ≠ [] → (s.procs p).exclBy ≠ [])
    (hsub_sh : l1.sharedBy ≠ [] → (s.procs p).sharedBy ≠ [])
    (hexin : sh = false → (s.procs p).exclBy ≠ []) :
    KInv (if (!isHeld l1) = true then (s.kerase p).setProc p l1
          else if (l1.exclBy.isEmpty && !sh) = true then
            s.setProc p { l1 with pend := some ⟨t, true, true, false⟩ }
          else s.setProc p l1) := by
  by_cases hh : isHeld l1 = true
  · simp only [hh, Bool.not_true, Bool.false_eq_true, if_false]
    by_cases hdown : (l1.exclBy.isEmpty && !sh) = true
    · simp only [hdown, if_true]
      simp at hdown
      obtain ⟨hexe, hshf⟩ := hdown
      have hexin' := hexin hshf
      apply kinv_setProc hi
      · intro hex; simp at hex; exact absurd hexe hex
      · intro _; exact ⟨true, hi.exEntry p hexin'⟩
      · intro m _; simpa [isHeld] using hh
      · intro pd hpd hf; simp at hpd; subst hpd; simp at hf
      · intro pd hpd _
        simp at hpd; subst hpd
        refine ⟨rfl, by simpa using hexe, ?_, hi.exEntry p hexin'⟩
        rcases (isHeld_iff _).mp hh with h1 | h1
        · simpa using h1
        · exact absurd hexe h1
    · simp only [hdown, Bool.false_eq_true, if_false]
      apply kinv_setProc hi
      · intro hex; exact hi.exEntry p (hsub_ex hex)
      · intro hs; exact hi.shEntry p (hsub_sh hs)
      · intro m _; exact hh
      · intro pd hpd; rw [hpend1] at hpd; cases hpd
      · intro pd hpd; rw [hpend1] at hpd; cases hpd
  · have hf : isHeld l1 = false := by simpa using hh
    simp only [hf, Bool.not_false, if_true]
    exact kinv_kerase hi p l1 hf hpend1

theorem pExit_inv {s s' : KS} {o : POut} {p : Pid} {t : Nat} {sh : Bool} (hi : KInv s)
    (h : s.pExit p t sh = some (s', o)) : KInv s' := by
  unfold KS.pExit at h
  simp only [] at h
  cases hp : (s.procs p).pend with
  | some pd => simp [hp] at h
  | none =>
    simp only [hp] at h
    have hpend1 : (removeHolder (s.procs p) t sh).pend = none := by
      cases sh <;> simp [removeHolder, hp]
    have hsub_ex : (removeHolder (s.procs p) t sh).exclBy ≠ [] → (s.procs p).exclBy ≠ [] := by
      cases sh
      · simp only [removeHolder]; exact erase_ne_nil
      · simp [removeHolder]
    have hsub_sh : (removeHolder (s.procs p) t sh).sharedBy ≠ [] → (s.procs p).sharedBy ≠ [] := by
      cases sh
      · simp [removeHolder]
      · simp only [removeHolder]; exact erase_ne_nil
    have core := exit_core hi p t sh (removeHolder (s.procs p) t sh) hpend1 hsub_ex hsub_sh
    by_cases hcont : (if sh = true then (s.procs p).sharedBy.contains t else (s.procs p).exclBy.contains t) = true
    · simp only [hcont, Bool.not_true, Bool.false_eq_true, if_false] at h
      have hexin : sh = false → (s.procs p).exclBy ≠ [] := by
        intro hsf hnil; subst hsf; simp [hnil] at hcont
      have core := core hexin
      -- the three result shapes all carry the same state as `core`
      by_cases h1 : (!isHeld (removeHolder (s.procs p) t sh)) = true
      · simp only [h1, if_true] at h core
        have := some_ppair_inj h; subst this; exact core
      · simp only [h1, Bool.false_eq_true, if_false] at h core
        by_cases h2 : ((removeHolder (s.procs p) t sh).exclBy.isEmpty && !sh) = true
        · simp only [h2, if_true] at h core
          have := some_ppair_inj h; subst this; exact core
        · simp only [h2, Bool.false_eq_true, if_false] at h core
          have := some_ppair_inj h; subst this; exact core
    · have : (if sh = true then (s.procs p).sharedBy.contains t else (s.procs p).exclBy.contains t) = false :=
        Bool.eq_false_iff.mpr hcont
      simp only [this, Bool.not_false, if_true] at h
      cases h

theorem pLockf_inv {s s' : KS} {o : POut} {p : Pid} {t : Nat} (hi : KInv s)
    (h : s.pLockf p t = some (s', o)) : KInv s' := by
  unfold KS.pLockf at h
  simp only [] at h
  cases hp : (s.procs p).pend with
  | none => simp [hp] at h
  | some pd =>
    simp only [hp] at h
    split at h
    · cases h
    · split at h
      · rename_i hg
        split at h
        · rename_i hadd
          have := some_ppair_inj h; subst this
          apply kinv_kset hi p _ _ hg
          · intro hex
            cases hs : pd.shared with
            | false => rfl
            | true =>
              exfalso
              have hnh := hi.pendSh p pd hp hadd hs
              have := (isHeld_false_iff _).mp hnh
              simp [addHolder, hs, this.2] at hex
          · exact isHeld_add _ _ _
          · cases pd.shared <;> simp [addHolder]
        · rename_i hadd
          have := some_ppair_inj h; subst this
          obtain ⟨a, b, c, d⟩ := hi.pendDown p pd hp (by simpa using hadd)
          apply kinv_kset hi p _ _ hg
          · intro hex; simp at hex; exact absurd b hex
          · exact (isHeld_iff _).mpr (Or.inl (by simpa using c))
          · rfl
      · split at h
        · cases h
        · have := some_ppair_inj h; subst this
          apply kinv_setProc hi
          · intro hex; exact hi.exEntry p (by simpa using hex)
          · intro hs; exact hi.shEntry p (by simpa using hs)
          · intro m hm; simpa [isHeld] using hi.noLeak p m hm
          · intro pd' hpd; simp at hpd
          · intro pd' hpd; simp at hpd

theorem pstep_inv {s s' : KS} {o : POut} (e : PEv) (hi : KInv s)
    (h : pstep s e = some (s', o)) : KInv s' := by
  cases e with
  | enter p t sh b r => exact pEnter_inv hi h
  | lockf p t => exact pLockf_inv hi h
  | exit p t sh => exact pExit_inv hi h

theorem prun_inv (evs : List PEv) : ∀ {s s' : KS}, KInv s → prun s evs = some s' → KInv s' := by
  induction evs with
  | nil => intro s s' hi h; simp [prun] at h; subst h; exact hi
  | cons e es ih =>
    intro s s' hi h
    simp only [prun] at h
    cases hs : pstep s e with
    | none => simp [hs] at h
    | some q =>
      obtain ⟨s1, o⟩ := q
      simp only [hs] at h
      exact ih (pstep_inv e hi hs) h

end Pharmpy.C15
