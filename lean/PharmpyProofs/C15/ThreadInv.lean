import PharmpyProofs.C15.Lemmas
/-
  The inductive invariant of the thread-level lock (repaired code,
  `fixed = true`) and its preservation by every transition.
-/
namespace Pharmpy.C15
open TL

structure Inv (s : TL) : Prop where
  own      : ∀ t, s.owner = some t → s.depth = exc s.frames t ∧ 0 < s.depth
  free     : s.owner = none → s.depth = 0
  exOwner  : ∀ t, 0 < exc s.frames t → s.owner = some t
  excl     : ∀ t, 0 < exc s.frames t → ∀ t', t' ≠ t → cnt s.frames t' = 0
  waitNoEx : ∀ t, isWaiting s t = true → exc s.frames t = 0
  waitDepth : ∀ p ∈ s.waiting, p.2 = 1
  notifSub : ∀ w ∈ s.notified, isWaiting s w = true
  /-- no lost wake-up: an un-notified waiter still has a reason to wait, and that reason
      (a thread whose *oldest* frame is shared) is guaranteed to notify when it leaves -/
  wake     : ∀ w, isWaiting s w = true → w ∉ s.notified →
               ∃ t', t' ≠ w ∧ oldSh s.frames t' = true

theorem inv_init : Inv {} := by
  constructor <;> simp [isWaiting, exc, cnt]

theorem cnt_cons (f : Tid × Bool) (fs : List (Tid × Bool)) (x : Tid) :
    cnt (f :: fs) x = (if f.1 = x then 1 else 0) + cnt fs x := rfl
theorem exc_cons (f : Tid × Bool) (fs : List (Tid × Bool)) (x : Tid) :
    exc (f :: fs) x = (if f.1 = x ∧ f.2 = true then 1 else 0) + exc fs x := rfl

theorem oldSh_push (t : Tid) (m : Bool) (fs : List (Tid × Bool)) (x : Tid)
    (h : oldSh fs x = true) : oldSh ((t, m) :: fs) x = true := by
  simp only [oldSh]
  by_cases hx : t = x
  · have := oldSh_pos fs x h
    have h0 : cnt fs x ≠ 0 := by omega
    simp [hx, h0, h]
  · simp [hx, h]

/-- With the invariant, `rlockAvail` for `t` means nobody else has an exclusive frame. -/
theorem avail_noex {s : TL} (hi : Inv s) {t : Tid} (ha : s.rlockAvail t = true) :
    ∀ x, x ≠ t → exc s.frames x = 0 := by
  intro x hx
  by_cases h : 0 < exc s.frames x
  · have ho := hi.exOwner x h
    simp [rlockAvail, ho] at ha
    exact absurd ha hx
  · omega

theorem release_acquire {s : TL} (hi : Inv s) {t : Tid} (ha : s.rlockAvail t = true) :
    (s.acquire t).release = s := by
  cases ho : s.owner with
  | none =>
    have := hi.free ho
    simp [acquire, release, this]
    cases s; simp_all
  | some o =>
    have hot : o = t := by simp [rlockAvail, ho] at ha; exact ha
    have := (hi.own o ho).2
    subst hot
    have hd : ¬ (s.depth + 1 ≤ 1) := by omega
    simp [acquire, release, hd]
    cases s; simp_all

theorem isWaiting_mem {s : TL} {w : Tid} (h : isWaiting s w = true) : w ∈ s.waiting.map (·.1) := by
  simp only [isWaiting, List.any_eq_true] at h
  obtain ⟨p, hp, hpw⟩ := h
  simp only [List.mem_map]
  exact ⟨p, hp, by simpa using hpw⟩

/-! ### shEnter -/

theorem shEnter_inv {s s' : TL} {o : Out} {t : Tid} {b r : Bool} (hi : Inv s)
    (h : s.shEnter t b r = some (s', o)) : Inv s' := by
  unfold TL.shEnter at h
  by_cases ha : s.rlockAvail t = true
  · simp only [ha, if_true] at h
    split at h
    · simp at h; obtain ⟨rfl, _⟩ := h; exact hi
    · simp at h; obtain ⟨rfl, _⟩ := h
      have hne := avail_noex hi ha
      refine ⟨?_, ?_, ?_, ?_, ?_, ?_, ?_, ?_⟩
      · intro x hx; simpa [exc_cons] using hi.own x hx
      · intro hx; exact hi.free hx
      · intro x hx; simp [exc_cons] at hx; exact hi.exOwner x hx
      · intro x hx t' ht'
        simp [exc_cons] at hx
        have hxt : x = t := by
          by_cases hxt : x = t
          · exact hxt
          · have := hne x hxt; omega
        subst hxt
        have := hi.excl x hx t' ht'
        simp [cnt_cons, this]; exact fun h => ht' h.symm
      · intro x hx; simp [exc_cons]; exact hi.waitNoEx x (by simpa [isWaiting] using hx)
      · exact hi.waitDepth
      · intro w hw; have := hi.notifSub w hw; simpa [isWaiting] using this
      · intro w hw hn
        obtain ⟨t', h1, h2⟩ := hi.wake w (by simpa [isWaiting] using hw) hn
        exact ⟨t', h1, oldSh_push t false s.frames t' h2⟩
  · rw [if_neg ha] at h
    split at h
    · simp at h
    · simp at h; obtain ⟨rfl, _⟩ := h; exact hi

/-! ### shExit (repaired notification policy) -/

theorem shExit_inv {s s' : TL} {o : Out} {t : Tid} (hi : Inv s)
    (h : s.shExit true t = some (s', o)) : Inv s' := by
  unfold TL.shExit at h
  by_cases ha : s.rlockAvail t = true
  · simp only [ha, if_true] at h
    cases hp : popFrame s.frames t false with
    | none => simp [hp] at h
    | some fs =>
      simp only [hp] at h
      obtain ⟨p1, _, p3, p4, p5, _⟩ := popFrame_spec s.frames fs t false hp
      have hexc : ∀ x, exc fs x = exc s.frames x := by intro x; simp [p4 x]
      have hcle : ∀ x, cnt fs x ≤ cnt s.frames x := by
        intro x; rw [p3 x]; split
        · rename_i hxt; subst hxt; omega
        · omega
      by_cases hz : cnt fs t = 0
      · -- the thread's own count reached zero: notify_all
        simp [TL.count, hz, TL.notifyAll] at h
        obtain ⟨rfl, _⟩ := h
        refine ⟨?_, ?_, ?_, ?_, ?_, ?_, ?_, ?_⟩
        · intro x hx; simpa [hexc] using hi.own x hx
        · intro hx; exact hi.free hx
        · intro x hx; simp [hexc] at hx; exact hi.exOwner x hx
        · intro x hx t' ht'; simp [hexc] at hx
          have h1 := hi.excl x hx t' ht'; have h2 := hcle t'
          show cnt fs t' = 0
          omega
        · intro x hx; simp [hexc]; exact hi.waitNoEx x (by simpa [isWaiting] using hx)
        · exact hi.waitDepth
        · intro w hw
          simp at hw
          obtain ⟨d, hd⟩ := hw
          simp only [isWaiting, List.any_eq_true]
          exact ⟨(w, d), hd, by simp⟩
        · intro w hw hn
          exfalso; apply hn
          have := isWaiting_mem (s := s) (w := w) (by simpa [isWaiting] using hw)
          simpa using this
      · simp [TL.count, hz] at h
        obtain ⟨rfl, _⟩ := h
        refine ⟨?_, ?_, ?_, ?_, ?_, ?_, ?_, ?_⟩
        · intro x hx; simpa [hexc] using hi.own x hx
        · intro hx; exact hi.free hx
        · intro x hx; simp [hexc] at hx; exact hi.exOwner x hx
        · intro x hx t' ht'; simp [hexc] at hx
          have h1 := hi.excl x hx t' ht'; have h2 := hcle t'
          show cnt fs t' = 0
          omega
        · intro x hx; simp [hexc]; exact hi.waitNoEx x (by simpa [isWaiting] using hx)
        · exact hi.waitDepth
        · intro w hw; have := hi.notifSub w hw; simpa [isWaiting] using this
        · intro w hw hn
          obtain ⟨t', h1, h2⟩ := hi.wake w (by simpa [isWaiting] using hw) hn
          refine ⟨t', h1, ?_⟩
          have hpos := oldSh_pos _ _ h2
          have : cnt fs t' > 0 := by
            by_cases heq : t' = t
            · subst heq; omega
            · rw [p3 t']; simp [heq]; exact hpos
          simp [p5 t' this, h2]
  · simp [ha] at h

/-! ### exProceed from a state that holds the RLock for `t` with nobody else holding -/

theorem exEnter_inv {s s' : TL} {o : Out} {t : Tid} {b r : Bool} (hi : Inv s)
    (hw : isWaiting s t = false) (h : s.exEnter t b r = some (s', o)) : Inv s' := by
  unfold TL.exEnter at h
  by_cases ha : s.rlockAvail t = true
  · simp only [ha, if_true] at h
    have hne := avail_noex hi ha
    have hfr : (s.acquire t).frames = s.frames := rfl
    by_cases hoth : (s.acquire t).others t = true
    · simp only [hoth, if_true] at h
      -- somebody else holds: nobody at all has an exclusive frame
      obtain ⟨u, hu1, hu2⟩ := (others_iff s.frames t).mp hoth
      have hte : exc s.frames t = 0 := by
        by_cases hh : 0 < exc s.frames t
        · have := hi.excl t hh u hu1; omega
        · omega
      have hall : ∀ x, exc s.frames x = 0 := by
        intro x; by_cases hx : x = t
        · subst hx; exact hte
        · exact hne x hx
      have hown : s.owner = none := by
        cases ho : s.owner with
        | none => rfl
        | some o' =>
          have := hi.own o' ho
          have := hall o'; omega
      cases b with
      | true =>
        simp at h; obtain ⟨rfl, _⟩ := h
        have hd0 := hi.free hown
        refine ⟨?_, ?_, ?_, ?_, ?_, ?_, ?_, ?_⟩
        · intro x hx; simp at hx
        · intro _; rfl
        · intro x hx; simp [acquire] at hx; have := hall x; omega
        · intro x hx; simp [acquire] at hx; have := hall x; omega
        · intro x _; simp [acquire]; exact hall x
        · intro p hp; simp [acquire] at hp
          rcases hp with rfl | hp
          · simp [hd0]
          · exact hi.waitDepth p hp
        · intro w hw'; simp [acquire] at hw'
          have := hi.notifSub w hw'
          simp only [isWaiting, List.any_eq_true] at this ⊢
          obtain ⟨p, hp, hpw⟩ := this
          exact ⟨p, by simp [acquire, hp], hpw⟩
        · intro w hw' hn
          simp [acquire] at hn
          by_cases hwt : w = t
          · subst hwt
            exact ⟨u, hu1, by simpa [acquire] using oldSh_of_noex s.frames u (hall u) hu2⟩
          · have hws : isWaiting s w = true := by
              simp only [isWaiting, List.any_eq_true] at hw' ⊢
              obtain ⟨p, hp, hpw⟩ := hw'
              simp [acquire] at hp
              rcases hp with rfl | hp
              · simp at hpw; exact absurd hpw.symm hwt
              · exact ⟨p, hp, hpw⟩
            obtain ⟨t', h1, h2⟩ := hi.wake w hws hn
            exact ⟨t', h1, by simpa [acquire] using h2⟩
      | false =>
        simp at h; obtain ⟨rfl, _⟩ := h
        rw [release_acquire hi ha]; exact hi
    · simp only [hoth] at h
      simp at h
      have hno : ∀ t', t' ≠ t → cnt s.frames t' = 0 :=
        (others_false_iff s.frames t).mp (Bool.eq_false_iff.mpr hoth)
      unfold TL.exProceed at h
      split at h
      · simp at h; obtain ⟨rfl, _⟩ := h
        rw [release_acquire hi ha]; exact hi
      · simp at h; obtain ⟨rfl, _⟩ := h
        have hdep : s.depth = exc s.frames t := by
          cases ho : s.owner with
          | none =>
            have := hi.free ho
            by_cases hh : 0 < exc s.frames t
            · have := hi.exOwner t hh; simp [ho] at this
            · omega
          | some o' =>
            have hot : o' = t := by simp [rlockAvail, ho] at ha; exact ha
            subst hot; exact (hi.own o' ho).1
        refine ⟨?_, ?_, ?_, ?_, ?_, ?_, ?_, ?_⟩
        · intro x hx; simp [acquire] at hx; subst hx
          simp [acquire, exc_cons, hdep]; omega
        · intro hx; simp [acquire] at hx
        · intro x hx; simp [acquire, exc_cons] at hx ⊢
          by_cases hxt : t = x
          · exact hxt
          · simp [hxt] at hx; have := hne x (fun h => hxt h.symm); omega
        · intro x hx t' ht'
          simp [acquire, exc_cons] at hx
          have hxt : x = t := by
            by_cases hxt : x = t
            · exact hxt
            · have h1 := hne x hxt
              have : ¬ (t = x) := fun h => hxt h.symm
              simp [this] at hx; omega
          subst hxt
          simp [acquire, cnt_cons]
          exact ⟨fun h => ht' h.symm, hno t' ht'⟩
        · intro x hx
          have hxs : isWaiting s x = true := by simpa [isWaiting, acquire] using hx
          have hxt : x ≠ t := by intro h; subst h; simp [hxs] at hw
          have hne' : ¬ (t = x) := fun h => hxt h.symm
          simp [acquire, exc_cons, hne']
          exact hi.waitNoEx x hxs
        · intro p hp; exact hi.waitDepth p (by simpa [acquire] using hp)
        · intro w hw'; have := hi.notifSub w (by simpa [acquire] using hw')
          simpa [isWaiting, acquire] using this
        · intro w hw' hn
          obtain ⟨t', h1, h2⟩ := hi.wake w (by simpa [isWaiting, acquire] using hw')
            (by simpa [acquire] using hn)
          exact ⟨t', h1, by simpa [acquire] using oldSh_push t true s.frames t' h2⟩
  · rw [if_neg ha] at h
    split at h
    · simp at h
    · simp at h; obtain ⟨rfl, _⟩ := h; exact hi

/-! ### exExit -/

theorem exExit_inv {s s' : TL} {o : Out} {t : Tid} (hi : Inv s)
    (h : s.exExit t = some (s', o)) : Inv s' := by
  unfold TL.exExit at h
  cases hp : popFrame s.frames t true with
  | none => simp [hp] at h
  | some fs =>
    simp only [hp] at h
    simp at h; obtain ⟨rfl, _⟩ := h
    obtain ⟨p1, p2, p3, p4, p5, p6⟩ := popFrame_spec s.frames fs t true hp
    have hex : 0 < exc s.frames t := p2 rfl
    have hown := hi.exOwner t hex
    obtain ⟨hdep, hdpos⟩ := hi.own t hown
    have hno := hi.excl t hex
    have hexc : ∀ x, exc fs x = if x = t then exc s.frames t - 1 else exc s.frames x := by
      intro x; rw [p4 x]; by_cases hx : x = t <;> simp [hx]
    have hcle : ∀ x, cnt fs x ≤ cnt s.frames x := by
      intro x; rw [p3 x]; split
      · rename_i hxt; subst hxt; omega
      · omega
    have hothers : ∀ x, x ≠ t → exc s.frames x = 0 := by
      intro x hx
      have := hno x hx; have := exc_le_cnt s.frames x; omega
    have hwake : ∀ w, isWaiting s w = true → w ∉ s.notified → ∃ t', t' ≠ w ∧ oldSh fs t' = true := by
      intro w hw hn
      obtain ⟨t', h1, h2⟩ := hi.wake w hw hn
      refine ⟨t', h1, ?_⟩
      have hpos := oldSh_pos _ _ h2
      have hpos' : cnt fs t' > 0 := by
        by_cases heq : t' = t
        · subst heq
          -- t' has an exclusive frame on top and a shared one at the bottom: at least two frames
          have h1' : cnt s.frames t' ≠ 1 := by
            intro hc; have := p6 hc; simp [h2] at this
          rw [p3 t']; simp; omega
        · rw [p3 t']; simp [heq]; exact hpos
      rw [p5 t' hpos']; exact h2
    by_cases hd : s.depth ≤ 1
    · have he1 : exc s.frames t = 1 := by omega
      simp only [TL.release, hd, if_true]
      refine ⟨?_, ?_, ?_, ?_, ?_, ?_, ?_, ?_⟩
      · intro x hx; simp at hx
      · intro _; rfl
      · intro x hx; simp [hexc x] at hx
        by_cases hxt : x = t
        · subst hxt; simp [he1] at hx
        · simp [hxt] at hx; have := hothers x hxt; omega
      · intro x hx; simp [hexc x] at hx
        by_cases hxt : x = t
        · subst hxt; simp [he1] at hx
        · simp [hxt] at hx; have := hothers x hxt; omega
      · intro x hx
        have h0 := hi.waitNoEx x (by simpa [isWaiting] using hx)
        simp [hexc x]; by_cases hxt : x = t
        · subst hxt; omega
        · simp [hxt]; exact h0
      · exact hi.waitDepth
      · intro w hw; have := hi.notifSub w hw; simpa [isWaiting] using this
      · intro w hw hn; exact hwake w (by simpa [isWaiting] using hw) hn
    · simp only [TL.release, hd, if_false]
      refine ⟨?_, ?_, ?_, ?_, ?_, ?_, ?_, ?_⟩
      · intro x hx; simp at hx; rw [hown] at hx; simp at hx; subst hx
        simp [hexc]; omega
      · intro hx; simp [hown] at hx
      · intro x hx; simp [hexc x] at hx
        by_cases hxt : x = t
        · subst hxt; simpa using hown
        · simp [hxt] at hx; have := hothers x hxt; omega
      · intro x hx t' ht'; simp [hexc x] at hx
        have hxt : x = t := by
          by_cases hxt : x = t
          · exact hxt
          · simp [hxt] at hx; have := hothers x hxt; omega
        subst hxt
        have := hno t' ht'; have := hcle t'
        show cnt fs t' = 0
        omega
      · intro x hx
        have h0 := hi.waitNoEx x (by simpa [isWaiting] using hx)
        simp [hexc x]; by_cases hxt : x = t
        · subst hxt; omega
        · simp [hxt]; exact h0
      · exact hi.waitDepth
      · intro w hw; have := hi.notifSub w hw; simpa [isWaiting] using this
      · intro w hw hn; exact hwake w (by simpa [isWaiting] using hw) hn

/-! ### exWake -/

theorem any_filter_ne (ws : List (Tid × Nat)) {t w : Tid} (hw : w ≠ t) :
    (ws.filter (fun p => p.1 != t)).any (fun p => p.1 == w) = ws.any (fun p => p.1 == w) := by
  induction ws with
  | nil => rfl
  | cons p ps ih =>
    by_cases hp : p.1 = t
    · have h2 : (p.1 == w) = false := by
        simp; intro h; exact hw (h.symm.trans hp)
      simp [hp, ih]
      intro h; exact absurd h.symm hw
    · simp [hp, ih]

theorem isWaiting_filter {s : TL} {t w : Tid} (hw : w ≠ t) :
    (s.waiting.filter (fun p => p.1 != t)).any (fun p => p.1 == w) = isWaiting s w :=
  any_filter_ne s.waiting hw

theorem exWake_inv {s s' : TL} {o : Out} {t : Tid} {r : Bool} (hi : Inv s)
    (h : s.exWake t r = some (s', o)) : Inv s' := by
  unfold TL.exWake at h
  cases hf : s.waiting.find? (fun w => w.1 == t) with
  | none => simp [hf] at h
  | some p =>
    obtain ⟨a, d⟩ := p
    simp only [hf] at h
    have hmem := List.mem_of_find?_eq_some hf
    have hat : a = t := by have := List.find?_some hf; simpa using this
    subst hat
    have hd1 : d = 1 := hi.waitDepth (a, d) hmem
    subst hd1
    by_cases hc : (s.notified.contains a && s.owner == none) = true
    · simp only [hc, if_true] at h
      have hown : s.owner = none := by simp at hc; exact hc.2
      have hall : ∀ x, exc s.frames x = 0 := by
        intro x; by_cases hh : 0 < exc s.frames x
        · have := hi.exOwner x hh; simp [hown] at this
        · omega
      have hwaitOld : ∀ w, w ≠ a → ∀ (W : List (Tid × Nat)),
          (((a, 1) :: s.waiting.filter (fun p => p.1 != a)).any (fun p => p.1 == w) = true ∨
           (s.waiting.filter (fun p => p.1 != a)).any (fun p => p.1 == w) = true) →
          W = W → isWaiting s w = true := by
        intro w hw _ hor _
        rcases hor with h1 | h1
        · simp only [List.any_cons] at h1
          have : ((a == w) = false) := by simp; exact fun h => hw h.symm
          simp [this] at h1
          rw [← isWaiting_filter (s := s) hw]; simpa using h1
        · rw [← isWaiting_filter (s := s) hw]; exact h1
      have hnotOld : ∀ w, w ≠ a → w ∉ s.notified.filter (· != a) → w ∉ s.notified := by
        intro w hw hn hmem'; apply hn; simp [hmem', hw]
      split at h
      · -- somebody else still holds: wait again
        rename_i hoth
        simp at h; obtain ⟨rfl, _⟩ := h
        obtain ⟨u, hu1, hu2⟩ := (others_iff s.frames a).mp hoth
        refine ⟨?_, ?_, ?_, ?_, ?_, ?_, ?_, ?_⟩
        · intro x hx; simp at hx
        · intro _; rfl
        · intro x hx; simp at hx; have := hall x; omega
        · intro x hx; simp at hx; have := hall x; omega
        · intro x _; exact hall x
        · intro p hp; simp at hp
          rcases hp with rfl | hp
          · rfl
          · exact hi.waitDepth p hp.1
        · intro w hw; simp at hw
          have hws := hi.notifSub w hw.1
          rw [← isWaiting_filter (s := s) hw.2] at hws
          simp only [isWaiting, List.any_cons]
          simp [hws]
        · intro w hw hn
          by_cases hwa : w = a
          · subst hwa
            exact ⟨u, hu1, oldSh_of_noex s.frames u (hall u) hu2⟩
          · have hws := hwaitOld w hwa [] (Or.inl (by simpa [isWaiting] using hw)) rfl
            obtain ⟨t', h1, h2⟩ := hi.wake w hws (hnotOld w hwa (by simpa using hn))
            exact ⟨t', h1, h2⟩
      · rename_i hoth
        have hno : ∀ t', t' ≠ a → cnt s.frames t' = 0 :=
          (others_false_iff s.frames a).mp (Bool.eq_false_iff.mpr hoth)
        simp at h
        unfold TL.exProceed at h
        split at h
        · -- non-reentrant recursion: raise, releasing the RLock
          simp [TL.release] at h; obtain ⟨rfl, _⟩ := h
          refine ⟨?_, ?_, ?_, ?_, ?_, ?_, ?_, ?_⟩
          · intro x hx; simp at hx
          · intro _; rfl
          · intro x hx; simp at hx; have := hall x; omega
          · intro x hx; simp at hx; have := hall x; omega
          · intro x _; exact hall x
          · intro p hp; simp at hp; exact hi.waitDepth p hp.1
          · intro w hw; simp at hw
            have hws := hi.notifSub w hw.1
            rw [← isWaiting_filter (s := s) hw.2] at hws
            simpa [isWaiting] using hws
          · intro w hw hn
            have hwa : w ≠ a := by
              intro h'; subst h'
              simp only [isWaiting, List.any_eq_true] at hw
              obtain ⟨p, hp, hpw⟩ := hw
              simp at hp hpw; exact hp.2 hpw
            have hws := hwaitOld w hwa [] (Or.inr (by simpa [isWaiting] using hw)) rfl
            obtain ⟨t', h1, h2⟩ := hi.wake w hws (hnotOld w hwa (by simpa using hn))
            exact ⟨t', h1, h2⟩
        · simp at h; obtain ⟨rfl, _⟩ := h
          refine ⟨?_, ?_, ?_, ?_, ?_, ?_, ?_, ?_⟩
          · intro x hx; simp at hx; subst hx
            simp [exc_cons, hall]
          · intro hx; simp at hx
          · intro x hx
            by_cases hax : a = x
            · simp [hax]
            · simp [exc_cons, hall x, hax] at hx
          · intro x hx t' ht'
            have hax : a = x := by
              by_cases hax : a = x
              · exact hax
              · simp [exc_cons, hall x, hax] at hx
            subst hax
            simp [cnt_cons]; exact ⟨fun h => ht' h.symm, hno t' ht'⟩
          · intro x hx
            have hxa : x ≠ a := by
              intro h'; subst h'
              simp only [isWaiting, List.any_eq_true] at hx
              obtain ⟨p, hp, hpw⟩ := hx
              simp at hp hpw; exact hp.2 hpw
            have : ¬ (a = x) := fun h => hxa h.symm
            simp [exc_cons, this]; exact hall x
          · intro p hp; simp at hp; exact hi.waitDepth p hp.1
          · intro w hw; simp at hw
            have hws := hi.notifSub w hw.1
            rw [← isWaiting_filter (s := s) hw.2] at hws
            simpa [isWaiting] using hws
          · intro w hw hn
            have hwa : w ≠ a := by
              intro h'; subst h'
              simp only [isWaiting, List.any_eq_true] at hw
              obtain ⟨p, hp, hpw⟩ := hw
              simp at hp hpw; exact hp.2 hpw
            have hws := hwaitOld w hwa [] (Or.inr (by simpa [isWaiting] using hw)) rfl
            obtain ⟨t', h1, h2⟩ := hi.wake w hws (hnotOld w hwa (by simpa using hn))
            exact ⟨t', h1, oldSh_push a true s.frames t' h2⟩
    · rw [if_neg hc] at h; simp at h

/-! ### every transition preserves the invariant -/

theorem step_inv {s s' : TL} {o : Out} (e : Ev) (hi : Inv s)
    (h : step true s e = some (s', o)) : Inv s' := by
  cases e with
  | shEnter t b r =>
    simp only [step] at h; split at h
    · simp at h
    · exact shEnter_inv hi h
  | shExit t =>
    simp only [step] at h; split at h
    · simp at h
    · exact shExit_inv hi h
  | exEnter t b r =>
    simp only [step] at h; split at h
    · simp at h
    · rename_i hw; exact exEnter_inv hi (by simpa using hw) h
  | exWake t r => exact exWake_inv hi h
  | exExit t =>
    simp only [step] at h; split at h
    · simp at h
    · exact exExit_inv hi h

theorem runEvs_inv (evs : List Ev) : ∀ {s s' : TL}, Inv s → runEvs true s evs = some s' → Inv s' := by
  induction evs with
  | nil => intro s s' hi h; simp [runEvs] at h; subst h; exact hi
  | cons e es ih =>
    intro s s' hi h
    simp only [runEvs] at h
    cases hs : step true s e with
    | none => simp [hs] at h
    | some p =>
      obtain ⟨s1, o⟩ := p
      simp only [hs] at h
      exact ih (step_inv e hi hs) h

end Pharmpy.C15
