import PharmpyModel.C15.Pool
/-
  Invariant of the keyed reference pool.
-/
namespace Pharmpy.C15
open Pool

def hcount : List (Nat × Nat × Nat) → Nat → Nat
  | [], _ => 0
  | h :: hs, k => (if h.2.1 = k then 1 else 0) + hcount hs k

theorem hcount_pos_of_mem {hs : List (Nat × Nat × Nat)} {h : Nat × Nat × Nat} (hm : h ∈ hs) :
    0 < hcount hs h.2.1 := by
  induction hs with
  | nil => cases hm
  | cons a as ih =>
    simp only [hcount]
    rcases List.mem_cons.mp hm with rfl | hm'
    · simp; omega
    · have := ih hm'; omega

theorem hcount_erase {hs : List (Nat × Nat × Nat)} {h : Nat × Nat × Nat} (hm : h ∈ hs) (k : Nat) :
    hcount (hs.erase h) k + (if h.2.1 = k then 1 else 0) = hcount hs k := by
  induction hs with
  | nil => cases hm
  | cons a as ih =>
    by_cases ha : a = h
    · subst ha; simp [hcount]; omega
    · have hm' : h ∈ as := by
        rcases List.mem_cons.mp hm with rfl | hm'
        · exact absurd rfl ha
        · exact hm'
      have hne : (a == h) = false := by simpa using ha
      rw [List.erase_cons]
      simp only [hne, Bool.false_eq_true, if_false, hcount]
      have := ih hm'
      omega

structure PInv (s : PoolSt) : Prop where
  nodup  : (s.pool.refs.map (·.1)).Nodup
  count  : ∀ e ∈ s.pool.refs, e.2.2 = hcount s.holders e.1 ∧ 0 < e.2.2
  held   : ∀ h ∈ s.holders, (h.2.1, h.2.2, hcount s.holders h.2.1) ∈ s.pool.refs
  fresh  : ∀ e ∈ s.pool.refs, e.2.1 < s.pool.nextObj
  objInj : ∀ e1 ∈ s.pool.refs, ∀ e2 ∈ s.pool.refs, e1.2.1 = e2.2.1 → e1 = e2
  dead   : ∀ o ∈ s.pool.destroyed, o < s.pool.nextObj ∧ ∀ e ∈ s.pool.refs, e.2.1 ≠ o

theorem pinv_init : PInv {} := by
  constructor <;> simp

theorem nodup_key_unique {refs : List (Nat × Nat × Nat)} (hn : (refs.map (·.1)).Nodup)
    {e1 e2 : Nat × Nat × Nat} (h1 : e1 ∈ refs) (h2 : e2 ∈ refs) (hk : e1.1 = e2.1) : e1 = e2 := by
  induction refs with
  | nil => cases h1
  | cons a as ih =>
    simp only [List.map_cons, List.nodup_cons] at hn
    rcases List.mem_cons.mp h1 with rfl | h1'
    · rcases List.mem_cons.mp h2 with rfl | h2'
      · rfl
      · exfalso; apply hn.1; exact List.mem_map.mpr ⟨e2, h2', hk.symm⟩
    · rcases List.mem_cons.mp h2 with rfl | h2'
      · exfalso; apply hn.1; exact List.mem_map.mpr ⟨e1, h1', hk⟩
      · exact ih hn.2 h1' h2'

theorem find_some_iff {p : Pool} (hn : (p.refs.map (·.1)).Nodup) (k o n : Nat) :
    p.find k = some (o, n) ↔ (k, o, n) ∈ p.refs := by
  unfold Pool.find
  constructor
  · intro h
    cases hf : p.refs.find? (fun e => e.1 == k) with
    | none => simp [hf] at h
    | some e =>
      simp [hf] at h
      have hm := List.mem_of_find?_eq_some hf
      have hk := List.find?_some hf
      simp at hk
      obtain ⟨a, b, c⟩ := e
      simp at h hk
      obtain ⟨rfl, rfl⟩ := h
      subst hk; exact hm
  · intro hm
    cases hf : p.refs.find? (fun e => e.1 == k) with
    | none =>
      have := List.find?_eq_none.mp hf (k, o, n) hm
      simp at this
    | some e =>
      have hm' := List.mem_of_find?_eq_some hf
      have hk := List.find?_some hf
      simp at hk
      have := nodup_key_unique hn hm' hm hk
      simp [this]

theorem find_none_iff {p : Pool} (k : Nat) : p.find k = none ↔ ∀ e ∈ p.refs, e.1 ≠ k := by
  unfold Pool.find
  simp [List.find?_eq_none]

theorem mem_filter_key {refs : List (Nat × Nat × Nat)} {k : Nat} {e : Nat × Nat × Nat} :
    e ∈ refs.filter (fun e => e.1 != k) ↔ e ∈ refs ∧ e.1 ≠ k := by
  simp [List.mem_filter]

theorem nodup_filter_cons {refs : List (Nat × Nat × Nat)} (hn : (refs.map (·.1)).Nodup) (k o n : Nat) :
    (((k, o, n) :: refs.filter (fun e => e.1 != k)).map (·.1)).Nodup := by
  simp only [List.map_cons, List.nodup_cons]
  constructor
  · intro hm
    obtain ⟨e, he, hek⟩ := List.mem_map.mp hm
    exact (mem_filter_key.mp he).2 hek
  · exact List.Nodup.sublist (List.Sublist.map _ List.filter_sublist) hn

theorem hcount_cons (h : Nat × Nat × Nat) (hs : List (Nat × Nat × Nat)) (k : Nat) :
    hcount (h :: hs) k = (if h.2.1 = k then 1 else 0) + hcount hs k := rfl

theorem hcount_zero_no_holder {hs : List (Nat × Nat × Nat)} {k : Nat} (hz : hcount hs k ≠ 0) :
    ∃ h ∈ hs, h.2.1 = k := by
  induction hs with
  | nil => simp [hcount] at hz
  | cons a as ih =>
    by_cases ha : a.2.1 = k
    · exact ⟨a, by simp, ha⟩
    · simp [hcount, ha] at hz
      obtain ⟨h, hm, hk⟩ := ih hz
      exact ⟨h, List.mem_cons_of_mem _ hm, hk⟩

/-- Invariant after replacing the entry of key `k` by `(k, o, n')` (or dropping it) and the
    holder list by `hs'`, given what is needed about `hs'`. -/
theorem pinv_replace {s : PoolSt} (hi : PInv s) (k o : Nat) (entry : Option Nat) (hs' : List (Nat × Nat × Nat))
    (dest : List Nat) (nextObj' : Nat)
    (hnext : s.pool.nextObj ≤ nextObj')
    (hother : ∀ k', k' ≠ k → hcount hs' k' = hcount s.holders k')
    (hsub : ∀ h' ∈ hs', h'.2.1 ≠ k → h' ∈ s.holders)
    (hk_holders : ∀ h' ∈ hs', h'.2.1 = k → h'.2.2 = o ∧ entry = some (hcount hs' k))
    (hentry : ∀ n', entry = some n' → n' = hcount hs' k ∧ 0 < n')
    (hofresh : entry ≠ none → o < nextObj')
    (hoinj : ∀ e ∈ s.pool.refs, e.1 ≠ k → e.2.1 ≠ o)
    (hdest : ∀ d ∈ dest, d < nextObj' ∧ (∀ e ∈ s.pool.refs, e.1 ≠ k → e.2.1 ≠ d) ∧ (entry ≠ none → d ≠ o)) :
    PInv { pool := { refs := (match entry with
                              | some n' => [(k, o, n')]
                              | none => []) ++ s.pool.refs.filter (fun e => e.1 != k),
                     nextObj := nextObj', destroyed := dest },
           holders := hs' } := by
  have hfilt : ∀ e, e ∈ s.pool.refs.filter (fun e => e.1 != k) ↔ e ∈ s.pool.refs ∧ e.1 ≠ k :=
    fun e => mem_filter_key
  have hmem : ∀ e, e ∈ ((match entry with | some n' => [(k, o, n')] | none => []) ++
      s.pool.refs.filter (fun e => e.1 != k)) ↔
      (∃ n', entry = some n' ∧ e = (k, o, n')) ∨ (e ∈ s.pool.refs ∧ e.1 ≠ k) := by
    intro e
    cases entry with
    | none => simp [hfilt]
    | some n' => simp [hfilt]
  refine ⟨?_, ?_, ?_, ?_, ?_, ?_⟩
  · cases entry with
    | none =>
      simp only [List.nil_append]
      exact List.Nodup.sublist (List.Sublist.map _ List.filter_sublist) hi.nodup
    | some n' => exact nodup_filter_cons hi.nodup k o n'
  · intro e he
    rcases (hmem e).mp he with ⟨n', hn', rfl⟩ | ⟨he1, he2⟩
    · exact hentry n' hn'
    · show e.2.2 = hcount hs' e.1 ∧ 0 < e.2.2
      rw [hother e.1 he2]; exact hi.count e he1
  · intro h' hm'
    apply (hmem _).mpr
    by_cases hk' : h'.2.1 = k
    · obtain ⟨ho, hen⟩ := hk_holders h' hm' hk'
      left; exact ⟨_, hen, by rw [hk', ho]⟩
    · right
      show (h'.2.1, h'.2.2, hcount hs' h'.2.1) ∈ s.pool.refs ∧ h'.2.1 ≠ k
      rw [hother _ hk']
      exact ⟨hi.held h' (hsub h' hm' hk'), hk'⟩
  · intro e he
    rcases (hmem e).mp he with ⟨n', hn', rfl⟩ | ⟨he1, _⟩
    · exact hofresh (by rw [hn']; simp)
    · exact Nat.lt_of_lt_of_le (hi.fresh e he1) hnext
  · intro e1 h1 e2 h2 ho
    rcases (hmem e1).mp h1 with ⟨n1, hn1, rfl⟩ | ⟨a1, b1⟩
    · rcases (hmem e2).mp h2 with ⟨n2, hn2, rfl⟩ | ⟨a2, b2⟩
      · rw [hn1] at hn2; cases hn2; rfl
      · exact absurd ho.symm (hoinj e2 a2 b2)
    · rcases (hmem e2).mp h2 with ⟨n2, hn2, rfl⟩ | ⟨a2, b2⟩
      · exact absurd ho (hoinj e1 a1 b1)
      · exact hi.objInj e1 a1 e2 a2 ho
  · intro d hd
    obtain ⟨d1, d2, d3⟩ := hdest d hd
    refine ⟨d1, ?_⟩
    intro e he
    rcases (hmem e).mp he with ⟨n', hn', rfl⟩ | ⟨a, b⟩
    · exact fun h => d3 (by rw [hn']; simp) h.symm
    · exact d2 e a b

theorem enter_inv {s : PoolSt} (hi : PInv s) (t k : Nat) :
    ∀ s', poolStep s (.enter t k) = some s' → PInv s' := by
  intro s' h
  simp only [poolStep, Pool.enter] at h
  cases hf : s.pool.find k with
  | none =>
    simp only [hf] at h
    simp at h; subst h
    have hnok : ∀ e ∈ s.pool.refs, e.1 ≠ k := (find_none_iff k).mp hf
    have hc0 : hcount s.holders k = 0 := by
      by_cases hz : hcount s.holders k = 0
      · exact hz
      · exfalso
        obtain ⟨h, hm, hk⟩ := hcount_zero_no_holder hz
        exact hnok _ (hi.held h hm) hk
    have hfil : s.pool.refs.filter (fun e => e.1 != k) = s.pool.refs := by
      apply List.filter_eq_self.mpr
      intro e he; simpa using hnok e he
    have := pinv_replace hi k s.pool.nextObj (some 1) ((t, k, s.pool.nextObj) :: s.holders)
      s.pool.destroyed (s.pool.nextObj + 1) (Nat.le_succ _)
      (by intro k' hk'; have : ¬ (k = k') := fun h => hk' h.symm
          simp [hcount_cons, this])
      (by intro h' hm' hk'
          rcases List.mem_cons.mp hm' with rfl | hm''
          · exact absurd rfl hk'
          · exact hm'')
      (by intro h' hm' hk'
          rcases List.mem_cons.mp hm' with rfl | hm''
          · exact ⟨rfl, by simp [hcount_cons, hc0]⟩
          · exfalso
            have := hcount_pos_of_mem hm''
            rw [hk', hc0] at this; omega)
      (by intro n' hn'; cases hn'; simp [hcount_cons, hc0])
      (by intro _; exact Nat.lt_succ_self _)
      (by intro e he _ heo; have := hi.fresh e he; omega)
      (by intro d hd
          obtain ⟨d1, d2⟩ := hi.dead d hd
          exact ⟨Nat.lt_succ_of_lt d1, fun e he _ => d2 e he, fun _ h => by omega⟩)
    simpa [hfil] using this
  | some on =>
    obtain ⟨o, n⟩ := on
    simp only [hf] at h
    simp at h; subst h
    have hent : (k, o, n) ∈ s.pool.refs := (find_some_iff hi.nodup k o n).mp hf
    obtain ⟨hn, hpos⟩ := hi.count _ hent
    simp at hn hpos
    have hobj : ∀ h' ∈ s.holders, h'.2.1 = k → h'.2.2 = o := by
      intro h' hm' hk'
      have e' := hi.held h' hm'
      have := nodup_key_unique hi.nodup e' hent (by simpa using hk')
      have := congrArg (fun e => e.2.1) this
      simpa using this
    have hcnt : hcount ((t, k, o) :: s.holders) k = n + 1 := by simp [hcount_cons, hn]; omega
    have := pinv_replace hi k o (some (n + 1)) ((t, k, o) :: s.holders)
      s.pool.destroyed s.pool.nextObj (Nat.le_refl _)
      (by intro k' hk'; have : ¬ (k = k') := fun h => hk' h.symm
          simp [hcount_cons, this])
      (by intro h' hm' hk'
          rcases List.mem_cons.mp hm' with rfl | hm''
          · exact absurd rfl hk'
          · exact hm'')
      (by intro h' hm' hk'
          rw [hcnt]
          rcases List.mem_cons.mp hm' with rfl | hm''
          · exact ⟨rfl, rfl⟩
          · exact ⟨hobj h' hm'' hk', rfl⟩)
      (by intro n' hn'; cases hn'; rw [hcnt]; exact ⟨rfl, Nat.succ_pos _⟩)
      (by intro _; have := hi.fresh _ hent; simpa using this)
      (by intro e he hek heo
          have := hi.objInj e he _ hent (by simpa using heo)
          exact hek (by rw [this]))
      (by intro d hd
          obtain ⟨d1, d2⟩ := hi.dead d hd
          refine ⟨d1, fun e he _ => d2 e he, fun _ h => ?_⟩
          have := d2 _ hent; simp at this; exact this h.symm)
    simpa using this

theorem exit_inv {s : PoolSt} (hi : PInv s) (t k : Nat) :
    ∀ s', poolStep s (.exit t k) = some s' → PInv s' := by
  intro s' h
  simp only [poolStep] at h
  cases hfh : s.holders.find? (fun h => h.1 == t && h.2.1 == k) with
  | none => simp [hfh] at h
  | some hd =>
    simp only [hfh] at h
    have hmem : hd ∈ s.holders := List.mem_of_find?_eq_some hfh
    have hkey : hd.2.1 = k := by have := List.find?_some hfh; simp at this; exact this.2
    have hent := hi.held hd hmem
    rw [hkey] at hent
    have hfind : s.pool.find k = some (hd.2.2, hcount s.holders k) :=
      (find_some_iff hi.nodup k _ _).mpr hent
    have herase := hcount_erase hmem
    have hother : ∀ k', k' ≠ k → hcount (s.holders.erase hd) k' = hcount s.holders k' := by
      intro k' hk'
      have := herase k'
      have hne : ¬ (hd.2.1 = k') := fun hh => hk' (by rw [← hh, hkey])
      simp [hne] at this; exact this
    have hsame : hcount (s.holders.erase hd) k + 1 = hcount s.holders k := by
      have := herase k; simp [hkey] at this; exact this
    have hobj : ∀ h' ∈ s.holders, h'.2.1 = k → h'.2.2 = hd.2.2 := by
      intro h' hm' hk'
      have e' := hi.held h' hm'
      have := nodup_key_unique hi.nodup e' hent (by simpa using hk')
      have := congrArg (fun e => e.2.1) this
      simpa using this
    have hoinj : ∀ e ∈ s.pool.refs, e.1 ≠ k → e.2.1 ≠ hd.2.2 := by
      intro e he hek heo
      have := hi.objInj e he _ hent (by simpa using heo)
      exact hek (by rw [this])
    by_cases hle : hcount s.holders k ≤ 1
    · have hx : s.pool.exit k = some (Pool.mk (s.pool.refs.filter (fun e => e.1 != k)) s.pool.nextObj
                                          (hd.2.2 :: s.pool.destroyed)) := by
        simp [Pool.exit, hfind, hle]
      rw [hx] at h; simp at h; subst h
      have hzero : hcount (s.holders.erase hd) k = 0 := by omega
      have := pinv_replace hi k hd.2.2 none (s.holders.erase hd) (hd.2.2 :: s.pool.destroyed)
        s.pool.nextObj (Nat.le_refl _) hother
        (fun h' hm' _ => List.mem_of_mem_erase hm')
        (by intro h' hm' hk'
            exfalso
            have := hcount_pos_of_mem hm'
            rw [hk', hzero] at this; omega)
        (by intro n' hn'; cases hn')
        (by intro hne; exact absurd rfl hne)
        hoinj
        (by intro d hdm
            rcases List.mem_cons.mp hdm with rfl | hdm'
            · exact ⟨by have := hi.fresh _ hent; simpa using this, hoinj, fun hne => absurd rfl hne⟩
            · obtain ⟨d1, d2⟩ := hi.dead d hdm'
              exact ⟨d1, fun e he _ => d2 e he, fun hne => absurd rfl hne⟩)
      simpa using this
    · have hx : s.pool.exit k = some (Pool.mk
          ((k, hd.2.2, hcount s.holders k - 1) :: s.pool.refs.filter (fun e => e.1 != k))
          s.pool.nextObj s.pool.destroyed) := by
        simp [Pool.exit, hfind, hle]
      rw [hx] at h; simp at h; subst h
      have hn1 : hcount s.holders k - 1 = hcount (s.holders.erase hd) k := by omega
      have := pinv_replace hi k hd.2.2 (some (hcount s.holders k - 1)) (s.holders.erase hd)
        s.pool.destroyed s.pool.nextObj (Nat.le_refl _) hother
        (fun h' hm' _ => List.mem_of_mem_erase hm')
        (by intro h' hm' hk'
            exact ⟨hobj h' (List.mem_of_mem_erase hm') hk', by rw [hn1]⟩)
        (by intro n' hn'; cases hn'; exact ⟨hn1, by omega⟩)
        (by intro _; have := hi.fresh _ hent; simpa using this)
        hoinj
        (by intro d hdm
            obtain ⟨d1, d2⟩ := hi.dead d hdm
            refine ⟨d1, fun e he _ => d2 e he, fun _ h => ?_⟩
            have := d2 _ hent; simp at this; exact this h.symm)
      simpa using this

theorem poolStep_inv {s s' : PoolSt} (e : PoolEv) (hi : PInv s) (h : poolStep s e = some s') : PInv s' := by
  cases e with
  | enter t k => exact enter_inv hi t k s' h
  | exit t k => exact exit_inv hi t k s' h

theorem poolRun_inv (evs : List PoolEv) : ∀ {s s' : PoolSt}, PInv s → poolRun s evs = some s' → PInv s' := by
  induction evs with
  | nil => intro s s' hi h; simp [poolRun] at h; subst h; exact hi
  | cons e es ih =>
    intro s s' hi h
    simp only [poolRun] at h
    cases hs : poolStep s e with
    | none => simp [hs] at h
    | some s1 => simp only [hs] at h; exact ih (poolStep_inv e hi hs) h

end Pharmpy.C15
