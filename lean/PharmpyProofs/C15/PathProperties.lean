import PharmpyModel.C15.Path
import PharmpyProofs.C15.Properties

/-!
  C15 — clause "a held lock is never released by unrelated activity such as another thread
  finishing with the same file", mechanism "single fd per normalised path": `path_lock` enters
  the thread-lock registry AND the descriptor pool with `os.path.normpath(path)`.

  * every spelling of one path (extra `/`, `.` components, `x/..` detours) has the same
    normal form (`normpath_dot_insensitive`, `normpath_dotdot_cancels`, any length, any position);
  * two spellings with the same normal form use the same keys (`path_lock_same_keys`);
  * hence, for every finite sequence of `path_lock` users of one process under arbitrary
    spellings, two users whose paths have the same normal form hold the SAME descriptor
    (`path_lock_single_fd`), that descriptor has not been closed (`path_lock_fd_not_closed`),
    they share one thread-level lock (`path_lock_single_thread_lock`), and when the last user
    leaves the descriptor pool is empty (`path_lock_quiescent_clean`).
-/
namespace Pharmpy.C15

theorem normStack_append (abs : Bool) (xs ys : List String) :
    normStack abs (xs ++ ys) = ys.foldl (normStep abs) (normStack abs xs) := by
  simp [normStack, List.foldl_append]

/-- **Empty and `.` components do not matter**, wherever they occur and however many other
    components there are: `d//f`, `d/./f` and `d/f` have the same normal form. -/
theorem normpath_dot_insensitive (abs : Bool) (xs ys : List String) (c : String)
    (hc : c = "" ∨ c = ".") : normComps abs (xs ++ c :: ys) = normComps abs (xs ++ ys) := by
  unfold normComps
  rw [normStack_append, normStack_append]
  have : normStep abs (normStack abs xs) c = normStack abs xs := by
    rcases hc with rfl | rfl <;> simp [normStep]
  simp [List.foldl_cons, this]

/-- **A detour `x/..` through a proper component is cancelled** (lexically), wherever it occurs:
    `d/sub/../f` and `d/f` have the same normal form. -/
theorem normpath_dotdot_cancels (abs : Bool) (xs ys : List String) (c : String)
    (h1 : c ≠ "") (h2 : c ≠ ".") (h3 : c ≠ "..") :
    normComps abs (xs ++ c :: ".." :: ys) = normComps abs (xs ++ ys) := by
  unfold normComps
  rw [normStack_append, normStack_append]
  have : normStep abs (normStep abs (normStack abs xs) c) ".." = normStack abs xs := by
    have e1 : normStep abs (normStack abs xs) c = c :: normStack abs xs := by
      simp [normStep, h1, h2, h3]
    rw [e1]
    simp [normStep, h3]
  simp [List.foldl_cons, this]

/-- A normalised stack contains no empty and no `.` component. -/
theorem normStack_clean (abs : Bool) (cs : List String) :
    ∀ c ∈ normStack abs cs, c ≠ "" ∧ c ≠ "." := by
  suffices h : ∀ (st : List String), (∀ c ∈ st, c ≠ "" ∧ c ≠ ".") →
      ∀ c ∈ cs.foldl (normStep abs) st, c ≠ "" ∧ c ≠ "." by
    exact h [] (by simp)
  induction cs with
  | nil => intro st h; simpa using h
  | cons x xs ih =>
    intro st h
    rw [List.foldl_cons]
    apply ih
    intro c hc
    unfold normStep at hc
    split at hc
    · exact h c hc
    · rename_i hx
      simp only [Bool.or_eq_true, beq_iff_eq, not_or] at hx
      split at hc
      · rcases List.mem_cons.mp hc with rfl | hc
        · exact hx
        · exact h c hc
      · split at hc
        · split at hc
          · simp at hc
          · rcases List.mem_cons.mp hc with rfl | hc
            · exact hx
            · simp at hc
        · split at hc
          · rcases List.mem_cons.mp hc with rfl | hc
            · exact hx
            · exact h c hc
          · exact h c (List.mem_cons_of_mem _ hc)

/-- `path_lock` uses ONE key — the normalised path — for the thread-lock registry and for the
    descriptor pool (and therefore opens the normalised name). -/
theorem path_lock_keys_normalised (p : String) :
    (pathLockKeys p).fdKey = normpath p ∧ (pathLockKeys p).threadKey = normpath p := ⟨rfl, rfl⟩

/-- **Two spellings of one path use the same registry entries.** -/
theorem path_lock_same_keys (p q : String) (h : normpath p = normpath q) :
    pathLockKeys p = pathLockKeys q := by
  simp [pathLockKeys, h]

/-- Descriptor-pool states reachable by `path_lock` users with arbitrary spellings. -/
def fdPoolRun (num : String → Nat) (evs : List PathEv) : Option PoolSt :=
  poolRun {} (evs.map (PathEv.toFdPool num))

def threadPoolRun (num : String → Nat) (evs : List PathEv) : Option PoolSt :=
  poolRun {} (evs.map (PathEv.toThreadPool num))

/-- **Single descriptor per file and process, every history, every spelling**: two users whose
    paths have the same normal form were handed the same file descriptor.  (Two descriptors of
    one file in one process would let either user's unlock/close drop the other's lock.) -/
theorem path_lock_single_fd (num : String → Nat) (evs : List PathEv) (s : PoolSt)
    (h : fdPoolRun num evs = some s) (t1 t2 : Nat) (p q : String) (fd1 fd2 : Nat)
    (hn : normpath p = normpath q)
    (h1 : (t1, num (pathLockKeys p).fdKey, fd1) ∈ s.holders)
    (h2 : (t2, num (pathLockKeys q).fdKey, fd2) ∈ s.holders) : fd1 = fd2 := by
  rw [path_lock_same_keys p q hn] at h1
  exact pool_single_object ⟨_, h⟩ t1 t2 _ fd1 fd2 h1 h2

/-- Same for the thread-level lock object: all spellings of one path exclude one another. -/
theorem path_lock_single_thread_lock (num : String → Nat) (evs : List PathEv) (s : PoolSt)
    (h : threadPoolRun num evs = some s) (t1 t2 : Nat) (p q : String) (o1 o2 : Nat)
    (hn : normpath p = normpath q)
    (h1 : (t1, num (pathLockKeys p).threadKey, o1) ∈ s.holders)
    (h2 : (t2, num (pathLockKeys q).threadKey, o2) ∈ s.holders) : o1 = o2 := by
  rw [path_lock_same_keys p q hn] at h1
  exact pool_single_object ⟨_, h⟩ t1 t2 _ o1 o2 h1 h2

/-- **Another user finishing with the same file never closes the descriptor of a user that is
    still inside**, whatever spellings the two used. -/
theorem path_lock_fd_not_closed (num : String → Nat) (evs : List PathEv) (s : PoolSt)
    (h : fdPoolRun num evs = some s) (t : Nat) (p : String) (fd : Nat)
    (hh : (t, num (pathLockKeys p).fdKey, fd) ∈ s.holders) : fd ∉ s.pool.destroyed :=
  pool_live_not_destroyed ⟨_, h⟩ t _ fd hh

/-- **When the last user leaves, the descriptor pool is empty** (every descriptor closed). -/
theorem path_lock_quiescent_clean (num : String → Nat) (evs : List PathEv) (s : PoolSt)
    (h : fdPoolRun num evs = some s) (hq : s.holders = []) : s.pool.refs = [] :=
  pool_quiescent_clean ⟨_, h⟩ hq

-- non-vacuity: the spellings the harness generates
example : normpath "/locks/./p0" = "/locks/p0" ∧ normpath "/locks//p0" = "/locks/p0" ∧
    normpath "/locks/sub/../p0" = "/locks/p0" ∧ normpath "/locks/p0" = "/locks/p0" := by decide
-- POSIX keeps exactly two leading slashes; `..` at the root disappears; relative `..` stays
example : normpath "//a" = "//a" ∧ normpath "///a" = "/a" ∧ normpath "/../a" = "/a" ∧
    normpath "a/../../b" = "../b" ∧ normpath "" = "." := by decide
-- thread 1 locks `d/f`, thread 2 locks `d/./f`, thread 1 leaves: thread 2 keeps descriptor 0, open
example : ∃ s, fdPoolRun (fun k => k.length)
      [.enter 1 "/d/f", .enter 2 "/d/./f", .exit 1 "/d/f"] = some s ∧
    s.holders = [(2, 4, 0)] ∧ s.pool.refs = [(4, 0, 1)] ∧ s.pool.destroyed = [] := ⟨_, rfl, by decide⟩

end Pharmpy.C15
