import PharmpyProofs.C01.OmegaLemmas
/-
  C01 — `$OMEGA` / `$SIGMA` block forms.  Property theorems only.

  `blockMatrix` / `parseRec` model `OmegaRecord.parse` (tied to the code on every
  run by comparing `record.parse()` and the model object's covariance blocks
  with the driver); `specLower` / `specCov` are NM-TRAN's reading: values listed
  row by row of the lower triangle, scale options as matrix equations.
  Everything is for every block size `n` and every value vector.
-/
namespace Pharmpy.C01.Omega

/-- **fill_index.** Reading the values row by row of the lower triangle puts flat
    position `T(i) + j` at entry `(i, j)`, `j ≤ i` (`T` = triangular number): the
    numpy fill `A[np.tril_indices_from(A)] = x` is NM-TRAN's order. -/
theorem fill_index (x : List Rat) (i j : Nat) (h : j ≤ i) : specLower x i j = lowerAt x i j := by
  unfold specLower lowerAt
  rw [rowAt_get i 0 x j (by omega), off_zero]

/-- **triangular_root.** `floor(sqrt(2·T(n))) = n`: a block with `T(n)` values has size `n`. -/
theorem triangular_root (n : Nat) : triangularRoot (tri n) = n := triangularRoot_tri n

/-- `flattened_to_symmetric` is NM-TRAN's symmetric matrix. -/
theorem sym_correct (x : List Rat) (i j : Nat) : symAt x i j = specSym x i j := by
  unfold symAt specSym
  by_cases h : j ≤ i
  · simp [h, fill_index x i j h]
  · simp [h, fill_index x j i (by omega)]

/-- **cholesky_entry.** `(L·Lᵀ)ᵢⱼ = Σ_{k ≤ min i j} Lᵢₖ·Lⱼₖ` with `L` the row-by-row
    lower-triangular factor, for every size `n > i, j`. -/
theorem cholesky_entry (n : Nat) (x : List Rat) (i j : Nat) (hi : i < n) (hj : j < n) :
    mulTranspose n (lowTri x) i j
      = sumRange (min i j + 1) (fun k => specLower x i k * specLower x j k) := by
  unfold mulTranspose
  have hn : n = (min i j + 1) + (n - (min i j + 1)) := by omega
  rw [hn, sumRange_zero_tail]
  · apply sumRange_congr
    intro k hk
    have h1 : k ≤ i := by omega
    have h2 : k ≤ j := by omega
    simp [lowTri, h1, h2, fill_index x i k h1, fill_index x j k h2]
  · intro k hk
    by_cases h1 : k ≤ i
    · have h2 : ¬ k ≤ j := by omega
      simp [lowTri, h2]
    · simp [lowTri, h1]

/-- **omega_forms_correct.** For every block size, every value vector and every
    form (plain, STANDARD, CORRELATION, STANDARD CORRELATION, CHOLESKY), each entry
    of the matrix built by `OmegaRecord.parse` is the entry NONMEM defines. -/
theorem omega_forms_correct (sqrt : Rat → Rat) (f : Form) (n : Nat) (x : List Rat) (i j : Nat)
    (hi : i < n) (hj : j < n) : blockMatrix sqrt f n x i j = specCov sqrt f x i j := by
  unfold blockMatrix specCov
  by_cases hc : f.chol = true
  · simp only [hc, if_true]
    exact cholesky_entry n x i j hi hj
  · simp only [hc]
    simp only [sym_correct]
    have hd : ∀ a, specSym x a a = specLower x a a := by intro a; simp [specSym]
    simp only [hd]
    rfl

/-- **block_symmetric.** The matrix is symmetric for every form. -/
theorem block_symmetric (sqrt : Rat → Rat) (f : Form) (n : Nat) (x : List Rat) (i j : Nat) :
    blockMatrix sqrt f n x i j = blockMatrix sqrt f n x j i := by
  unfold blockMatrix
  by_cases hc : f.chol = true
  · simp only [hc, if_true, mulTranspose]
    exact sumRange_congr n _ _ (fun k _ => mul_comm _ _)
  · simp only [hc]
    have hs : symAt x i j = symAt x j i := by
      unfold symAt
      by_cases h1 : j ≤ i <;> by_cases h2 : i ≤ j
      · have : i = j := by omega
        subst this; rfl
      · rw [if_pos h1, if_neg h2]
      · rw [if_neg h1, if_pos h2]
      · omega
    by_cases hij : i = j
    · subst hij; rfl
    · have hji : ¬ j = i := fun h => hij h.symm
      simp only [Bool.false_eq_true, if_false]
      rw [if_neg hij, if_neg hji, hs]
      split
      · split <;> ring
      · rfl

/-- Entries that agree below `n` give the same flattened lower triangle. -/
theorem flatten_congr (n : Nat) (M M' : Mat) (h : ∀ i j, i < n → j < n → M i j = M' i j) :
    flatten n M = flatten n M' := by
  unfold flatten
  have key : ∀ l : List Nat, (∀ i ∈ l, i < n) →
      l.flatMap (fun i => (List.range (i + 1)).map (fun j => M i j))
        = l.flatMap (fun i => (List.range (i + 1)).map (fun j => M' i j)) := by
    intro l
    induction l with
    | nil => intro _; rfl
    | cons a r ih =>
      intro hl
      have ha : a < n := hl a (List.mem_cons_self ..)
      simp only [List.flatMap_cons]
      rw [ih (fun i hi => hl i (List.mem_cons_of_mem _ hi))]
      congr 1
      apply List.map_congr_left
      intro j hj
      simp only [List.mem_range] at hj
      exact h a j ha (by omega)
  exact key _ (fun i hi => List.mem_range.mp hi)

/-- **parse_block_correct.** A `BLOCK(n)` record with `T(n)` values (after `(v)xn`
    expansion) is accepted, and the initial estimates handed to the model are
    the lower triangle, row by row, of the covariance matrix NONMEM defines. -/
theorem parse_block_correct (sqrt : Rat → Rat) (n : Nat) (f : Form) (fix : Bool) (items : List (Rat × Nat))
    (hlen : (expand items).length = tri n) :
    parseRec sqrt (.block n f fix items)
      = .ok [⟨flatten n (specCov sqrt f (expand items)), fix, false⟩] := by
  simp only [parseRec, hlen, triangular_root, bne_self_eq_false, Bool.false_eq_true, if_false]
  rw [flatten_congr n _ _ (fun i j hi hj => omega_forms_correct sqrt f n (expand items) i j hi hj)]

/-- A record with a number of values that is not triangular for its size is refused. -/
theorem parse_block_wrong_count (sqrt : Rat → Rat) (n : Nat) (f : Form) (fix : Bool) (items : List (Rat × Nat))
    (h : triangularRoot (expand items).length ≠ n) :
    parseRec sqrt (.block n f fix items) = .error .wrongCount := by
  have : (n != triangularRoot (expand items).length) = true := by
    simp only [bne_iff_ne, ne_eq]; exact fun e => h e.symm
  simp [parseRec, this]

/-- VARIANCE CORRELATION needs a square root; its square is rational:
    `(ρ·√vᵢ·√vⱼ)² = ρ²·vᵢ·vⱼ`, which is what the correspondence run compares. -/
theorem varcorr_square (sqrt : Rat → Rat) (x : List Rat) (i j : Nat) (hij : i ≠ j)
    (hi : sqrt (specLower x i i) * sqrt (specLower x i i) = specLower x i i)
    (hj : sqrt (specLower x j j) * sqrt (specLower x j j) = specLower x j j) :
    let m := specCov sqrt ⟨false, true, false⟩ x i j
    m * m = specSym x i j * specSym x i j * specLower x i i * specLower x j j := by
  intro m
  have hm : m = sqrt (specLower x i i) * sqrt (specLower x j j) * specSym x i j := by
    simp [m, specCov, hij]
  rw [hm]
  calc _ = (sqrt (specLower x i i) * sqrt (specLower x i i)) * (sqrt (specLower x j j) * sqrt (specLower x j j))
            * (specSym x i j * specSym x i j) := by ring
    _ = _ := by rw [hi, hj]; ring

/-- Diagonal records: `(v SD)xn` gives `n` variances `v²`, plain `v` gives `v`. -/
theorem parse_diag_item (it : DiagItem) (h1 : (it.sd && it.var) = false) (h2 : (it.init == 0 && !it.fix) = false) :
    parseDiagItem it
      = .ok (List.replicate it.reps ⟨[if it.sd then it.init * it.init else it.init], it.fix, false⟩) := by
  simp [parseDiagItem, h1, h2]

/-! non-vacuity: the nmhelp CHOLESKY example and a 3×3 factor -/
example : flatten 3 (blockMatrix (fun v => v) ⟨false, false, true⟩ 3 [1, 2, 3, 4, 5, 6]) = [1, 2, 13, 4, 23, 77] := by
  simp [flatten, blockMatrix, mulTranspose, lowTri, lowerAt, getR, tri, sumRange, List.range, List.range.loop]
  norm_num

end Pharmpy.C01.Omega
